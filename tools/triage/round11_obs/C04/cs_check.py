"""
Helper for the C04 demos: builds small NPU operation lists through the public API and checks the emitted
register command stream against an independent model of the hardware queues (kernel queue and DMA queue
run asynchronously, bounded outstanding counts, KERNEL_WAIT/DMA_WAIT n = wait until at most n operations
of that queue are still outstanding).
"""
import os
import sys

ROOT = os.path.dirname(os.path.dirname(os.path.abspath(__file__)))
sys.path.insert(0, ROOT)

import ethosu.vela  # noqa: E402

assert os.path.abspath(ethosu.vela.__file__).startswith(ROOT + os.sep), ethosu.vela.__file__

from ethosu.vela.api import NpuAccelerator  # noqa: E402,F401
from ethosu.vela.api import NpuAddressRange  # noqa: E402,F401
from ethosu.vela.api import NpuDataType  # noqa: E402
from ethosu.vela.api import NpuDmaOperation  # noqa: E402,F401
from ethosu.vela.api import NpuElementWiseOp  # noqa: E402
from ethosu.vela.api import NpuElementWiseOperation  # noqa: E402
from ethosu.vela.api import NpuFeatureMap  # noqa: E402
from ethosu.vela.api import NpuKernel  # noqa: E402
from ethosu.vela.api import NpuLayout  # noqa: E402
from ethosu.vela.api import NpuPadding  # noqa: E402
from ethosu.vela.api import NpuPoolingOp  # noqa: E402
from ethosu.vela.api import NpuPoolingOperation  # noqa: E402
from ethosu.vela.api import NpuQuantization  # noqa: E402
from ethosu.vela.api import NpuShape3D  # noqa: E402
from ethosu.vela.api import NpuTileBox  # noqa: E402
from ethosu.vela.api import npu_find_block_configs  # noqa: E402
from ethosu.vela.api import npu_generate_register_command_stream  # noqa: E402
from ethosu.vela.ethos_u55_regs.ethos_u55_regs import cmd0  # noqa: E402

KERNEL_OPS = {
    cmd0.NPU_OP_CONV.value,
    cmd0.NPU_OP_DEPTHWISE.value,
    cmd0.NPU_OP_POOL.value,
    cmd0.NPU_OP_ELEMENTWISE.value,
}


def make_fm(h, w, d, region, address, dtype=NpuDataType.INT8, layout=NpuLayout.NHWC):
    """Single tile, default strides feature map"""
    fm = NpuFeatureMap()
    fm.data_type = dtype
    fm.shape = NpuShape3D(height=h, width=w, depth=d)
    fm.tiles = NpuTileBox(width_0=w, height_0=h, height_1=h, addresses=[address, 0, 0, 0])
    fm.region = region
    fm.layout = layout
    fm.quantization = NpuQuantization(scale_f32=1.0, zero_point=0)
    return fm


def fm_bytes(fm):
    """Byte interval (region, start, end) of a single tile NHWC feature map with default strides"""
    assert fm.layout == NpuLayout.NHWC and fm.strides is None
    size = fm.shape.height * fm.shape.width * fm.shape.depth * fm.data_type.size_in_bytes()
    return (fm.region, fm.tiles.addresses[0], fm.tiles.addresses[0] + size)


def pick_block_config(op, acc, prefer=None):
    configs = npu_find_block_configs(op, acc)
    assert configs, "no valid block config"
    if prefer is not None:
        for c in configs:
            if (c.height, c.width, c.depth) == prefer:
                return c
        raise AssertionError(f"block config {prefer} not valid; have {configs[:10]}")
    return configs[0]


def make_pool(ifm, ofm, acc, kernel=None, block=None, padding=None):
    """MAX pool; with the default 1x1 kernel it copies IFM to OFM"""
    op = NpuPoolingOperation(NpuPoolingOp.MAX)
    op.ifm = ifm
    op.ofm = ofm
    op.kernel = kernel if kernel is not None else NpuKernel(1, 1, 1, 1)
    op.padding = padding if padding is not None else NpuPadding(top=0, left=0, right=0, bottom=0)
    op.block_config = pick_block_config(op, acc, block)
    return op


def make_add(ifm, ifm2, ofm, acc, block=None):
    op = NpuElementWiseOperation(NpuElementWiseOp.ADD)
    op.ifm = ifm
    op.ifm2 = ifm2
    op.ofm = ofm
    op.block_config = pick_block_config(op, acc, block)
    return op


def parse(words):
    """Returns the list of queue relevant events of the stream:
    ("dma",), ("kernel", blockdep), ("kernel_wait", n), ("dma_wait", n)"""
    events = []
    blockdep = None
    i = 0
    while i < len(words):
        word = words[i]
        code = word & 0x3FF
        has_payload = (word & 0xC000) == 0x4000
        param = (word >> 16) & 0xFFFF
        if has_payload:
            i += 2
            continue
        i += 1
        if code == cmd0.NPU_SET_BLOCKDEP.value:
            blockdep = param
        elif code == cmd0.NPU_OP_DMA_START.value:
            events.append(("dma",))
        elif code in KERNEL_OPS:
            events.append(("kernel", blockdep))
        elif code == cmd0.NPU_OP_KERNEL_WAIT.value:
            events.append(("kernel_wait", param & 0xF))
        elif code == cmd0.NPU_OP_DMA_WAIT.value:
            events.append(("dma_wait", param & 0xF))
    return events


def _overlap(a, b):
    return a[0] == b[0] and max(a[1], b[1]) < min(a[2], b[2])


def _any_overlap(list_a, list_b):
    return any(_overlap(a, b) for a in list_a for b in list_b)


def conflict(acc_a, acc_b):
    """acc = (reads, writes), each a list of (region, start, end)"""
    return (
        _any_overlap(acc_a[1], acc_b[0]) or _any_overlap(acc_a[0], acc_b[1]) or _any_overlap(acc_a[1], acc_b[1])
    )


def queue_hazards(words, ops, accesses, max_dma, max_kernels=2):
    """
    Simulates the two hardware queues over the stream. accesses[i] = (reads, writes) of ops[i], computed by the
    caller. Returns a list of messages, one for every DMA/kernel pair that can be in flight together although
    their accesses conflict.
    """
    events = [e for e in parse(words)]
    op_events = [e for e in events if e[0] in ("dma", "kernel")]
    assert len(op_events) == len(ops), (len(op_events), len(ops))
    for e, op in zip(op_events, ops):
        assert (e[0] == "dma") == isinstance(op, NpuDmaOperation), "stream does not follow the operation list"
    dma_q, kern_q = [], []
    problems = []
    idx = 0
    for e in events:
        if e[0] == "kernel_wait":
            kern_q = kern_q[len(kern_q) - e[1]:] if e[1] < len(kern_q) else kern_q
        elif e[0] == "dma_wait":
            dma_q = dma_q[len(dma_q) - e[1]:] if e[1] < len(dma_q) else dma_q
        else:
            mine, other, limit = (dma_q, kern_q, max_dma) if e[0] == "dma" else (kern_q, dma_q, max_kernels)
            for j in other:
                if conflict(accesses[j], accesses[idx]):
                    problems.append(f"op {idx} ({e[0]}) issued while conflicting op {j} may still be executing")
            mine.append(idx)
            if len(mine) > limit:
                mine.pop(0)
            idx += 1
    return problems


def kernel_blockdeps(words):
    return [e[1] for e in parse(words) if e[0] == "kernel"]


# ---------------------------------------------------------------------------------------------------------
# Reference for BLOCKDEP between two consecutive kernel operations (single tile NHWC feature maps, operations
# with one job per OFM block: pooling, depthwise, elementwise)
# ---------------------------------------------------------------------------------------------------------


def _elem_addresses(fm, y0, y1, x0, x1, z0, z1):
    """Byte addresses of the elements in the (exclusive end) box, clipped to the feature map"""
    h, w, d = fm.shape
    es = fm.data_type.size_in_bytes()
    res = set()
    for y in range(max(y0, 0), min(y1, h)):
        for x in range(max(x0, 0), min(x1, w)):
            for z in range(max(z0, 0), min(z1, d)):
                base = fm.tiles.addresses[0] + ((y * w + x) * d + z) * es
                res.update((fm.region, base + b) for b in range(es))
    return res


def _blocks(shape, block):
    """OFM blocks in hardware order: depth first, then width, then height"""
    res = []
    for y in range(0, shape.height, block.height):
        for x in range(0, shape.width, block.width):
            for z in range(0, shape.depth, block.depth):
                res.append((y, x, z))
    return res


def ofm_block_writes(op):
    b = op.block_config
    return [
        _elem_addresses(op.ofm, y, y + b.height, x, x + b.width, z, z + b.depth) for y, x, z in _blocks(op.ofm.shape, b)
    ]


def ifm_job_reads(op, fm):
    """Bytes of fm (the op's ifm or ifm2, same shape as the ofm grid times stride) read for every OFM block"""
    b = op.block_config
    k = op.kernel if op.kernel is not None else NpuKernel(1, 1)
    pad = op.padding if op.padding is not None else NpuPadding(0, 0, 0, 0)
    res = []
    for y, x, z in _blocks(op.ofm.shape, b):
        ye = min(y + b.height, op.ofm.shape.height)
        xe = min(x + b.width, op.ofm.shape.width)
        iy0 = y * k.stride_y - pad.top
        iy1 = (ye - 1) * k.stride_y - pad.top + (k.height - 1) * k.dilation_y + 1
        ix0 = x * k.stride_x - pad.left
        ix1 = (xe - 1) * k.stride_x - pad.left + (k.width - 1) * k.dilation_x + 1
        res.append(_elem_addresses(fm, iy0, iy1, ix0, ix1, z, z + b.depth))
    return res


def max_safe_blockdep(op1, op2, limit=3):
    """
    BLOCKDEP b lets job j (j < b) of op2 start while the last b - j blocks of op1 are still being produced.
    Returns the largest b <= limit for which no such job reads a byte that one of those blocks writes.
    """
    writes = ofm_block_writes(op1)
    reads = ifm_job_reads(op2, op2.ifm)
    if op2.ifm2 is not None and op2.ifm2_scalar is None:
        reads = [r | r2 for r, r2 in zip(reads, ifm_job_reads(op2, op2.ifm2))]
    safe = 0
    for b in range(1, limit + 1):
        ok = True
        for j in range(min(b, len(reads))):
            for blk in writes[max(0, len(writes) - (b - j)):]:
                if reads[j] & blk:
                    ok = False
        if not ok:
            break
        safe = b
    return safe


def max_safe_blockdep_all(prev_ops, op2, limit=3):
    """
    Like max_safe_blockdep, but (a) checks all three kinds of conflict (RAW, WAR, WAW) and (b) looks at the last
    `limit` jobs in the kernel pipeline even if they belong to more than one preceding operation (prev_ops is in
    issue order; a preceding operation with fewer than `limit` blocks leaves room for blocks of the one before).
    """
    tail = []  # (reads, writes) of the jobs preceding op2, oldest first
    for op in prev_ops:
        r = ifm_job_reads(op, op.ifm)
        if op.ifm2 is not None and op.ifm2_scalar is None:
            r = [a | b for a, b in zip(r, ifm_job_reads(op, op.ifm2))]
        tail += list(zip(r, ofm_block_writes(op)))
    r2 = ifm_job_reads(op2, op2.ifm)
    if op2.ifm2 is not None and op2.ifm2_scalar is None:
        r2 = [a | b for a, b in zip(r2, ifm_job_reads(op2, op2.ifm2))]
    jobs2 = list(zip(r2, ofm_block_writes(op2)))
    safe = 0
    for b in range(1, limit + 1):
        ok = True
        for j in range(min(b, len(jobs2))):
            for pr, pw in tail[max(0, len(tail) - (b - j)):]:
                if (pw & jobs2[j][0]) or (pr & jobs2[j][1]) or (pw & jobs2[j][1]):
                    ok = False
        if not ok:
            break
        safe = b
    return safe

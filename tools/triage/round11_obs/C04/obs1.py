"""
Observation 1 (unchanged tree): calc_blockdep() only looks for a read-after-write dependency (previous OFM ->
current IFM/IFM2). A write-after-read (current OFM overwrites the previous operation's IFM) or write-after-write
(current OFM overlaps the previous OFM) conflict between two consecutive kernel operations gets BLOCKDEP 3 and no
KERNEL_WAIT, so the first blocks of the second operation may overwrite bytes the last blocks of the first one
still have to read / are still writing. The public generator accepts such operation lists (the property
quantifies over all address layouts).
Here: op1 copies X -> Y in 4 row-blocks; op2 copies Z -> an OFM whose first two rows are X's last two rows
(WAR), or Y's last two rows (WAW).
"""
import os
import sys

sys.path.insert(0, os.path.dirname(os.path.abspath(__file__)))
import cs_check as cc  # noqa: E402

acc = cc.NpuAccelerator.Ethos_U55_128
ROW = 8 * 16
problems = []
for kind, base in (("WAR", 0x0), ("WAW", 0x2000)):
    x = cc.make_fm(8, 8, 16, 1, 0x0)
    y = cc.make_fm(8, 8, 16, 1, 0x2000)
    z = cc.make_fm(8, 8, 16, 1, 0x6000)
    out = cc.make_fm(8, 8, 16, 1, base + 6 * ROW)
    op1 = cc.make_pool(x, y, acc, block=(2, 8, 16))
    op2 = cc.make_pool(z, out, acc, block=(2, 8, 16))
    words = cc.npu_generate_register_command_stream([op1, op2], acc)
    events = cc.parse(words)
    emitted = cc.kernel_blockdeps(words)[1]
    has_wait = any(e[0] == "kernel_wait" for e in events)
    safe = cc.max_safe_blockdep_all([op1], op2)
    if emitted > safe and not has_wait:
        problems.append(f"{kind}: BLOCKDEP {emitted} emitted and no KERNEL_WAIT, at most {safe} is safe")
if problems:
    print("C04 violated on the unchanged tree:")
    for p in problems:
        print("  ", p)
    sys.exit(1)
print("ok")

# Observation (unchanged tree), marginal to C14 ("independent of which entry point / how the model is handed over"):
# vela.convert_bytes() compiles a model handed over as bytearray or memoryview, but the SAME model handed over as an
# immutable `bytes` object is not compiled at all: TFLiteGraph.__init__ (tflite_reader.py) only recognises str,
# bytearray and memoryview, leaves buf = None for bytes, Model.GetRootAsModel(None, 0) raises TypeError, which is
# reported as 'Error: Invalid tflite file' followed by sys.exit(1) - i.e. the function named convert_bytes terminates
# the calling process for a bytes argument. (If read_tflite_model ever returned a false nng, convert_bytes would also
# raise NameError: its error path refers to the undefined name input_model_name.)
import os
import sys

sys.path.insert(0, os.path.dirname(os.path.abspath(__file__)))
import tfl_build as tb  # noqa: E402

from ethosu.vela import vela  # noqa: E402

model = tb.build(*tb.conv_chain(2))
with tb.quiet():
    ref = bytes(vela.convert_bytes(bytearray(model)))
    same = bytes(vela.convert_bytes(memoryview(bytes(model))))
assert ref == same, "bytearray and memoryview inputs disagree"
try:
    with tb.quiet():
        out = bytes(vela.convert_bytes(bytes(model)))
except SystemExit as e:
    print(f"DEFECT: convert_bytes(bytes) called sys.exit({e.code}) although the same data compiles as bytearray/memoryview")
    sys.exit(1)
assert out == ref, "bytes input gives a different output"
print("OK")

# Minimal programmatic TFLite flatbuffer builder used by the C14 demos.
import os
import sys

ROOT = os.path.dirname(os.path.dirname(os.path.abspath(__file__)))
if ROOT not in sys.path or sys.path[0] != ROOT:
    sys.path.insert(0, ROOT)

import flatbuffers  # noqa: E402
import numpy as np  # noqa: E402

import ethosu.vela  # noqa: E402

assert os.path.abspath(ethosu.vela.__file__).startswith(ROOT + os.sep), ethosu.vela.__file__

from ethosu.vela.tflite import Buffer  # noqa: E402
from ethosu.vela.tflite import Conv2DOptions  # noqa: E402
from ethosu.vela.tflite import Model  # noqa: E402
from ethosu.vela.tflite import Operator  # noqa: E402
from ethosu.vela.tflite import OperatorCode  # noqa: E402
from ethosu.vela.tflite import QuantizationParameters  # noqa: E402
from ethosu.vela.tflite import ReducerOptions  # noqa: E402
from ethosu.vela.tflite import SubGraph  # noqa: E402
from ethosu.vela.tflite import Tensor  # noqa: E402
from ethosu.vela.tflite.BuiltinOperator import BuiltinOperator  # noqa: E402
from ethosu.vela.tflite.BuiltinOptions import BuiltinOptions  # noqa: E402
from ethosu.vela.tflite.TensorType import TensorType  # noqa: E402

NP2TT = {np.int8: TensorType.INT8, np.int32: TensorType.INT32, np.uint8: TensorType.UINT8, np.int16: TensorType.INT16}


class T:
    def __init__(self, name, shape, dtype=np.int8, scale=None, zp=0, data=None):
        self.name, self.shape, self.dtype, self.scale, self.zp, self.data = name, shape, dtype, scale, zp, data


class O:
    # kind: "conv" (inputs ifm, w, b), "mean" (inputs ifm, axis), "custom" (custom_code, custom_options, custom_format)
    def __init__(self, kind, inputs, outputs, **kw):
        self.kind, self.inputs, self.outputs, self.kw = kind, inputs, outputs, kw


def _vec_i32(b, vals):
    b.StartVector(4, len(vals), 4)
    for v in reversed(vals):
        b.PrependInt32(int(v))
    return b.EndVector()


def _vec_bytes(b, data, align=16):
    data = bytes(data)
    b.StartVector(1, len(data), align)
    for v in reversed(data):
        b.PrependByte(v)
    return b.EndVector()


def _vec_off(b, offs):
    b.StartVector(4, len(offs), 4)
    for o in reversed(offs):
        b.PrependUOffsetTRelative(o)
    return b.EndVector()


def build(tensors, ops, inputs, outputs, sg_name="main"):
    """tensors: list of T, ops: list of O, inputs/outputs: lists of tensor names. Returns a bytearray"""
    b = flatbuffers.Builder(1024)
    tidx = {t.name: i for i, t in enumerate(tensors)}

    # buffers: 0 is the empty buffer
    buffers = [None]
    tens_buf = []
    for t in tensors:
        if t.data is None:
            tens_buf.append(0)
        else:
            buffers.append(np.asarray(t.data, dtype=t.dtype).tobytes())
            tens_buf.append(len(buffers) - 1)

    buf_offs = []
    for data in buffers:
        d = _vec_bytes(b, data) if data is not None else None
        Buffer.BufferStart(b)
        if d is not None:
            Buffer.BufferAddData(b, d)
        buf_offs.append(Buffer.BufferEnd(b))
    buffers_off = _vec_off(b, buf_offs)

    # operator codes
    codes = []

    def code_index(builtin, custom_code=None):
        key = (builtin, custom_code)
        if key not in codes:
            codes.append(key)
        return codes.index(key)

    op_code_idx = []
    for o in ops:
        if o.kind == "conv":
            op_code_idx.append(code_index(BuiltinOperator.CONV_2D))
        elif o.kind == "mean":
            op_code_idx.append(code_index(BuiltinOperator.MEAN))
        elif o.kind == "custom":
            op_code_idx.append(code_index(BuiltinOperator.CUSTOM, o.kw["custom_code"]))
        else:
            raise ValueError(o.kind)

    code_offs = []
    for builtin, custom_code in codes:
        cc = b.CreateString(custom_code) if custom_code is not None else None
        OperatorCode.OperatorCodeStart(b)
        OperatorCode.OperatorCodeAddDeprecatedBuiltinCode(b, builtin if builtin < 127 else 127)
        OperatorCode.OperatorCodeAddBuiltinCode(b, builtin)
        OperatorCode.OperatorCodeAddVersion(b, 1)
        if cc is not None:
            OperatorCode.OperatorCodeAddCustomCode(b, cc)
        code_offs.append(OperatorCode.OperatorCodeEnd(b))
    codes_off = _vec_off(b, code_offs)

    # tensors
    tens_offs = []
    for t, bi in zip(tensors, tens_buf):
        shape = _vec_i32(b, t.shape)
        name = b.CreateString(t.name)
        q = None
        if t.scale is not None:
            scales = np.atleast_1d(np.asarray(t.scale, dtype=np.float32))
            zps = np.atleast_1d(np.asarray(t.zp, dtype=np.int64))
            b.StartVector(4, len(scales), 4)
            for v in reversed(scales):
                b.PrependFloat32(float(v))
            sc = b.EndVector()
            b.StartVector(8, len(zps), 8)
            for v in reversed(zps):
                b.PrependInt64(int(v))
            zp = b.EndVector()
            QuantizationParameters.QuantizationParametersStart(b)
            QuantizationParameters.QuantizationParametersAddScale(b, sc)
            QuantizationParameters.QuantizationParametersAddZeroPoint(b, zp)
            q = QuantizationParameters.QuantizationParametersEnd(b)
        Tensor.TensorStart(b)
        Tensor.TensorAddShape(b, shape)
        Tensor.TensorAddType(b, NP2TT[t.dtype])
        Tensor.TensorAddBuffer(b, bi)
        Tensor.TensorAddName(b, name)
        if q is not None:
            Tensor.TensorAddQuantization(b, q)
        tens_offs.append(Tensor.TensorEnd(b))
    tensors_off = _vec_off(b, tens_offs)

    # operators
    op_offs = []
    for o, ci in zip(ops, op_code_idx):
        ins = _vec_i32(b, [tidx[n] for n in o.inputs])
        outs = _vec_i32(b, [tidx[n] for n in o.outputs])
        opt = None
        opt_type = None
        custom = None
        if o.kind == "conv":
            Conv2DOptions.Conv2DOptionsStart(b)
            Conv2DOptions.Conv2DOptionsAddPadding(b, o.kw.get("padding", 0))  # 0 = SAME
            Conv2DOptions.Conv2DOptionsAddStrideW(b, o.kw.get("stride", 1))
            Conv2DOptions.Conv2DOptionsAddStrideH(b, o.kw.get("stride", 1))
            Conv2DOptions.Conv2DOptionsAddFusedActivationFunction(b, o.kw.get("act", 0))
            Conv2DOptions.Conv2DOptionsAddDilationWFactor(b, 1)
            Conv2DOptions.Conv2DOptionsAddDilationHFactor(b, 1)
            opt = Conv2DOptions.Conv2DOptionsEnd(b)
            opt_type = BuiltinOptions.Conv2DOptions
        elif o.kind == "mean":
            ReducerOptions.ReducerOptionsStart(b)
            ReducerOptions.ReducerOptionsAddKeepDims(b, o.kw.get("keep_dims", True))
            opt = ReducerOptions.ReducerOptionsEnd(b)
            opt_type = BuiltinOptions.ReducerOptions
        elif o.kind == "custom":
            custom = _vec_bytes(b, o.kw.get("custom_options", b""), 1)
        Operator.OperatorStart(b)
        Operator.OperatorAddOpcodeIndex(b, ci)
        Operator.OperatorAddInputs(b, ins)
        Operator.OperatorAddOutputs(b, outs)
        if opt is not None:
            Operator.OperatorAddBuiltinOptionsType(b, opt_type)
            Operator.OperatorAddBuiltinOptions(b, opt)
        if custom is not None:
            Operator.OperatorAddCustomOptions(b, custom)
            Operator.OperatorAddCustomOptionsFormat(b, o.kw.get("custom_format", 0))
        op_offs.append(Operator.OperatorEnd(b))
    ops_off = _vec_off(b, op_offs)

    sg_in = _vec_i32(b, [tidx[n] for n in inputs])
    sg_out = _vec_i32(b, [tidx[n] for n in outputs])
    sg_nm = b.CreateString(sg_name)
    SubGraph.SubGraphStart(b)
    SubGraph.SubGraphAddTensors(b, tensors_off)
    SubGraph.SubGraphAddInputs(b, sg_in)
    SubGraph.SubGraphAddOutputs(b, sg_out)
    SubGraph.SubGraphAddOperators(b, ops_off)
    SubGraph.SubGraphAddName(b, sg_nm)
    sg = SubGraph.SubGraphEnd(b)
    sgs_off = _vec_off(b, [sg])

    desc = b.CreateString("C14 demo model")
    Model.ModelStart(b)
    Model.ModelAddVersion(b, 3)
    Model.ModelAddOperatorCodes(b, codes_off)
    Model.ModelAddSubgraphs(b, sgs_off)
    Model.ModelAddDescription(b, desc)
    Model.ModelAddBuffers(b, buffers_off)
    m = Model.ModelEnd(b)
    b.Finish(m, b"TFL3")
    return bytearray(b.Output())


def conv_chain(n_convs=2, hw=8, c=16, seed=0, k=1, name="net"):
    """A chain of n int8 k x k convolutions (c channels) on a 1 x hw x hw x c input."""
    rng = np.random.RandomState(seed)
    tensors = [T(f"{name}_in", [1, hw, hw, c], np.int8, 0.05, 0)]
    ops = []
    prev = f"{name}_in"
    for i in range(n_convs):
        w = rng.randint(-20, 20, size=(c, k, k, c)).astype(np.int8)
        bias = rng.randint(-100, 100, size=(c,)).astype(np.int32)
        tensors.append(T(f"{name}_w{i}", [c, k, k, c], np.int8, 0.01, 0, w))
        tensors.append(T(f"{name}_b{i}", [c], np.int32, 0.0005, 0, bias))
        out = f"{name}_out{i}"
        tensors.append(T(out, [1, hw, hw, c], np.int8, 0.05, 0))
        ops.append(O("conv", [prev, f"{name}_w{i}", f"{name}_b{i}"], [out]))
        prev = out
    return tensors, ops, [f"{name}_in"], [prev]


import contextlib  # noqa: E402


@contextlib.contextmanager
def quiet():
    """Silences everything written to file descriptor 1 (Vela prints its reports to the original sys.stdout)"""
    sys.stdout.flush()
    saved = os.dup(1)
    devnull = os.open(os.devnull, os.O_WRONLY)
    os.dup2(devnull, 1)
    try:
        yield
    finally:
        sys.stdout.flush()
        os.dup2(saved, 1)
        os.close(saved)
        os.close(devnull)

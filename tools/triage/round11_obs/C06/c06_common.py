"""Shared helpers for the C06 demos: path set-up, feature map construction and a small command stream decoder."""
import os
import sys

ROOT = os.path.dirname(os.path.dirname(os.path.abspath(__file__)))
sys.path.insert(0, ROOT)

import ethosu.vela  # noqa: E402

assert os.path.abspath(ethosu.vela.__file__).startswith(ROOT + os.sep), ethosu.vela.__file__

from ethosu.vela.api import NpuDataType  # noqa: E402
from ethosu.vela.api import NpuFeatureMap  # noqa: E402
from ethosu.vela.api import NpuLayout  # noqa: E402
from ethosu.vela.api import NpuQuantization  # noqa: E402
from ethosu.vela.api import NpuShape3D  # noqa: E402
from ethosu.vela.api import NpuTileBox  # noqa: E402
from ethosu.vela.ethos_u55_regs.ethos_u55_regs import cmd0  # noqa: E402
from ethosu.vela.ethos_u55_regs.ethos_u55_regs import cmd1  # noqa: E402


def make_fm(shape, region, address, dtype=NpuDataType.INT8, layout=NpuLayout.NHWC, scale=0.05, zp=0):
    fm = NpuFeatureMap()
    fm.data_type = dtype
    fm.shape = NpuShape3D(*shape)
    fm.region = region
    fm.tiles = NpuTileBox(height_0=shape[0], height_1=shape[0], width_0=shape[1], addresses=[address, 0, 0, 0])
    fm.quantization = NpuQuantization(scale_f32=scale, zero_point=zp)
    fm.layout = layout
    return fm


def decode(stream):
    """Returns a list of (name, param, payload_or_None) for every command in the stream"""
    res = []
    i = 0
    while i < len(stream):
        word = stream[i]
        code = word & 0x3FF
        param = (word >> 16) & 0xFFFF
        if word & 0x4000:
            res.append((cmd1(code).name, param, stream[i + 1]))
            i += 2
        else:
            res.append((cmd0(code).name, param, None))
            i += 1
    return res


def states_at_ops(stream):
    """
    Tracks the register state while walking the stream.
    Returns a list of (op_name, op_param, registers, preceding_waits) for every NPU_OP_* command except waits,
    registers maps register name -> value (cmd1: (param << 32) | payload)
    """
    regs = {}
    res = []
    waits = []
    for name, param, payload in decode(stream):
        if name in ("NPU_OP_KERNEL_WAIT", "NPU_OP_DMA_WAIT"):
            waits.append((name, param))
        elif name.startswith("NPU_OP_"):
            res.append((name, param, dict(regs), waits))
            waits = []
        elif payload is None:
            regs[name] = param
        else:
            regs[name] = (param << 32) | payload
    return res

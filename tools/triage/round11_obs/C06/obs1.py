"""
Observation 1 (unchanged tree): the OFM scale of an elementwise MUL depends on the Python type of the scales.

scaling.elementwise_mul_scale() computes (input_scale * input2_scale) / output_scale without widening its arguments.
Vela's own front end hands np.float32 scales to the generator, and with NumPy 2 float32 arithmetic stays float32, so the
31-bit OFM_SCALE multiplier only carries 24 significant bits and differs from the value obtained for the very same
scales given as Python floats (which is what the TFLite reference computes, in double). The ADD/SUB and pooling paths
widen to double explicitly; MUL does not.
"""
import os
import sys

sys.path.insert(0, os.path.dirname(os.path.abspath(__file__)))
from c06_common import make_fm, states_at_ops  # noqa: E402

import numpy as np  # noqa: E402
from ethosu.vela.api import NpuAccelerator  # noqa: E402
from ethosu.vela.api import NpuElementWiseOp  # noqa: E402
from ethosu.vela.api import NpuElementWiseOperation  # noqa: E402
from ethosu.vela.api import NpuShape3D  # noqa: E402
from ethosu.vela.api import npu_generate_register_command_stream  # noqa: E402


def ofm_scale(conv):
    s1, s2, s3 = (conv(np.float32(v)) for v in (0.068047754, 0.42386943, 0.38212353))
    op = NpuElementWiseOperation(NpuElementWiseOp.MUL)
    op.ifm = make_fm((8, 8, 16), 1, 0x1000, scale=s1)
    op.ifm2 = make_fm((8, 8, 16), 1, 0x2000, scale=s2)
    op.ofm = make_fm((8, 8, 16), 1, 0x4000, scale=s3)
    op.block_config = NpuShape3D(height=8, width=8, depth=16)
    stream = npu_generate_register_command_stream([op], NpuAccelerator.Ethos_U55_128)
    return states_at_ops(stream)[0][2]["NPU_SET_OFM_SCALE"]


as_f32 = ofm_scale(lambda v: v)
as_float = ofm_scale(float)
s1, s2, s3 = (float(np.float32(v)) for v in (0.068047754, 0.42386943, 0.38212353))
print(f"OFM_SCALE with np.float32 scales: {as_f32 & 0xFFFFFFFF} >> {as_f32 >> 32}")
print(f"OFM_SCALE with float scales:      {as_float & 0xFFFFFFFF} >> {as_float >> 32}  (exact: {s1 * s2 / s3})")
if as_f32 != as_float:
    print("the same MUL operation gets two different OFM scales")
    sys.exit(1)
print("ok")

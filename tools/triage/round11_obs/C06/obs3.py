"""
Observation 3 (unchanged tree, minor): api.NpuTileBox documents height_1 as "0 if unused". generate_tiles() emits
height_1 - 1 unconditionally, so a feature map described as documented yields xFM_HEIGHT1_M1 = -1 & 0xFFFF = 0xFFFF:
a negative value truncated to the register width instead of a value that fits its field.
"""
import os
import sys

sys.path.insert(0, os.path.dirname(os.path.abspath(__file__)))
from c06_common import make_fm, states_at_ops  # noqa: E402

from ethosu.vela.api import NpuAccelerator  # noqa: E402
from ethosu.vela.api import NpuElementWiseOp  # noqa: E402
from ethosu.vela.api import NpuElementWiseOperation  # noqa: E402
from ethosu.vela.api import NpuShape3D  # noqa: E402
from ethosu.vela.api import NpuTileBox  # noqa: E402
from ethosu.vela.api import npu_generate_register_command_stream  # noqa: E402

op = NpuElementWiseOperation(NpuElementWiseOp.ABS)
op.ifm = make_fm((8, 8, 16), 1, 0x1000)
op.ofm = make_fm((8, 8, 16), 1, 0x4000)
for fm in (op.ifm, op.ofm):
    fm.tiles = NpuTileBox(height_0=8, height_1=0, width_0=8, addresses=[fm.tiles.addresses[0], 0, 0, 0])
op.block_config = NpuShape3D(height=8, width=8, depth=16)
regs = states_at_ops(npu_generate_register_command_stream([op], NpuAccelerator.Ethos_U55_128))[0][2]
bad = {k: v for k, v in regs.items() if k.endswith("HEIGHT1_M1") and v > 0x7FFF}
if bad:
    print(f"tile 1 unused (height_1 = 0 as documented) gives {bad}: -1 truncated to 16 bits")
    sys.exit(1)
print("ok")

"""
Observation 2 (unchanged tree): generate_biases() checks the length of the scale/bias stream (multiple of 16) but not
its address, while generate_weights() checks both. The scale stream is fetched like the weight stream and Vela itself
always allocates it 16-byte aligned; an operation list with a misaligned bias address (the suite's own
test_cmd1_payload_legality uses 111) is accepted and NPU_SET_SCALE_BASE is emitted with that unaligned address, so the
stream does not meet the alignment rule and no error is raised.
"""
import os
import sys

sys.path.insert(0, os.path.dirname(os.path.abspath(__file__)))
from c06_common import make_fm, states_at_ops  # noqa: E402

from ethosu.vela.api import NpuAccelerator  # noqa: E402
from ethosu.vela.api import NpuAddressRange  # noqa: E402
from ethosu.vela.api import NpuBlockTraversal  # noqa: E402
from ethosu.vela.api import NpuConv2DOperation  # noqa: E402
from ethosu.vela.api import NpuKernel  # noqa: E402
from ethosu.vela.api import NpuPadding  # noqa: E402
from ethosu.vela.api import NpuShape3D  # noqa: E402
from ethosu.vela.api import npu_generate_register_command_stream  # noqa: E402
from ethosu.vela.errors import VelaError  # noqa: E402

op = NpuConv2DOperation()
op.ifm = make_fm((8, 8, 16), 1, 0x1000)
op.ofm = make_fm((8, 8, 16), 1, 0x4000)
op.kernel = NpuKernel(1, 1)
op.padding = NpuPadding(0, 0, 0, 0)
op.weights = [NpuAddressRange(region=0, address=0x100, length=256)]
op.biases = [NpuAddressRange(region=0, address=0x1007, length=160)]
op.block_traversal = NpuBlockTraversal.DEPTH_FIRST
op.block_config = NpuShape3D(height=8, width=8, depth=16)
try:
    stream = npu_generate_register_command_stream([op], NpuAccelerator.Ethos_U55_128)
except VelaError as e:
    print(f"rejected: {e}")
    sys.exit(0)
scale_base = states_at_ops(stream)[0][2]["NPU_SET_SCALE_BASE"]
if scale_base % 16 != 0:
    print(f"NPU_SET_SCALE_BASE = {scale_base:#x} is not 16-byte aligned and no error was raised")
    sys.exit(1)
print("ok")

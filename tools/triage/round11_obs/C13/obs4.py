# Defect (unchanged tree): the system configuration name is pasted into the summary file name
# ("<basename>_summary_<system_config>.csv", vela.process()).  A configuration file section such as
# [System_Config.a/b] selected with --system-config a/b is accepted by ArchitectureFeatures, the whole network is
# compiled, and then stats_writer.write_summary_metrics_csv() fails with FileNotFoundError (an OSError, not a VelaError):
# traceback, no output model.
import os
import tempfile

import numpy as np
from obs_common import check
from tfl import T, O, build

tens = [T("in", [1, 8, 8, 8], np.int8, 0.02, 0), T("out", [1, 8, 8, 8], np.int8, 0.1, 0)]
ops = [O("ADD", ["in", "in"], ["out"], "AddOptions", {})]
with tempfile.TemporaryDirectory() as d:
    ini = os.path.join(d, "cfg.ini")
    with open(ini, "w") as f:
        f.write(
            "[System_Config.a/b]\ncore_clock=1e9\naxi0_port=Sram\naxi1_port=Dram\n"
            "[Memory_Mode.m]\nconst_mem_area=Axi1\narena_mem_area=Axi0\ncache_mem_area=Axi0\n"
        )
    check("cfg_name", build(tens, ops, ["in"], ["out"]), ["--config", ini, "--system-config", "a/b", "--memory-mode", "m"])

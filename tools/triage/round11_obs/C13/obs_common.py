import os
import sys
import tempfile

sys.path.insert(0, os.path.dirname(os.path.abspath(__file__)))
from tfl import run_vela, outcome_ok  # noqa: E402


def check(name, model, args=()):
    """Exits 1 when the vela CLI neither writes an output model nor returns a non-zero status with a message."""
    with tempfile.TemporaryDirectory() as tmp:
        status, text, out_file = run_vela(model, tmp, name=name, extra_args=list(args))
        if not outcome_ok(status, text, out_file):
            print("\n".join(text.strip().splitlines()[-6:]))
            print(f"DEFECT: {name}: internal exception instead of an output model or a Vela error (status = {status})")
            sys.exit(1)
    print("OK", name, status)

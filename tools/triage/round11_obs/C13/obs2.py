# Defect (unchanged tree): a CONV_2D whose options carry stride_w = stride_h = 0 (a structurally valid flatbuffer).
# compiler_driver._record_operator() -> DebugDatabase.add_source() evaluates op.kernel for EVERY operator before any
# semantic / supported-operator check; Kernel.__init__ asserts stride > 0 -> AssertionError escapes main().  The operator
# should be diagnosed (or left to the CPU), not crash the compiler.
import numpy as np
from obs_common import check
from tfl import T, O, build

rng = np.random.default_rng(0)
tens = [
    T("in", [1, 8, 8, 8], np.int8, 0.02, 0),
    T("w", [16, 3, 3, 8], np.int8, 0.01, 0, data=rng.integers(-100, 100, (16, 3, 3, 8))),
    T("b", [16], np.int32, 0.0002, 0, data=rng.integers(-100, 100, (16,))),
    T("out", [1, 8, 8, 16], np.int8, 0.1, 0),
]
opts = {"Padding": 0, "StrideW": 0, "StrideH": 0, "DilationWFactor": 1, "DilationHFactor": 1}
ops = [O("CONV_2D", ["in", "w", "b"], ["out"], "Conv2DOptions", opts)]
check("conv_stride0", build(tens, ops, ["in"], ["out"]))

# Defect (unchanged tree): QUANTIZE of a CONSTANT int8 tensor into an int8 tensor with per-axis quantisation.
# tflite_graph_optimiser.optimise_quantize() runs before the supported-operator check for every semantically valid
# QUANTIZE with a constant input; it divides the scales and calls scaling.quantise_scale(effective_scale) which uses
# math.frexp() on the (per-axis) array -> TypeError "only 0-dimensional arrays can be converted to Python scalars".
# No check rejects the per-axis OFM first, so the compiler dies instead of folding / placing the operator on the CPU.
import numpy as np
from obs_common import check
from tfl import T, O, build

tens = [
    T("in", [1, 4, 4, 4], np.int8, 0.02, 0),
    T("k", [1, 4, 4, 4], np.int8, 0.5, 0, data=np.arange(64).reshape(1, 4, 4, 4)),
    T("kq", [1, 4, 4, 4], np.int8, [0.01, 0.02, 0.03, 0.04], [0, 0, 0, 0], qdim=3),
    T("out", [1, 4, 4, 4], np.int8, 0.05, 0),
]
ops = [O("QUANTIZE", ["k"], ["kq"], "QuantizeOptions", {}), O("ADD", ["in", "kq"], ["out"], "AddOptions", {})]
check("quantize_const_per_axis", build(tens, ops, ["in"], ["out"]))

"""Tiny TFLite flatbuffer builder + vela CLI runner used by the demos (no dependency on the vela writer)."""
import contextlib
import importlib
import io
import os
import sys
import traceback

ROOT = os.path.dirname(os.path.dirname(os.path.abspath(__file__)))
sys.path.insert(0, ROOT)

import flatbuffers  # noqa: E402
import numpy as np  # noqa: E402

import ethosu.vela  # noqa: E402

assert os.path.abspath(ethosu.vela.__file__).startswith(ROOT + os.sep), ethosu.vela.__file__

from ethosu.vela.tflite import Buffer, Model, Operator, OperatorCode, QuantizationParameters, SubGraph  # noqa: E402
from ethosu.vela.tflite import Tensor as TflTensor  # noqa: E402
from ethosu.vela.tflite.BuiltinOperator import BuiltinOperator  # noqa: E402
from ethosu.vela.tflite.BuiltinOptions import BuiltinOptions  # noqa: E402
from ethosu.vela.tflite.TensorType import TensorType  # noqa: E402

NP2TT = {
    np.dtype(np.int8): TensorType.INT8,
    np.dtype(np.uint8): TensorType.UINT8,
    np.dtype(np.int16): TensorType.INT16,
    np.dtype(np.int32): TensorType.INT32,
    np.dtype(np.int64): TensorType.INT64,
    np.dtype(np.float32): TensorType.FLOAT32,
    np.dtype(np.bool_): TensorType.BOOL,
}


class T:
    def __init__(self, name, shape, dtype=np.int8, scale=None, zp=None, data=None, qdim=0, is_variable=False):
        self.name = name
        self.shape = shape
        self.dtype = np.dtype(dtype)
        self.scale = scale
        self.zp = zp
        self.data = None if data is None else np.asarray(data, dtype=self.dtype)
        self.qdim = qdim
        self.is_variable = is_variable


class O:
    def __init__(self, code, inputs, outputs, opts=None, opts_fields=None, custom_code=None, custom_options=None,
                 version=1):
        self.code = code  # name in BuiltinOperator
        self.inputs = inputs  # tensor names (None -> -1)
        self.outputs = outputs
        self.opts = opts  # name of the options table e.g. "Conv2DOptions"
        self.opts_fields = opts_fields or {}  # {"StrideW": 1, ...}
        self.custom_code = custom_code
        self.custom_options = custom_options
        self.version = version


def _vec(b, elem_size, prepend, values):
    b.StartVector(elem_size, len(values), elem_size)
    for v in reversed(values):
        prepend(v)
    return b.EndVector()


def build(tensors, ops, inputs, outputs, extra_subgraphs=()):
    """tensors: list[T]; ops: list[O]; inputs/outputs: names.  extra_subgraphs: list of (tensors, ops, inputs, outputs)."""
    b = flatbuffers.Builder(1024)
    buffers = [b""]
    op_codes = []

    def code_index(op):
        key = (op.code, op.custom_code, op.version)
        if key not in op_codes:
            op_codes.append(key)
        return op_codes.index(key)

    def build_sg(tensors, ops, inputs, outputs, name):
        idx = {t.name: i for i, t in enumerate(tensors)}
        t_offs = []
        for t in tensors:
            if t.data is not None:
                buffers.append(t.data.tobytes())
                buf = len(buffers) - 1
            else:
                buf = 0
            q_off = None
            if t.scale is not None:
                sc = list(np.atleast_1d(np.asarray(t.scale, dtype=np.float32)))
                zp = list(np.atleast_1d(np.asarray(0 if t.zp is None else t.zp, dtype=np.int64)))
                s_off = _vec(b, 4, b.PrependFloat32, [float(x) for x in sc])
                z_off = _vec(b, 8, b.PrependInt64, [int(x) for x in zp])
                QuantizationParameters.QuantizationParametersStart(b)
                QuantizationParameters.QuantizationParametersAddScale(b, s_off)
                QuantizationParameters.QuantizationParametersAddZeroPoint(b, z_off)
                QuantizationParameters.QuantizationParametersAddQuantizedDimension(b, t.qdim)
                q_off = QuantizationParameters.QuantizationParametersEnd(b)
            n_off = b.CreateString(t.name)
            sh_off = None
            if t.shape is not None:
                sh_off = _vec(b, 4, b.PrependInt32, [int(x) for x in t.shape])
            TflTensor.TensorStart(b)
            if sh_off is not None:
                TflTensor.TensorAddShape(b, sh_off)
            TflTensor.TensorAddType(b, NP2TT[t.dtype])
            TflTensor.TensorAddBuffer(b, buf)
            TflTensor.TensorAddName(b, n_off)
            if q_off is not None:
                TflTensor.TensorAddQuantization(b, q_off)
            if t.is_variable:
                TflTensor.TensorAddIsVariable(b, True)
            t_offs.append(TflTensor.TensorEnd(b))
        o_offs = []
        for op in ops:
            ci = code_index(op)
            i_off = _vec(b, 4, b.PrependInt32, [-1 if n is None else idx[n] for n in op.inputs])
            out_off = _vec(b, 4, b.PrependInt32, [idx[n] for n in op.outputs])
            opt_off = None
            if op.opts is not None:
                mod = importlib.import_module("ethosu.vela.tflite." + op.opts)
                fields = {}
                for k, v in op.opts_fields.items():
                    if isinstance(v, (list, tuple)):
                        v = _vec(b, 4, b.PrependInt32, [int(x) for x in v])
                    fields[k] = v
                getattr(mod, op.opts + "Start")(b)
                for k, v in fields.items():
                    getattr(mod, op.opts + "Add" + k)(b, v)
                opt_off = getattr(mod, op.opts + "End")(b)
            co_off = None
            if op.custom_options is not None:
                co_off = _vec(b, 1, b.PrependUint8, list(op.custom_options))
            Operator.OperatorStart(b)
            Operator.OperatorAddOpcodeIndex(b, ci)
            Operator.OperatorAddInputs(b, i_off)
            Operator.OperatorAddOutputs(b, out_off)
            if opt_off is not None:
                Operator.OperatorAddBuiltinOptionsType(b, getattr(BuiltinOptions, op.opts))
                Operator.OperatorAddBuiltinOptions(b, opt_off)
            if co_off is not None:
                Operator.OperatorAddCustomOptions(b, co_off)
            o_offs.append(Operator.OperatorEnd(b))
        tv = _vec(b, 4, b.PrependUOffsetTRelative, t_offs)
        ov = _vec(b, 4, b.PrependUOffsetTRelative, o_offs)
        iv = _vec(b, 4, b.PrependInt32, [idx[n] for n in inputs])
        outv = _vec(b, 4, b.PrependInt32, [idx[n] for n in outputs])
        nm = b.CreateString(name)
        SubGraph.SubGraphStart(b)
        SubGraph.SubGraphAddTensors(b, tv)
        SubGraph.SubGraphAddInputs(b, iv)
        SubGraph.SubGraphAddOutputs(b, outv)
        SubGraph.SubGraphAddOperators(b, ov)
        SubGraph.SubGraphAddName(b, nm)
        return SubGraph.SubGraphEnd(b)

    sgs = [build_sg(tensors, ops, inputs, outputs, "main")]
    for i, (t2, o2, i2, out2) in enumerate(extra_subgraphs):
        sgs.append(build_sg(t2, o2, i2, out2, "sg%d" % (i + 1)))

    oc_offs = []
    for code, custom, version in op_codes:
        cc = b.CreateString(custom) if custom is not None else None
        val = getattr(BuiltinOperator, code)
        OperatorCode.OperatorCodeStart(b)
        OperatorCode.OperatorCodeAddDeprecatedBuiltinCode(b, min(val, 127))
        if cc is not None:
            OperatorCode.OperatorCodeAddCustomCode(b, cc)
        OperatorCode.OperatorCodeAddVersion(b, version)
        OperatorCode.OperatorCodeAddBuiltinCode(b, val)
        oc_offs.append(OperatorCode.OperatorCodeEnd(b))
    b_offs = []
    for data in buffers:
        d_off = None
        if len(data):
            b.StartVector(1, len(data), 16)
            b.head = b.head - len(data)
            b.Bytes[b.head : b.head + len(data)] = data
            d_off = b.EndVector()
        Buffer.BufferStart(b)
        if d_off is not None:
            Buffer.BufferAddData(b, d_off)
        b_offs.append(Buffer.BufferEnd(b))
    ocv = _vec(b, 4, b.PrependUOffsetTRelative, oc_offs)
    sgv = _vec(b, 4, b.PrependUOffsetTRelative, sgs)
    bv = _vec(b, 4, b.PrependUOffsetTRelative, b_offs)
    desc = b.CreateString("demo")
    Model.ModelStart(b)
    Model.ModelAddVersion(b, 3)
    Model.ModelAddOperatorCodes(b, ocv)
    Model.ModelAddSubgraphs(b, sgv)
    Model.ModelAddDescription(b, desc)
    Model.ModelAddBuffers(b, bv)
    m = Model.ModelEnd(b)
    b.Finish(m, b"TFL3")
    return bytes(b.Output())


def run_vela(model_bytes, workdir, name="m", extra_args=(), quiet=True):
    """Runs the vela CLI entry point in-process.  Returns (status, output_text, output_file_or_None).
    status is the int returned by main(), or 'EXC:<type>' if an exception escaped."""
    from ethosu.vela import vela

    os.makedirs(workdir, exist_ok=True)
    path = os.path.join(workdir, name + ".tflite")
    with open(path, "wb") as f:
        f.write(model_bytes)
    outdir = os.path.join(workdir, "out_" + name)
    out_file = os.path.join(outdir, name + "_vela.tflite")
    if os.path.exists(out_file):
        os.remove(out_file)
    buf = io.StringIO()
    args = [path, "--output-dir", outdir] + list(extra_args)
    try:
        with contextlib.redirect_stdout(buf), contextlib.redirect_stderr(buf):
            status = vela.main(args)
    except SystemExit as e:
        status = "EXIT:%r" % (e.code,)
    except BaseException as e:  # noqa: B902
        status = "EXC:%s: %s" % (type(e).__name__, e)
        buf.write(traceback.format_exc())
    text = buf.getvalue()
    if not quiet:
        print(text)
    return status, text, (out_file if os.path.exists(out_file) else None)


def outcome_ok(status, text, out_file):
    """C13: either status 0 and an output model, or non-zero int status with an error message."""
    if status == 0:
        return out_file is not None
    if isinstance(status, int):
        return len(text.strip()) > 0
    return False


def custom_codes(path):
    """Custom operator codes present in a .tflite file."""
    with open(path, "rb") as f:
        buf = bytearray(f.read())
    m = Model.Model.GetRootAsModel(buf, 0)
    return sorted(
        m.OperatorCodes(i).CustomCode().decode() for i in range(m.OperatorCodesLength()) if m.OperatorCodes(i).CustomCode()
    )

# Defect (unchanged tree): a plain chain of 1500 unary operators (all CPU: float ABS) dies with a bare RecursionError at
# the default --recursion-limit (4000): the graph traversals recurse once per tensor and once per operator.
# RecursionError is not a VelaError, so main() lets the traceback escape instead of printing an error and returning 1
# (Subgraph.refresh_after_modification only re-raises it with a hint; other traversals do not even do that).
import numpy as np
from obs_common import check
from tfl import T, O, build

N = 1500
tens = [T("t0", [1, 4, 4, 4], np.float32)]
ops = []
for i in range(N):
    tens.append(T(f"t{i + 1}", [1, 4, 4, 4], np.float32))
    ops.append(O("ABS", [f"t{i}"], [f"t{i + 1}"], "AbsOptions", {}))
check("deep_chain", build(tens, ops, ["t0"], [f"t{N}"]))

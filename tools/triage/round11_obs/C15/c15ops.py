# Helpers that build public-API operations for the C15 demos
import os
import sys

sys.path.insert(0, os.path.dirname(os.path.abspath(__file__)))
import c15ref  # noqa: F401,E402  (puts the worktree first on sys.path)

from ethosu.vela.api import NpuActivation  # noqa: E402
from ethosu.vela.api import NpuActivationOp  # noqa: E402
from ethosu.vela.api import NpuAddressRange  # noqa: E402
from ethosu.vela.api import NpuDataType  # noqa: E402
from ethosu.vela.api import NpuFeatureMap  # noqa: E402
from ethosu.vela.api import NpuLayout  # noqa: E402
from ethosu.vela.api import NpuPadding  # noqa: E402
from ethosu.vela.api import NpuQuantization  # noqa: E402
from ethosu.vela.api import NpuShape3D  # noqa: E402
from ethosu.vela.api import NpuTileBox  # noqa: E402


def fm(h, w, d, address, dtype=NpuDataType.INT8, scale=0.05, region=1):
    f = NpuFeatureMap()
    f.data_type = dtype
    f.region = region
    f.shape = NpuShape3D(height=h, width=w, depth=d)
    f.tiles = NpuTileBox(height_0=h, height_1=0, width_0=w, addresses=[address, 0, 0, 0])
    f.layout = NpuLayout.NHWC
    esz = dtype.size_in_bytes()
    f.strides = NpuShape3D(height=w * d * esz, width=d * esz, depth=esz)
    f.quantization = None if scale is None else NpuQuantization(scale_f32=scale, zero_point=0)
    return f


def finish_conv(op, lut=False):
    op.padding = NpuPadding(top=0, left=0, right=0, bottom=0)
    op.weights = [NpuAddressRange(region=0, address=0, length=4096)]
    op.biases = [NpuAddressRange(region=0, address=8192, length=1600)]
    if lut:
        op.activation = NpuActivation(NpuActivationOp.TABLE_LOOKUP)
        op.activation.lookup_table_index = 0
    return op


# ---------------------------------------------------------------------------------------------------------------------
import c15ref as R  # noqa: E402
from ethosu.vela.api import NpuAccelerator  # noqa: E402
from ethosu.vela.api import NpuBlockTraversal  # noqa: E402
from ethosu.vela.api import NpuConv2DOperation  # noqa: E402
from ethosu.vela.api import NpuConvDepthWiseOperation  # noqa: E402
from ethosu.vela.api import NpuElementWiseOperation  # noqa: E402
from ethosu.vela.api import NpuPoolingOp  # noqa: E402
from ethosu.vela.api import NpuPoolingOperation  # noqa: E402
from ethosu.vela.api import NpuResamplingMode  # noqa: E402
from ethosu.vela.api import npu_find_block_configs  # noqa: E402
from ethosu.vela.api import npu_generate_register_command_stream  # noqa: E402

NPU_ACC = {
    "ethos-u55-32": NpuAccelerator.Ethos_U55_32,
    "ethos-u55-64": NpuAccelerator.Ethos_U55_64,
    "ethos-u55-128": NpuAccelerator.Ethos_U55_128,
    "ethos-u55-256": NpuAccelerator.Ethos_U55_256,
    "ethos-u65-256": NpuAccelerator.Ethos_U65_256,
    "ethos-u65-512": NpuAccelerator.Ethos_U65_512,
}
UPSCALE = {NpuResamplingMode.NONE: "none", NpuResamplingMode.NEAREST: "nearest", NpuResamplingMode.TRANSPOSE: "transpose"}


def describe(op):
    """Derives, from the public API operation only, the parameters the reference model needs"""
    k = op.kernel
    kern = (1, 1, 1, 1, 1, 1) if k is None else (k.width, k.height, k.stride_x, k.stride_y, k.dilation_x, k.dilation_y)
    bits = op.ifm.data_type.size_in_bits()
    fms = [f for f in (op.ifm, op.ifm2, op.ofm) if f is not None]
    scaled = all(f.quantization is not None and f.quantization.scale_f32 is not None for f in fms)
    uses_lut = op.activation is not None and op.activation.op_type == NpuActivationOp.TABLE_LOOKUP
    part_kernel = False
    ew_ifm2 = None
    if isinstance(op, NpuConv2DOperation):
        kind = "conv"
        part_kernel = op.block_traversal == NpuBlockTraversal.PART_KERNEL_FIRST
    elif isinstance(op, NpuConvDepthWiseOperation):
        kind = "depthwise"
    elif isinstance(op, NpuPoolingOperation):
        kind = "reducesum" if op.sub_op_type == NpuPoolingOp.REDUCE_SUM else "pooling"
    else:
        assert isinstance(op, NpuElementWiseOperation)
        kind = "elementwise"
        ew_ifm2 = "scalar" if op.ifm2_scalar is not None else ("full" if op.ifm2 is not None else "unary")
    acc_bits = 40 if (bits == 16 and kind != "pooling" and scaled) else 32
    return dict(kind=kind, kernel=kern, ifm_bits=bits, uses_lut=uses_lut, part_kernel=part_kernel, ew_ifm2=ew_ifm2,
                acc_bits=acc_bits, upscale=UPSCALE[op.ifm_upscale], ifm_depth=op.ifm.shape.depth,
                ofm_hw=(op.ofm.shape.height, op.ofm.shape.width), has_ifm2=op.ifm2 is not None and op.ifm2_scalar is None)


def check_op(op, acc, name, max_generate=40):
    """Queries the block configs for op, checks each against the reference model and the generator.
    Returns a list of failure strings"""
    d = describe(op)
    failures = []
    configs = npu_find_block_configs(op, NPU_ACC[acc])
    args = (d["ofm_hw"], d["ifm_depth"], d["kernel"], d["ifm_bits"], d["part_kernel"], d["upscale"], d["acc_bits"],
            d["uses_lut"])
    step = max(1, len(configs) // max_generate)
    for idx, cfg in enumerate(configs):
        block = (cfg.height, cfg.width, cfg.depth)
        desc = f"{acc} {name} block={block}"
        if not R.block_is_wellformed(acc, block):
            failures.append(desc + ": offered block is not a multiple of the micro block / exceeds the maximum")
            continue
        if not R.fits(acc, d["kind"], block, *args, ew_ifm2=d["ew_ifm2"]):
            failures.append(desc + ": offered block cannot be double buffered in the shared buffer")
        if idx % step and idx != len(configs) - 1:
            continue
        op.block_config = cfg
        try:
            stream = npu_generate_register_command_stream([op], NPU_ACC[acc])
        except AssertionError as e:
            failures.append(desc + f": offered block rejected by the command stream generator ({e})")
            continue
        (_, regs), = R.decode(stream)
        got_block = (regs["OFM_BLK_HEIGHT_M1"] + 1, regs["OFM_BLK_WIDTH_M1"] + 1, regs["OFM_BLK_DEPTH_M1"] + 1)
        if got_block != block:
            failures.append(desc + f": emitted block {got_block}")
        exp_fmt = {32: 0, 40: 1}[d["acc_bits"]]
        if regs["ACC_FORMAT"] != exp_fmt:
            failures.append(desc + f": ACC_FORMAT {regs['ACC_FORMAT']} expected {exp_fmt}")
        problems = R.check_layout(
            acc, d["kind"], block, *args, d["ew_ifm2"],
            dict(ib_end=regs["IFM_IB_END"], ab_start=regs["AB_START"],
                 ib_start2=regs.get("IFM2_IB_START") if d["has_ifm2"] else None),
        )
        if problems:
            failures.append(desc + ": " + "; ".join(problems))
    return failures

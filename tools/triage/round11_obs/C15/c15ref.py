# Independent reference model of the Ethos-U shared buffer (SHRAM) used by the C15 demos.
# Nothing in here calls Vela's allocator: the numbers come from the Ethos-U55/U65 SHRAM layout description.
import math
import os
import sys

ROOT = os.path.dirname(os.path.dirname(os.path.abspath(__file__)))
sys.path.insert(0, ROOT)

import ethosu.vela  # noqa: E402

assert os.path.abspath(ethosu.vela.__file__).startswith(ROOT + os.sep), ethosu.vela.__file__

# name -> (banks, ofm ublock (h, w, d), granules: ifm8, ifm16, ifm32, acc32, acc40)
ACCELS = {
    "ethos-u55-32": (16, (1, 1, 4), dict(ifm8=2, ifm16=2, ifm32=4, acc32=4, acc40=4)),
    "ethos-u55-64": (16, (1, 1, 8), dict(ifm8=2, ifm16=2, ifm32=4, acc32=4, acc40=8)),
    "ethos-u55-128": (24, (1, 2, 8), dict(ifm8=4, ifm16=4, ifm32=8, acc32=8, acc40=12)),
    "ethos-u55-256": (48, (2, 2, 8), dict(ifm8=8, ifm16=8, ifm32=16, acc32=16, acc40=20)),
    "ethos-u65-256": (48, (2, 2, 8), dict(ifm8=8, ifm16=8, ifm32=16, acc32=16, acc40=20)),
    "ethos-u65-512": (48, (2, 2, 8), dict(ifm8=8, ifm16=8, ifm32=16, acc32=16, acc40=20)),
}
MAX_BLOCK = (32, 64, 128)  # h, w, d
BANK = 1024
RESERVED_OFM_BANKS = 2


def rup(a, b):
    return -(-a // b) * b


def usable_banks(accel, uses_lut):
    banks = ACCELS[accel][0]
    if banks > 16:
        return banks - 2  # the last two banks always belong to the LUT
    return banks - 2 if uses_lut else banks


def ifm_block_hw(block_h, block_w, kernel, upscale_mode, accel):
    """kernel = (w, h, sx, sy, dx, dy); upscale_mode in ('none', 'nearest', 'transpose')"""
    kw, kh, sx, sy, dx, dy = kernel
    ub_h, ub_w, _ = ACCELS[accel][1]
    up = 1 if upscale_mode == "none" else 2
    extra = 1 if upscale_mode == "nearest" else 0
    area_h = min((kh - 1) * dy + 1, 8)
    area_w = min((kw - 1) * dx + 1, 8)
    h = math.ceil(((block_h - 1) * sy + area_h + extra) / up)
    w = math.ceil(((block_w - 1) * sx + area_w + extra) / up)
    return rup(h, ub_h), rup(w, ub_w)


def ifm_block_depth(kind, block_d, ifm_depth, ifm_bits, part_kernel):
    if kind in ("depthwise", "pooling", "elementwise"):
        return block_d
    if ifm_bits == 16:
        return rup(min(ifm_depth, 16), 4)
    return rup(min(ifm_depth, 16 if part_kernel else 32), 8)


def banks_needed(nbytes, granule):
    return rup(2 * (-(-nbytes // BANK)), granule)


def required(accel, kind, block, ofm_hw, ifm_depth, kernel, ifm_bits, part_kernel, upscale_mode, acc_bits):
    """Returns (ifm_banks, acc_banks) needed to double buffer the IFM block / accumulators of one OFM block"""
    bh, bw, bd = block
    gran = ACCELS[accel][2]
    ih, iw = ifm_block_hw(bh, bw, kernel, upscale_mode, accel)
    idepth = ifm_block_depth(kind, bd, ifm_depth, ifm_bits, part_kernel)
    ifm_bytes = ih * iw * rup(idepth * ifm_bits // 8, 8)
    ifm_banks = banks_needed(ifm_bytes, gran["ifm%d" % ifm_bits])
    acc_banks = 0
    if kind != "elementwise":
        ub_h = ACCELS[accel][1][0]
        acc_h = bh
        if ofm_hw[0] == 1 and kernel[1] == 1 and ub_h == 2:
            acc_h = 1  # H256 only processes one row of the 2-row micro block
        acc_bytes = acc_h * bw * rup(bd, 8) * acc_bits // 8
        acc_banks = banks_needed(acc_bytes, gran["acc%d" % acc_bits])
    return ifm_banks, acc_banks


def block_is_wellformed(accel, block):
    ub = ACCELS[accel][1]
    return all(b > 0 and b % u == 0 and b <= m for b, u, m in zip(block, ub, MAX_BLOCK))


def check_layout(accel, kind, block, ofm_hw, ifm_depth, kernel, ifm_bits, part_kernel, upscale_mode, acc_bits,
                 uses_lut, ew_ifm2, regs):
    """regs: dict with ib_end, ab_start, ib_start2 (may be None). ew_ifm2: None / 'scalar' / 'full'
    Returns a list of problems (empty = the layout is valid for the hardware)"""
    problems = []
    ifm_banks, acc_banks = required(accel, kind, block, ofm_hw, ifm_depth, kernel, ifm_bits, part_kernel,
                                    upscale_mode, acc_bits)
    top = usable_banks(accel, uses_lut)
    ib_start = RESERVED_OFM_BANKS
    ib_end, ab_start, ib_start2 = regs["ib_end"], regs["ab_start"], regs.get("ib_start2")
    if kind != "elementwise":
        if ib_end - ib_start < ifm_banks:
            problems.append(f"IFM partition [{ib_start},{ib_end}) smaller than the {ifm_banks} banks needed")
        if ab_start < ib_end:
            problems.append(f"accumulators start {ab_start} overlap IFM end {ib_end}")
        if top - ab_start < acc_banks:
            problems.append(f"accumulator partition [{ab_start},{top}) smaller than the {acc_banks} banks needed")
    else:
        if ib_end > top:
            problems.append(f"IFM end {ib_end} beyond usable banks {top}")
        if ew_ifm2 == "full":
            if ib_start2 is None:
                problems.append("IFM2_IB_START missing")
            else:
                if ib_start2 - ib_start < ifm_banks:
                    problems.append(f"IFM partition [{ib_start},{ib_start2}) smaller than {ifm_banks} banks")
                if ib_end - ib_start2 < ifm_banks:
                    problems.append(f"IFM2 partition [{ib_start2},{ib_end}) smaller than {ifm_banks} banks")
        else:
            if ib_end - ib_start < ifm_banks:
                problems.append(f"IFM partition [{ib_start},{ib_end}) smaller than {ifm_banks} banks")
    if ab_start > top or ib_end > top:
        problems.append(f"partition beyond usable banks {top}: ib_end={ib_end} ab_start={ab_start}")
    return problems


def fits(accel, kind, block, ofm_hw, ifm_depth, kernel, ifm_bits, part_kernel, upscale_mode, acc_bits, uses_lut,
         ew_ifm2=None):
    ifm_banks, acc_banks = required(accel, kind, block, ofm_hw, ifm_depth, kernel, ifm_bits, part_kernel,
                                    upscale_mode, acc_bits)
    top = usable_banks(accel, uses_lut)
    if kind == "elementwise":
        need = ifm_banks * (2 if ew_ifm2 == "full" else 1)
        return RESERVED_OFM_BANKS + need <= top
    return RESERVED_OFM_BANKS + ifm_banks + acc_banks <= top


def weights_traversal_is_part_kernel(ifm_depth, kw, kh, ifm_bits):
    """Traversal the weight encoder uses for a Conv2D (it only sees the weight tensor: undilated kernel)"""
    k = kw * kh
    depth_util = ifm_depth / rup(ifm_depth, 32 if ifm_bits == 8 else 16)
    part_util = (ifm_depth / rup(ifm_depth, 8)) * (k / rup(k, 4 if ifm_bits == 8 else 2))
    return part_util >= depth_util or ifm_depth <= 8


# ---------------------------------------------------------------- command stream decoding
def decode(stream):
    """Yields (op_name, effective cmd0 register dict) for every NPU_OP_* kernel operation"""
    from ethosu.vela.ethos_u55_regs.ethos_u55_regs import cmd0

    regs = {}
    i = 0
    out = []
    while i < len(stream):
        word = stream[i]
        code = word & 0xFFFF
        param = word >> 16
        if code & 0x4000:
            i += 2
            continue
        i += 1
        c = cmd0(code & 0x3FF)
        if c.name.startswith("NPU_SET_"):
            regs[c.name[8:]] = param
        elif c.name in ("NPU_OP_CONV", "NPU_OP_DEPTHWISE", "NPU_OP_POOL", "NPU_OP_ELEMENTWISE"):
            out.append((c.name, dict(regs)))
    return out

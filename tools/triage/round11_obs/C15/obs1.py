# Observation (unchanged tree): for an operation with 2x IFM upscaling (NEAREST / TRANSPOSE) the public query
# npu_find_block_configs only offers blocks whose height and width are even (api.py: min_block_height/width =
# max(ublock, 2) "if npu_op.ifm_upscale != NONE"), i.e. Vela itself treats odd block sizes as invalid for such an
# operation.  The scheduler-side search find_block_config has no such rule: on the accelerators with a 1x1 (U55-32,
# U55-64) or 1-high (U55-128) micro block it selects odd block heights / widths (e.g. 7x13) for upscaled pooling and
# convolution.  So Vela emits block configurations that its own query regards as invalid for that operation (the
# selected configuration is not among the offered ones although all other parameters are identical).
import os
import sys

sys.path.insert(0, os.path.dirname(os.path.abspath(__file__)))
import c15ref as R  # noqa: E402
import c15ops as O  # noqa: E402
from ethosu.vela.api import NpuKernel  # noqa: E402
from ethosu.vela.api import NpuPadding  # noqa: E402
from ethosu.vela.api import NpuPoolingOp  # noqa: E402
from ethosu.vela.api import NpuPoolingOperation  # noqa: E402
from ethosu.vela.api import NpuResamplingMode  # noqa: E402
from ethosu.vela.api import npu_find_block_configs  # noqa: E402
from ethosu.vela.architecture_allocator import find_block_config  # noqa: E402
from ethosu.vela.architecture_features import Accelerator  # noqa: E402
from ethosu.vela.architecture_features import create_default_arch  # noqa: E402
from ethosu.vela.ethos_u55_regs.ethos_u55_regs import resampling_mode  # noqa: E402
from ethosu.vela.operation import Kernel  # noqa: E402
from ethosu.vela.operation import NpuBlockType  # noqa: E402
from ethosu.vela.shape4d import Shape4D  # noqa: E402

bad = []
for acc in R.ACCELS:
    arch = create_default_arch(Accelerator(acc))
    for (oh, ow, od) in [(14, 14, 32), (6, 6, 64), (10, 18, 16), (26, 26, 8)]:
        # 1x1 average pool with nearest upscaling = how Vela implements a 2x nearest neighbour resize
        op = NpuPoolingOperation(NpuPoolingOp.AVERAGE)
        op.ifm = O.fm(oh // 2, ow // 2, od, 0)
        op.ofm = O.fm(oh, ow, od, 0x80000)
        op.kernel = NpuKernel(1, 1)
        op.padding = NpuPadding(0, 0, 0, 0)
        op.ifm_upscale = NpuResamplingMode.NEAREST
        offered = {(c.height, c.width, c.depth) for c in npu_find_block_configs(op, O.NPU_ACC[acc])}
        cfg = find_block_config(
            arch, NpuBlockType.Pooling, Shape4D(1, oh, ow, od), Shape4D(1, oh // 2, ow // 2, od), None, False, 8,
            Kernel(1, 1), 0, True, resampling_mode.NEAREST,
        )
        sel = (cfg.ofm_block.height, cfg.ofm_block.width, cfg.ofm_block.depth)
        if sel not in offered:
            bad.append(f"{acc} avgpool 1x1 NEAREST ofm={oh}x{ow}x{od}: scheduler selects {sel}, not offered by the query")

print(f"{len(bad)} selected configurations are not offered by npu_find_block_configs")
for b in bad[:10]:
    print("  " + b)
if bad:
    sys.exit(1)

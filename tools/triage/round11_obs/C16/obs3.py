"""Observation (unchanged tree): MEAN over H and W given with negative axis values ([-3, -2], legal in TFLite and equal to
[1, 2] for a 4-D input) is rejected by TFLiteSemantic.constraint_mean_axis ('if ax < 0 or ax >= dims: return False') and
placed on the CPU, although the listed text of that constraint only talks about which axes may be reduced (batch / height
and width / depth) and says nothing about the sign of the axis values; the same reduction written as [1, 2] is accelerated.
An operator instance that satisfies all listed constraints is not placed on the NPU. Exits non-zero when present.
"""
import os
import sys
import tempfile

sys.path.insert(0, os.path.dirname(os.path.abspath(__file__)))
from harness import *  # noqa: E402,F403


def compile_mean(d, tag, axes):
    x = fm("x", [1, 8, 8, 4])
    y = fm("y", [1, 1, 1, 4])
    ax = const("axes", [2], DataType.int32, axes)
    op = make_op(Op.Mean, "mean", [x, ax], [y], {"keep_dims": True})
    path = build_tflite([op], [x], [y], os.path.join(d, f"mean_{tag}.tflite"))
    out, log = run_vela(path)
    return op_names(out), log


def main():
    d = tempfile.mkdtemp(prefix="c16_obs3_")
    pos, _ = compile_mean(d, "pos", [1, 2])
    neg, log = compile_mean(d, "neg", [-3, -2])
    print("axes [1, 2]:", pos, "| axes [-3, -2]:", neg)
    if pos == ["ethos-u"] and neg == ["MEAN"]:
        print("DEFECT: the same MEAN written with negative axes is left on the CPU; no listed constraint mentions the sign")
        return 1
    return 0


if __name__ == "__main__":
    sys.exit(main())

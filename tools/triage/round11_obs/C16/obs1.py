"""Observation (unchanged tree): an int8 CONV_2D whose weights have a non-zero zero point satisfies every constraint that
the supported-operators report lists for CONV_2D (SUPPORTED_OPS.md / vela --supported-ops-report has no constraint on the
weight zero point), yet tflite_graph_optimiser.check_asymmetric_weights sets run_on_npu = False and the operator is left
on the CPU (unless --force-symmetric-int-weights is given). The report therefore does not list the constraint set that the
compiler enforces. Exits non-zero when the defect is present.
"""
import os
import sys
import tempfile

sys.path.insert(0, os.path.dirname(os.path.abspath(__file__)))
from harness import *  # noqa: E402,F403


def main():
    d = tempfile.mkdtemp(prefix="c16_obs1_")
    x = fm("x", [1, 8, 8, 4])
    y = fm("y", [1, 8, 8, 8])
    path = build_tflite([conv2d("conv", x, y, (3, 3), (1, 1), w_zero_point=3)], [x], [y], os.path.join(d, "asym.tflite"))
    out, log = run_vela(path)
    names = op_names(out)
    report = open(os.path.join(ROOT, "SUPPORTED_OPS.md")).read().lower()
    documented = "symmetric" in report or "zero point" in report or "zero_point" in report
    listed_violation = " - " in "".join(l for l in log.splitlines() if l.startswith(" - "))
    print("operators:", names, "| constraint printed:", listed_violation, "| documented:", documented)
    if names == ["CONV_2D"] and not listed_violation and not documented:
        print("DEFECT: CONV_2D with asymmetric int8 weights violates no listed constraint but is placed on the CPU")
        return 1
    return 0


if __name__ == "__main__":
    sys.exit(main())

"""Shared helpers for the C16 demos: build small TFLite files, run Vela on them, and list the operators of the result."""
import contextlib
import io
import os
import sys
import tempfile

ROOT = os.path.dirname(os.path.dirname(os.path.abspath(__file__)))
sys.path.insert(0, ROOT)

import numpy as np  # noqa: E402

import ethosu.vela  # noqa: E402

assert os.path.abspath(ethosu.vela.__file__).startswith(ROOT + os.sep), ethosu.vela.__file__

from ethosu.vela import tflite_writer  # noqa: E402
from ethosu.vela import vela  # noqa: E402
from ethosu.vela.data_type import DataType  # noqa: E402
from ethosu.vela.nn_graph import Graph  # noqa: E402
from ethosu.vela.nn_graph import PassPlacement  # noqa: E402
from ethosu.vela.nn_graph import Subgraph  # noqa: E402
from ethosu.vela.operation import Op  # noqa: E402
from ethosu.vela.operation import Operation  # noqa: E402
from ethosu.vela.operation import Padding  # noqa: E402
from ethosu.vela.tensor import QuantizationParameters  # noqa: E402
from ethosu.vela.tensor import Tensor  # noqa: E402
from ethosu.vela.tflite import Model  # noqa: E402
from ethosu.vela.tflite.BuiltinOperator import BuiltinOperator  # noqa: E402

BUILTIN_NAMES = {v: k for k, v in vars(BuiltinOperator).items() if not k.startswith("_")}


def quant(scale=0.5, zero_point=0):
    qp = QuantizationParameters()
    qp.scale_f32 = np.float32(scale) if np.ndim(scale) == 0 else np.array(scale, np.float32)
    qp.zero_point = np.int64(zero_point) if np.ndim(zero_point) == 0 else np.array(zero_point, np.int64)
    return qp


def fm(name, shape, dtype=DataType.int8, scale=0.5, zero_point=0, quantized=True):
    t = Tensor(list(shape), dtype, name)
    t.quantization = quant(scale, zero_point) if quantized else None
    return t


def const(name, shape, dtype, values, scale=None, zero_point=0):
    t = Tensor(list(shape), dtype, name)
    t.values = np.array(values, dtype.as_numpy_type()).reshape(shape)
    t.quantization = quant(scale, zero_point) if scale is not None else None
    return t


def make_op(op_type, name, inputs, outputs, attrs=None, version=1):
    """inputs are given in Vela's (nng) input order; the writer converts them to the TFLite order"""
    op = Operation(op_type, name)
    op.inputs = list(inputs)
    op.outputs = list(outputs)
    op.attrs = dict(attrs or {})
    op.version = version
    op.run_on_npu = False  # the writer must take the attributes exactly as given
    return op


class _FakePass:
    def __init__(self, ops):
        self.ops = ops


def build_tflite(ops, inputs, outputs, path):
    """Serialises the operators (in execution order) into a .tflite file using Vela's own flatbuffer writer"""
    nng = Graph("demo")
    sg = Subgraph("main", PassPlacement.Cpu)
    sg.passes = [_FakePass(list(ops))]
    sg.original_inputs = list(inputs)
    sg.input_tensors = list(inputs)
    sg.output_tensors = list(outputs)
    sg.virtual_outputs = []
    nng.subgraphs = [sg]
    nng.metadata = []
    buf = tflite_writer.write_tflite_buffer(nng)
    with open(path, "wb") as f:
        f.write(bytes(buf))
    return path


def run_vela(path, accel="ethos-u55-128", extra=()):
    """Compiles the file; returns (path of the *_vela.tflite output, captured stdout)"""
    out_dir = tempfile.mkdtemp(prefix="c16_out_")
    args = [path, "--accelerator-config", accel, "--output-dir", out_dir] + list(extra)
    stdout = io.StringIO()
    sys.stdout.flush()
    saved_fd = os.dup(1)
    devnull = os.open(os.devnull, os.O_WRONLY)
    os.dup2(devnull, 1)
    try:
        with contextlib.redirect_stdout(stdout):
            vela.main(args)
    finally:
        sys.stdout.flush()
        os.dup2(saved_fd, 1)
        os.close(devnull)
        os.close(saved_fd)
    out = os.path.join(out_dir, os.path.splitext(os.path.basename(path))[0] + "_vela.tflite")
    return out, stdout.getvalue()


def list_ops(path):
    """Returns, for subgraph 0 of a .tflite file, a list of dicts: name of the builtin operator, custom code, input /
    output tensor names and shapes"""
    with open(path, "rb") as f:
        buf = bytearray(f.read())
    model = Model.Model.GetRootAsModel(buf, 0)
    sg = model.Subgraphs(0)
    res = []

    def tinfo(idx):
        if idx < 0:
            return None
        t = sg.Tensors(idx)
        shape = t.ShapeAsNumpy()
        shape = [int(x) for x in shape] if isinstance(shape, np.ndarray) else []
        return (t.Name().decode(), shape, int(t.Type()))

    for i in range(sg.OperatorsLength()):
        op = sg.Operators(i)
        code = model.OperatorCodes(op.OpcodeIndex())
        c = max(code.BuiltinCode(), code.DeprecatedBuiltinCode())
        custom = code.CustomCode().decode() if code.CustomCode() else None
        res.append(
            {
                "op": BUILTIN_NAMES.get(c, str(c)),
                "custom": custom,
                "version": code.Version(),
                "inputs": [tinfo(op.Inputs(j)) for j in range(op.InputsLength())],
                "outputs": [tinfo(op.Outputs(j)) for j in range(op.OutputsLength())],
            }
        )
    return res


def op_names(path):
    return ["ethos-u" if o["custom"] == "ethos-u" else o["op"] for o in list_ops(path)]


def conv2d(name, ifm, ofm, kernel_hw=(1, 1), stride_hw=(1, 1), padding=Padding.SAME, dilation_hw=(1, 1), w_zero_point=0,
           faf=None, w_dtype=DataType.int8, bias=True):
    """CONV_2D with constant weights (OHWI) / bias"""
    ic = ifm.shape[-1]
    oc = ofm.shape[-1]
    kh, kw = kernel_hw
    w = const(name + "_w", [oc, kh, kw, ic], w_dtype, np.ones([oc, kh, kw, ic]), scale=0.25, zero_point=w_zero_point)
    inputs = [ifm, w]
    if bias:
        b = const(name + "_b", [oc], DataType.int32, np.zeros([oc]), scale=0.125, zero_point=0)
        inputs.append(b)
    attrs = {
        "padding": padding,
        "stride_w": stride_hw[1],
        "stride_h": stride_hw[0],
        "dilation_w_factor": dilation_hw[1],
        "dilation_h_factor": dilation_hw[0],
        "fused_activation_function": faf,
    }
    return make_op(Op.Conv2DBias, name, inputs, [ofm], attrs)

"""Observation (unchanged tree): the listed CONV_2D stride constraint reads
  'Stride w must be between 1 and 3 when ofm height is greater than 1 or stride w must be divisible by 2 or 3 and ifm width
   must be divisible by stride_w/2 or stride_w/3'
but constraint_stride_width_no_upper_limit accepts any stride width for which utils.calc_resize_factor finds an optimised
stride <= 3, which includes every stride that divides the IFM width (optimised stride 1). A CONV_2D with stride_w = 5
(neither in [1,3] nor divisible by 2 or 3) on an IFM of width 10 with OFM 1x2x2xC violates the listed text and is still
placed on the NPU. (The code also keys the width rule on 'ofm width == 1', the text on 'ofm height'.) The published
constraint is not the one that is enforced. Exits non-zero when the defect is present.
"""
import os
import sys
import tempfile

sys.path.insert(0, os.path.dirname(os.path.abspath(__file__)))
from harness import *  # noqa: E402,F403


def main():
    d = tempfile.mkdtemp(prefix="c16_obs2_")
    x = fm("x", [1, 2, 10, 4])
    y = fm("y", [1, 2, 2, 8])
    op = conv2d("conv", x, y, (1, 1), (1, 5), padding=Padding.VALID)
    path = build_tflite([op], [x], [y], os.path.join(d, "stride5.tflite"))
    out, log = run_vela(path)
    names = op_names(out)
    stride_w, ifm_w = 5, 10
    listed_ok = (1 <= stride_w <= 3) or (
        (stride_w % 2 == 0 and ifm_w % (stride_w // 2) == 0) or (stride_w % 3 == 0 and ifm_w % (stride_w // 3) == 0)
    )
    print("operators:", names, "| satisfies the listed stride text:", listed_ok)
    if names == ["ethos-u"] and not listed_ok:
        print("DEFECT: CONV_2D with stride_w=5 violates the listed stride constraint but is accelerated")
        return 1
    return 0


if __name__ == "__main__":
    sys.exit(main())

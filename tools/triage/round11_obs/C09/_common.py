# Shared helpers for the C09 demos: path set-up and an independent reference for the (multiplier, shift) derivation
import math
import os
import sys
from fractions import Fraction

ROOT = os.path.abspath(os.path.join(os.path.dirname(os.path.abspath(__file__)), ".."))
sys.path.insert(0, ROOT)

import ethosu.vela  # noqa: E402

assert os.path.abspath(ethosu.vela.__file__).startswith(ROOT + os.sep), (
    f"wrong ethosu.vela imported: {ethosu.vela.__file__} (expected below {ROOT})"
)


def ref_quantize_multiplier(real):
    """TFLite QuantizeMultiplier, in exact arithmetic, returned in Vela's convention (value = m * 2**-shift)"""
    real = Fraction(real)
    assert real > 0
    e = 0
    # normalise real = q * 2**e with q in [0.5, 1)
    while real >= 1:
        real /= 2
        e += 1
    while real < Fraction(1, 2):
        real *= 2
        e -= 1
    q = real * (1 << 31)
    m = int(q + Fraction(1, 2))  # round half up (positive)
    if m == 1 << 31:
        m //= 2
        e += 1
    return m, 31 - e


def rel_err(m, shift, real):
    real = Fraction(real)
    return abs(Fraction(m, 1 << shift) - real) / real


def f32_exact(x):
    """the exact rational value of x rounded to float32"""
    import numpy as np

    return Fraction(float(np.float32(x)))

# Observation (unchanged tree): weight_compressor._prepare_scale_and_bias adds 1 to every quantised multiplier of an
# operator with rounding mode AwayZero ("next after" trick) AFTER quantise_scale has run.  When the real scale is outside
# the representable range quantise_scale degrades to the pair (0, 16) - a zero multiplier - but the increment turns that
# into (1, 16), i.e. the packed scale record denotes 2^-16 instead of 0 (the same happens for the reduced form).
# C09 asks that out-of-range scales degrade to a zero multiplier.  Reachable for the depthwise convolutions that
# replace RESIZE_BILINEAR (half_pixel_centers) / the Conv2D that replaces a large-stride AVERAGE_POOL_2D when
# ifm_scale / ofm_scale is below 2^-32 or so (legal, if exotic, float32 scales).
import os
import sys

sys.path.insert(0, os.path.dirname(os.path.abspath(__file__)))
import _common  # noqa: E402,F401

import numpy as np  # noqa: E402

from ethosu.vela import scaling  # noqa: E402
from ethosu.vela import weight_compressor  # noqa: E402
from ethosu.vela.data_type import DataType  # noqa: E402
from ethosu.vela.operation import Op, RoundingMode  # noqa: E402
from ethosu.vela.tensor import TensorFormat, TensorPurpose  # noqa: E402
from ethosu.vela.test import testutil  # noqa: E402

op = testutil.create_op_with_quant_tensors(
    Op.DepthwiseConv2DBias, [1, 4, 4, 1], [1, 4, 4, 1], weights_shape=[2, 2, 1, 1], bias_shape=[1], datatype=DataType.int8
)
op._original_type = Op.ResizeBilinear
op.rounding_mode = RoundingMode.AwayZero
op.ifm.quantization.scale_f32 = np.float32(1e-12)
op.ofm.quantization.scale_f32 = np.float32(1.0)
op.weights.quantization.scale_f32 = 1.0 / 16
op.weights.quantization.zero_point = 0
op.bias.purpose = TensorPurpose.FeatureMap
op.bias.format = TensorFormat.NHWC

real = float(np.float32(1e-12)) / 16
assert scaling.quantise_scale(real) == (0, 16), "the scale is expected to be out of range for this reproducer"
scales, _ = weight_compressor._prepare_scale_and_bias(testutil.create_arch(), op.bias, None)
m, s = scales[0]
if m != 0:
    print(f"DEFECT: out-of-range scale {real!r} is packed as ({m}, {s}) = {m / 2 ** s!r} instead of a zero multiplier")
    sys.exit(1)
print("OK")

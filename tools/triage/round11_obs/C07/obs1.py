# C07 observation 1 (unchanged tree): the compressed-weight cache ignores the IFM bit depth.
#
# weight_compressor.encode_weight_and_scale_tensor() looks the encoded weights up in CompressedWeightCache under
# WeightCompressionConfig(npu_block_type, ofm_block_depth, ofm_depth_step, dilation, weight_value_id).  The hardware
# layout produced by the encoder also depends on the IFM bit depth of the consuming operator (IFM block depth 32 vs 16
# in depth-first order, kernel-element padding 4 vs 2 in part-kernel-first order, and the traversal choice itself), and
# on the operator type (weights are flipped for Conv2DBackpropInputSwitchedBias), but none of these is part of the key.
# When one constant weight tensor is consumed by an int8 convolution and by an int16 (16x8) convolution with the same
# block depth, the second operator is handed the stream that was laid out for the first one: decoding it does not give
# the source weights in the hardware order of a 16-bit IFM operation.
import os
import sys

sys.path.insert(0, os.path.dirname(os.path.abspath(__file__)))
from types import SimpleNamespace

import c07ref
import numpy as np
from ethosu import mlw_codec
from ethosu.vela import weight_compressor as wc
from ethosu.vela.api import NpuBlockTraversal
from ethosu.vela.data_type import DataType
from ethosu.vela.operation import Kernel
from ethosu.vela.operation import Op
from ethosu.vela.tensor import TensorFormat
from ethosu.vela.tensor import TensorPurpose
from ethosu.vela.test import testutil

arch = testutil.create_arch()
ifm_ub = arch.ifm_ublock.depth
ofm_ub = arch.ofm_ublock.depth
rng = np.random.default_rng(0)
ifm_depth, ofm_depth = 40, 16


def make_op(dtype):
    op = testutil.create_op_with_quant_tensors(
        Op.Conv2DBias, [1, 4, 4, ifm_depth], [1, 4, 4, ofm_depth], [1, 1, ifm_depth, ofm_depth], [ofm_depth], datatype=dtype
    )
    op.inputs[2].purpose = TensorPurpose.FeatureMap
    op.inputs[2].format = TensorFormat.NHWC
    return op


op8 = make_op(DataType.int8)
op16 = make_op(DataType.int16)
# one shared int8 weight tensor
w = op8.inputs[1]
w.dtype = DataType.int8
w.values = rng.integers(-127, 128, size=(1, 1, ifm_depth, ofm_depth)).astype(np.int8)
w.quantization.zero_point = 0
old = op16.inputs[1]
op16.inputs[1] = w
w.consumer_list.append(op16)

block_config = SimpleNamespace(ofm_block=SimpleNamespace(depth=16))
kernel = Kernel(1, 1)
ohwi = np.transpose(w.values.astype(np.int16), (3, 0, 1, 2))
# pass 0 (control): cache cleared before every operator -> both streams must be right; pass 1: as in a compile
for clear_between in (True, False):
    wc.CompressedWeightCache.clear()
    for op, bits in ((op8, 8), (op16, 16)):
        if clear_between:
            wc.CompressedWeightCache.clear()
        wt, _ = wc.encode_weight_and_scale_tensor(arch, op, w, op.inputs[2], kernel, block_config, [0, ofm_depth])
        rng_ = wt.encoded_ranges[wc.WeightKey(0, 0)]
        start = rng_.offset + rng_.weight_offset
        dec = mlw_codec.decode(bytearray(wt.buffer[start : start + rng_.weight_bytes]))
        pk = wt.hw_traversal == NpuBlockTraversal.PART_KERNEL_FIRST
        exp = c07ref.ref_reorder(ohwi, ifm_ub, ofm_ub, 16, False, pk, bits, 8, 8)
        if dec[: len(exp)] != exp or len(dec) < len(exp) or any(dec[len(exp) :]):
            if clear_between:
                print("harness problem: stream wrong even without the cache")
                sys.exit(2)
            print("DEFECT: weights handed to the %d-bit IFM convolution are not in the hardware order for ifm_bitdepth=%d "
                  "(decoded %d weights, expected %d): stream cached from the 8-bit operator was reused" % (bits, bits, len(dec), len(exp)))
            sys.exit(1)
print("ok")

# Shared helpers for the C07 demos: make sure the worktree copy of the package is imported and
# provide an independent reference for the hardware weight traversal order.
import os
import sys

ROOT = os.path.dirname(os.path.dirname(os.path.abspath(__file__)))
sys.path.insert(0, ROOT)

import numpy as np  # noqa: E402

import ethosu.vela  # noqa: E402

assert os.path.abspath(ethosu.vela.__file__).startswith(ROOT + os.sep), ethosu.vela.__file__

from ethosu import mlw_codec  # noqa: E402

assert os.path.abspath(mlw_codec.__file__).startswith(ROOT + os.sep), mlw_codec.__file__


def _rup(a, b):
    return (a + b - 1) // b * b


def ref_reorder(w, ifm_ub, ofm_ub, ofm_block_depth, is_depthwise, is_partkernel, ifm_bitdepth, decomp_h, decomp_w):
    """Reference traversal of an OHWI weight volume (written from the Ethos-U weight stream description:
    OFM block -> IFM block -> sub-kernel -> [ifm ublock (part-kernel)] -> OFM ublock -> kernel element ->
    [ifm ublock (depth-first)] -> ofm lane -> ifm lane)."""
    ofm_depth, kh, kw, ifm_depth = w.shape
    out = []
    ifm_block_depth = 16 if (is_partkernel or ifm_bitdepth == 16) else 32
    for ofm_block_z in range(0, ofm_depth, ofm_block_depth):
        clipped_ofm = min(ofm_block_depth, ofm_depth - ofm_block_z)
        for ifm_block_z in range(0, 1 if is_depthwise else ifm_depth, ifm_block_depth):
            if is_depthwise:
                clipped_ifm = ifm_ub
            elif is_partkernel:
                clipped_ifm = min(ifm_block_depth, ifm_depth - ifm_block_z)
            else:
                clipped_ifm = ifm_block_depth
            for sky in range(0, kh, decomp_h):
                sub_h = min(kh - sky, decomp_h)
                for skx in range(0, kw, decomp_w):
                    sub_w = min(kw - skx, decomp_w)
                    elements = sub_w * sub_h
                    if is_partkernel:
                        elements = _rup(elements, 2 if ifm_bitdepth == 16 else 4)
                    elif is_depthwise:
                        elements = _rup(elements, 4)
                    outer = clipped_ifm if is_partkernel else 1
                    inner = 1 if is_partkernel else clipped_ifm
                    for ifm_o in range(0, outer, ifm_ub):
                        for ofm_u in range(0, clipped_ofm, ofm_ub):
                            for el in range(elements):
                                kx = el % sub_w
                                ky = el // sub_w
                                for ifm_i in range(0, inner, ifm_ub):
                                    for oz in range(ofm_ub):
                                        for iz in range(1 if is_depthwise else ifm_ub):
                                            i = ifm_block_z + ifm_i + ifm_o + iz
                                            o = ofm_block_z + ofm_u + oz
                                            if i < ifm_depth and o < ofm_depth and ky < sub_h:
                                                out.append(int(w[o, sky + ky, skx + kx, i]))
                                            else:
                                                out.append(0)
    return out


def roundtrip(seq):
    """Encode a flat weight list and decode it again with the reference decoder."""
    enc = mlw_codec.encode([int(v) for v in seq])
    assert len(enc) % 16 == 0, "stream length %d is not a multiple of 16" % len(enc)
    return mlw_codec.decode(enc)


def check_stream(seq, what):
    """Lossless: decode(encode(seq)) == seq followed by zero padding only."""
    seq = [int(v) for v in seq]
    dec = roundtrip(seq)
    if dec[: len(seq)] != seq or any(dec[len(seq) :]):
        bad = next((i for i, (a, b) in enumerate(zip(seq, dec)) if a != b), min(len(seq), len(dec)))
        print("FAIL (%s): decoded stream differs from the source at index %d of %d (decoded length %d)" % (what, bad, len(seq), len(dec)))
        if bad < len(seq) and bad < len(dec):
            print("   source %r  decoded %r" % (seq[bad : bad + 8], dec[bad : bad + 8]))
        sys.exit(1)

"""Helpers for the C12 demonstrations: a tiny TFLite model builder, a wrapper around the Vela command line
and an independent checker of the OfflineMemoryAllocation plan of an output model."""
import csv
import glob
import io
import os
import struct
import sys
import contextlib

ROOT = os.path.dirname(os.path.dirname(os.path.abspath(__file__)))
sys.path.insert(0, ROOT)

import numpy as np  # noqa: E402
import flatbuffers  # noqa: E402

import ethosu.vela  # noqa: E402

assert os.path.abspath(ethosu.vela.__file__).startswith(ROOT + os.sep), ethosu.vela.__file__

from ethosu.vela.tflite import Model as M  # noqa: E402
from ethosu.vela.tflite.BuiltinOperator import BuiltinOperator  # noqa: E402
from ethosu.vela.tflite.BuiltinOptions import BuiltinOptions  # noqa: E402
from ethosu.vela.tflite.TensorType import TensorType  # noqa: E402

NP_TYPE = {
    TensorType.INT8: np.int8,
    TensorType.UINT8: np.uint8,
    TensorType.INT16: np.int16,
    TensorType.INT32: np.int32,
    TensorType.FLOAT32: np.float32,
    TensorType.INT64: np.int64,
}


class ModelBuilder:
    """Builds a single- or multi-subgraph TFLite flatbuffer."""

    def __init__(self):
        self.b = flatbuffers.Builder(1024)
        self.buffers = [None]  # buffer 0 is the empty one
        self.subgraphs = []
        self.opcodes = []  # (builtin, custom_code)
        self.cur = None

    # ---- description phase (pure python) ----
    def subgraph(self, name="main"):
        self.cur = {"name": name, "tensors": [], "ops": [], "inputs": [], "outputs": []}
        self.subgraphs.append(self.cur)
        return len(self.subgraphs) - 1

    def tensor(self, name, shape, ttype=TensorType.INT8, data=None, scale=0.05, zp=0, is_variable=False, quant=True):
        buf = 0
        if data is not None:
            data = np.asarray(data, dtype=NP_TYPE[ttype])
            self.buffers.append(data.tobytes())
            buf = len(self.buffers) - 1
        self.cur["tensors"].append(
            dict(name=name, shape=list(shape), type=ttype, buffer=buf, scale=scale, zp=zp, var=is_variable, quant=quant)
        )
        return len(self.cur["tensors"]) - 1

    def op(self, builtin, inputs, outputs, opt_type=0, opt_fields=None, custom_code=None, n_opt_slots=8):
        key = (builtin, custom_code)
        if key not in self.opcodes:
            self.opcodes.append(key)
        self.cur["ops"].append(
            dict(code=self.opcodes.index(key), inputs=list(inputs), outputs=list(outputs), opt_type=opt_type,
                 opt_fields=opt_fields or [], n_slots=n_opt_slots)
        )

    def io(self, inputs, outputs):
        self.cur["inputs"] = list(inputs)
        self.cur["outputs"] = list(outputs)

    # ---- convenience operators ----
    def conv2d(self, ifm, w, bias, ofm, stride=1, padding=0):
        # Conv2DOptions: padding(i8) stride_w stride_h fused_act(i8) dil_w dil_h
        self.op(BuiltinOperator.CONV_2D, [ifm, w, bias], [ofm], BuiltinOptions.Conv2DOptions,
                [(0, "i8", padding, 0), (1, "i32", stride, 0), (2, "i32", stride, 0), (3, "i8", 0, 0), (4, "i32", 1, 1),
                 (5, "i32", 1, 1)])

    def add(self, a, b, out):
        self.op(BuiltinOperator.ADD, [a, b], [out], BuiltinOptions.AddOptions, [(0, "i8", 0, 0)])

    def mul(self, a, b, out):
        self.op(BuiltinOperator.MUL, [a, b], [out], BuiltinOptions.MulOptions, [(0, "i8", 0, 0)])

    def pool(self, builtin, ifm, ofm, k, stride, padding=1):
        self.op(builtin, [ifm], [ofm], BuiltinOptions.Pool2DOptions,
                [(0, "i8", padding, 0), (1, "i32", stride, 0), (2, "i32", stride, 0), (3, "i32", k, 0), (4, "i32", k, 0),
                 (5, "i8", 0, 0)])

    def cpu_pool(self, ifm, ofm):
        """A max pool the NPU does not support (stride 4): stays on the CPU; VALID padding, 4x4 window"""
        self.pool(BuiltinOperator.MAX_POOL_2D, ifm, ofm, 4, 4, padding=1)

    # ---- serialisation ----
    def _vec_i32(self, v):
        b = self.b
        b.StartVector(4, len(v), 4)
        for e in reversed(v):
            b.PrependInt32(e)
        return b.EndVector()

    def _vec_off(self, v):
        b = self.b
        b.StartVector(4, len(v), 4)
        for e in reversed(v):
            b.PrependUOffsetTRelative(e)
        return b.EndVector()

    def _tensor(self, t):
        b = self.b
        shape = self._vec_i32(t["shape"])
        name = b.CreateString(t["name"])
        q = None
        if t["quant"]:
            b.StartVector(4, 1, 4)
            b.PrependFloat32(t["scale"])
            sc = b.EndVector()
            b.StartVector(8, 1, 8)
            b.PrependInt64(t["zp"])
            zp = b.EndVector()
            b.StartObject(7)
            b.PrependUOffsetTRelativeSlot(2, sc, 0)
            b.PrependUOffsetTRelativeSlot(3, zp, 0)
            q = b.EndObject()
        b.StartObject(10)
        b.PrependUOffsetTRelativeSlot(0, shape, 0)
        b.PrependInt8Slot(1, t["type"], 0)
        b.PrependUint32Slot(2, t["buffer"], 0)
        b.PrependUOffsetTRelativeSlot(3, name, 0)
        if q is not None:
            b.PrependUOffsetTRelativeSlot(4, q, 0)
        b.PrependBoolSlot(5, t["var"], 0)
        return b.EndObject()

    def _op(self, o):
        b = self.b
        ins = self._vec_i32(o["inputs"])
        outs = self._vec_i32(o["outputs"])
        opt = None
        if o["opt_type"]:
            b.StartObject(o["n_slots"])
            for slot, kind, val, default in o["opt_fields"]:
                if kind == "i8":
                    b.PrependInt8Slot(slot, val, default)
                elif kind == "i32":
                    b.PrependInt32Slot(slot, val, default)
                elif kind == "bool":
                    b.PrependBoolSlot(slot, val, default)
                elif kind == "f32":
                    b.PrependFloat32Slot(slot, val, default)
                else:
                    raise ValueError(kind)
            opt = b.EndObject()
        b.StartObject(11)
        b.PrependUint32Slot(0, o["code"], 0)
        b.PrependUOffsetTRelativeSlot(1, ins, 0)
        b.PrependUOffsetTRelativeSlot(2, outs, 0)
        if opt is not None:
            b.PrependUint8Slot(3, o["opt_type"], 0)
            b.PrependUOffsetTRelativeSlot(4, opt, 0)
        return b.EndObject()

    def finish(self):
        b = self.b
        opcodes = []
        for builtin, custom in self.opcodes:
            cc = b.CreateString(custom) if custom else None
            b.StartObject(4)
            b.PrependInt8Slot(0, min(builtin, 127), 0)
            if cc is not None:
                b.PrependUOffsetTRelativeSlot(1, cc, 0)
            b.PrependInt32Slot(2, 1, 1)
            b.PrependInt32Slot(3, builtin, 0)
            opcodes.append(b.EndObject())
        opcodes = self._vec_off(opcodes)
        sgs = []
        for sg in self.subgraphs:
            tensors = self._vec_off([self._tensor(t) for t in sg["tensors"]])
            ins = self._vec_i32(sg["inputs"])
            outs = self._vec_i32(sg["outputs"])
            ops = self._vec_off([self._op(o) for o in sg["ops"]])
            name = b.CreateString(sg["name"])
            b.StartObject(5)
            b.PrependUOffsetTRelativeSlot(0, tensors, 0)
            b.PrependUOffsetTRelativeSlot(1, ins, 0)
            b.PrependUOffsetTRelativeSlot(2, outs, 0)
            b.PrependUOffsetTRelativeSlot(3, ops, 0)
            b.PrependUOffsetTRelativeSlot(4, name, 0)
            sgs.append(b.EndObject())
        sgs = self._vec_off(sgs)
        bufs = []
        for data in self.buffers:
            d = None
            if data is not None:
                b.StartVector(1, len(data), 16)
                b.head = b.head - len(data)
                b.Bytes[b.head : b.head + len(data)] = data
                d = b.EndVector()
            b.StartObject(3)
            if d is not None:
                b.PrependUOffsetTRelativeSlot(0, d, 0)
            bufs.append(b.EndObject())
        bufs = self._vec_off(bufs)
        desc = b.CreateString("c12 test model")
        b.StartObject(8)
        b.PrependUint32Slot(0, 3, 0)
        b.PrependUOffsetTRelativeSlot(1, opcodes, 0)
        b.PrependUOffsetTRelativeSlot(2, sgs, 0)
        b.PrependUOffsetTRelativeSlot(3, desc, 0)
        b.PrependUOffsetTRelativeSlot(4, bufs, 0)
        model = b.EndObject()
        b.Finish(model, b"TFL3")
        return bytes(b.Output())


def rng_weights(shape, seed=1):
    return np.random.RandomState(seed).randint(-20, 20, size=shape)


# ---------------------------------------------------------------------------------------------------------------------
def run_vela(model_bytes, out_dir, name="net", extra_args=(), quiet=True):
    """Runs the command line entry point in-process. Returns (path of the output model, path of the summary csv, console)"""
    from ethosu.vela import vela

    os.makedirs(out_dir, exist_ok=True)
    src = os.path.join(out_dir, name + ".tflite")
    with open(src, "wb") as f:
        f.write(model_bytes)
    args = [src, "--output-dir", out_dir] + list(extra_args)
    # a separate process: the console summary is written to the sys.stdout the module was imported with
    import subprocess

    code = (
        "import sys; sys.path.insert(0, %r); import ethosu.vela as v; assert v.__file__.startswith(%r), v.__file__; "
        "from ethosu.vela import vela; sys.exit(vela.main(%r))" % (ROOT, ROOT + os.sep, args)
    )
    proc = subprocess.run([sys.executable, "-c", code], stdout=subprocess.PIPE, stderr=subprocess.STDOUT, text=True)
    console = proc.stdout
    assert proc.returncode == 0, f"vela failed ({proc.returncode}):\n{console[-3000:]}"
    return_console = console
    out = os.path.join(out_dir, name + "_vela.tflite")
    csvs = glob.glob(os.path.join(out_dir, name + "_summary_*.csv"))
    assert len(csvs) == 1, csvs
    return out, csvs[0], return_console


ELEM_SIZE = {
    TensorType.INT8: 1, TensorType.UINT8: 1, TensorType.INT16: 2, TensorType.INT32: 4, TensorType.FLOAT32: 4,
    TensorType.INT64: 8, TensorType.BOOL: 1, TensorType.FLOAT16: 2, TensorType.FLOAT64: 8, TensorType.UINT32: 4,
    TensorType.UINT16: 2, TensorType.UINT64: 8, TensorType.INT4: 0.5,  # int4 is stored packed, two values per byte
}


class OutTensor:
    def __init__(self):
        self.name = None
        self.size = 0
        self.offset = -1
        self.first = None
        self.last = None
        self.is_input = False
        self.is_output = False
        self.const = False

    def __repr__(self):
        return f"<{self.name} off={self.offset} size={self.size} live={self.first}..{self.last}>"


class OutModel:
    """The facts of an output model that matter to the arena plan, read from the flatbuffer alone"""

    def __init__(self, path):
        with open(path, "rb") as f:
            buf = bytearray(f.read())
        model = M.Model.GetRootAsModel(buf, 0)
        self.model = model
        meta = None
        for i in range(model.MetadataLength()):
            md = model.Metadata(i)
            if md.Name() == b"OfflineMemoryAllocation":
                assert meta is None, "two OfflineMemoryAllocation records"
                meta = np.frombuffer(model.Buffers(md.Buffer()).DataAsNumpy().tobytes(), dtype=np.int32)
        assert meta is not None, "no OfflineMemoryAllocation metadata"
        self.meta = meta
        self.version, self.n_sg, self.n_tens = (int(x) for x in meta[:3])
        offsets = [int(x) for x in meta[3:]]
        assert len(offsets) == self.n_tens, (len(offsets), self.n_tens)
        assert self.n_sg == model.SubgraphsLength()
        self.subgraphs = []
        pos = 0
        for s in range(model.SubgraphsLength()):
            sg = model.Subgraphs(s)
            tensors = []
            for t in range(sg.TensorsLength()):
                ft = sg.Tensors(t)
                ot = OutTensor()
                ot.name = ft.Name().decode()
                shape = [ft.Shape(k) for k in range(ft.ShapeLength())]
                ot.shape = shape
                ot.size = int(-(-(int(np.prod(shape, dtype=np.int64)) if shape else 1) * ELEM_SIZE[ft.Type()] // 1))
                ot.offset = offsets[pos + t]
                ot.buffer = ft.Buffer()
                b = model.Buffers(ft.Buffer())
                ot.const = b.DataLength() > 0
                tensors.append(ot)
            pos += sg.TensorsLength()
            ops = []
            for o in range(sg.OperatorsLength()):
                fo = sg.Operators(o)
                code = model.OperatorCodes(fo.OpcodeIndex())
                custom = code.CustomCode().decode() if code.CustomCode() is not None else None
                ins = [fo.Inputs(k) for k in range(fo.InputsLength())]
                outs = [fo.Outputs(k) for k in range(fo.OutputsLength())]
                ops.append((max(code.BuiltinCode(), code.DeprecatedBuiltinCode()), custom, ins, outs))
            sg_in = [sg.Inputs(k) for k in range(sg.InputsLength())]
            sg_out = [sg.Outputs(k) for k in range(sg.OutputsLength())]
            for i in sg_in:
                tensors[i].is_input = True
            for i in sg_out:
                tensors[i].is_output = True
            # live ranges under the operator order of the output graph
            n_ops = len(ops)
            for t in tensors:
                t.first, t.last = None, None
            for i in sg_in:
                tensors[i].first = -1
            for idx, (_, _, ins, outs) in enumerate(ops):
                for i in ins + outs:
                    if i < 0:
                        continue
                    t = tensors[i]
                    if t.first is None:
                        t.first = idx
                    t.last = idx if t.last is None else max(t.last, idx)
            for i in sg_in:
                if tensors[i].last is None:
                    tensors[i].last = -1
            for i in sg_out:
                tensors[i].last = n_ops
                if tensors[i].first is None:
                    tensors[i].first = n_ops
            self.subgraphs.append(dict(tensors=tensors, ops=ops, inputs=sg_in, outputs=sg_out))
        assert pos == self.n_tens, (pos, self.n_tens)

    def arena_tensors(self, sg=0):
        return [t for t in self.subgraphs[sg]["tensors"] if t.offset >= 0 and not t.const]

    def scratch_tensors(self, sg=0):
        """The Ethos-U scratch tensors: input 3 (scratch) of every ethos-u custom operator"""
        tensors = self.subgraphs[sg]["tensors"]
        res = []
        for code, custom, ins, outs in self.subgraphs[sg]["ops"]:
            if custom == "ethos-u":
                res.append(tensors[ins[2]])
        return res

    def required_extent(self, sg=0):
        return max([t.offset + t.size for t in self.arena_tensors(sg)], default=0)

    def check_plan(self, alignment=16, sg=0):
        """Returns a list of violations of the plan's self-consistency"""
        problems = []
        info = self.subgraphs[sg]
        tensors = info["tensors"]
        scratch = None
        npu_ops = [(idx, op) for idx, op in enumerate(info["ops"]) if op[1] == "ethos-u"]
        scratch_ids = set()
        fast_ids = set()
        for idx, (code, custom, ins, outs) in npu_ops:
            scratch_ids.add(ins[2])
            fast_ids.add(ins[3])
        assert len(scratch_ids) <= 1, "several scratch tensors"
        if scratch_ids:
            scratch = tensors[scratch_ids.pop()]
            if scratch.offset != 0:
                problems.append(f"scratch tensor '{scratch.name}' is at offset {scratch.offset}, not 0")
        fast = [tensors[i] for i in fast_ids]
        arena = [t for t in tensors if t.offset >= 0 and not t.const and t is not scratch and t not in fast]
        # an Ethos-U operator may write an output over one of its own inputs that nobody else reads afterwards
        npu_in = {}
        npu_out = {}
        for idx, (code, custom, ins, outs) in npu_ops:
            for i in ins[4:]:
                npu_in.setdefault(id(tensors[i]), set()).add(idx)
            for i in outs:
                npu_out.setdefault(id(tensors[i]), set()).add(idx)

        def npu_reuse(a, c):
            for inp, out in ((a, c), (c, a)):
                common = npu_in.get(id(inp), set()) & npu_out.get(id(out), set())
                if common and inp.last == out.first and inp.last in common and not inp.is_output:
                    return True
            return False
        npu_io = set()
        for idx, (code, custom, ins, outs) in npu_ops:
            # inputs 0..3 are command stream, flash, scratch, scratch_fast
            for i in ins[4:] + outs:
                t = tensors[i]
                npu_io.add(id(t))
                if t.offset < 0:
                    problems.append(f"operand '{t.name}' of the Ethos-U operator {idx} has no arena offset")
                elif scratch is not None and t.offset + t.size > scratch.size:
                    problems.append(
                        f"operand '{t.name}' of Ethos-U operator {idx} ends at {t.offset + t.size}, beyond the scratch "
                        f"tensor of {scratch.size} bytes"
                    )
        for t in arena:
            if t.first is None:
                continue
            if t.offset % alignment:
                problems.append(f"tensor '{t.name}' at offset {t.offset} is not aligned to {alignment}")
        live = [t for t in arena if t.first is not None]
        for i, a in enumerate(live):
            for c in live[i + 1 :]:
                if npu_reuse(a, c):
                    continue
                if max(a.first, c.first) <= min(a.last, c.last) and max(a.offset, c.offset) < min(
                    a.offset + a.size, c.offset + c.size
                ):
                    problems.append(f"tensors {a} and {c} overlap while both are live")
        return problems


def read_summary(csv_path):
    with open(csv_path) as f:
        rows = list(csv.DictReader(f))
    assert len(rows) == 1
    return rows[0]


def console_used(console):
    """Memory usage lines of the console summary in bytes: {'SRAM': (bytes, resolution in bytes), ...}"""
    import re

    units = {"B": 1, "Bytes": 1, "KiB": 1024, "KB": 1000, "MiB": 1024 * 1024, "MB": 1000 * 1000, "GiB": 1024**3}
    res = {}
    for m in re.finditer(r"^Total (.+?) used\s+([0-9]+)(\.[0-9]+)? *(\w+)\s*$", console, re.M):
        frac = m.group(3) or ""
        value = float(m.group(2) + frac)
        unit = units[m.group(4)]
        digits = max(len(frac) - 1, 0)
        res[m.group(1)] = (value * unit, unit / (10**digits))
    return res

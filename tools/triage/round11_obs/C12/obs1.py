"""Observation (unchanged tree): compiling a model that already contains Ethos-U operators (the output of an earlier Vela
run, which Vela accepts: CustomType.ExistingNpuOp) produces an OfflineMemoryAllocation plan that no longer matches the command
streams it carries over unchanged.

The first run places the Ethos-U operators' inputs/outputs inside the scratch tensor (offset 0, spanning the whole arena) and
bakes those offsets into the command streams.  The second run treats the old scratch / scratch_fast tensors as ordinary
feature maps, allocates every tensor afresh, and writes a plan in which the operands of the (unchanged) Ethos-U operators lie
outside the scratch tensor: the command stream touches arena bytes [0, scratch size) that the plan gives to the scratch tensor
only, while the operator's own inputs and outputs are somewhere else.  The reported arena size also grows (scratch + scratch_fast
+ all feature maps)."""
import os
import sys
import tempfile

sys.path.insert(0, os.path.dirname(os.path.abspath(__file__)))
from c12lib import ModelBuilder, OutModel, TensorType, np, rng_weights, run_vela  # noqa: E402


def net():
    mb = ModelBuilder()
    mb.subgraph()
    x = mb.tensor("x", [1, 32, 32, 16])
    w1 = mb.tensor("w1", [16, 3, 3, 16], data=rng_weights([16, 3, 3, 16]), scale=0.01)
    b1 = mb.tensor("b1", [16], TensorType.INT32, data=np.zeros(16), scale=0.0005)
    a = mb.tensor("a", [1, 32, 32, 16])
    p = mb.tensor("p", [1, 8, 8, 16])
    w2 = mb.tensor("w2", [16, 3, 3, 16], data=rng_weights([16, 3, 3, 16], 2), scale=0.01)
    b2 = mb.tensor("b2", [16], TensorType.INT32, data=np.zeros(16), scale=0.0005)
    y = mb.tensor("y", [1, 8, 8, 16])
    mb.conv2d(x, w1, b1, a)
    mb.cpu_pool(a, p)
    mb.conv2d(p, w2, b2, y)
    mb.io([x], [y])
    return mb.finish()


args = ["--accelerator-config", "ethos-u55-128"]
out1, _, _ = run_vela(net(), tempfile.mkdtemp(prefix="c12o1_"), extra_args=args)
first = OutModel(out1)
assert not first.check_plan(), first.check_plan()
with open(out1, "rb") as f:
    compiled = f.read()
out2, _, _ = run_vela(compiled, tempfile.mkdtemp(prefix="c12o1_"), name="again", extra_args=args)
second = OutModel(out2)
problems = second.check_plan()
if problems:
    print("DEFECT: second compilation of an already compiled model gives an inconsistent plan")
    for p in problems:
        print("  ", p)
    sys.exit(1)
print("ok")

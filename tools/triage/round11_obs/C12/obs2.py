"""Observation (unchanged tree): INT4 tensors in the tensor arena get 16 bytes, whatever their shape.

Tensor.element_size() is dtype.size_in_bits() // 8, which is 0 for DataType.int4; storage_size() then 'forces the tensor to
take up space' with 1 byte, rounded up to 16.  Two INT4 tensors of 1x8x8x16 values (512 bytes each when packed two per byte, as
TensorFlow Lite stores int4) that are live at the same time (both outputs of one CPU operator and inputs of the next) are placed
16 bytes apart by the OfflineMemoryAllocation metadata, and the reported arena size does not cover them either."""
import os
import sys
import tempfile

sys.path.insert(0, os.path.dirname(os.path.abspath(__file__)))
from c12lib import BuiltinOperator, ModelBuilder, OutModel, TensorType, read_summary, run_vela  # noqa: E402

mb = ModelBuilder()
mb.subgraph()
x = mb.tensor("x", [1, 8, 8, 16])
a = mb.tensor("a", [1, 8, 8, 16], TensorType.INT4)
b = mb.tensor("b", [1, 8, 8, 16], TensorType.INT4)
y = mb.tensor("y", [1, 8, 8, 16])
mb.op(BuiltinOperator.CUSTOM, [x], [a, b], custom_code="Quant4")
mb.op(BuiltinOperator.CUSTOM, [a, b], [y], custom_code="Dequant4")
mb.io([x], [y])

out, csv_path, _ = run_vela(mb.finish(), tempfile.mkdtemp(prefix="c12o2_"), extra_args=["--accelerator-config", "ethos-u55-128"])
om = OutModel(out)
problems = om.check_plan()
need = om.required_extent()
reported = float(read_summary(csv_path)["sram_memory_used"]) * 1024
if reported < need:
    problems.append(f"summary csv reports {reported:.0f} bytes of SRAM, the plan needs {need}")
if problems:
    print("DEFECT: INT4 tensors are under-allocated in the arena")
    for p in problems:
        print("  ", p)
    sys.exit(1)
print("ok")

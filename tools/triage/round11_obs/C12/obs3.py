"""Observation (unchanged tree): the console summary rounds the memory usage to two decimals of a KiB ("%.2f KiB"), i.e. to the
NEAREST 10.24 bytes, so the printed 'Total SRAM used' can be up to 5 bytes BELOW the arena size the plan needs (the arena size
is a multiple of 16 bytes, not of 10.24).  A user who sizes the tensor arena from the console number gets an arena that is a few
bytes too small.  (The summary CSV carries the exact value.)"""
import os
import sys
import tempfile

sys.path.insert(0, os.path.dirname(os.path.abspath(__file__)))
from c12lib import ModelBuilder, OutModel, TensorType, console_used, np, rng_weights, run_vela  # noqa: E402

mb = ModelBuilder()
mb.subgraph()
x = mb.tensor("x", [1, 40, 256, 16])
w1 = mb.tensor("w1", [16, 1, 1, 16], data=rng_weights([16, 1, 1, 16]), scale=0.01)
b1 = mb.tensor("b1", [16], TensorType.INT32, data=np.zeros(16), scale=0.0005)
y = mb.tensor("y", [1, 40, 256, 16])
mb.conv2d(x, w1, b1, y)
mb.io([x], [y])
out, _, console = run_vela(mb.finish(), tempfile.mkdtemp(prefix="c12o3_"), extra_args=["--accelerator-config", "ethos-u55-128"])
om = OutModel(out)
assert not om.check_plan()
need = om.required_extent()
printed, _ = console_used(console)["SRAM"]
if printed < need:
    print(f"DEFECT: console reports {printed:.2f} bytes of SRAM ({printed / 1024:.2f} KiB), the plan needs {need} bytes")
    sys.exit(1)
print("ok")

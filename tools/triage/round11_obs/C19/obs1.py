# Observation 1 (unchanged tree): lut.create_lut_int16_op packs each int16 table entry as "slope + base" with
# slope = (values[i+1] - values[i]) << 16 and base = int(values[i]). The two are separate 16 bit fields of the 32 bit
# hardware entry (top 16 bits slope, bottom 16 bits base - see the ArgMax LUT in tflite_graph_optimiser, which builds
# them with masks). When the base is negative, adding the sign-extended base borrows from the upper half: the stored
# slope field is (values[i+1] - values[i]) - 1. Every segment of an int16 Exp/Log/Sqrt/Gelu table whose base value is
# negative (Log below 1.0, Gelu for negative inputs, ...) therefore interpolates with a slope that is one too small,
# i.e. base[i] + slope[i] != base[i+1].
import math
import os
import sys
import warnings

ROOT = os.path.dirname(os.path.dirname(os.path.abspath(__file__)))
sys.path.insert(0, ROOT)

import numpy as np  # noqa: E402

import ethosu.vela  # noqa: E402
from ethosu.vela.data_type import DataType  # noqa: E402
from ethosu.vela.operation import Op  # noqa: E402
from ethosu.vela.operation import Operation  # noqa: E402
from ethosu.vela.tensor import QuantizationParameters  # noqa: E402
from ethosu.vela.tensor import Tensor  # noqa: E402
from ethosu.vela.test import testutil  # noqa: E402
from ethosu.vela.tflite_graph_optimiser import convert_ops_to_lut  # noqa: E402

assert os.path.abspath(ethosu.vela.__file__).startswith(ROOT + os.sep), ethosu.vela.__file__
warnings.simplefilter("ignore")


def quant(scale):
    qp = QuantizationParameters()
    qp.scale_f32 = np.float32(scale)
    qp.zero_point = np.int64(0)
    qp.quant_min = -32768
    qp.quant_max = 32767
    return qp


def s16(v):
    v &= 0xFFFF
    return v - 65536 if v >= 32768 else v


bad = 0
for op_type, s_in, s_out in [(Op.Gelu, 0.0002, 0.0002), (Op.Log, 0.0005, 0.0004)]:
    ifm = Tensor([1, 2, 2, 8], DataType.int16, "in")
    ifm.quantization = quant(s_in)
    ofm = Tensor([1, 2, 2, 8], DataType.int16, "out")
    ofm.quantization = quant(s_out)
    op = Operation(op_type, "op")
    op.attrs["approximate"] = False
    op.add_input_tensor(ifm)
    op.set_output_tensor(ofm)
    op.set_ifm_ofm_shapes()
    op = convert_ops_to_lut(op, testutil.create_arch(), None)
    entries = [int(v) for v in op.activation_lut.values.flatten()]
    assert len(entries) == 512
    n = 0
    for i in range(511):
        base, slope = s16(entries[i]), s16(entries[i] >> 16)
        nxt = s16(entries[i + 1])
        if base + slope != nxt:
            n += 1
            if n <= 3:
                print(f"{op_type.name}: entry {i}: base {base} + slope {slope} = {base + slope}, next base is {nxt}")
    print(f"{op_type.name}: {n} of 511 segments do not reach the next base value")
    bad += n
if bad:
    sys.exit(1)
print("OK")

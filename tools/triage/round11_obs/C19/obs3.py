# Observation 3 (unchanged tree): lut.create_lut_8bit_op divides the Python-float function value by the np.float32 output
# scale. Under NumPy 2 promotion rules (a Python float is "weak") the division y_real / ofm_scale is carried out in float32,
# so the quotient is rounded to 24 bits before round_away_zero(). Entries whose exact quotient lies just below / above a .5
# boundary are rounded to the wrong code, i.e. the table is not the correctly rounded value of the real function
# (convert_to_lut8 for Sigmoid/Tanh widens the scales with np.double() first and does not have this problem).
import math
import os
import sys
import warnings

ROOT = os.path.dirname(os.path.dirname(os.path.abspath(__file__)))
sys.path.insert(0, ROOT)

import numpy as np  # noqa: E402

import ethosu.vela  # noqa: E402
from ethosu.vela.data_type import DataType  # noqa: E402
from ethosu.vela.operation import Op  # noqa: E402
from ethosu.vela.operation import Operation  # noqa: E402
from ethosu.vela.tensor import QuantizationParameters  # noqa: E402
from ethosu.vela.tensor import Tensor  # noqa: E402
from ethosu.vela.test import testutil  # noqa: E402
from ethosu.vela.tflite_graph_optimiser import convert_ops_to_lut  # noqa: E402

assert os.path.abspath(ethosu.vela.__file__).startswith(ROOT + os.sep), ethosu.vela.__file__
warnings.simplefilter("ignore")
arch = testutil.create_arch()


def quant(scale, zp):
    qp = QuantizationParameters()
    qp.scale_f32 = np.float32(scale)
    qp.zero_point = np.int64(zp)
    qp.quant_min = -128
    qp.quant_max = 127
    return qp


def table(s_in, zp_in, s_out, zp_out):
    ifm = Tensor([1, 2, 2, 8], DataType.int8, "in")
    ifm.quantization = quant(s_in, zp_in)
    ofm = Tensor([1, 2, 2, 8], DataType.int8, "out")
    ofm.quantization = quant(s_out, zp_out)
    op = Operation(Op.Exp, "op")
    op.add_input_tensor(ifm)
    op.set_output_tensor(ofm)
    op.set_ifm_ofm_shapes()
    op = convert_ops_to_lut(op, arch, None)
    return [int(v) for v in op.activation_lut.values.flatten()]


# Exp with input scale 1/64 (exact): code c -> exp(c/64) / s_out. Search float32 output scales for which the exact (double)
# quotient of some code is close to, but clearly not on, a .5 boundary while the float32 quotient falls on the other side.
s_in = 1.0 / 64
found = []
for code in range(-64, 128, 7):
    y = math.exp(code * s_in)
    for k in range(20, 250, 9):
        s0 = np.float32(y / (k + 0.5))
        for s in (s0, np.nextafter(s0, np.float32(0)), np.nextafter(s0, np.float32(1))):
            q64 = y / float(s)
            if abs(q64 - math.floor(q64) - 0.5) < 1e-9:
                continue
            want = math.floor(q64 + 0.5)
            q32 = float(np.float32(y) / s)
            if math.floor(q32 + 0.5) == want or want > 255:
                continue
            got = table(s_in, 0, float(s), -128)[code + 128]
            if got != want - 128:
                found.append((float(s), code, q64, got, want - 128))
        if len(found) >= 3:
            break
    if len(found) >= 3:
        break
for s, code, q, got, want in found:
    print(f"Exp int8, in scale 1/64, out scale {s!r}, zero point -128: code {code}: exp(x)/scale = {q:.7f} -> table has {got}, correctly rounded value is {want}")
if found:
    sys.exit(1)
print("OK (no mis-rounded entry found)")

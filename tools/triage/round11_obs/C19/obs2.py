# Observation 2 (unchanged tree): convert_mul_max_to_abs_or_lrelu decides on, and stores as op.attrs["alpha"], the RAW
# quantised code of the Mul constant (const.outputs[0].values), not its real value scale * (code - zero_point).
#  (a) A constant with code 0 but a non-zero zero point (real alpha 0.256 here) yields LeakyRelu(alpha=0); convert_lrelu
#      then turns alpha == 0 into a plain ReLU, so no leaky-ReLU table is generated at all and negative inputs give 0
#      instead of 0.256 * x.
#  (b) "val >= 0" also accepts real factors above 1, where max(x, a*x) is a*x for POSITIVE x and x for negative x, which is
#      not a LeakyRelu; the generated table applies the factor to the negative codes and the identity to the positive ones.
# In both cases the table / operator that replaces Max(x, Mul(x, c)) does not hold the rounded value of the real function.
import os
import sys
import warnings

ROOT = os.path.dirname(os.path.dirname(os.path.abspath(__file__)))
sys.path.insert(0, ROOT)

import numpy as np  # noqa: E402

import ethosu.vela  # noqa: E402
from ethosu.vela.data_type import DataType  # noqa: E402
from ethosu.vela.operation import Op  # noqa: E402
from ethosu.vela.operation import Operation  # noqa: E402
from ethosu.vela.tensor import create_const_tensor  # noqa: E402
from ethosu.vela.tensor import QuantizationParameters  # noqa: E402
from ethosu.vela.tensor import Tensor  # noqa: E402
from ethosu.vela.test import testutil  # noqa: E402
from ethosu.vela.tflite_graph_optimiser import convert_lrelu  # noqa: E402
from ethosu.vela.tflite_graph_optimiser import convert_mul_max_to_abs_or_lrelu  # noqa: E402

assert os.path.abspath(ethosu.vela.__file__).startswith(ROOT + os.sep), ethosu.vela.__file__
warnings.simplefilter("ignore")
arch = testutil.create_arch()


def quant(scale, zp):
    qp = QuantizationParameters()
    qp.scale_f32 = np.float32(scale)
    qp.zero_point = np.int64(zp)
    qp.quant_min = -128
    qp.quant_max = 127
    return qp


def build_and_rewrite(const_code, const_scale, const_zp, fm_scale):
    shape = [1, 4, 4, 8]
    x = Tensor(shape, DataType.int8, "x")
    x.quantization = quant(fm_scale, 0)
    producer = Operation(Op.Placeholder, "x_op")
    producer.set_output_tensor(x)
    c = create_const_tensor("c", [], DataType.int8, np.int8(const_code), quantization=quant(const_scale, const_zp))
    mul_out = Tensor(shape, DataType.int8, "mul_out")
    mul_out.quantization = quant(fm_scale, 0)
    mul = Operation(Op.Mul, "mul")
    mul.add_input_tensor(x)
    mul.add_input_tensor(c)
    mul.set_output_tensor(mul_out)
    mul.set_ifm_ofm_shapes()
    mul.run_on_npu = True
    out = Tensor(shape, DataType.int8, "out")
    out.quantization = quant(fm_scale, 0)
    mx = Operation(Op.Maximum, "Maximum")
    mx.add_input_tensor(x)
    mx.add_input_tensor(mul_out)
    mx.set_output_tensor(out)
    mx.set_ifm_ofm_shapes()
    mx.run_on_npu = True
    op = convert_mul_max_to_abs_or_lrelu(mx, arch, None)
    op = convert_lrelu(op, arch, None)
    return op


problems = []
# (a) real alpha = 0.002 * (0 - (-128)) = 0.256
op = build_and_rewrite(0, 0.002, -128, 0.1)
if op.type == Op.Relu or (op.type != Op.Maximum and op.activation_lut is None):
    problems.append(f"(a) Max(x, 0.256*x) was rewritten to {op.type.name} without a table: negative inputs become 0")
elif op.activation_lut is not None:
    t = [int(v) for v in op.activation_lut.values.flatten()]
    if t[0] != round(0.256 * -128):
        problems.append(f"(a) table entry for code -128 is {t[0]}, expected {round(0.256 * -128)}")

# (b) real factor 2.0: max(x, 2x) = 2x for x > 0, x for x < 0
op = build_and_rewrite(2, 1.0, 0, 0.1)
if op.activation_lut is not None:
    t = [int(v) for v in op.activation_lut.values.flatten()]
    wrong = [(code, t[i]) for i, code in enumerate(range(-128, 128)) if t[i] != max(-128, min(127, max(code, 2 * code)))]
    if wrong:
        problems.append(f"(b) Max(x, 2*x): {len(wrong)} table entries differ from max(x, 2x), e.g. code {wrong[0][0]} -> {wrong[0][1]}")

if problems:
    for p in problems:
        print(p)
    sys.exit(1)
print("OK")

"""Shared helpers for the C08 demonstrations (direct use of the weight compressor)."""
import os
import sys
import types

ROOT = os.path.dirname(os.path.dirname(os.path.abspath(__file__)))
sys.path.insert(0, ROOT)

import numpy as np  # noqa: E402

import ethosu.vela  # noqa: E402

assert os.path.abspath(ethosu.vela.__file__).startswith(ROOT + os.sep), ethosu.vela.__file__

from ethosu import mlw_codec  # noqa: E402
from ethosu.vela import architecture_features  # noqa: E402
from ethosu.vela import weight_compressor as wc  # noqa: E402
from ethosu.vela.data_type import DataType  # noqa: E402
from ethosu.vela.operation import Op  # noqa: E402
from ethosu.vela.operation import Operation  # noqa: E402
from ethosu.vela.tensor import create_const_tensor  # noqa: E402
from ethosu.vela.tensor import QuantizationParameters  # noqa: E402
from ethosu.vela.tensor import Tensor  # noqa: E402
from ethosu.vela.tensor import TensorFormat  # noqa: E402
from ethosu.vela.tensor import TensorPurpose  # noqa: E402


def make_arch(name="ethos-u55-128"):
    acc = architecture_features.Accelerator.from_str(name) if hasattr(
        architecture_features.Accelerator, "from_str"
    ) else None
    if acc is None:
        acc = {a.value: a for a in architecture_features.Accelerator}[name]
    return architecture_features.create_default_arch(acc)


def quant(scale, zp=0):
    qp = QuantizationParameters()
    qp.scale_f32 = scale
    qp.zero_point = zp
    return qp


def make_conv(name, ifm_shape, weights, w_quant, bias_values, dtype=DataType.int8, dilation=(1, 1), stride=(1, 1),
              op_type=Op.Conv2DBias, ifm_scale=0.5, ofm_scale=0.25, ofm_shape=None, bias_dtype=DataType.int32):
    """weights: either a numpy array in HWIO layout or an existing weight Tensor (to share it)"""
    ifm = Tensor(list(ifm_shape), dtype, name + "_ifm")
    ifm.quantization = quant(np.float32(ifm_scale))
    if isinstance(weights, Tensor):
        w_tens = weights
    else:
        w_dtype = DataType.uint8 if weights.dtype == np.uint8 else DataType.int8
        w_tens = create_const_tensor(name + "_w", list(weights.shape), w_dtype, weights, TensorPurpose.Weights, w_quant)
    o_depth = w_tens.shape[-1]
    if ofm_shape is None:
        ofm_shape = [ifm_shape[0], ifm_shape[1], ifm_shape[2], o_depth]
    ofm = Tensor(list(ofm_shape), dtype, name + "_ofm")
    ofm.quantization = quant(np.float32(ofm_scale))
    bias = create_const_tensor(name + "_b", [o_depth], bias_dtype, list(bias_values), TensorPurpose.FeatureMap)
    bias.format = TensorFormat.NHWC
    op = Operation(op_type, name)
    op.add_input_tensor(ifm)
    op.add_input_tensor(w_tens)
    op.add_input_tensor(bias)
    op.set_output_tensor(ofm)
    op.attrs = {
        "padding": None,
        "stride_w": stride[0],
        "stride_h": stride[1],
        "strides": (1, stride[1], stride[0], 1),
        "dilation_w_factor": dilation[0],
        "dilation_h_factor": dilation[1],
        "dilation": (1, dilation[1], dilation[0], 1),
    }
    op.run_on_npu = True
    op.set_ifm_ofm_shapes()
    return op


def block_cfg(depth):
    return types.SimpleNamespace(ofm_block=types.SimpleNamespace(depth=depth))


def encode(arch, op, depth_offsets, block_depth):
    return wc.encode_weight_and_scale_tensor(
        arch, op, op.weights, op.bias, op.kernel, block_cfg(block_depth), list(depth_offsets)
    )


def fresh_encode(arch, op, depth_offsets, block_depth):
    """Encoding with an empty cache; the process-wide cache is restored afterwards"""
    saved = dict(wc.CompressedWeightCache.cache)
    wc.CompressedWeightCache.cache.clear()
    try:
        return encode(arch, op, depth_offsets, block_depth)
    finally:
        wc.CompressedWeightCache.cache.clear()
        wc.CompressedWeightCache.cache.update(saved)


def unpack_scale_record(rec):
    """10 bytes -> (bias40 signed, multiplier32, shift6)"""
    assert len(rec) == 10
    bias = int.from_bytes(bytes(rec[0:5]), "little", signed=False)
    if bias >= 1 << 39:
        bias -= 1 << 40
    mult = int.from_bytes(bytes(rec[5:9]), "little", signed=False)
    shift = rec[9] & 0x3F
    return bias, mult, shift


def reference_weight_stream(arch, weights_hwio_zp_corrected, core, ncores, d0, d1, block_depth, is_depthwise, part_kernel,
                            ifm_bitdepth, dilation=(1, 1)):
    """Independent re-computation of the encoded weight sub-stream of one (core, slice)"""
    brick = weights_hwio_zp_corrected[:, :, :, d0:d1]
    ohwi = np.ascontiguousarray(np.transpose(brick, (3, 0, 1, 2))[core::ncores]).astype(np.int16)
    core_block_depth = (block_depth + ncores - 1 - core) // ncores
    cfg = architecture_features.ArchitectureFeatures.accelerator_configs[arch.accelerator_config]
    enc, _ = mlw_codec.reorder_encode(
        cfg.ifm_ublock.depth, cfg.ofm_ublock.depth, ohwi, core_block_depth, is_depthwise, part_kernel, ifm_bitdepth,
        8 // dilation[1], 8 // dilation[0],
    )
    return bytes(enc)


def reference_reorder(ohwi, ifm_ublock_depth, ofm_ublock_depth, ofm_block_depth, is_depthwise, is_partkernel, ifm_bitdepth,
                      decomp_h, decomp_w):
    """Pure Python model of the order in which the NPU consumes the weights of one core/slice (OHWI input)."""
    ofm_depth, kernel_height, kernel_width, ifm_depth = ohwi.shape
    ifm_block_depth = 16 if (is_partkernel or ifm_bitdepth == 16) else 32
    out = []
    for ofm_block_z in range(0, ofm_depth, ofm_block_depth):
        clipped_ofm_block_depth = min(ofm_block_depth, ofm_depth - ofm_block_z)
        for ifm_block_z in range(0, 1 if is_depthwise else ifm_depth, ifm_block_depth):
            if is_depthwise:
                clipped_ifm_block_depth = ifm_ublock_depth
            elif is_partkernel:
                clipped_ifm_block_depth = min(ifm_block_depth, ifm_depth - ifm_block_z)
            else:
                clipped_ifm_block_depth = ifm_block_depth
            for subkernel_y in range(0, kernel_height, decomp_h):
                sub_height = min(kernel_height - subkernel_y, decomp_h)
                for subkernel_x in range(0, kernel_width, decomp_w):
                    sub_width = min(kernel_width - subkernel_x, decomp_w)
                    subkernel_elements = sub_width * sub_height
                    if is_partkernel:
                        q = 2 if ifm_bitdepth == 16 else 4
                        subkernel_elements = -(-subkernel_elements // q) * q
                    elif is_depthwise:
                        subkernel_elements = -(-subkernel_elements // 4) * 4
                    outer = clipped_ifm_block_depth if is_partkernel else 1
                    inner = 1 if is_partkernel else clipped_ifm_block_depth
                    for ifm_ublk_outer in range(0, outer, ifm_ublock_depth):
                        for ofm_ublk in range(0, clipped_ofm_block_depth, ofm_ublock_depth):
                            for element in range(subkernel_elements):
                                kx = element % sub_width
                                ky = element // sub_width
                                for ifm_ublk_inner in range(0, inner, ifm_ublock_depth):
                                    for ofm_ublock_z in range(ofm_ublock_depth):
                                        for ifm_ublock_z in range(1 if is_depthwise else ifm_ublock_depth):
                                            wx = subkernel_x + kx
                                            wy = subkernel_y + ky
                                            ifm_z = ifm_block_z + ifm_ublk_inner + ifm_ublk_outer + ifm_ublock_z
                                            ofm_z = ofm_block_z + ofm_ublk + ofm_ublock_z
                                            if ifm_z < ifm_depth and ofm_z < ofm_depth and ky < sub_height:
                                                out.append(int(ohwi[ofm_z, wy, wx, ifm_z]))
                                            else:
                                                out.append(0)
    return out


def expected_hw_weight_order(arch, weights_hwio_zp_corrected, core, ncores, d0, d1, block_depth, is_depthwise, part_kernel,
                             ifm_bitdepth, dilation=(1, 1)):
    brick = weights_hwio_zp_corrected[:, :, :, d0:d1]
    ohwi = np.transpose(brick, (3, 0, 1, 2))[core::ncores]
    core_block_depth = (block_depth + ncores - 1 - core) // ncores
    cfg = architecture_features.ArchitectureFeatures.accelerator_configs[arch.accelerator_config]
    return reference_reorder(ohwi, cfg.ifm_ublock.depth, cfg.ofm_ublock.depth, core_block_depth, is_depthwise, part_kernel,
                             ifm_bitdepth, 8 // dilation[1], 8 // dilation[0])

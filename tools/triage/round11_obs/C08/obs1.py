"""OBSERVATION (unchanged tree): the WeightCompressionConfig cache key omits the IFM bit depth (and the traversal that
is derived from it).

A TFLite weight tensor (int8) may be read by a convolution with int8 feature maps and by one with int16 feature maps
(16x8 quantisation).  tflite_reader gives each operator a clone of the tensor with the same value_id, so with equal block
depth / depth slices / dilation the second operator hits the process-wide CompressedWeightCache and receives the stream that
was reordered for the other bit depth (different IFM block depth 32/16, different part-kernel padding 4/2, possibly a
different block traversal).  The reused encoding is not byte-identical to a fresh encoding.
Exits non-zero when the defect is present.
"""
import os
import sys

sys.path.insert(0, os.path.dirname(os.path.abspath(__file__)))
import c08util as u  # noqa: E402
import numpy as np  # noqa: E402
from ethosu.vela import weight_compressor as wc  # noqa: E402
from ethosu.vela.data_type import DataType  # noqa: E402
from ethosu.vela.reader_util import clone_and_reshape_tensor  # noqa: E402
from ethosu.vela.tensor import create_const_tensor  # noqa: E402
from ethosu.vela.tensor import TensorPurpose  # noqa: E402

arch = u.make_arch("ethos-u55-128")
rng = np.random.default_rng(2)
ohwi = rng.integers(-127, 128, size=(16, 3, 3, 8)).astype(np.int8)
file_tens = create_const_tensor("shared_w", list(ohwi.shape), DataType.int8, ohwi, TensorPurpose.Weights,
                                u.quant(np.float32(0.02)))
op8 = u.make_conv("conv_int8", [1, 8, 8, 8], clone_and_reshape_tensor(file_tens, (1, 2, 3, 0), False), None, range(16))
op16 = u.make_conv("conv_int16", [1, 8, 8, 8], clone_and_reshape_tensor(file_tens, (1, 2, 3, 0), False), None, range(16),
                   dtype=DataType.int16, bias_dtype=DataType.int64)
wc.CompressedWeightCache.clear()
bad = []
for op in (op8, op16):
    got, _ = u.encode(arch, op, [0, 16], 16)
    want, _ = u.fresh_encode(arch, op, [0, 16], 16)
    rg, rw = got.encoded_ranges[wc.WeightKey(0, 0)], want.encoded_ranges[wc.WeightKey(0, 0)]
    if bytes(got.buffer[rg.offset + rg.weight_offset:][: rg.weight_bytes]) != bytes(
        want.buffer[rw.offset + rw.weight_offset:][: rw.weight_bytes]
    ):
        bad.append(f"{op.name}: cached weight stream ({rg.weight_bytes} bytes) differs from a fresh encoding "
                   f"({rw.weight_bytes} bytes)")
wc.CompressedWeightCache.clear()
if bad:
    print("defect present: " + "; ".join(bad))
    sys.exit(1)
print("not reproduced")

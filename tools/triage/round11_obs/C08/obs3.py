"""OBSERVATION (unchanged tree): the WeightCompressionConfig cache key omits the weight zero point although the cached
stream holds zero-point CORRECTED weights.

In a TOSA graph the weight zero point is an attribute of the operator (weight_zp): tosa_reader clones the constant for
every CONV2D that reads it (clone_and_reshape_tensor, same value_id) and then writes the operator's weight_zp into the
clone's own quantisation (TosaSubgraph.parse_operator -> set_tensor_zp).  Two convolutions that read the same constant with
different weight_zp therefore produce equal cache keys, and the second one receives weights that were corrected with the
first one's zero point.  This script replays exactly those reader steps on tensors and encodes both operators.
Exits non-zero when the defect is present.
"""
import os
import sys

sys.path.insert(0, os.path.dirname(os.path.abspath(__file__)))
import c08util as u  # noqa: E402
import numpy as np  # noqa: E402
from ethosu import mlw_codec  # noqa: E402
from ethosu.vela import weight_compressor as wc  # noqa: E402
from ethosu.vela.data_type import DataType  # noqa: E402
from ethosu.vela.reader_util import clone_and_reshape_tensor  # noqa: E402
from ethosu.vela.tensor import create_const_tensor  # noqa: E402
from ethosu.vela.tensor import TensorPurpose  # noqa: E402

arch = u.make_arch("ethos-u55-128")
rng = np.random.default_rng(6)
ohwi = rng.integers(-100, 100, size=(16, 1, 1, 32)).astype(np.int8)
const = create_const_tensor("shared_w", list(ohwi.shape), DataType.int8, ohwi, TensorPurpose.Weights,
                            u.quant(np.float32(0.02), None))
ops = []
for name, zp in (("conv_zp0", 0), ("conv_zp5", 5)):
    w = clone_and_reshape_tensor(const, (1, 2, 3, 0), False)
    w.quantization.zero_point = zp  # set_tensor_zp(op.weights, op.attrs["weight_zp"])
    ops.append((u.make_conv(name, [1, 8, 8, 32], w, None, range(16)), zp))
assert ops[0][0].weights.value_id == ops[1][0].weights.value_id
wc.CompressedWeightCache.clear()
bad = []
for op, zp in ops:
    got, _ = u.encode(arch, op, [0, 16], 16)
    r = got.encoded_ranges[wc.WeightKey(0, 0)]
    decoded = list(mlw_codec.decode(bytearray(got.buffer[r.offset + r.weight_offset:][: r.weight_bytes])))
    pk = got.hw_traversal == wc.NpuBlockTraversal.PART_KERNEL_FIRST
    want = u.expected_hw_weight_order(arch, op.weights.values.astype(np.int16) - zp, 0, 1, 0, 16, 16, False, pk, 8)
    if decoded[: len(want)] != want:
        bad.append(f"{op.name}: weight section does not hold the weights corrected with zero point {zp}")
wc.CompressedWeightCache.clear()
if bad:
    print("defect present: " + "; ".join(bad))
    sys.exit(1)
print("not reproduced")

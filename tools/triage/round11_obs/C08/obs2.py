"""OBSERVATION (unchanged tree): the WeightCompressionConfig cache key omits the operator kind.

encode_weight_and_scale_tensor flips the kernel in H and W for a transpose convolution (Op.Conv2DBackpropInputSwitchedBias)
but both it and an ordinary Conv2D have npu_block_type ConvolutionMxN, so the key (block type, block depth, depth slices,
dilation, value_id) is the same for a CONV_2D and a TRANSPOSE_CONV that read the same TFLite weight tensor (both take OHWI
filters; tflite_reader clones the tensor per operator and the clones share value_id).  Whichever is encoded second receives
the other one's stream: flipped where it must not be, or not flipped where it must be.
Exits non-zero when the defect is present.
"""
import os
import sys

sys.path.insert(0, os.path.dirname(os.path.abspath(__file__)))
import c08util as u  # noqa: E402
import numpy as np  # noqa: E402
from ethosu.vela import weight_compressor as wc  # noqa: E402
from ethosu.vela.data_type import DataType  # noqa: E402
from ethosu.vela.operation import Op  # noqa: E402
from ethosu.vela.reader_util import clone_and_reshape_tensor  # noqa: E402
from ethosu.vela.tensor import create_const_tensor  # noqa: E402
from ethosu.vela.tensor import TensorPurpose  # noqa: E402

arch = u.make_arch("ethos-u55-128")
rng = np.random.default_rng(4)
ohwi = rng.integers(-127, 128, size=(16, 3, 3, 16)).astype(np.int8)
file_tens = create_const_tensor("shared_w", list(ohwi.shape), DataType.int8, ohwi, TensorPurpose.Weights,
                                u.quant(np.float32(0.02)))
conv = u.make_conv("conv", [1, 8, 8, 16], clone_and_reshape_tensor(file_tens, (1, 2, 3, 0), False), None, range(16))
tconv = u.make_conv("transpose_conv", [1, 8, 8, 16], clone_and_reshape_tensor(file_tens, (1, 2, 3, 0), False), None,
                    range(16), op_type=Op.Conv2DBackpropInputSwitchedBias, ofm_shape=[1, 16, 16, 16])
# the transpose convolution keeps the (constant) output-shape tensor at index 2, the bias is input 3
tconv.inputs.insert(2, create_const_tensor("out_shape", [4], DataType.int32, [1, 16, 16, 16]))
assert tconv.bias is not None and tconv.weights is conv.weights or tconv.weights.value_id == conv.weights.value_id
wc.CompressedWeightCache.clear()
bad = []
for op in (conv, tconv):
    got, _ = u.encode(arch, op, [0, 16], 16)
    want, _ = u.fresh_encode(arch, op, [0, 16], 16)
    rg, rw = got.encoded_ranges[wc.WeightKey(0, 0)], want.encoded_ranges[wc.WeightKey(0, 0)]
    if bytes(got.buffer[rg.offset + rg.weight_offset:][: rg.weight_bytes]) != bytes(
        want.buffer[rw.offset + rw.weight_offset:][: rw.weight_bytes]
    ):
        bad.append(f"{op.name}: cached weight stream differs from a fresh encoding")
wc.CompressedWeightCache.clear()
if bad:
    print("defect present: " + "; ".join(bad))
    sys.exit(1)
print("not reproduced")

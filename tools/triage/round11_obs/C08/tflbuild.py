"""Minimal TFLite flatbuffer writer (CONV_2D / DEPTHWISE_CONV_2D / TRANSPOSE_CONV-free) used by the C08 demos."""
import os
import sys

ROOT = os.path.dirname(os.path.dirname(os.path.abspath(__file__)))
sys.path.insert(0, ROOT)

import flatbuffers  # noqa: E402
import numpy as np  # noqa: E402

from ethosu.vela.tflite import Buffer  # noqa: E402
from ethosu.vela.tflite import Conv2DOptions  # noqa: E402
from ethosu.vela.tflite import DepthwiseConv2DOptions  # noqa: E402
from ethosu.vela.tflite import Model  # noqa: E402
from ethosu.vela.tflite import Operator  # noqa: E402
from ethosu.vela.tflite import OperatorCode  # noqa: E402
from ethosu.vela.tflite import QuantizationParameters  # noqa: E402
from ethosu.vela.tflite import SubGraph  # noqa: E402
from ethosu.vela.tflite import Tensor  # noqa: E402
from ethosu.vela.tflite.BuiltinOperator import BuiltinOperator  # noqa: E402
from ethosu.vela.tflite.BuiltinOptions import BuiltinOptions  # noqa: E402
from ethosu.vela.tflite.TensorType import TensorType  # noqa: E402

NP2TFL = {np.dtype(np.int8): TensorType.INT8, np.dtype(np.uint8): TensorType.UINT8, np.dtype(np.int16): TensorType.INT16,
          np.dtype(np.int32): TensorType.INT32, np.dtype(np.int64): TensorType.INT64}


class TflModel:
    def __init__(self):
        self.tensors = []  # dict(name, shape, dtype, scales, zps, qdim, data)
        self.ops = []  # dict(code, inputs, outputs, opt)
        self.inputs = []
        self.outputs = []

    def tensor(self, name, shape, dtype, scales=None, zps=None, qdim=0, data=None):
        self.tensors.append(dict(name=name, shape=list(shape), dtype=np.dtype(dtype), scales=scales, zps=zps, qdim=qdim,
                                 data=None if data is None else np.ascontiguousarray(data, dtype=dtype)))
        return len(self.tensors) - 1

    def conv2d(self, ifm, w, b, ofm, stride=(1, 1), dilation=(1, 1), padding_same=True, depthwise=False, depth_mult=1):
        self.ops.append(dict(code=BuiltinOperator.DEPTHWISE_CONV_2D if depthwise else BuiltinOperator.CONV_2D,
                             inputs=[ifm, w, b], outputs=[ofm], stride=stride, dilation=dilation,
                             same=padding_same, depthwise=depthwise, depth_mult=depth_mult))

    def build(self):
        b = flatbuffers.Builder(1024)
        # buffers: 0 is the empty buffer
        buf_offs = []
        Buffer.BufferStart(b)
        buf_offs.append(Buffer.BufferEnd(b))
        tens_buf = []
        for t in self.tensors:
            if t["data"] is None:
                tens_buf.append(0)
                continue
            raw = t["data"].tobytes()
            b.StartVector(1, len(raw), 16)
            b.head = b.head - len(raw)
            b.Bytes[b.head: b.head + len(raw)] = raw
            data_off = b.EndVector()
            Buffer.BufferStart(b)
            Buffer.BufferAddData(b, data_off)
            buf_offs.append(Buffer.BufferEnd(b))
            tens_buf.append(len(buf_offs) - 1)

        tens_offs = []
        for t, bi in zip(self.tensors, tens_buf):
            name = b.CreateString(t["name"])
            Tensor.TensorStartShapeVector(b, len(t["shape"]))
            for d in reversed(t["shape"]):
                b.PrependInt32(d)
            shape = b.EndVector()
            q = None
            if t["scales"] is not None:
                sc = list(np.atleast_1d(t["scales"]))
                zp = list(np.atleast_1d(t["zps"]))
                QuantizationParameters.QuantizationParametersStartScaleVector(b, len(sc))
                for v in reversed(sc):
                    b.PrependFloat32(float(v))
                sc_off = b.EndVector()
                QuantizationParameters.QuantizationParametersStartZeroPointVector(b, len(zp))
                for v in reversed(zp):
                    b.PrependInt64(int(v))
                zp_off = b.EndVector()
                QuantizationParameters.QuantizationParametersStart(b)
                QuantizationParameters.QuantizationParametersAddScale(b, sc_off)
                QuantizationParameters.QuantizationParametersAddZeroPoint(b, zp_off)
                QuantizationParameters.QuantizationParametersAddQuantizedDimension(b, t["qdim"])
                q = QuantizationParameters.QuantizationParametersEnd(b)
            Tensor.TensorStart(b)
            Tensor.TensorAddShape(b, shape)
            Tensor.TensorAddType(b, NP2TFL[t["dtype"]])
            Tensor.TensorAddBuffer(b, bi)
            Tensor.TensorAddName(b, name)
            if q is not None:
                Tensor.TensorAddQuantization(b, q)
            tens_offs.append(Tensor.TensorEnd(b))

        codes = sorted(set(o["code"] for o in self.ops))
        code_offs = []
        for c in codes:
            OperatorCode.OperatorCodeStart(b)
            OperatorCode.OperatorCodeAddDeprecatedBuiltinCode(b, c)
            OperatorCode.OperatorCodeAddBuiltinCode(b, c)
            OperatorCode.OperatorCodeAddVersion(b, 3)
            code_offs.append(OperatorCode.OperatorCodeEnd(b))

        def int_vec(start_fn, vals):
            start_fn(b, len(vals))
            for v in reversed(vals):
                b.PrependInt32(v)
            return b.EndVector()

        op_offs = []
        for o in self.ops:
            if o["depthwise"]:
                DepthwiseConv2DOptions.DepthwiseConv2DOptionsStart(b)
                DepthwiseConv2DOptions.DepthwiseConv2DOptionsAddPadding(b, 0 if o["same"] else 1)
                DepthwiseConv2DOptions.DepthwiseConv2DOptionsAddStrideW(b, o["stride"][0])
                DepthwiseConv2DOptions.DepthwiseConv2DOptionsAddStrideH(b, o["stride"][1])
                DepthwiseConv2DOptions.DepthwiseConv2DOptionsAddDepthMultiplier(b, o["depth_mult"])
                DepthwiseConv2DOptions.DepthwiseConv2DOptionsAddDilationWFactor(b, o["dilation"][0])
                DepthwiseConv2DOptions.DepthwiseConv2DOptionsAddDilationHFactor(b, o["dilation"][1])
                opt = DepthwiseConv2DOptions.DepthwiseConv2DOptionsEnd(b)
                opt_type = BuiltinOptions.DepthwiseConv2DOptions
            else:
                Conv2DOptions.Conv2DOptionsStart(b)
                Conv2DOptions.Conv2DOptionsAddPadding(b, 0 if o["same"] else 1)
                Conv2DOptions.Conv2DOptionsAddStrideW(b, o["stride"][0])
                Conv2DOptions.Conv2DOptionsAddStrideH(b, o["stride"][1])
                Conv2DOptions.Conv2DOptionsAddDilationWFactor(b, o["dilation"][0])
                Conv2DOptions.Conv2DOptionsAddDilationHFactor(b, o["dilation"][1])
                opt = Conv2DOptions.Conv2DOptionsEnd(b)
                opt_type = BuiltinOptions.Conv2DOptions
            ins = int_vec(Operator.OperatorStartInputsVector, o["inputs"])
            outs = int_vec(Operator.OperatorStartOutputsVector, o["outputs"])
            Operator.OperatorStart(b)
            Operator.OperatorAddOpcodeIndex(b, codes.index(o["code"]))
            Operator.OperatorAddInputs(b, ins)
            Operator.OperatorAddOutputs(b, outs)
            Operator.OperatorAddBuiltinOptionsType(b, opt_type)
            Operator.OperatorAddBuiltinOptions(b, opt)
            op_offs.append(Operator.OperatorEnd(b))

        def off_vec(start_fn, offs):
            start_fn(b, len(offs))
            for v in reversed(offs):
                b.PrependUOffsetTRelative(v)
            return b.EndVector()

        t_vec = off_vec(SubGraph.SubGraphStartTensorsVector, tens_offs)
        o_vec = off_vec(SubGraph.SubGraphStartOperatorsVector, op_offs)
        i_vec = int_vec(SubGraph.SubGraphStartInputsVector, self.inputs)
        out_vec = int_vec(SubGraph.SubGraphStartOutputsVector, self.outputs)
        sg_name = b.CreateString("main")
        SubGraph.SubGraphStart(b)
        SubGraph.SubGraphAddTensors(b, t_vec)
        SubGraph.SubGraphAddInputs(b, i_vec)
        SubGraph.SubGraphAddOutputs(b, out_vec)
        SubGraph.SubGraphAddOperators(b, o_vec)
        SubGraph.SubGraphAddName(b, sg_name)
        sg = SubGraph.SubGraphEnd(b)

        sg_vec = off_vec(Model.ModelStartSubgraphsVector, [sg])
        c_vec = off_vec(Model.ModelStartOperatorCodesVector, code_offs)
        b_vec = off_vec(Model.ModelStartBuffersVector, buf_offs)
        desc = b.CreateString("c08 demo")
        Model.ModelStart(b)
        Model.ModelAddVersion(b, 3)
        Model.ModelAddOperatorCodes(b, c_vec)
        Model.ModelAddSubgraphs(b, sg_vec)
        Model.ModelAddDescription(b, desc)
        Model.ModelAddBuffers(b, b_vec)
        m = Model.ModelEnd(b)
        b.Finish(m, b"TFL3")
        return bytes(b.Output())


def compile_tflite(model_bytes, workdir, accelerator="ethos-u55-128", system_config=None, memory_mode=None,
                   arena_cache_size=None, optimise="Performance", name="model"):
    """Runs the whole compiler on the model; returns (nng, arch)"""
    from ethosu.vela import architecture_features, compiler_driver, model_reader, scheduler, vela
    from ethosu.vela.tensor_allocation import TensorAllocator

    path = os.path.join(workdir, name + ".tflite")
    with open(path, "wb") as f:
        f.write(model_bytes)
    arch = architecture_features.ArchitectureFeatures(
        vela_config_files=None,
        system_config=system_config or architecture_features.ArchitectureFeatures.DEFAULT_CONFIG,
        memory_mode=memory_mode or architecture_features.ArchitectureFeatures.DEFAULT_CONFIG,
        accelerator_config=accelerator,
        max_blockdep=architecture_features.ArchitectureFeatures.MAX_BLOCKDEP,
        verbose_config=False,
        arena_cache_size=arena_cache_size,
    )
    copts = compiler_driver.CompilerOptions(tensor_allocator=TensorAllocator.HillClimb, output_dir=workdir)
    strategy = getattr(scheduler.OptimizationStrategy, optimise)
    sopts = scheduler.SchedulerOptions(optimization_strategy=strategy, sram_target=arch.arena_cache_size,
                                       verbose_schedule=False)
    import contextlib
    import io
    with contextlib.redirect_stdout(io.StringIO()):
        nng = vela.process(path, False, arch, model_reader.ModelReaderOptions(), copts, sopts, None)
    return nng, arch

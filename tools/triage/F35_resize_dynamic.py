import sys
exec(open("/verif/tools/triage/F33_F36_c13_batch.py").read().split("# (1) custom op")[0])
# Transpose dynamic perm rank 3
a = fm("a", [4, 6, 8]); perm = Tensor([3], DataType.int32, "perm"); o = fm("o", [6, 4, 8])
op = Operation(Op.Transpose, "tr"); op.attrs = {}
op.add_input_tensor(a); op.add_input_tensor(perm); op.set_output_tensor(o)
run("transpose dynamic perm", make_model([op], [a, perm], [o]))
# Resize dynamic size
a = fm("a", [1, 4, 4, 8]); size = Tensor([2], DataType.int32, "size"); o = fm("o", [1, 8, 8, 8])
op = Operation(Op.ResizeBilinear, "rb"); op.attrs = {"align_corners": False, "half_pixel_centers": False}
op.add_input_tensor(a); op.add_input_tensor(size); op.set_output_tensor(o)
run("resize dynamic size", make_model([op], [a, size], [o]))
# StridedSlice dynamic strides
a = fm("a", [1, 8, 8, 8]); o = fm("o", [1, 4, 8, 8])
b = create_const_tensor("b", [4], DataType.int32, np.array([0,0,0,0])); e = create_const_tensor("e", [4], DataType.int32, np.array([1,4,8,8])); st = Tensor([4], DataType.int32, "strides")
op = Operation(Op.StridedSlice, "ss"); op.attrs = {"begin_mask":0,"end_mask":0,"ellipsis_mask":0,"new_axis_mask":0,"shrink_axis_mask":0, "offset": False}
for t in (a,b,e,st): op.add_input_tensor(t)
op.set_output_tensor(o)
run("stridedslice dynamic strides", make_model([op], [a, st], [o]))

import sys, os
sys.path.insert(0, os.path.join(os.getcwd(), "out"))
exec(open("out/try.py").read())
from mk import T, OP, build
import numpy as np
P = lambda k, s, pad=1: ("Pool2DOptions", dict(Padding=pad, StrideW=s, StrideH=s, FilterWidth=k, FilterHeight=k, FusedActivationFunction=0))
for si, so in [(1e-12, 1.0), (1.0, 1e-12), (1e-6, 1.0), (1e-10,1.0), (1.0, 1e10), (1e10, 1.0), (3e-39, 1.0)]:
    for code in ["AVERAGE_POOL_2D", "MAX_POOL_2D"]:
        m = build([T("x",[1,4,4,8],"INT8",si,0), T("y",[1,4,4,8],"INT8",so,0)], [OP(code,[0],[1],P(1,1))],[0],[1])
        show("%s_k1 %g->%g" % (code, si, so), m)
    m = build([T("a",[1,4,4,8],"INT8",si,0), T("b",[1,4,4,8],"INT8",so,0), T("y",[1,4,4,16],"INT8",so,0)],
              [OP("CONCATENATION",[0,1],[2],("ConcatenationOptions",dict(Axis=3,FusedActivationFunction=0)))],[0,1],[2])
    show("concat %g->%g" % (si, so), m)
    m = build([T("x",[1,4,4,8],"INT8",si,0), T("y",[1,4,4,8],"INT8",so,0)], [OP("RELU",[0],[1])],[0],[1])
    show("relu %g->%g" % (si, so), m)
    m = build([T("x",[1,4,4,8],"INT8",si,0), T("s",[2],"INT32",data=[1,128],noquant=True), T("y",[1,128],"INT8",so,0)], [OP("RESHAPE",[0,1],[2],("ReshapeOptions",dict(NewShape=[1,128])))],[0],[2])
    show("reshape %g->%g" % (si, so), m)
    m = build([T("x",[1,4,4,8],"INT8",si,0), T("y",[1,4,4,8],"INT8",so,0)], [OP("ABS",[0],[1],("AbsOptions",{}))],[0],[1])
    show("abs %g->%g" % (si, so), m)
    m = build([T("x",[1,4,4,8],"INT8",si,0), T("y",[1,4,4,8],"INT8",so,0)], [OP("LEAKY_RELU",[0],[1],("LeakyReluOptions",dict(Alpha=0.1)))],[0],[1])
    show("lrelu %g->%g" % (si, so), m)
    m = build([T("x",[1,4,4,8],"INT8",si,0), T("y",[1,4,4,8],"INT8",so,0)], [OP("QUANTIZE",[0],[1],("QuantizeOptions",{}))],[0],[1])
    show("quantize %g->%g" % (si, so), m)
    m = build([T("x",[1,8,8,8],"INT8",si,0), T("ax",[2],"INT32",data=[1,2],noquant=True), T("y",[1,1,1,8],"INT8",so,0)], [OP("MEAN",[0,1],[2],("ReducerOptions",dict(KeepDims=True)))],[0],[2])
    show("mean %g->%g" % (si, so), m)

import sys, os
sys.path.insert(0, os.path.join(os.getcwd(), "out"))
exec(open("out/try.py").read())
from mk import T, OP, build
R = ("ReducerOptions", dict(KeepDims=True))
t = [T("a",[1,8,8,4],"INT8",0.02,0), T("b",[1,8,8,4],"INT8",0.05,1), T("ax",[2],"INT32",data=[1,2],noquant=True), T("ya",[1,1,1,4],"INT8",0.02,0), T("yb",[1,1,1,4],"INT8",0.05,1)]
show("two_means", build(t, [OP("MEAN",[0,2],[3],R), OP("MEAN",[1,2],[4],R)], [0,1],[3,4]))
P = ("Pool2DOptions", dict(Padding=1, StrideW=4, StrideH=4, FilterWidth=2, FilterHeight=2, FusedActivationFunction=0))
t = [T("a",[1,16,16,4],"INT8",0.02,0), T("b",[1,16,16,4],"INT8",0.05,1), T("ya",[1,4,4,4],"INT8",0.02,0), T("yb",[1,4,4,4],"INT8",0.05,1)]
show("two_avgpool_s4", build(t, [OP("AVERAGE_POOL_2D",[0],[2],P), OP("AVERAGE_POOL_2D",[1],[3],P)], [0,1],[2,3]))

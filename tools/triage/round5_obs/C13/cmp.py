import json, sys
a = json.load(open(sys.argv[1])); b = json.load(open(sys.argv[2]))
for k in sorted(set(a) | set(b)):
    if a.get(k, [None])[0] != b.get(k, [None])[0]:
        print("DIFF", k, a.get(k), "->", b.get(k))
print("compared", len(a), len(b))

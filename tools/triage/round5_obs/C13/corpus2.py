import os, sys
import numpy as np
sys.path.insert(0, os.path.join(os.getcwd(), "out"))
from mk import T, OP, build
from corpus import rnd, q

def A(n, shape=(1,4,4,8), dt="INT8", **kw):
    s, z = q(dt)
    return T(n, list(shape), dt, kw.pop("scale", s), kw.pop("zp", z), **kw)

ADD = ("AddOptions", dict(FusedActivationFunction=0))
MUL = ("MulOptions", dict(FusedActivationFunction=0))

def gen():
    # no operators
    yield "empty_io", build([A("x")], [], [0], [0])
    yield "empty_none", build([A("x")], [], [], [])
    yield "empty_notensors", build([], [], [], [])
    yield "const_output", build([A("c", data=rnd((1,4,4,8)))], [], [], [0])
    # add x,x
    yield "add_xx", build([A("x"), A("y")], [OP("ADD", [0,0],[1], ADD)], [0],[1])
    yield "mul_xx", build([A("x"), A("y")], [OP("MUL", [0,0],[1], MUL)], [0],[1])
    yield "max_xx", build([A("x"), A("y")], [OP("MAXIMUM", [0,0],[1], ("MaximumMinimumOptions", {}))], [0],[1])
    # input is output too
    yield "in_is_out", build([A("x"), A("y")], [OP("RELU",[0],[1])], [0],[0,1])
    # intermediate output
    yield "mid_out", build([A("x"), A("y"), A("z")], [OP("RELU",[0],[1]), OP("TANH",[1],[2])], [0],[1,2])
    yield "dup_out", build([A("x"), A("y")], [OP("RELU",[0],[1])], [0],[1,1])
    yield "dup_in", build([A("x"), A("y")], [OP("RELU",[0],[1])], [0,0],[1])
    # unconsumed op
    yield "dead_op", build([A("x"), A("y"), A("z")], [OP("RELU",[0],[1]), OP("TANH",[0],[2])], [0],[1])
    # two const add
    yield "const_const", build([A("a", data=rnd((1,4,4,8))), A("b", data=rnd((1,4,4,8))), A("y")], [OP("ADD",[0,1],[2],ADD)], [], [2])
    yield "const_relu", build([A("a", data=rnd((1,4,4,8))), A("y")], [OP("RELU",[0],[1])], [], [1])
    # cpu in middle
    yield "npu_cpu_npu", build([A("x"), A("a"), A("b"), A("y")], [OP("RELU",[0],[1]), OP("FLOOR",[1],[2]), OP("TANH",[2],[3])],[0],[3])
    yield "cpu_npu_cpu", build([A("x"), A("a"), A("b"), A("y")], [OP("FLOOR",[0],[1]), OP("TANH",[1],[2]), OP("FLOOR",[2],[3])],[0],[3])
    yield "npu_cpu_fork", build([A("x"), A("a"), A("b"), A("c"), A("y")],
        [OP("RELU",[0],[1]), OP("FLOOR",[1],[2]), OP("TANH",[1],[3]), OP("ADD",[2,3],[4],ADD)],[0],[4])
    yield "diamond", build([A("x"), A("a"), A("b"), A("y")],
        [OP("RELU",[0],[1]), OP("TANH",[0],[2]), OP("ADD",[1,2],[3],ADD)],[0],[3])
    yield "two_independent", build([A("x"), A("y"), A("x2"), A("y2")], [OP("RELU",[0],[1]), OP("TANH",[2],[3])],[0,2],[1,3])
    # reshape chains
    sh = lambda v: T("s%d" % len(v), [len(v)], "INT32", data=v, noquant=True)
    yield "reshape_reshape", build([A("x"), sh([1,128]), A("a",(1,128)), sh([1,2,8,8]), A("y",(1,2,8,8))],
        [OP("RESHAPE",[0,1],[2],("ReshapeOptions",dict(NewShape=[1,128]))), OP("RESHAPE",[2,3],[4],("ReshapeOptions",dict(NewShape=[1,2,8,8])))],[0],[4])
    yield "reshape_only_out_in", build([A("x"), sh([1,128]), A("y",(1,128))], [OP("RESHAPE",[0,1],[2],("ReshapeOptions",dict(NewShape=[1,128])))],[0],[2])
    yield "reshape_cpu_after", build([A("x"), sh([1,128]), A("a",(1,128)), A("y",(1,128))],
        [OP("RESHAPE",[0,1],[2],("ReshapeOptions",dict(NewShape=[1,128]))), OP("FLOOR",[2],[3])],[0],[3])
    yield "cpu_reshape_npu", build([A("x"), A("f"), sh([1,128]), A("a",(1,128)), A("y",(1,128))],
        [OP("FLOOR",[0],[1]), OP("RESHAPE",[1,2],[3],("ReshapeOptions",dict(NewShape=[1,128]))), OP("RELU",[3],[4])],[0],[4])
    yield "reshape_fork", build([A("x"), A("r"), sh([1,128]), A("a",(1,128)), A("b"), A("y",(1,128))],
        [OP("RELU",[0],[1]), OP("RESHAPE",[1,2],[3],("ReshapeOptions",dict(NewShape=[1,128]))), OP("TANH",[1],[4]), OP("TANH",[3],[5])],[0],[4,5])
    yield "reshape_to_5d_back", build([A("x"), sh([1,1,4,4,8]), A("a",(1,1,4,4,8)), sh([1,4,4,8]), A("b"), A("y")],
        [OP("RESHAPE",[0,1],[2],("ReshapeOptions",dict(NewShape=[1,1,4,4,8]))), OP("RESHAPE",[2,3],[4],("ReshapeOptions",dict(NewShape=[1,4,4,8]))), OP("RELU",[4],[5])],[0],[5])
    # squeeze / expand_dims
    yield "squeeze", build([A("x",(1,1,4,8)), A("y",(4,8))], [OP("SQUEEZE",[0],[1],("SqueezeOptions",dict(SqueezeDims=[0,1])))],[0],[1])
    yield "squeeze_nodims", build([A("x",(1,1,4,8)), A("y",(4,8))], [OP("SQUEEZE",[0],[1],("SqueezeOptions",{}))],[0],[1])
    yield "squeeze_all", build([A("x",(1,1,1,1)), A("y",())], [OP("SQUEEZE",[0],[1],("SqueezeOptions",{}))],[0],[1])
    yield "squeeze_relu", build([A("x",(1,1,4,8)), A("a",(4,8)), A("y",(4,8))], [OP("SQUEEZE",[0],[1],("SqueezeOptions",dict(SqueezeDims=[0,1]))), OP("RELU",[1],[2])],[0],[2])
    yield "expand_dims", build([A("x",(4,8)), T("ax",[],"INT32",data=[0],noquant=True), A("y",(1,4,8))], [OP("EXPAND_DIMS",[0,1],[2],("ExpandDimsOptions",{}))],[0],[2])
    yield "expand_dims_dyn", build([A("x",(4,8)), T("ax",[],"INT32",noquant=True), A("y",(1,4,8))], [OP("EXPAND_DIMS",[0,1],[2],("ExpandDimsOptions",{}))],[0,1],[2])
    yield "expand_dims_5", build([A("x",(1,4,4,8)), T("ax",[1],"INT32",data=[0],noquant=True), A("y",(1,1,4,4,8))], [OP("EXPAND_DIMS",[0,1],[2],("ExpandDimsOptions",{}))],[0],[2])
    # shape op
    yield "shape", build([A("x"), T("y",[4],"INT32",noquant=True)], [OP("SHAPE",[0],[1],("ShapeOptions",dict(OutType=2)))],[0],[1])
    yield "shape_i64", build([A("x"), T("y",[4],"INT64",noquant=True)], [OP("SHAPE",[0],[1],("ShapeOptions",dict(OutType=4)))],[0],[1])
    yield "shape_rank0", build([A("x",()), T("y",[0],"INT32",noquant=True)], [OP("SHAPE",[0],[1],("ShapeOptions",dict(OutType=2)))],[0],[1])
    yield "shape_float", build([T("x",[1,4],"FLOAT32",noquant=True), T("y",[2],"INT32",noquant=True)], [OP("SHAPE",[0],[1],("ShapeOptions",dict(OutType=2)))],[0],[1])
    yield "shape_then_reshape", build([A("x"), T("s",[4],"INT32",noquant=True), A("z"), A("y")],
        [OP("SHAPE",[0],[1],("ShapeOptions",dict(OutType=2))), OP("RESHAPE",[2,1],[3],("ReshapeOptions",{}))],[0,2],[3])
    # custom ops
    yield "custom", build([A("x"), A("y")], [OP("CUSTOM",[0],[1],custom_code="my_op",custom_options=b"\x01\x02")],[0],[1])
    yield "custom_noopts", build([A("x"), A("y")], [OP("CUSTOM",[0],[1],custom_code="my_op")],[0],[1])
    yield "custom_noin", build([A("y")], [OP("CUSTOM",[],[0],custom_code="my_op")],[],[0])
    yield "custom_two", build([A("x"), A("a"), A("y")], [OP("CUSTOM",[0],[1],custom_code="op_a"), OP("CUSTOM",[1],[2],custom_code="op_b")],[0],[2])
    yield "custom_ethosu", build([A("x"), A("y")], [OP("CUSTOM",[0],[1],custom_code="ethos-u",custom_options=b"\x01")],[0],[1])
    yield "custom_multi_out", build([A("x"), A("y"), A("z")], [OP("CUSTOM",[0],[1,2],custom_code="my_op")],[0],[1,2])
    yield "custom_then_npu", build([A("x"), A("a"), A("y")], [OP("CUSTOM",[0],[1],custom_code="my_op"), OP("RELU",[1],[2])],[0],[2])
    # optional -1 inputs
    yield "fc_bias_m1", build([A("x",(1,16)), T("w",[8,16],"INT8",0.03,0,data=rnd((8,16))), A("y",(1,8))],
        [OP("FULLY_CONNECTED",[0,1,-1],[2],("FullyConnectedOptions",dict(FusedActivationFunction=0)))],[0],[2])
    yield "conv_bias_m1", build([A("x",(1,4,4,8)), T("w",[8,1,1,8],"INT8",0.03,0,data=rnd((8,1,1,8))), A("y",(1,4,4,8))],
        [OP("CONV_2D",[0,1,-1],[2],("Conv2DOptions",dict(Padding=0,StrideW=1,StrideH=1,DilationWFactor=1,DilationHFactor=1)))],[0],[2])
    # dtypes for passthrough
    for dt in ["FLOAT32","FLOAT16","INT64","BOOL","UINT32","UINT16","FLOAT64","UINT64","STRING","COMPLEX64","COMPLEX128","RESOURCE","VARIANT","INT4"]:
        try:
            yield "floor_%s" % dt, build([T("x",[1,4],dt,noquant=True), T("y",[1,4],dt,noquant=True)],[OP("FLOOR",[0],[1])],[0],[1])
            yield "reshape_%s" % dt, build([T("x",[1,4],dt,noquant=True), T("s",[2],"INT32",data=[4,1],noquant=True), T("y",[4,1],dt,noquant=True)],[OP("RESHAPE",[0,1],[2],("ReshapeOptions",dict(NewShape=[4,1])))],[0],[2])
            yield "relu_%s" % dt, build([T("x",[1,4],dt,noquant=True), T("y",[1,4],dt,noquant=True)],[OP("RELU",[0],[1])],[0],[1])
            yield "relu_q_%s" % dt, build([T("x",[1,4],dt,0.1,0), T("y",[1,4],dt,0.1,0)],[OP("RELU",[0],[1])],[0],[1])
        except AttributeError:
            pass
    # variable tensors
    yield "variable_in", build([A("x", variable=True), A("y")], [OP("RELU",[0],[1])],[0],[1])
    # no shape (shape None)
    yield "noshape", build([T("x",None,"INT8",0.1,0), T("y",None,"INT8",0.1,0)], [OP("RELU",[0],[1])],[0],[1])
    yield "dyn_shape", build([T("x",[-1,4],"INT8",0.1,0), T("y",[-1,4],"INT8",0.1,0)], [OP("RELU",[0],[1])],[0],[1])
    # quant corner: scale only / zp only / multiple zp single scale
    yield "scale_only", build([T("x",[1,4,4,8],"INT8",0.1,None), T("y",[1,4,4,8],"INT8",0.1,None)], [OP("RELU",[0],[1])],[0],[1])
    yield "zp_only", build([T("x",[1,4,4,8],"INT8",None,0), T("y",[1,4,4,8],"INT8",None,0)], [OP("RELU",[0],[1])],[0],[1])
    yield "zp_only_add", build([T("x",[1,4,4,8],"INT8",None,0), T("x2",[1,4,4,8],"INT8",None,0), T("y",[1,4,4,8],"INT8",None,0)], [OP("ADD",[0,1],[2],ADD)],[0,1],[2])
    yield "scale_only_add", build([T("x",[1,4,4,8],"INT8",0.1,None), T("x2",[1,4,4,8],"INT8",0.1,None), T("y",[1,4,4,8],"INT8",0.1,None)], [OP("ADD",[0,1],[2],ADD)],[0,1],[2])
    yield "scale_only_conv", build([T("x",[1,4,4,8],"INT8",0.1,None), T("w",[8,1,1,8],"INT8",0.03,None,data=rnd((8,1,1,8))), T("y",[1,4,4,8],"INT8",0.1,None)],
        [OP("CONV_2D",[0,1],[2],("Conv2DOptions",dict(Padding=0,StrideW=1,StrideH=1,DilationWFactor=1,DilationHFactor=1)))],[0],[2])
    yield "perch_scale_scalar_zp", build([A("x",(1,4,4,8)), T("w",[8,1,1,8],"INT8",np.linspace(0.01,0.02,8),0,data=rnd((8,1,1,8)),qdim=0), A("y",(1,4,4,8))],
        [OP("CONV_2D",[0,1],[2],("Conv2DOptions",dict(Padding=0,StrideW=1,StrideH=1,DilationWFactor=1,DilationHFactor=1)))],[0],[2])
    yield "perch_wrong_len", build([A("x",(1,4,4,8)), T("w",[8,1,1,8],"INT8",np.linspace(0.01,0.02,5),np.zeros(5),data=rnd((8,1,1,8)),qdim=0), A("y",(1,4,4,8))],
        [OP("CONV_2D",[0,1],[2],("Conv2DOptions",dict(Padding=0,StrideW=1,StrideH=1,DilationWFactor=1,DilationHFactor=1)))],[0],[2])
    yield "perch_fc", build([A("x",(1,16)), T("w",[8,16],"INT8",np.linspace(0.01,0.02,8),np.zeros(8),data=rnd((8,16)),qdim=0), A("y",(1,8))],
        [OP("FULLY_CONNECTED",[0,1],[2],("FullyConnectedOptions",dict(FusedActivationFunction=0)))],[0],[2])
    yield "perch_wzp_nonzero", build([A("x",(1,4,4,8)), T("w",[8,1,1,8],"INT8",np.linspace(0.01,0.02,8),np.arange(8),data=rnd((8,1,1,8)),qdim=0), A("y",(1,4,4,8))],
        [OP("CONV_2D",[0,1],[2],("Conv2DOptions",dict(Padding=0,StrideW=1,StrideH=1,DilationWFactor=1,DilationHFactor=1)))],[0],[2])
    # conv wrong shapes
    yield "conv_group", build([A("x",(1,4,4,8)), T("w",[8,1,1,4],"INT8",0.03,0,data=rnd((8,1,1,4))), A("y",(1,4,4,8))],
        [OP("CONV_2D",[0,1],[2],("Conv2DOptions",dict(Padding=0,StrideW=1,StrideH=1,DilationWFactor=1,DilationHFactor=1)))],[0],[2])
    yield "conv_group_bad", build([A("x",(1,4,4,8)), T("w",[8,1,1,3],"INT8",0.03,0,data=rnd((8,1,1,3))), A("y",(1,4,4,8))],
        [OP("CONV_2D",[0,1],[2],("Conv2DOptions",dict(Padding=0,StrideW=1,StrideH=1,DilationWFactor=1,DilationHFactor=1)))],[0],[2])
    yield "conv_stride0", build([A("x",(1,4,4,8)), T("w",[8,1,1,8],"INT8",0.03,0,data=rnd((8,1,1,8))), A("y",(1,4,4,8))],
        [OP("CONV_2D",[0,1],[2],("Conv2DOptions",dict(Padding=0,StrideW=0,StrideH=0,DilationWFactor=1,DilationHFactor=1)))],[0],[2])
    yield "conv_noopts", build([A("x",(1,4,4,8)), T("w",[8,1,1,8],"INT8",0.03,0,data=rnd((8,1,1,8))), A("y",(1,4,4,8))],
        [OP("CONV_2D",[0,1],[2])],[0],[2])
    yield "conv_3d_ifm", build([A("x",(4,4,8)), T("w",[8,1,1,8],"INT8",0.03,0,data=rnd((8,1,1,8))), A("y",(4,4,8))],
        [OP("CONV_2D",[0,1],[2],("Conv2DOptions",dict(Padding=0,StrideW=1,StrideH=1,DilationWFactor=1,DilationHFactor=1)))],[0],[2])
    yield "conv_ofm_mismatch", build([A("x",(1,4,4,8)), T("w",[8,1,1,8],"INT8",0.03,0,data=rnd((8,1,1,8))), A("y",(1,5,5,8))],
        [OP("CONV_2D",[0,1],[2],("Conv2DOptions",dict(Padding=0,StrideW=1,StrideH=1,DilationWFactor=1,DilationHFactor=1)))],[0],[2])
    yield "pool_noopts", build([A("x"), A("y")], [OP("MAX_POOL_2D",[0],[1])],[0],[1])
    yield "add_noopts", build([A("x"), A("x2"), A("y")], [OP("ADD",[0,1],[2])],[0,1],[2])
    yield "softmax_noopts", build([A("x",(1,8)), T("y",[1,8],"INT8",1/256,-128)], [OP("SOFTMAX",[0],[1])],[0],[1])
    yield "concat_noopts", build([A("x"), A("x2"), A("y",(1,4,4,16))], [OP("CONCATENATION",[0,1],[2])],[0,1],[2])
    # op versions
    yield "relu_v9", build([A("x"), A("y")], [OP("RELU",[0],[1],version=9)],[0],[1])
    # many outputs fan-out of input
    yield "fanout", build([A("x")] + [A("y%d"%i) for i in range(6)], [OP("RELU",[0],[i+1]) for i in range(6)],[0],list(range(1,7)))
    # subgraphs: while
    cond = ([A("c_in"), T("c_out",[1],"BOOL",noquant=True), A("thr", data=rnd((1,4,4,8)))], [OP("LESS",[0,2],[1],("LessOptions",{}))], [0],[1])
    body = ([A("b_in"), A("b_out")], [OP("RELU",[0],[1])], [0],[1])
    yield "while", build([A("x"), A("y")], [OP("WHILE",[0],[1],("WhileOptions",dict(CondSubgraphIndex=1,BodySubgraphIndex=2)))],[0],[1], extra_subgraphs=[cond, body])
    yield "if", build([T("c",[1],"BOOL",noquant=True), A("x"), A("y")], [OP("IF",[0,1],[2],("IfOptions",dict(ThenSubgraphIndex=1,ElseSubgraphIndex=2)))],[0,1],[2], extra_subgraphs=[body, body])
    yield "call_once", build([A("x"), A("y")], [OP("CALL_ONCE",[],[],("CallOnceOptions",dict(InitSubgraphIndex=1))), OP("RELU",[0],[1])],[0],[1], extra_subgraphs=[([A("k", data=rnd((1,4,4,8))), A("ko")],[OP("RELU",[0],[1])],[],[])])
    yield "var_handle", build([T("r",[],"RESOURCE",noquant=True), A("x"), A("y")],
        [OP("VAR_HANDLE",[],[0],("VarHandleOptions",dict(Container="c",SharedName="v"))), OP("ASSIGN_VARIABLE",[0,1],[],("AssignVariableOptions",{})), OP("READ_VARIABLE",[0],[2],("ReadVariableOptions",{}))],[1],[2])
    yield "extra_sg_unused", build([A("x"), A("y")], [OP("RELU",[0],[1])],[0],[1], extra_subgraphs=[body])

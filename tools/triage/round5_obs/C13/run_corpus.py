import sys, os, re, json
sys.path.insert(0, os.getcwd()); sys.path.insert(0, os.path.join(os.getcwd(), "out"))
import multiprocessing as mp

def work(item):
    name, m, args = item
    from mk import run_vela, verdict
    import signal
    def h(*a): raise TimeoutError("timeout")
    signal.signal(signal.SIGALRM, h); signal.alarm(120)
    try:
        r = run_vela(m, args)
    except TimeoutError:
        return name, "HANG", ""
    signal.alarm(0)
    v = verdict(r)
    info = ""
    if v == "CRASH":
        tb = r[1].strip().splitlines()
        frames = [l.strip() for l in tb if l.strip().startswith("File")]
        info = tb[-1][:200] + " @ " + (frames[-1] if frames else "")
    elif v == "REJECT":
        info = r[3].strip().splitlines()[-1][:200] if r[3].strip() else ""
    return name, v, info

if __name__ == "__main__":
    import corpus, corpus2, corpus3
    pat = re.compile(sys.argv[1]) if len(sys.argv) > 1 else re.compile("")
    args = sys.argv[2:]
    items = []
    try:
        for n, m in (corpus3.gen() if os.environ.get("C3") else corpus2.gen() if os.environ.get("C2") else corpus.gen()):
            if pat.search(n): items.append((n, m, args))
    except Exception:
        import traceback; traceback.print_exc()
    print(len(items), "models")
    res = {}
    with mp.Pool(8, maxtasksperchild=20) as p:
        for name, v, info in p.imap_unordered(work, items):
            res[name] = (v, info)
    cnt = {}
    for n in sorted(res):
        v, info = res[n]
        cnt[v] = cnt.get(v, 0) + 1
        if v != "OK": print(n, v, info)
    print(cnt)
    json.dump(res, open("out/last_result.json", "w"))

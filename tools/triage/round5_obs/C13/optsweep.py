import sys, os, itertools
sys.path.insert(0, os.getcwd()); sys.path.insert(0, os.path.join(os.getcwd(), "out"))
import multiprocessing as mp
from run_corpus import work
import corpus, corpus2

def models():
    c = dict(corpus.gen()) if False else None
    want = {"conv_INT8","fc_INT8","chain","ADD_INT8","MEAN_hw_1","softmax_INT8_1x10","conv_perch_INT16","dw_INT8","MAX_POOL_2D_INT8","concat_ax3","tconv_s(2, 2)_p0_k(3, 3)","RESIZE_BILINEAR_00_1x4x4x8_8x8","pad_INT8","LOG_INT8","conv_wide","fc_big","conv_oc_300"}
    for n, m in corpus.gen():
        if n in want: yield n, m
    want2 = {"npu_cpu_npu","cpu_npu_cpu","npu_cpu_fork","diamond","custom","while","floor_FLOAT32","empty_io","fanout","reshape_fork"}
    for n, m in corpus2.gen():
        if n in want2: yield n, m

OPTS = []
for acc in ["ethos-u55-32","ethos-u55-64","ethos-u55-128","ethos-u55-256","ethos-u65-256","ethos-u65-512"]:
    OPTS.append(["--accelerator-config", acc])
    OPTS.append(["--accelerator-config", acc, "--optimise", "Size"])
for sc, mm, acc in [("Ethos_U55_Deep_Embedded","Sram_Only","ethos-u55-64"),("Ethos_U55_High_End_Embedded","Shared_Sram","ethos-u55-128"),
    ("Ethos_U65_Embedded","Shared_Sram","ethos-u65-256"),("Ethos_U65_Mid_End","Dedicated_Sram","ethos-u65-256"),("Ethos_U65_High_End","Dedicated_Sram","ethos-u65-512"),
    ("Ethos_U65_Client_Server","Dedicated_Sram_512KB","ethos-u65-512"), ("Ethos_U65_High_End","Sram_Only","ethos-u65-512"), ("Ethos_U55_High_End_Embedded","Sram_Only","ethos-u55-32")]:
    OPTS.append(["--config","Arm/vela.ini","--system-config",sc,"--memory-mode",mm,"--accelerator-config",acc])
    OPTS.append(["--config","Arm/vela.ini","--system-config",sc,"--memory-mode",mm,"--accelerator-config",acc,"--optimise","Size"])
    OPTS.append(["--config","Arm/vela.ini","--system-config",sc,"--memory-mode",mm,"--accelerator-config",acc,"--arena-cache-size","2048"])
for a in ["0","1","16","1000","100000000000"]:
    OPTS.append(["--arena-cache-size", a])
for ta in ["Greedy","LinearAlloc","HillClimb"]:
    OPTS.append(["--tensor-allocator", ta])
    OPTS.append(["--tensor-allocator", ta, "--cpu-tensor-alignment", "128"])
for al in ["16","32","64","1024","65536"]:
    OPTS.append(["--cpu-tensor-alignment", al])
for b in ["0","1","2","3"]:
    OPTS.append(["--max-block-dependency", b])
OPTS += [["--verbose-all"],["--timing"],["--show-cpu-operations"],["--enable-debug-db"],["--subgraph-output"],["--force-symmetric-int-weights"],
    ["--hillclimb-max-iterations","0"],["--hillclimb-max-iterations","1"],["--show-subgraph-io-summary"],["--verbose-weights"],["--verbose-performance"],
    ["--verbose-all","--enable-debug-db","--timing","--show-cpu-operations","--show-subgraph-io-summary","--optimise","Size","--tensor-allocator","Greedy"],
    ["--recursion-limit","200"], ["--verbose-config"], ["--verbose-operators"], ["--verbose-schedule"], ["--verbose-allocation"]]

if __name__ == "__main__":
    ms = list(models())
    items = [(n + " :: " + " ".join(o), m, o) for n, m in ms for o in OPTS]
    print(len(items))
    cnt = {}
    with mp.Pool(8, maxtasksperchild=50) as p:
        for name, v, info in p.imap_unordered(work, items):
            cnt[v] = cnt.get(v, 0) + 1
            if v != "OK": open("out/optsweep.log","a").write(f"{name} {v} {info}\n")
    print("RESULT", cnt)

import sys, os
sys.path.insert(0, os.path.join(os.getcwd(), "out"))
exec(open("out/try.py").read())
from lstm_model import lstm
for kw in [dict(), dict(n_batch=2, n_time=3), dict(time_major=True), dict(time_major=True, n_batch=2, n_time=3), dict(time_major=True, n_batch=2, n_time=2),
           dict(time_major=True, n_batch=3, n_time=1), dict(time_major=True, n_batch=1, n_time=1), dict(time_major=True, n_batch=4, n_time=2), dict(time_major=True, n_batch=1, n_time=5, dt="INT16")]:
    show("lstm %s" % kw, lstm(**kw))

import sys, os
sys.path.insert(0, os.path.join(os.getcwd(), "out"))
exec(open("out/try.py").read())
from lstm_model import lstm
for kw in [dict(), dict(n_time=1), dict(n_batch=2), dict(n_batch=2, n_time=3), dict(time_major=True), dict(time_major=True, n_batch=2, n_time=3), dict(dt="INT16"),
           dict(state_variable=False), dict(cifg=True), dict(n_feat=7, n_out=5), dict(cell_clip=1.0), dict(n_batch=3, n_time=1), dict(n_out=1), dict(n_feat=1)]:
    r = show("lstm %s" % kw, lstm(**kw))
    if "NPU operators = 0" in r[3]: print("TRY   (all on CPU)")

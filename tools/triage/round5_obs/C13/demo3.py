"""C13 demonstration 3: two CONV_2D operators that share one constant weight tensor but have different input/output
quantisation must compile (or be rejected with a Vela error); vela must not die with an internal exception.
Run as: cd /tmp/seed5/C13 && /venv/bin/python out/demo3.py"""
import importlib
import os
import subprocess
import sys
import tempfile

sys.path.insert(0, os.getcwd())

import flatbuffers  # noqa: E402
import numpy as np  # noqa: E402

from ethosu.vela.tflite import Buffer, Model, Operator, OperatorCode, QuantizationParameters, SubGraph, Tensor  # noqa
from ethosu.vela.tflite.BuiltinOperator import BuiltinOperator  # noqa: E402
from ethosu.vela.tflite.BuiltinOptions import BuiltinOptions  # noqa: E402
from ethosu.vela.tflite.TensorType import TensorType  # noqa: E402

NP = {"INT8": np.int8, "INT16": np.int16, "INT32": np.int32, "INT64": np.int64, "UINT8": np.uint8}


def _vec(b, kind, vals):
    size = 8 if kind == "q" else 4
    b.StartVector(size, len(vals), size)
    for v in list(vals)[::-1]:
        if kind == "i":
            b.PrependInt32(int(v))
        elif kind == "q":
            b.PrependInt64(int(v))
        elif kind == "f":
            b.PrependFloat32(float(v))
        else:
            b.PrependUOffsetTRelative(v)
    return b.EndVector()


def _bytes(b, data):
    b.StartVector(1, len(data), 16)
    b.head = b.head - len(data)
    b.Bytes[b.head : b.head + len(data)] = data
    return b.EndVector()


def tensor(name, shape, dtype="INT8", scale=None, zp=None, data=None, variable=False):
    return dict(name=name, shape=shape, dtype=dtype, scale=scale, zp=zp, data=data, variable=variable)


def operator(code, inputs, outputs, options=None, intermediates=None):
    # options = (options table name, {field: value})
    return dict(code=code, inputs=inputs, outputs=outputs, options=options, intermediates=intermediates)


def build_model(tensors, operators, inputs, outputs):
    """Serialises a single-subgraph TFLite model using only the flatbuffers runtime and the generated schema classes"""
    b = flatbuffers.Builder(1024)
    codes = []
    for o in operators:
        if o["code"] not in codes:
            codes.append(o["code"])
    code_offs = []
    for c in codes:
        v = getattr(BuiltinOperator, c)
        OperatorCode.OperatorCodeStart(b)
        OperatorCode.OperatorCodeAddDeprecatedBuiltinCode(b, min(v, 127))
        OperatorCode.OperatorCodeAddBuiltinCode(b, v)
        OperatorCode.OperatorCodeAddVersion(b, 1)
        code_offs.append(OperatorCode.OperatorCodeEnd(b))
    codes_off = _vec(b, "o", code_offs)
    buffers = [None]
    t_offs = []
    for t in tensors:
        buffers.append(None if t["data"] is None else np.asarray(t["data"]).astype(NP[t["dtype"]]).tobytes())
        shp = _vec(b, "i", t["shape"])
        nm = b.CreateString(t["name"])
        q = None
        if t["scale"] is not None:
            sc = _vec(b, "f", np.atleast_1d(t["scale"]))
            zp = _vec(b, "q", np.atleast_1d(t["zp"]))
            QuantizationParameters.QuantizationParametersStart(b)
            QuantizationParameters.QuantizationParametersAddScale(b, sc)
            QuantizationParameters.QuantizationParametersAddZeroPoint(b, zp)
            q = QuantizationParameters.QuantizationParametersEnd(b)
        Tensor.TensorStart(b)
        Tensor.TensorAddShape(b, shp)
        Tensor.TensorAddType(b, getattr(TensorType, t["dtype"]))
        Tensor.TensorAddBuffer(b, len(buffers) - 1)
        Tensor.TensorAddName(b, nm)
        if q is not None:
            Tensor.TensorAddQuantization(b, q)
        Tensor.TensorAddIsVariable(b, t["variable"])
        t_offs.append(Tensor.TensorEnd(b))
    tens_off = _vec(b, "o", t_offs)
    op_offs = []
    for o in operators:
        i_off = _vec(b, "i", o["inputs"])
        o_off = _vec(b, "i", o["outputs"])
        m_off = _vec(b, "i", o["intermediates"]) if o["intermediates"] is not None else None
        opt_off = None
        if o["options"] is not None:
            oname, fields = o["options"]
            mod = importlib.import_module("ethosu.vela.tflite." + oname)
            getattr(mod, oname + "Start")(b)
            for k, v in fields.items():
                getattr(mod, oname + "Add" + k)(b, v)
            opt_off = getattr(mod, oname + "End")(b)
        Operator.OperatorStart(b)
        Operator.OperatorAddOpcodeIndex(b, codes.index(o["code"]))
        Operator.OperatorAddInputs(b, i_off)
        Operator.OperatorAddOutputs(b, o_off)
        if m_off is not None:
            Operator.OperatorAddIntermediates(b, m_off)
        if opt_off is not None:
            Operator.OperatorAddBuiltinOptionsType(b, getattr(BuiltinOptions, o["options"][0]))
            Operator.OperatorAddBuiltinOptions(b, opt_off)
        op_offs.append(Operator.OperatorEnd(b))
    ops_off = _vec(b, "o", op_offs)
    in_off = _vec(b, "i", inputs)
    out_off = _vec(b, "i", outputs)
    sg_name = b.CreateString("main")
    SubGraph.SubGraphStart(b)
    SubGraph.SubGraphAddTensors(b, tens_off)
    SubGraph.SubGraphAddInputs(b, in_off)
    SubGraph.SubGraphAddOutputs(b, out_off)
    SubGraph.SubGraphAddOperators(b, ops_off)
    SubGraph.SubGraphAddName(b, sg_name)
    sgs_off = _vec(b, "o", [SubGraph.SubGraphEnd(b)])
    buf_offs = []
    for d in buffers:
        d_off = _bytes(b, d) if d is not None else None
        Buffer.BufferStart(b)
        if d_off is not None:
            Buffer.BufferAddData(b, d_off)
        buf_offs.append(Buffer.BufferEnd(b))
    bufs_off = _vec(b, "o", buf_offs)
    desc = b.CreateString("demo model")
    Model.ModelStart(b)
    Model.ModelAddVersion(b, 3)
    Model.ModelAddOperatorCodes(b, codes_off)
    Model.ModelAddSubgraphs(b, sgs_off)
    Model.ModelAddDescription(b, desc)
    Model.ModelAddBuffers(b, bufs_off)
    b.Finish(Model.ModelEnd(b), b"TFL3")
    return bytes(b.Output())


def compile_with_vela(name, model_bytes, extra_args=()):
    """Runs the vela command line on the model. Returns None if the run satisfies the property (an output model was
    written with status 0, or vela printed an error and returned a non-zero status), otherwise a description"""
    workdir = tempfile.mkdtemp(prefix="c13_demo_")
    path = os.path.join(workdir, name + ".tflite")
    with open(path, "wb") as f:
        f.write(model_bytes)
    cmd = [sys.executable, "-m", "ethosu.vela", path, "--output-dir", workdir] + list(extra_args)
    try:
        res = subprocess.run(cmd, cwd=os.getcwd(), capture_output=True, text=True, timeout=600)
    except subprocess.TimeoutExpired:
        return f"{name}: vela did not terminate within 600 s"
    out_file = os.path.join(workdir, name + "_vela.tflite")
    written = os.path.isfile(out_file) and os.path.getsize(out_file) > 0
    if "Traceback (most recent call last)" in res.stderr:
        last = [line for line in res.stderr.strip().splitlines() if line.strip()][-1]
        where = [line.strip() for line in res.stderr.splitlines() if line.strip().startswith("File ")][-1]
        return f"{name}: vela died with an internal exception (status {res.returncode}): {last} at {where}"
    if res.returncode == 0 and not written:
        return f"{name}: vela returned status 0 but wrote no output model"
    if res.returncode != 0 and "error" not in (res.stdout + res.stderr).lower():
        return f"{name}: vela returned status {res.returncode} without a diagnosis"
    print(f"  {name}: status {res.returncode}, output model {'written' if written else 'not written'}")
    return None


CONV = ("Conv2DOptions", dict(Padding=0, StrideW=1, StrideH=1, DilationWFactor=1, DilationHFactor=1, FusedActivationFunction=0))


def shared_weight_model(mid_scale, out_scale, chained, kernel=3, channels=8):
    rng = np.random.default_rng(3)
    w_shape = [channels, kernel, kernel, channels]
    fm = [1, 8, 8, channels]
    tens = [
        tensor("x", fm, "INT8", 0.02, 0),
        tensor("weights", w_shape, "INT8", 0.01, 0, data=rng.integers(-100, 100, w_shape)),
        tensor("bias", [channels], "INT32", 0.0002, 0, data=rng.integers(-50, 50, [channels])),
        tensor("y1", fm, "INT8", mid_scale, 0),
        tensor("y2", fm, "INT8", out_scale, 0),
        tensor("x2", fm, "INT8", 0.03, 0),
    ]
    if chained:
        # x -> conv(weights) -> y1 -> conv(weights) -> y2
        ops = [operator("CONV_2D", [0, 1, 2], [3], CONV), operator("CONV_2D", [3, 1, 2], [4], CONV)]
        return build_model(tens, ops, [0], [4])
    # two branches (e.g. a siamese network): x -> conv(weights) -> y1 and x2 -> conv(weights) -> y2
    ops = [operator("CONV_2D", [0, 1, 2], [3], CONV), operator("CONV_2D", [5, 1, 2], [4], CONV)]
    return build_model(tens, ops, [0, 5], [3, 4])


def main():
    models = [
        ("shared_weights_same_scaling", shared_weight_model(0.02, 0.02, chained=True)),  # control
        ("shared_weights_chained", shared_weight_model(0.04, 0.08, chained=True)),
        ("shared_weights_two_branches", shared_weight_model(0.04, 0.04, chained=False)),
        ("shared_weights_1x1", shared_weight_model(0.04, 0.05, chained=True, kernel=1)),
    ]
    failures = [msg for msg in (compile_with_vela(name, model) for name, model in models) if msg]
    if failures:
        print("FAIL")
        for msg in failures:
            print("  " + msg)
        return 1
    print("PASS")
    return 0


if __name__ == "__main__":
    sys.exit(main())

import sys, os
sys.path.insert(0, os.path.join(os.getcwd(), "out"))
from _demo_common import *
import corpus
m = corpus.conv()
for a in (["--recursion-limit","10"], ["--recursion-limit","50"], ["--recursion-limit","100"], ["--recursion-limit","0"], ["--recursion-limit","-5"], ["--arena-cache-size","-1"], ["--hillclimb-max-iterations","-1"], ["--max-block-dependency","4"],
          ["--cpu-tensor-alignment","8"], ["--cpu-tensor-alignment","0"], ["--optimise","Speed"], ["--config","nonexist.ini"], ["--system-config","Foo"], ["--memory-mode","Bar"],
          ["--config","Arm/vela.ini","--system-config","Ethos_U55_High_End_Embedded","--memory-mode","Dedicated_Sram","--accelerator-config","ethos-u55-128"],
          ["--config","Arm/vela.ini","--system-config","Ethos_U65_High_End","--memory-mode","Shared_Sram","--accelerator-config","ethos-u55-128"],
          ["--config","Arm/vela.ini","--system-config","Ethos_U65_High_End"], ["--config","Arm/vela.ini","--memory-mode","Shared_Sram"], ["--arena-cache-size","99999999999999"],
          ["--config","Arm/vela.ini","--config","Arm/vela.ini","--system-config","Ethos_U65_High_End","--memory-mode","Shared_Sram"], ["--tensor-allocator","Foo"], ["--accelerator-config","ETHOS-U55-128"], ["--verbose-all","--optimise","Size"]):
    r = compile_with_vela("conv", m, a)
    print("TRY", a, r)
m = corpus.chain(codes=("RELU","LOGISTIC","TANH","HARD_SWISH","RELU6","ABS")*100)
print("TRY chain600", compile_with_vela("chain600", m)); print("TRY chain600 rl300", compile_with_vela("chain600", m, ["--recursion-limit","300"]))
m = corpus.chain(codes=("RELU","LOGISTIC","TANH","HARD_SWISH","RELU6","ABS")*400)
print("TRY chain2400", compile_with_vela("chain2400", m))

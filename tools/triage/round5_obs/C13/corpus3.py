import os, sys
import numpy as np
sys.path.insert(0, os.path.join(os.getcwd(), "out"))
from mk import T, OP, build
from corpus import rnd, q, conv, fc, pool, binop, unop, argmax, reduce_, softmax, resize
from corpus2 import A, ADD, MUL

C = lambda pad=0, s=(1,1), d=(1,1), faf=0: ("Conv2DOptions", dict(Padding=pad, StrideW=s[1], StrideH=s[0], DilationWFactor=d[1], DilationHFactor=d[0], FusedActivationFunction=faf))
DW = lambda dm, pad=0, s=(1,1): ("DepthwiseConv2DOptions", dict(Padding=pad, StrideW=s[1], StrideH=s[0], DepthMultiplier=dm, DilationWFactor=1, DilationHFactor=1, FusedActivationFunction=0))
P = lambda k, s, pad=1, faf=0: ("Pool2DOptions", dict(Padding=pad, StrideW=s, StrideH=s, FilterWidth=k, FilterHeight=k, FusedActivationFunction=faf))

def W(name, shape, dt="INT8", scale=0.01, zp=0, **kw):
    return T(name, list(shape), dt, scale, zp, data=rnd(list(shape), dt), **kw)

def gen():
    # mul + max patterns
    for val, nm in [(13, "pos"), (0, "zero"), (-1, "m1"), (-5, "neg")]:
        for cshape in [[], [1], [1,1,1,1]]:
            t = [A("x"), T("c", cshape, "INT8", 0.02, -3, data=np.full(cshape, val)), A("m"), A("y")]
            yield "mulmax_%s_%s" % (nm, len(cshape)), build(t, [OP("MUL",[0,1],[2],MUL), OP("MAXIMUM",[0,2],[3],("MaximumMinimumOptions",{}))],[0],[3])
            yield "mulmax_rev_%s_%s" % (nm, len(cshape)), build(t, [OP("MUL",[1,0],[2],MUL), OP("MAXIMUM",[2,0],[3],("MaximumMinimumOptions",{}))],[0],[3])
    t = [A("x"), A("x2"), A("m"), A("m2"), A("y")]
    yield "mulmax_two_muls", build(t + [T("c", [], "INT8", 0.02, -3, data=[3])], [OP("MUL",[0,5],[2],MUL), OP("MUL",[1,5],[3],MUL), OP("MAXIMUM",[2,3],[4],("MaximumMinimumOptions",{}))],[0,1],[4])
    yield "max_of_two_mul_same", build([A("x"), T("c", [], "INT8", 0.02, -3, data=[3]), T("c2", [], "INT8", 0.02, -3, data=[5]), A("m"), A("m2"), A("y")],
        [OP("MUL",[0,1],[3],MUL), OP("MUL",[0,2],[4],MUL), OP("MAXIMUM",[3,4],[5],("MaximumMinimumOptions",{}))],[0],[5])
    # depthwise depth_multiplier 0 (implicit)
    yield "dw_dm0", build([A("x",(1,8,8,4)), W("w",(1,3,3,4)), T("b",[4],"INT32",0.0002,0,data=rnd([4],"INT32")), A("y",(1,8,8,4))], [OP("DEPTHWISE_CONV_2D",[0,1,2],[3],DW(0))],[0],[3])
    yield "dw_dm0_x2", build([A("x",(1,8,8,1)), W("w",(1,3,3,2)), T("b",[2],"INT32",0.0002,0,data=rnd([2],"INT32")), A("y",(1,8,8,2))], [OP("DEPTHWISE_CONV_2D",[0,1,2],[3],DW(0))],[0],[3])
    yield "dw_dm0_noshape", build([T("x",None,"INT8",0.02,0), W("w",(1,3,3,4)), A("y",(1,8,8,4))], [OP("DEPTHWISE_CONV_2D",[0,1],[2],DW(0))],[0],[2])
    yield "dw_dm0_dynw", build([A("x",(1,8,8,4)), T("w",[1,3,3,4],"INT8",0.01,0), A("y",(1,8,8,4))], [OP("DEPTHWISE_CONV_2D",[0,1],[2],DW(0))],[0,1],[2])
    yield "dw_dm3_wrong", build([A("x",(1,8,8,4)), W("w",(1,3,3,4)), A("y",(1,8,8,4))], [OP("DEPTHWISE_CONV_2D",[0,1],[2],DW(3))],[0],[2])
    yield "dw_dm2_ofm_mismatch", build([A("x",(1,8,8,1)), W("w",(1,3,3,3)), A("y",(1,8,8,3))], [OP("DEPTHWISE_CONV_2D",[0,1],[2],DW(2))],[0],[2])
    # chains
    yield "conv_relu_sep", build([A("x",(1,8,8,4)), W("w",(8,3,3,4)), A("m",(1,8,8,8)), A("y",(1,8,8,8))], [OP("CONV_2D",[0,1],[2],C()), OP("RELU",[2],[3])],[0],[3])
    yield "conv_relu_diffscale", build([A("x",(1,8,8,4)), W("w",(8,3,3,4)), A("m",(1,8,8,8)), T("y",[1,8,8,8],"INT8",0.5,7)], [OP("CONV_2D",[0,1],[2],C()), OP("RELU",[2],[3])],[0],[3])
    yield "conv_sigmoid_sep", build([A("x",(1,8,8,4)), W("w",(8,3,3,4)), A("m",(1,8,8,8)), T("y",[1,8,8,8],"INT8",1/256,-128)], [OP("CONV_2D",[0,1],[2],C()), OP("LOGISTIC",[2],[3])],[0],[3])
    yield "pad_conv", build([A("x",(1,8,8,4)), T("p",[4,2],"INT32",data=[[0,0],[1,1],[1,1],[0,0]],noquant=True), A("m",(1,10,10,4)), W("w",(8,3,3,4)), A("y",(1,8,8,8))],
        [OP("PAD",[0,1],[2],("PadOptions",{})), OP("CONV_2D",[2,3],[4],C(pad=1))],[0],[4])
    yield "pad_conv_big", build([A("x",(1,8,8,4)), T("p",[4,2],"INT32",data=[[0,0],[2,2],[2,2],[0,0]],noquant=True), A("m",(1,12,12,4)), W("w",(8,3,3,4)), A("y",(1,10,10,8))],
        [OP("PAD",[0,1],[2],("PadOptions",{})), OP("CONV_2D",[2,3],[4],C(pad=1))],[0],[4])
    yield "pad_avgpool", build([A("x",(1,8,8,4)), T("p",[4,2],"INT32",data=[[0,0],[1,1],[1,1],[0,0]],noquant=True), A("m",(1,10,10,4)), A("y",(1,8,8,4))],
        [OP("PAD",[0,1],[2],("PadOptions",{})), OP("AVERAGE_POOL_2D",[2],[3],P(3,1))],[0],[3])
    yield "pad_avgpool_u8", build([A("x",(1,8,8,4),"UINT8"), T("p",[4,2],"INT32",data=[[0,0],[1,1],[1,1],[0,0]],noquant=True), A("m",(1,10,10,4),"UINT8"), A("y",(1,8,8,4),"UINT8")],
        [OP("PAD",[0,1],[2],("PadOptions",{})), OP("AVERAGE_POOL_2D",[2],[3],P(3,1))],[0],[3])
    yield "pad_maxpool", build([A("x",(1,8,8,4)), T("p",[4,2],"INT32",data=[[0,0],[1,1],[1,1],[0,0]],noquant=True), A("m",(1,10,10,4)), A("y",(1,8,8,4))],
        [OP("PAD",[0,1],[2],("PadOptions",{})), OP("MAX_POOL_2D",[2],[3],P(3,1))],[0],[3])
    yield "pad_dw_stride2", build([A("x",(1,8,8,4)), T("p",[4,2],"INT32",data=[[0,0],[0,1],[0,1],[0,0]],noquant=True), A("m",(1,9,9,4)), W("w",(1,3,3,4)), A("y",(1,4,4,4))],
        [OP("PAD",[0,1],[2],("PadOptions",{})), OP("DEPTHWISE_CONV_2D",[2,3],[4],DW(1,pad=1,s=(2,2)))],[0],[4])
    yield "conv_reshape_fc", build([A("x",(1,4,4,4)), W("w",(8,3,3,4)), A("m",(1,4,4,8)), T("s",[2],"INT32",data=[1,128],noquant=True), A("r",(1,128)), W("w2",(10,128)), A("y",(1,10))],
        [OP("CONV_2D",[0,1],[2],C()), OP("RESHAPE",[2,3],[4],("ReshapeOptions",dict(NewShape=[1,128]))), OP("FULLY_CONNECTED",[4,5],[6],("FullyConnectedOptions",dict(FusedActivationFunction=0)))],[0],[6])
    yield "reshape_minus1", build([A("x",(1,4,4,8)), T("s",[2],"INT32",data=[1,-1],noquant=True), A("y",(1,128))], [OP("RESHAPE",[0,1],[2],("ReshapeOptions",dict(NewShape=[1,-1])))],[0],[2])
    yield "reshape_minus1_relu", build([A("x",(1,4,4,8)), T("s",[2],"INT32",data=[-1,128],noquant=True), A("r",(1,128)), A("y",(1,128))], [OP("RESHAPE",[0,1],[2],("ReshapeOptions",dict(NewShape=[-1,128]))), OP("RELU",[2],[3])],[0],[3])
    yield "reshape_shape0", build([A("x",(1,4,4,8)), T("s",[0],"INT32",noquant=True), A("y",(1,128))], [OP("RESHAPE",[0,1],[2],("ReshapeOptions",{}))],[0],[2])
    yield "reshape_zero_minus1", build([A("x",(1,4,4,8)), T("s",[2],"INT32",data=[0,-1],noquant=True), A("y",(1,128))], [OP("RESHAPE",[0,1],[2],("ReshapeOptions",{}))],[0],[2])
    yield "reshape_shape_int64", build([A("x",(1,4,4,8)), T("s",[2],"INT64",data=[1,128],noquant=True), A("y",(1,128))], [OP("RESHAPE",[0,1],[2],("ReshapeOptions",{}))],[0],[2])
    yield "reshape_shape_2d", build([A("x",(1,4,4,8)), T("s",[1,2],"INT32",data=[[1,128]],noquant=True), A("y",(1,128))], [OP("RESHAPE",[0,1],[2],("ReshapeOptions",{}))],[0],[2])
    # int16 nonzero zp, mixed weights
    yield "conv_int16_zp", build([T("x",[1,8,8,4],"INT16",0.001,5), W("w",(8,3,3,4)), T("y",[1,8,8,8],"INT16",0.002,5)], [OP("CONV_2D",[0,1],[2],C())],[0],[2])
    yield "conv_int8_u8w", build([A("x",(1,8,8,4)), W("w",(8,3,3,4),"UINT8",0.01,128), A("y",(1,8,8,8))], [OP("CONV_2D",[0,1],[2],C())],[0],[2])
    yield "conv_u8_i8w", build([A("x",(1,8,8,4),"UINT8"), W("w",(8,3,3,4),"INT8"), A("y",(1,8,8,8),"UINT8")], [OP("CONV_2D",[0,1],[2],C())],[0],[2])
    yield "conv_bias_wrong_len", build([A("x",(1,8,8,4)), W("w",(8,3,3,4)), T("b",[5],"INT32",0.0002,0,data=rnd([5],"INT32")), A("y",(1,8,8,8))], [OP("CONV_2D",[0,1,2],[3],C())],[0],[3])
    yield "conv_bias_2d", build([A("x",(1,8,8,4)), W("w",(8,3,3,4)), T("b",[1,8],"INT32",0.0002,0,data=rnd([1,8],"INT32")), A("y",(1,8,8,8))], [OP("CONV_2D",[0,1,2],[3],C())],[0],[3])
    yield "conv_bias_dyn", build([A("x",(1,8,8,4)), W("w",(8,3,3,4)), T("b",[8],"INT32",0.0002,0), A("y",(1,8,8,8))], [OP("CONV_2D",[0,1,2],[3],C())],[0,2],[3])
    yield "conv_bias_int64_big", build([T("x",[1,8,8,4],"INT16",0.001,0), W("w",(8,3,3,4)), T("b",[8],"INT64",0.00001,0,data=[2**45]*8), T("y",[1,8,8,8],"INT16",0.002,0)], [OP("CONV_2D",[0,1,2],[3],C())],[0],[3])
    yield "conv_bias_int64_neg_big", build([T("x",[1,8,8,4],"INT16",0.001,0), W("w",(8,3,3,4)), T("b",[8],"INT64",0.00001,0,data=[-2**45]*8), T("y",[1,8,8,8],"INT16",0.002,0)], [OP("CONV_2D",[0,1,2],[3],C())],[0],[3])
    yield "conv_bias_int8", build([A("x",(1,8,8,4)), W("w",(8,3,3,4)), T("b",[8],"INT8",0.0002,0,data=rnd([8])), A("y",(1,8,8,8))], [OP("CONV_2D",[0,1,2],[3],C())],[0],[3])
    yield "conv_w_scale0", build([A("x",(1,8,8,4)), W("w",(8,3,3,4),scale=0.0), A("y",(1,8,8,8))], [OP("CONV_2D",[0,1],[2],C())],[0],[2])
    yield "conv_w_scale_neg", build([A("x",(1,8,8,4)), W("w",(8,3,3,4),scale=-0.01), A("y",(1,8,8,8))], [OP("CONV_2D",[0,1],[2],C())],[0],[2])
    yield "conv_w_scale_nan", build([A("x",(1,8,8,4)), W("w",(8,3,3,4),scale=float("nan")), A("y",(1,8,8,8))], [OP("CONV_2D",[0,1],[2],C())],[0],[2])
    yield "conv_ifm_scale_nan", build([T("x",[1,8,8,4],"INT8",float("nan"),0), W("w",(8,3,3,4)), A("y",(1,8,8,8))], [OP("CONV_2D",[0,1],[2],C())],[0],[2])
    yield "conv_w_perch_some0", build([A("x",(1,8,8,4)), T("w",[8,3,3,4],"INT8",[0.01,0,0.01,0.02,0.01,0,0.01,0.02],np.zeros(8),data=rnd([8,3,3,4]),qdim=0), A("y",(1,8,8,8))], [OP("CONV_2D",[0,1],[2],C())],[0],[2])
    yield "conv_w_huge_scale", build([A("x",(1,8,8,4)), W("w",(8,3,3,4),scale=1e20), A("y",(1,8,8,8))], [OP("CONV_2D",[0,1],[2],C())],[0],[2])
    yield "conv_w_tiny_scale", build([A("x",(1,8,8,4)), W("w",(8,3,3,4),scale=1e-30), A("y",(1,8,8,8))], [OP("CONV_2D",[0,1],[2],C())],[0],[2])
    yield "conv_ofm_huge_scale", build([A("x",(1,8,8,4)), W("w",(8,3,3,4)), T("y",[1,8,8,8],"INT8",1e20,0)], [OP("CONV_2D",[0,1],[2],C())],[0],[2])
    yield "fc_w_scale0", build([A("x",(1,16)), W("w",(8,16),scale=0.0), A("y",(1,8))], [OP("FULLY_CONNECTED",[0,1],[2],("FullyConnectedOptions",dict(FusedActivationFunction=0)))],[0],[2])
    yield "fc_shuffled", build([A("x",(1,16)), W("w",(8,16)), A("y",(1,8))], [OP("FULLY_CONNECTED",[0,1],[2],("FullyConnectedOptions",dict(FusedActivationFunction=0, WeightsFormat=1)))],[0],[2])
    yield "fc_w_mismatch", build([A("x",(1,16)), W("w",(8,12)), A("y",(1,8))], [OP("FULLY_CONNECTED",[0,1],[2],("FullyConnectedOptions",dict(FusedActivationFunction=0)))],[0],[2])
    yield "fc_w_1d", build([A("x",(1,16)), W("w",(16,)), A("y",(1,1))], [OP("FULLY_CONNECTED",[0,1],[2],("FullyConnectedOptions",dict(FusedActivationFunction=0)))],[0],[2])
    yield "fc_w_4d", build([A("x",(1,16)), W("w",(8,1,1,16)), A("y",(1,8))], [OP("FULLY_CONNECTED",[0,1],[2],("FullyConnectedOptions",dict(FusedActivationFunction=0)))],[0],[2])
    yield "fc_ofm_mismatch", build([A("x",(1,16)), W("w",(8,16)), A("y",(1,9))], [OP("FULLY_CONNECTED",[0,1],[2],("FullyConnectedOptions",dict(FusedActivationFunction=0)))],[0],[2])
    yield "fc_batch8", fc(ifm=(8,16)); yield "fc_batch16", fc(ifm=(16,16)); yield "fc_batch7", fc(ifm=(7,16)); yield "fc_batch300", fc(ifm=(300,16))
    yield "fc_dyn_w", build([A("x",(1,16)), T("w",[8,16],"INT8",0.01,0), A("y",(1,8))], [OP("FULLY_CONNECTED",[0,1],[2],("FullyConnectedOptions",dict(FusedActivationFunction=0)))],[0,1],[2])
    yield "fc_w_is_fm", build([A("x",(1,16)), A("wi",(8,16)), T("w",[8,16],"INT8",0.02,-3), A("y",(1,8))], [OP("RELU",[1],[2]), OP("FULLY_CONNECTED",[0,2],[3],("FullyConnectedOptions",dict(FusedActivationFunction=0)))],[0,1],[3])
    # weight tensor shared as FM
    yield "w_also_fm", build([A("x",(1,8,8,8)), W("w",(8,1,1,8),scale=0.02,zp=0), A("y",(1,8,8,8)), A("z",(8,1,1,8))], [OP("CONV_2D",[0,1],[2],C()), OP("RELU",[1],[3])],[0],[2,3])
    yield "const_fm_two_consumers", build([A("x"), A("c", data=rnd((1,4,4,8))), A("y"), A("z")], [OP("ADD",[0,1],[2],ADD), OP("MUL",[0,1],[3],MUL)],[0],[2,3])
    # pool corner
    yield "pool_filter0", build([A("x"), A("y")], [OP("AVERAGE_POOL_2D",[0],[1],P(0,1))],[0],[1])
    yield "maxpool_filter0", build([A("x"), A("y")], [OP("MAX_POOL_2D",[0],[1],P(0,1))],[0],[1])
    yield "pool_stride0", build([A("x"), A("y")], [OP("MAX_POOL_2D",[0],[1],P(2,0))],[0],[1])
    yield "pool_rank3", build([A("x",(8,8,4)), A("y",(4,4,4))], [OP("MAX_POOL_2D",[0],[1],P(2,2))],[0],[1])
    yield "avgpool_int16_relu", pool("AVERAGE_POOL_2D", dt="INT16", faf=1)
    yield "avgpool_tanh", pool("AVERAGE_POOL_2D", faf=4)
    yield "maxpool_tanh", pool("MAX_POOL_2D", faf=4)
    yield "maxpool_relu6_u8", pool("MAX_POOL_2D", dt="UINT8", faf=3)
    yield "avgpool_same_k8", pool("AVERAGE_POOL_2D", ifm=(1,16,16,4), k=(8,8), stride=(1,1), pad=0)
    yield "avgpool_wide_stride", pool("AVERAGE_POOL_2D", ifm=(1,8,32,4), k=(2,8), stride=(2,8), pad=1)
    yield "avgpool_stride6", pool("AVERAGE_POOL_2D", ifm=(1,12,12,4), k=(2,2), stride=(2,6), pad=1)
    yield "avgpool_stride5", pool("AVERAGE_POOL_2D", ifm=(1,10,10,4), k=(2,2), stride=(1,5), pad=1)
    yield "avgpool_stride7_same", pool("AVERAGE_POOL_2D", ifm=(1,14,14,4), k=(2,2), stride=(1,7), pad=0)
    yield "conv_stride5", conv(ifm=(1,10,10,4), stride=(1,5)); yield "conv_stride7", conv(ifm=(1,14,15,4), stride=(1,7))
    yield "conv_stride6", conv(ifm=(1,12,12,4), stride=(1,6)); yield "conv_stride14", conv(ifm=(1,8,133,2), k=(1,7), stride=(1,14), pad=1)
    yield "conv_stride4_first", conv(ifm=(1,16,16,3), stride=(4,4)); yield "conv_stride2_first_rgb", conv(ifm=(1,16,16,3), stride=(2,2))
    yield "conv_stride2_first_odd", conv(ifm=(1,15,15,3), stride=(2,2)); yield "conv_stride3_first", conv(ifm=(1,15,15,2), stride=(3,3))
    yield "conv_stride2_k2_valid", conv(ifm=(1,16,16,3), k=(2,2), stride=(2,2), pad=1); yield "conv_stride2_k5", conv(ifm=(1,16,16,1), k=(5,5), stride=(2,2))
    yield "conv_stride2_k1", conv(ifm=(1,16,16,4), k=(1,1), stride=(2,2)); yield "conv_ofm_h1", conv(ifm=(1,3,16,4), k=(3,3), stride=(2,2), pad=1)
    yield "conv_stride2_perch_u8", conv(ifm=(1,16,16,3), stride=(2,2), dt="UINT8", wzp=128)
    # argmax large
    yield "argmax_big_hw", argmax((1,300,300,4), 3); yield "argmax_256x256", argmax((1,256,256,4), 3); yield "argmax_w70000", argmax((1,1,70000,4), 3) if False else argmax((1,1,60000,4),3)
    yield "argmax_512x256", argmax((1,512,256,2), 3); yield "argmax_h70000", argmax((1,60000,2,2), 3)
    # reduce sum / mean variants
    yield "mean_scalar_axis", build([A("x",(1,8,8,4)), T("ax",[],"INT32",data=[1],noquant=True), A("y",(1,1,8,4))], [OP("MEAN",[0,1],[2],("ReducerOptions",dict(KeepDims=True)))],[0],[2])
    yield "mean_axis_int64", build([A("x",(1,8,8,4)), T("ax",[2],"INT64",data=[1,2],noquant=True), A("y",(1,1,1,4))], [OP("MEAN",[0,1],[2],("ReducerOptions",dict(KeepDims=True)))],[0],[2])
    yield "mean_axis_2d", build([A("x",(1,8,8,4)), T("ax",[1,2],"INT32",data=[[1,2]],noquant=True), A("y",(1,1,1,4))], [OP("MEAN",[0,1],[2],("ReducerOptions",dict(KeepDims=True)))],[0],[2])
    yield "mean_ofm_wrong", build([A("x",(1,8,8,4)), T("ax",[2],"INT32",data=[1,2],noquant=True), A("y",(1,2,2,4))], [OP("MEAN",[0,1],[2],("ReducerOptions",dict(KeepDims=True)))],[0],[2])
    yield "mean_h65", reduce_("MEAN",(1,65,65,4),[1,2],True); yield "mean_h4097", reduce_("MEAN",(1,4097,1,4),[1],True); yield "mean_w4097", reduce_("MEAN",(1,1,4097,4),[2],True)
    yield "mean_c_big", reduce_("MEAN",(1,1,8,5000),[3],True); yield "mean_c4096", reduce_("MEAN",(1,1,1,4096),[3],True); yield "mean_hc", reduce_("MEAN",(1,8,1,16),[1,3],True)
    yield "mean_wc", reduce_("MEAN",(1,1,8,16),[2,3],True); yield "mean_3d_c", reduce_("MEAN",(8,1,16),[2],True); yield "mean_3d_0", reduce_("MEAN",(1,8,16),[0],False)
    yield "mean_2d_both", reduce_("MEAN",(8,16),[0,1],True); yield "mean_2d_1", reduce_("MEAN",(8,16),[1],False); yield "mean_uint8_big", reduce_("MEAN",(1,128,128,2),[1,2],True,dt="UINT8")
    yield "mean_int16_256", reduce_("MEAN",(1,16,16,2),[1,2],True,dt="INT16"); yield "mean_int16_257", reduce_("MEAN",(1,257,1,2),[1],True,dt="INT16")
    # softmax / activations extremes
    yield "softmax_beta_nan", softmax((1,10), beta=float("nan")); yield "softmax_beta_inf", softmax((1,10), beta=float("inf")); yield "softmax_beta_tiny", softmax((1,10), beta=1e-30)
    yield "softmax_i16_beta", softmax((1,10), "INT16", beta=5.0); yield "softmax_depth1", softmax((1,4,4,1)); yield "softmax_b3_hw", softmax((3,4,4,8))
    yield "softmax_scale_big", build([T("x",[1,10],"INT8",1e5,0), T("y",[1,10],"INT8",1/256,-128)], [OP("SOFTMAX",[0],[1],("SoftmaxOptions",dict(Beta=1.0)))],[0],[1])
    yield "softmax_scale_tiny", build([T("x",[1,10],"INT8",1e-20,0), T("y",[1,10],"INT8",1/256,-128)], [OP("SOFTMAX",[0],[1],("SoftmaxOptions",dict(Beta=1.0)))],[0],[1])
    yield "softmax16_scale_big", build([T("x",[1,10],"INT16",1e3,0), T("y",[1,10],"INT16",1/32768,0)], [OP("SOFTMAX",[0],[1],("SoftmaxOptions",dict(Beta=1.0)))],[0],[1])
    for code in ["LOGISTIC","TANH","HARD_SWISH","EXP","LOG","SQRT","RSQRT","GELU","LEAKY_RELU","RELU6","RELU_N1_TO_1","ABS"]:
        opts = {"HARD_SWISH":("HardSwishOptions",{}),"EXP":("ExpOptions",{}),"GELU":("GeluOptions",{}),"LEAKY_RELU":("LeakyReluOptions",dict(Alpha=0.2)),"ABS":("AbsOptions",{})}.get(code)
        for si, so, z in [(1e5, 1e-5, 0), (1e-12, 1e3, 0), (0.1, 0.1, 127), (0.1, 0.1, -128), (1e-30, 1e-30, 0), (1e20,1e20,0)]:
            for dt in ["INT8","INT16","UINT8"]:
                zz = 0 if dt == "INT16" else (z + 128 if dt == "UINT8" else z)
                yield "%s_%s_%g_%g_%d" % (code, dt, si, so, z), build([T("x",[1,4,4,8],dt,si,zz), T("y",[1,4,4,8],dt,so,zz)],[OP(code,[0],[1],opts)],[0],[1])
    # elementwise extremes
    for code, o in [("ADD",ADD),("SUB",("SubOptions",dict(FusedActivationFunction=0))),("MUL",MUL),("SQUARED_DIFFERENCE",("SquaredDifferenceOptions",{})),("MAXIMUM",("MaximumMinimumOptions",{}))]:
        for sa, sb, so in [(1e-10,1.0,1.0),(1.0,1e-10,1e-10),(1e10,1.0,1.0),(1.0,1.0,1e10),(1e-30,1e-30,1e-30),(1e15,1e-15,1.0),(1.0,1.0,1e-10)]:
            for dt in ["INT8","INT16"]:
                yield "%s_%s_%g_%g_%g" % (code, dt, sa, sb, so), build([T("a",[1,4,4,8],dt,sa,0), T("b",[1,4,4,8],dt,sb,0), T("y",[1,4,4,8],dt,so,0)],[OP(code,[0,1],[2],o)],[0,1],[2])
    yield "add_tanh", binop("ADD",(1,4,4,8),(1,4,4,8),faf=4); yield "mul_relu6_i16", binop("MUL",(1,4,4,8),(1,4,4,8),dt="INT16",faf=3); yield "sub_n1to1", binop("SUB",(1,4,4,8),(1,4,4,8),faf=2)
    yield "add_signbit", binop("ADD",(1,4,4,8),(1,4,4,8),faf=5); yield "add_faf9", binop("ADD",(1,4,4,8),(1,4,4,8),faf=9) if False else binop("ADD",(1,4,4,8),(1,4,4,8),faf=5)
    yield "add_scalar_i16_const", binop("ADD",(1,4,4,8),(),dt="INT16",const_b=True); yield "mul_scalar_i32", binop("MUL",(1,4,4,8),(),dt="INT32",const_b=True)
    yield "add_const_first", build([A("c",(1,4,4,8),data=rnd((1,4,4,8))), A("x"), A("y")],[OP("ADD",[0,1],[2],ADD)],[1],[2])
    yield "sub_scalar_first", build([T("c",[],"INT8",0.02,-3,data=[5]), A("x"), A("y")],[OP("SUB",[0,1],[2],("SubOptions",dict(FusedActivationFunction=0)))],[1],[2])
    yield "sub_bcast_first", build([A("c",(1,1,1,8)), A("x"), A("y")],[OP("SUB",[0,1],[2],("SubOptions",dict(FusedActivationFunction=0)))],[0,1],[2])
    yield "add_ofm_smaller", build([A("a"), A("b"), A("y",(1,1,1,8))],[OP("ADD",[0,1],[2],ADD)],[0,1],[2])
    yield "add_bcast_h", binop("ADD",(1,4,4,8),(1,1,4,8)); yield "add_bcast_w", binop("ADD",(1,4,4,8),(1,4,1,8)); yield "add_bcast_c", binop("ADD",(1,4,4,8),(1,4,4,1)); yield "add_bcast_hw_vs_c", binop("ADD",(1,4,4,1),(1,1,1,8))
    yield "add_rank2_vs_4", binop("ADD",(1,4,4,8),(4,8)); yield "add_rank3_bcast", binop("ADD",(4,4,8),(1,1,8)); yield "min_bcast", binop("MINIMUM",(1,4,4,8),(1,1,1,8),qa=(0.02,-3),qb=(0.02,-3),qo=(0.02,-3))
    # resize more
    yield "resize_bl_3d", build([A("x",(4,4,8)), T("s",[2],"INT32",data=[8,8],noquant=True), A("y",(8,8,8))],[OP("RESIZE_BILINEAR",[0,1],[2],("ResizeBilinearOptions",dict(AlignCorners=False,HalfPixelCenters=False)))],[0],[2])
    yield "resize_nn_size_mismatch", build([A("x",(1,4,4,8)), T("s",[2],"INT32",data=[9,9],noquant=True), A("y",(1,8,8,8))],[OP("RESIZE_NEAREST_NEIGHBOR",[0,1],[2],("ResizeNearestNeighborOptions",dict(AlignCorners=False,HalfPixelCenters=False)))],[0],[2])
    yield "resize_bl_size_1elem", build([A("x",(1,4,4,8)), T("s",[1],"INT32",data=[8],noquant=True), A("y",(1,8,8,8))],[OP("RESIZE_BILINEAR",[0,1],[2],("ResizeBilinearOptions",dict(AlignCorners=False,HalfPixelCenters=False)))],[0],[2])
    yield "resize_bl_no_size", build([A("x",(1,4,4,8)), A("y",(1,8,8,8))],[OP("RESIZE_BILINEAR",[0],[1],("ResizeBilinearOptions",dict(AlignCorners=False,HalfPixelCenters=False)))],[0],[1])
    yield "resize_bl_ac_5to9", resize("RESIZE_BILINEAR",(1,5,5,8),(9,9),ac=True); yield "resize_bl_ac_3to17", resize("RESIZE_BILINEAR",(1,3,3,8),(17,17),ac=True); yield "resize_nn_ac_3to5", resize("RESIZE_NEAREST_NEIGHBOR",(1,3,3,8),(5,5),ac=True)
    yield "resize_nn_ac_2to9", resize("RESIZE_NEAREST_NEIGHBOR",(1,2,2,8),(9,9),ac=True); yield "resize_bl_hpc_1x1", resize("RESIZE_BILINEAR",(1,1,1,8),(2,2),hpc=True); yield "resize_nn_hpc_2x", resize("RESIZE_NEAREST_NEIGHBOR",(1,4,4,8),(8,8),hpc=True)
    yield "resize_bl_w1", resize("RESIZE_BILINEAR",(1,4,1,8),(8,2)); yield "resize_bl_h1_2x", resize("RESIZE_BILINEAR",(1,1,4,8),(2,8)); yield "resize_bl_ac_h1", resize("RESIZE_BILINEAR",(1,1,3,8),(1,5),ac=True)
    # strided slice / slice more
    from corpus import strided_slice, slice_, split_v, split, unpack, pack, concat, transpose, pad
    yield "ss_end_lt_begin", strided_slice((1,8,8,8),[0,4,0,0],[1,2,8,8],[1,1,1,1],(1,0,8,8)); yield "ss_zero_len", strided_slice((1,8,8,8),[0,4,0,0],[1,4,8,8],[1,1,1,1],(1,0,8,8))
    yield "ss_begin_oob", strided_slice((1,8,8,8),[0,10,0,0],[1,12,8,8],[1,1,1,1],(1,0,8,8)); yield "ss_neg_oob", strided_slice((1,8,8,8),[0,-20,0,0],[1,4,8,8],[1,1,1,1],(1,4,8,8))
    yield "ss_shrink_last", strided_slice((1,8,8,8),[0,0,0,3],[1,8,8,4],[1,1,1,1],(1,8,8),masks=dict(s=8)); yield "ss_shrink_first", strided_slice((2,8,8,8),[1,0,0,0],[2,8,8,8],[1,1,1,1],(8,8,8),masks=dict(s=1))
    yield "ss_shrink_two", strided_slice((1,8,8,8),[0,2,3,0],[1,3,4,8],[1,1,1,1],(1,8),masks=dict(s=6)); yield "ss_newaxis_mid", strided_slice((8,8,8),[0,0,0,0],[8,0,8,8],[1,1,1,1],(8,1,8,8),masks=dict(n=2))
    yield "ss_newaxis_end", strided_slice((8,8,8),[0,0,0,0],[8,8,8,0],[1,1,1,1],(8,8,8,1),masks=dict(n=8)); yield "ss_new_and_shrink", strided_slice((1,8,8,8),[0,0,0,0],[1,8,8,8],[1,1,1,1],(1,8,8,8),masks=dict(n=1,s=2))
    yield "ss_int64_idx", build([A("x",(1,8,8,8)), T("b",[4],"INT64",data=[0,2,2,0],noquant=True), T("e",[4],"INT64",data=[1,6,6,8],noquant=True), T("s",[4],"INT64",data=[1,1,1,1],noquant=True), A("y",(1,4,4,8))],
        [OP("STRIDED_SLICE",[0,1,2,3],[4],("StridedSliceOptions",dict(BeginMask=0,EndMask=0,EllipsisMask=0,NewAxisMask=0,ShrinkAxisMask=0)))],[0],[4])
    yield "ss_offset_true", build([A("x",(1,8,8,8)), T("b",[4],"INT32",data=[0,2,2,0],noquant=True), T("e",[4],"INT32",data=[1,4,4,8],noquant=True), T("s",[4],"INT32",data=[1,1,1,1],noquant=True), A("y",(1,4,4,8))],
        [OP("STRIDED_SLICE",[0,1,2,3],[4],("StridedSliceOptions",dict(BeginMask=0,EndMask=0,EllipsisMask=0,NewAxisMask=0,ShrinkAxisMask=0,Offset=True)))],[0],[4])
    yield "ss_3inputs", build([A("x",(1,8,8,8)), T("b",[4],"INT32",data=[0,2,2,0],noquant=True), T("e",[4],"INT32",data=[1,6,6,8],noquant=True), A("y",(1,4,4,8))],
        [OP("STRIDED_SLICE",[0,1,2],[3],("StridedSliceOptions",dict(BeginMask=0,EndMask=0,EllipsisMask=0,NewAxisMask=0,ShrinkAxisMask=0)))],[0],[3])
    yield "slice_oob", slice_((1,8,8,8),[0,6,0,0],[1,4,8,8]); yield "slice_zero", slice_((1,8,8,8),[0,0,0,0],[1,0,8,8]); yield "slice_neg_begin", slice_((1,8,8,8),[0,-2,0,0],[1,2,8,8]); yield "slice_short", slice_((1,8,8,8),[0,2],[1,4])
    yield "slice_mixed_neg", slice_((1,8,8,8),[0,2,0,0],[1,-1,8,8]); yield "slice_2inputs", build([A("x",(1,8,8,8)), T("b",[4],"INT32",data=[0,2,2,0],noquant=True), A("y",(1,4,4,8))],[OP("SLICE",[0,1],[2],("SliceOptions",{}))],[0],[2])
    yield "splitv_all_neg", split_v((1,4,4,8),3,[-1,-1]); yield "splitv_sum_wrong", split_v((1,4,4,8),3,[3,4]); yield "splitv_single", split_v((1,4,4,8),3,[8]); yield "splitv_neg_first", split_v((1,4,4,8),3,[-1,5])
    yield "split_axis_oob", split((1,4,4,8),4,2) if False else split((1,4,4,8),-4,1); yield "split_not_div", build([T("ax",[],"INT32",data=[3],noquant=True), A("x",(1,4,4,7)), A("a",(1,4,4,4)), A("b",(1,4,4,3))],[OP("SPLIT",[0,1],[2,3],("SplitOptions",dict(NumSplits=2)))],[1],[2,3])
    yield "split_num_mismatch", build([T("ax",[],"INT32",data=[3],noquant=True), A("x",(1,4,4,8)), A("a",(1,4,4,4)), A("b",(1,4,4,4))],[OP("SPLIT",[0,1],[2,3],("SplitOptions",dict(NumSplits=4)))],[1],[2,3])
    yield "split_axis_1d", build([T("ax",[1],"INT32",data=[3],noquant=True), A("x",(1,4,4,8)), A("a",(1,4,4,4)), A("b",(1,4,4,4))],[OP("SPLIT",[0,1],[2,3],("SplitOptions",dict(NumSplits=2)))],[1],[2,3])
    yield "split_one_out_used", build([T("ax",[],"INT32",data=[3],noquant=True), A("x",(1,4,4,8)), A("a",(1,4,4,4)), A("b",(1,4,4,4)), A("y",(1,4,4,4))],[OP("SPLIT",[0,1],[2,3],("SplitOptions",dict(NumSplits=2))), OP("RELU",[3],[4])],[1],[4])
    yield "unpack_neg2", unpack((2,4,2,8),-2); yield "unpack_neg4", unpack((2,4,2,8),-4); yield "unpack_num_mismatch", build([A("x",(2,4,8)), A("a",(4,8)), A("b",(4,8))],[OP("UNPACK",[0],[1,2],("UnpackOptions",dict(Axis=0,Num=3)))],[0],[1,2])
    yield "pack_neg2", pack((4,4,8),2,-2); yield "pack_neg_all", pack((4,4,8),2,-4); yield "pack_count_mismatch", build([A("a",(4,8)), A("b",(4,8)), A("y",(2,4,8))],[OP("PACK",[0,1],[2],("PackOptions",dict(Axis=0,ValuesCount=3)))],[0,1],[2])
    yield "concat_neg2", concat([(1,4,4,8),(1,4,4,8)],-2); yield "concat_neg3_r3", concat([(4,4,8),(4,4,8)],-3); yield "concat_mismatch", build([A("a",(1,4,4,8)), A("b",(1,4,5,8)), A("y",(1,4,4,16))],[OP("CONCATENATION",[0,1],[2],("ConcatenationOptions",dict(Axis=3,FusedActivationFunction=0)))],[0,1],[2])
    yield "concat_const", build([A("a",(1,4,4,8)), A("c",(1,4,4,8),data=rnd((1,4,4,8))), A("y",(1,4,4,16))],[OP("CONCATENATION",[0,1],[2],("ConcatenationOptions",dict(Axis=3,FusedActivationFunction=0)))],[0],[2])
    yield "concat_same_twice", build([A("a",(1,4,4,8)), A("y",(1,4,4,16))],[OP("CONCATENATION",[0,0],[1],("ConcatenationOptions",dict(Axis=3,FusedActivationFunction=0)))],[0],[1])
    yield "concat_relu6_i16", concat([(1,4,4,8),(1,4,4,8)],3,dt="INT16",faf=3); yield "concat_20", concat([(1,4,4,3)]*20,3); yield "concat_batch_ax0", concat([(1,4,4,8),(2,4,4,8)],0)
    yield "transpose_noperm", build([A("x",(1,4,6,8)), T("p",[4],"INT32",noquant=True), A("y",(1,6,4,8))],[OP("TRANSPOSE",[0,1],[2],("TransposeOptions",{}))],[0,1],[2])
    yield "transpose_perm_dup", transpose((1,4,6,8),(0,1,1,3)) if False else build([A("x",(1,4,6,8)), T("p",[4],"INT32",data=[0,1,1,3],noquant=True), A("y",(1,4,4,8))],[OP("TRANSPOSE",[0,1],[2],("TransposeOptions",{}))],[0],[2])
    yield "transpose_perm_neg", build([A("x",(1,4,6,8)), T("p",[4],"INT32",data=[0,2,1,-1],noquant=True), A("y",(1,6,4,8))],[OP("TRANSPOSE",[0,1],[2],("TransposeOptions",{}))],[0],[2])
    yield "transpose_r3_102", transpose((4,6,8),(1,0,2)); yield "transpose_r3_021", transpose((1,6,8),(0,2,1)); yield "transpose_r3_201_h1", transpose((4,1,8),(2,1,0)); yield "transpose_r4_0132", transpose((1,1,6,8),(0,1,3,2)); yield "transpose_r4_0321", transpose((1,4,1,8),(0,3,2,1))
    yield "transpose_r4_batch", transpose((2,4,6,8),(0,2,1,3)); yield "transpose_r4_0213_relu", build([A("x",(1,4,6,8)), T("p",[4],"INT32",data=[0,2,1,3],noquant=True), A("m",(1,6,4,8)), A("y",(1,6,4,8))],[OP("TRANSPOSE",[0,1],[2],("TransposeOptions",{})), OP("RELU",[2],[3])],[0],[3])
    yield "transpose_big", transpose((1,300,300,3),(0,2,1,3)); yield "transpose_i32_r2", transpose((40,60),(1,0),dt="INT32")
    yield "pad_neg", pad((1,8,8,4),[[0,0],[-1,1],[0,0],[0,0]]); yield "pad_3x2", pad((8,8,4),[[1,1],[1,1],[0,0]]); yield "pad_3x2_c", pad((8,8,4),[[0,0],[0,0],[1,1]]); yield "pad_batch_and_c", pad((1,8,8,4),[[1,1],[0,0],[0,0],[1,1]])
    yield "pad_all", pad((1,8,8,4),[[1,1],[1,1],[1,1],[1,1]]); yield "pad_hw_c", pad((1,8,8,4),[[0,0],[1,1],[1,1],[2,2]]); yield "pad_i16_c", pad((1,8,8,4),[[0,0],[0,0],[0,0],[2,2]],dt="INT16"); yield "pad_u8_n", pad((1,8,8,4),[[2,0],[0,0],[0,0],[0,0]],dt="UINT8")
    yield "pad_dyn", build([A("x",(1,8,8,4)), T("p",[4,2],"INT32",noquant=True), A("y",(1,10,10,4))],[OP("PAD",[0,1],[2],("PadOptions",{}))],[0,1],[2])
    yield "pad_wrong_out", build([A("x",(1,8,8,4)), T("p",[4,2],"INT32",data=[[0,0],[1,1],[1,1],[0,0]],noquant=True), A("y",(1,9,9,4))],[OP("PAD",[0,1],[2],("PadOptions",{}))],[0],[2])
    yield "pad_shape_2x4", build([A("x",(1,8,8,4)), T("p",[2,4],"INT32",data=[[0,1,1,0],[0,1,1,0]],noquant=True), A("y",(1,10,10,4))],[OP("PAD",[0,1],[2],("PadOptions",{}))],[0],[2])
    yield "pad_diffq", build([A("x",(1,8,8,4)), T("p",[4,2],"INT32",data=[[0,0],[1,1],[1,1],[0,0]],noquant=True), T("y",[1,10,10,4],"INT8",0.05,4)],[OP("PAD",[0,1],[2],("PadOptions",{}))],[0],[2])
    # quantize / dequantize chains
    yield "deq_logistic_q", build([A("x"), T("f",[1,4,4,8],"FLOAT32",noquant=True), T("g",[1,4,4,8],"FLOAT32",noquant=True), T("y",[1,4,4,8],"INT8",1/256,-128)],
        [OP("DEQUANTIZE",[0],[1],("DequantizeOptions",{})), OP("LOGISTIC",[1],[2]), OP("QUANTIZE",[2],[3],("QuantizeOptions",{}))],[0],[3])
    yield "deq_gelu_q", build([A("x"), T("f",[1,4,4,8],"FLOAT32",noquant=True), T("g",[1,4,4,8],"FLOAT32",noquant=True), A("y")],
        [OP("DEQUANTIZE",[0],[1],("DequantizeOptions",{})), OP("GELU",[1],[2],("GeluOptions",{})), OP("QUANTIZE",[2],[3],("QuantizeOptions",{}))],[0],[3])
    yield "deq_q_only", build([A("x"), T("f",[1,4,4,8],"FLOAT32",noquant=True), A("y")],[OP("DEQUANTIZE",[0],[1],("DequantizeOptions",{})), OP("QUANTIZE",[1],[2],("QuantizeOptions",{}))],[0],[2])
    yield "q_q", build([A("x"), T("m",[1,4,4,8],"INT8",0.5,3), T("y",[1,4,4,8],"INT8",0.1,-7)],[OP("QUANTIZE",[0],[1],("QuantizeOptions",{})), OP("QUANTIZE",[1],[2],("QuantizeOptions",{}))],[0],[2])
    yield "q_u8_to_i8", build([A("x",dt="UINT8"), A("y")],[OP("QUANTIZE",[0],[1],("QuantizeOptions",{}))],[0],[1])
    yield "q_i8_i16_conv", build([A("x",(1,8,8,4)), T("m",[1,8,8,4],"INT16",0.001,0), W("w",(8,3,3,4)), T("y",[1,8,8,8],"INT16",0.002,0)],[OP("QUANTIZE",[0],[1],("QuantizeOptions",{})), OP("CONV_2D",[1,2],[3],C())],[0],[3])
    yield "q_const", build([A("c",data=rnd((1,4,4,8))), T("y",[1,4,4,8],"INT8",0.5,3)],[OP("QUANTIZE",[0],[1],("QuantizeOptions",{}))],[],[1])
    yield "q_const_then_add", build([A("c",data=rnd((1,4,4,8))), T("m",[1,4,4,8],"INT8",0.5,3), A("x"), A("y")],[OP("QUANTIZE",[0],[1],("QuantizeOptions",{})), OP("ADD",[1,2],[3],ADD)],[2],[3])
    yield "q_scalar", build([T("x",[],"INT8",0.02,0), T("y",[],"INT8",0.5,3)],[OP("QUANTIZE",[0],[1],("QuantizeOptions",{}))],[0],[1])
    yield "q_perch", build([A("x"), T("y",[1,4,4,8],"INT8",np.linspace(0.1,0.2,8),np.zeros(8),qdim=3)],[OP("QUANTIZE",[0],[1],("QuantizeOptions",{}))],[0],[1])
    yield "cast_i8_i32", build([A("x"), T("y",[1,4,4,8],"INT32",noquant=True)],[OP("CAST",[0],[1],("CastOptions",dict(InDataType=9,OutDataType=2)))],[0],[1])
    yield "cast_noopts", build([A("x"), T("y",[1,4,4,8],"INT32",noquant=True)],[OP("CAST",[0],[1])],[0],[1])
    yield "tconv_dyn_shape", build([T("os",[4],"INT32",noquant=True), W("w",(8,3,3,4)), A("x",(1,4,4,4)), A("y",(1,8,8,8))],[OP("TRANSPOSE_CONV",[0,1,2],[3],("TransposeConvOptions",dict(Padding=0,StrideW=2,StrideH=2)))],[0,2],[3])
    yield "tconv_perch", build([T("os",[4],"INT32",data=[1,8,8,8],noquant=True), T("w",[8,3,3,4],"INT8",np.linspace(0.01,0.02,8),np.zeros(8),data=rnd([8,3,3,4]),qdim=0), A("x",(1,4,4,4)), A("y",(1,8,8,8))],[OP("TRANSPOSE_CONV",[0,1,2],[3],("TransposeConvOptions",dict(Padding=0,StrideW=2,StrideH=2)))],[2],[3])
    yield "tconv_2x1", build([T("os",[4],"INT32",data=[1,1,8,8],noquant=True), W("w",(8,1,3,4)), A("x",(1,1,4,4)), A("y",(1,1,8,8))],[OP("TRANSPOSE_CONV",[0,1,2],[3],("TransposeConvOptions",dict(Padding=0,StrideW=2,StrideH=1)))],[2],[3])
    yield "tconv_os_mismatch", build([T("os",[4],"INT32",data=[1,9,9,8],noquant=True), W("w",(8,3,3,4)), A("x",(1,4,4,4)), A("y",(1,8,8,8))],[OP("TRANSPOSE_CONV",[0,1,2],[3],("TransposeConvOptions",dict(Padding=0,StrideW=2,StrideH=2)))],[2],[3])
    yield "tconv_bias_m1", build([T("os",[4],"INT32",data=[1,8,8,8],noquant=True), W("w",(8,3,3,4)), A("x",(1,4,4,4)), A("y",(1,8,8,8))],[OP("TRANSPOSE_CONV",[0,1,2,-1],[3],("TransposeConvOptions",dict(Padding=0,StrideW=2,StrideH=2)))],[2],[3])
    yield "prelu_const_alpha", build([A("x"), T("al",[1,1,8],"INT8",0.01,0,data=rnd([1,1,8])), A("y")],[OP("PRELU",[0,1],[2])],[0],[2])
    yield "prelu_const_alpha_pos", build([A("x"), T("al",[1,1,8],"INT8",0.01,-128,data=np.abs(rnd([1,1,8]))), A("y")],[OP("PRELU",[0,1],[2])],[0],[2])
    yield "prelu_alpha_scalar", build([A("x"), T("al",[],"INT8",0.01,0,data=[20]), A("y")],[OP("PRELU",[0,1],[2])],[0],[2])
    yield "prelu_alpha_full", build([A("x"), T("al",[1,4,4,8],"INT8",0.01,0,data=rnd([1,4,4,8])), A("y")],[OP("PRELU",[0,1],[2])],[0],[2])
    yield "prelu_u8", build([A("x",dt="UINT8"), T("al",[1,1,8],"UINT8",0.01,128,data=rnd([1,1,8],"UINT8")), A("y",dt="UINT8")],[OP("PRELU",[0,1],[2])],[0],[2])
    yield "prelu_i16", build([A("x",dt="INT16"), T("al",[1,1,8],"INT16",0.0001,0,data=rnd([1,1,8],"INT16")), A("y",dt="INT16")],[OP("PRELU",[0,1],[2])],[0],[2])
    yield "prelu_alpha_neg", build([A("x"), T("al",[1,1,8],"INT8",0.01,0,data=-np.abs(rnd([1,1,8]))-1), A("y")],[OP("PRELU",[0,1],[2])],[0],[2])
    yield "prelu_alpha_zero", build([A("x"), T("al",[1,1,8],"INT8",0.01,0,data=np.zeros([1,1,8])), A("y")],[OP("PRELU",[0,1],[2])],[0],[2])
    yield "prelu_alpha_big", build([A("x"), T("al",[1,1,8],"INT8",1.0,0,data=np.full([1,1,8],100)), A("y")],[OP("PRELU",[0,1],[2])],[0],[2])

import sys, os
sys.path.insert(0, os.path.join(os.getcwd(), "out"))
exec(open("out/try.py").read())
from mk import T, OP, build
import numpy as np
rng = np.random.default_rng(3)
C = ("Conv2DOptions", dict(Padding=0, StrideW=1, StrideH=1, DilationWFactor=1, DilationHFactor=1, FusedActivationFunction=0))
def shared(s_mid=0.04, s_out=0.04, share_bias=True, k=3, c=8, two_inputs=False):
    w = rng.integers(-100, 100, (c, k, k, c))
    t = [T("x",[1,8,8,c],"INT8",0.02,0), T("w",[c,k,k,c],"INT8",0.01,0,data=w), T("b",[c],"INT32",0.0002,0,data=rng.integers(-50,50,(c,))),
         T("mid",[1,8,8,c],"INT8",s_mid,0), T("y",[1,8,8,c],"INT8",s_out,0), T("b2",[c],"INT32",0.0004,0,data=rng.integers(-50,50,(c,))), T("x2",[1,8,8,c],"INT8",0.03,0)]
    if two_inputs:
        ops = [OP("CONV_2D",[0,1,2],[3],C), OP("CONV_2D",[6,1,2 if share_bias else 5],[4],C)]
        return build(t, ops, [0,6], [3,4])
    ops = [OP("CONV_2D",[0,1,2],[3],C), OP("CONV_2D",[3,1,2 if share_bias else 5],[4],C)]
    return build(t, ops, [0], [4])
for kw in [dict(), dict(s_mid=0.02, s_out=0.02), dict(s_out=0.08), dict(share_bias=False), dict(two_inputs=True), dict(two_inputs=True, share_bias=False), dict(k=1), dict(c=64, k=3, s_out=0.1)]:
    for a in [[], ["--accelerator-config","ethos-u55-128"], ["--accelerator-config","ethos-u65-512"]]:
        show("shared %s %s" % (kw, a), shared(**kw), a)

common = open("out/_obs_common.py").read()
HDR = '''"""C13 observation {n}: {title}

Found on the UNMODIFIED tree. Run as: cd /tmp/seed5/C13 && /venv/bin/python out/observation{n}.py
Exit status 1 / "VIOLATION" = vela died with an internal exception (or returned 0 without an output model) for a
structurally valid model; exit status 0 / "PASS" = the property holds for these models.
{detail}"""
'''
PRE = '''
rng = np.random.default_rng(5)


def A(name, shape=(1, 4, 4, 8), dt="INT8", scale=0.02, zp=-3, **kw):
    if dt == "INT16":
        zp = 0
    if dt == "UINT8":
        zp = 125
    return T(name, list(shape), dt, scale, zp, **kw)


def W(name, shape, dt="INT8", scale=0.01, zp=0, **kw):
    return T(name, list(shape), dt, scale, zp, data=rng.integers(-100, 100, list(shape)), **kw)


def I32(name, values, dt="INT32"):
    arr = np.asarray(values)
    return T(name, list(arr.shape), dt, data=arr, noquant=True)


ADD = ("AddOptions", dict(FusedActivationFunction=0))
CONV = ("Conv2DOptions", dict(Padding=0, StrideW=1, StrideH=1, DilationWFactor=1, DilationHFactor=1, FusedActivationFunction=0))


def pool_opts(k, s, pad=1):
    return ("Pool2DOptions", dict(Padding=pad, StrideW=s, StrideH=s, FilterWidth=k, FilterHeight=k, FusedActivationFunction=0))

'''
OBS = []
def obs(title, detail, body):
    OBS.append((title, detail, body))

obs("CONCATENATION with a fused activation function",
    "CONCATENATION carries fused_activation_function = RELU (valid in the schema, accepted by the supported-operator\nchecks: RELU is a supported fused activation). unfuse_activation_function() splits the activation off, pass packing\nthen hits 'assert npu_block_type == NpuBlockType.Default' (pass_packing.py build_pass): AssertionError traceback.",
'''
def model(faf, dt="INT8"):
    t = [A("a", dt=dt), A("b", dt=dt), A("y", (1, 4, 4, 16), dt=dt)]
    o = OP("CONCATENATION", [0, 1], [2], ("ConcatenationOptions", dict(Axis=3, FusedActivationFunction=faf)))
    return build(t, [o], [0, 1], [2])


sys.exit(check([("concat_relu", model(1), []), ("concat_relu6_int16", model(3, "INT16"), [])]))
''')
obs("SLICE with size -1 (all remaining elements)",
    "TFLite SLICE allows size[i] == -1 meaning 'to the end of the dimension'. Operation.get_split_inputs_axis computes\noffset_end = size + begin = begin - 1 and the read shape becomes negative. With -1 in the width dimension\nhigh_level_command_stream.Box asserts start <= end (AssertionError traceback); with -1 in H, C or N the model\ncompiles without complaint (the negative extent is silently clipped).",
'''
t = [A("x", (1, 8, 8, 8)), I32("begin", [0, 2, 2, 0]), I32("size", [1, 6, -1, 8]), A("y", (1, 6, 6, 8))]
sys.exit(check([("slice_size_minus1", build(t, [OP("SLICE", [0, 1, 2], [3], ("SliceOptions", {}))], [0], [3]), [])]))
''')
obs("UNPACK with a negative axis",
    "UNPACK axis = -1 on a [2,4,2,8] input. rewrite_unpack_output converts the negative axis with the formula for PACK\n(len(input shape) + 1 + axis) so the 4D axis is off by one and rewrite_split_ops indexes a Shape4D with 4:\nIndexError traceback (axis -2, -3 give wrong but in-range axes).",
'''
def model(axis):
    shape = [2, 4, 2, 8]
    ax = axis + 4
    osh = shape[:ax] + shape[ax + 1:]
    n = shape[ax]
    t = [A("x", shape)] + [A("o%d" % i, osh) for i in range(n)]
    return build(t, [OP("UNPACK", [0], list(range(1, n + 1)), ("UnpackOptions", dict(Axis=axis, Num=n)))], [0], list(range(1, n + 1)))


sys.exit(check([("unpack_axis_minus1", model(-1), [])]))
''')
obs("STRIDED_SLICE whose begin/end/strides are shorter than the input rank",
    "TFLite lets begin/end/strides cover only the leading dimensions (here 2 of 4). TFLiteSemantic._get_slice_offsets\nindexes offset_tens.values[idx] for every input dimension: IndexError traceback out of the semantic checker\n(which is supposed to place the operator on the CPU, not crash).",
'''
t = [A("x", (1, 8, 8, 8)), I32("begin", [0, 2]), I32("end", [1, 6]), I32("strides", [1, 1]), A("y", (1, 4, 8, 8))]
opts = ("StridedSliceOptions", dict(BeginMask=0, EndMask=0, EllipsisMask=0, NewAxisMask=0, ShrinkAxisMask=0))
sys.exit(check([("strided_slice_short_indices", build(t, [OP("STRIDED_SLICE", [0, 1, 2, 3], [4], opts)], [0], [4]), [])]))
''')
obs("SPLIT_V with a zero-sized output",
    "size_splits = [8, 0] on an axis of 8 is valid in TFLite (the second output is empty). The zero-sized output passes\nthe checks of the split itself, and find_block_config returns None for the zero-depth OFM:\nAttributeError: 'NoneType' object has no attribute 'old_style_representation' (scheduler.create_scheduler_info).",
'''
t = [A("x", (1, 4, 4, 8)), I32("sizes", [8, 0]), T("axis", [], "INT32", data=[3], noquant=True), A("o0", (1, 4, 4, 8)), A("o1", (1, 4, 4, 0))]
sys.exit(check([("split_v_zero_size", build(t, [OP("SPLIT_V", [0, 1, 2], [3, 4], ("SplitVOptions", dict(NumSplits=2)))], [0], [3, 4]), [])]))
''')
obs("PRELU where both operands are broadcast",
    "x = [1,4,1,8], alpha = [1,1,4,8] -> [1,4,4,8] is a legal broadcast. PRELU is lowered to elementwise operators that\nbypass constraint_matching_either_shapes / constraint_broadcast_shapes, and register_command_stream_generator\n.generate_ifm2_broadcast asserts 'ifm2.shape.height == 1': AssertionError traceback.",
'''
t = [A("x", (1, 4, 1, 8)), A("alpha", (1, 1, 4, 8), scale=0.01, zp=0), A("y", (1, 4, 4, 8))]
sys.exit(check([("prelu_both_broadcast", build(t, [OP("PRELU", [0, 1], [2])], [0, 1], [2]), [])]))
''')
obs("RESIZE_BILINEAR / RESIZE_NEAREST_NEIGHBOR with align_corners and an IFM height or width of 1",
    "constraint_resize computes (ofm - 1) / (ifm - 1) when align_corners is set and only one of IFM H, W is 1\n(e.g. 1x1x4x8 -> 1x1x8x8): 0/0 gives NaN with NumPy integers and int(NaN) raises ValueError: traceback out of the\nsupported-operator check instead of a CPU fallback.",
'''
def model(code, ifm, size):
    n, h, w, c = ifm
    t = [A("x", ifm), I32("size", list(size)), A("y", (n, size[0], size[1], c))]
    name = "ResizeBilinearOptions" if code == "RESIZE_BILINEAR" else "ResizeNearestNeighborOptions"
    return build(t, [OP(code, [0, 1], [2], (name, dict(AlignCorners=True, HalfPixelCenters=False)))], [0], [2])


sys.exit(check([
    ("resize_bilinear_ac_h1", model("RESIZE_BILINEAR", (1, 1, 4, 8), (1, 8)), []),
    ("resize_nearest_ac_h1", model("RESIZE_NEAREST_NEIGHBOR", (1, 1, 3, 8), (1, 5)), []),
]))
''')
obs("a subgraph without any pass (CALL_ONCE init subgraph without outputs, model without operators and outputs)",
    "extract_npu_subgraphs.extract_subgraph builds np.array([ps.placement ...]) which is a float array when the\nsubgraph has no passes; assigning PassPlacement.Cpu into it raises TypeError: float() argument must be a string or\na real number, not 'PassPlacement'. CALL_ONCE initialisation subgraphs normally have no outputs.",
'''
init_sg = ([A("k", data=rng.integers(-10, 10, (1, 4, 4, 8))), A("ko")], [OP("RELU", [0], [1])], [], [])
m1 = build([A("x"), A("y")], [OP("CALL_ONCE", [], [], ("CallOnceOptions", dict(InitSubgraphIndex=1))), OP("RELU", [0], [1])], [0], [1],
           extra_subgraphs=[init_sg])
m2 = build([A("x")], [], [], [])
sys.exit(check([("call_once_init_subgraph", m1, []), ("no_operators_no_outputs", m2, [])]))
''')
obs("grouped CONV_2D (weights with fewer input channels than the IFM) and scalar weight quantisation",
    "IFM depth 8, weights [8,1,1,4] (2 groups) with per-tensor quantisation: constraint_conv_groups_* accept it and\nconvert_conv_groups slices op.weights.quantization.scale_f32[..., a:b] - a NumPy scalar for per-tensor\nquantisation: IndexError: invalid index to scalar variable.",
'''
t = [A("x", (1, 4, 4, 8)), W("w", (8, 1, 1, 4)), A("y", (1, 4, 4, 8))]
sys.exit(check([("grouped_conv_per_tensor_quant", build(t, [OP("CONV_2D", [0, 1], [2], CONV)], [0], [2]), [])]))
''')
obs("a graph whose only operator has no inputs (no subgraph input, no constant)",
    "A CUSTOM (CPU) operator without operands, e.g. a random generator. pack_into_passes only assigns 'startup_ps' when\nthere is at least one Placeholder/Const operator: UnboundLocalError: cannot access local variable 'startup_ps'.",
'''
m = build([A("y")], [OP("CUSTOM", [], [0], custom_code="my_source_op")], [], [0])
sys.exit(check([("custom_op_without_inputs", m, [])]))
''')
obs("IF operator / additional subgraphs that are not reached through WHILE or CALL_ONCE",
    "Only WHILE and CALL_ONCE get their subgraphs attached (tflite_reader.parse_operator), so the then/else subgraphs\nof an IF (or any unreferenced extra subgraph) are compiled for the NPU but never given addresses by the root\nallocation: TypeError: unsupported operand type(s) for +: 'NoneType' and 'float' in Tensor.address_for_coordinate.",
'''
body = ([A("b_in"), A("b_out")], [OP("RELU", [0], [1])], [0], [1])
m1 = build([T("c", [1], "BOOL", noquant=True), A("x"), A("y")],
           [OP("IF", [0, 1], [2], ("IfOptions", dict(ThenSubgraphIndex=1, ElseSubgraphIndex=2)))], [0, 1], [2], extra_subgraphs=[body, body])
m2 = build([A("x"), A("y")], [OP("RELU", [0], [1])], [0], [1], extra_subgraphs=[body])
sys.exit(check([("if_operator", m1, []), ("unreferenced_second_subgraph", m2, [])]))
''')
obs("quantisation parameters with a scale but no zero point, or a zero point but no scale",
    "The reader only drops the quantisation when BOTH vectors are absent. With only 'scale' present zero_point stays\nNone (int(None) TypeError in high_level_command_to_npu_op.get_ifm_or_ifm2_quantization, 'int' - 'NoneType' in\nconstraint_weights_limit); with only 'zero_point' present scale_f32 stays None (None / None TypeError in\nfixup_relus_with_differing_ifm_ofm_scaling). constraint_tens_quant_none_check does not look inside.",
'''
def relu(scale, zp):
    return build([T("x", [1, 4, 4, 8], "INT8", scale, zp), T("y", [1, 4, 4, 8], "INT8", scale, zp)], [OP("RELU", [0], [1])], [0], [1])


conv = build([T("x", [1, 4, 4, 8], "INT8", 0.1, None), T("w", [8, 1, 1, 8], "INT8", 0.03, None, data=rng.integers(-9, 9, (8, 1, 1, 8))),
              T("y", [1, 4, 4, 8], "INT8", 0.1, None)], [OP("CONV_2D", [0, 1], [2], CONV)], [0], [2])
sys.exit(check([("relu_scale_without_zero_point", relu(0.1, None), []), ("relu_zero_point_without_scale", relu(None, 0), []),
                ("conv_scale_without_zero_point", conv, [])]))
''')
obs("SHAPE with an int64 output",
    "SHAPE(out_type = INT64) is in the supported operator set (constraint_tens_dtype only looks at the IFM for it) and\nconvert_shape_op_to_constant_tensor leaves an int64 constant that feeds an NPU copy: architecture_allocator\n.find_block_config looks up arch.ifm_ew_bank_granules[64]: KeyError: 64.",
'''
m = build([A("x"), T("y", [4], "INT64", noquant=True)], [OP("SHAPE", [0], [1], ("ShapeOptions", dict(OutType=4)))], [0], [1])
sys.exit(check([("shape_int64", m, [])]))
''')
obs("--subgraph-output with an operator that has an absent optional operand",
    "TRANSPOSE_CONV without bias (3 inputs) compiled with --subgraph-output: nn_graph.print_npu_graph dereferences\n.values of the missing (None) bias operand: AttributeError: 'NoneType' object has no attribute 'values'.\nWithout the option the model compiles.",
'''
t = [I32("output_shape", [1, 8, 8, 8]), W("w", (8, 3, 3, 4)), A("x", (1, 4, 4, 4)), A("y", (1, 8, 8, 8))]
m = build(t, [OP("TRANSPOSE_CONV", [0, 1, 2], [3], ("TransposeConvOptions", dict(Padding=0, StrideW=2, StrideH=2)))], [2], [3])
sys.exit(check([("transpose_conv_no_bias", m, []), ("transpose_conv_no_bias_subgraph_output", m, ["--subgraph-output"])]))
''')
obs("requantising 1x1 AVERAGE_POOL_2D / CONCATENATION with a very large or very small (finite) scale ratio",
    "IFM scale / OFM scale = 1e-10 or 1e10 (both finite float32, so constraint_quant_scale_inf accepts them).\nregister_command_stream_generator.generate_ofm_scaling_for_pooling derives rescale_bits = -33 / +35 and\nscaling.quantise_pooling_scale either asserts 'shift < (1 << 6)' (AssertionError) or evaluates 1 << negative\n(ValueError: negative shift count).",
'''
def avgpool(si, so):
    return build([A("x", scale=si, zp=0), A("y", scale=so, zp=0)], [OP("AVERAGE_POOL_2D", [0], [1], pool_opts(1, 1))], [0], [1])


def concat(si, so):
    t = [A("a", scale=si, zp=0), A("b", scale=so, zp=0), A("y", (1, 4, 4, 16), scale=so, zp=0)]
    return build(t, [OP("CONCATENATION", [0, 1], [2], ("ConcatenationOptions", dict(Axis=3, FusedActivationFunction=0)))], [0, 1], [2])


sys.exit(check([("avgpool_1x1_ratio_1e-10", avgpool(1e-10, 1.0), []), ("avgpool_1x1_ratio_1e10", avgpool(1e10, 1.0), []),
                ("concat_ratio_1e-10", concat(1e-10, 1.0), []), ("concat_ratio_1e10", concat(1.0, 1e-10), [])]))
''')
obs("LEAKY_RELU / EXP / RELU6 lookup tables and clamps with large (finite) quantisation scales",
    "(a) LEAKY_RELU int8 with IFM scale 1e5 and OFM scale 1e-5: fp_math.saturating_rounding_mul32 does\n    np.int32 arithmetic with a Python int out of range: OverflowError (NEP 50, NumPy 2).\n(b) EXP int16 with scale 0.1 (inputs up to +-3276.7, nothing unusual): lut.create_lut_int16_op calls math.exp(3276)\n    : OverflowError: math range error. Same for EXP int8 with scale 1e5.\n(c) RELU6 uint8 with scale 1e-30: numeric_util.quantise_float32(6 / 1e-30): OverflowError: Python int too large to\n    convert to C long.",
'''
def unary(code, dt, si, so, opts=None):
    return build([A("x", dt=dt, scale=si), A("y", dt=dt, scale=so)], [OP(code, [0], [1], opts)], [0], [1])


sys.exit(check([
    ("leaky_relu_int8_scale_ratio_1e10", unary("LEAKY_RELU", "INT8", 1e5, 1e-5, ("LeakyReluOptions", dict(Alpha=0.2))), []),
    ("exp_int16_scale_0.1", unary("EXP", "INT16", 0.1, 0.1, ("ExpOptions", {})), []),
    ("exp_int8_scale_1e5", unary("EXP", "INT8", 1e5, 1e-5, ("ExpOptions", {})), []),
    ("relu6_uint8_scale_1e-30", unary("RELU6", "UINT8", 1e-30, 1e-30), []),
]))
''')
obs("CONV_2D with constant weights and a non-constant bias",
    "The bias is a subgraph input (legal: only the weights have to be constant for constraint_weights_const; there is no\nconstraint that the bias is constant). weight_compressor._prepare_scale_and_bias does len(biases) on\nbias_tens.values == None: TypeError: object of type 'NoneType' has no len().",
'''
t = [A("x", (1, 8, 8, 4)), W("w", (8, 3, 3, 4)), T("bias", [8], "INT32", 0.0002, 0), A("y", (1, 8, 8, 8))]
sys.exit(check([("conv_dynamic_bias", build(t, [OP("CONV_2D", [0, 1, 2], [3], CONV)], [0, 2], [3]), [])]))
''')
obs("SPLIT whose axis operand is a one-element 1-D tensor",
    "constraint_split_axis explicitly handles 'axis being a scalar or 1-D array', but Operation.get_split_inputs_axis\ndoes int(axis_tens.values); with NumPy >= 2.? int() of a 1-element 1-D array raises TypeError: only 0-dimensional\narrays can be converted to Python scalars (the package does not pin NumPy).",
'''
t = [I32("axis", [3]), A("x", (1, 4, 4, 8)), A("a", (1, 4, 4, 4)), A("b", (1, 4, 4, 4))]
sys.exit(check([("split_axis_1d", build(t, [OP("SPLIT", [0, 1], [2, 3], ("SplitOptions", dict(NumSplits=2)))], [1], [2, 3]), [])]))
''')
obs("DEPTHWISE_CONV_2D with depth_multiplier 0 (implicit) and an IFM without a static shape",
    "tflite_reader.parse_operator computes op.weights.shape[2] // op.ifm.shape[-1] for depth_multiplier == 0 before any\ncheck has run; an IFM tensor without a shape vector (dynamic tensor) has shape []: IndexError: list index out of\nrange from the reader (not one of the exceptions it converts to a message).",
'''
dw = ("DepthwiseConv2DOptions", dict(Padding=0, StrideW=1, StrideH=1, DepthMultiplier=0, DilationWFactor=1, DilationHFactor=1, FusedActivationFunction=0))
t = [T("x", None, "INT8", 0.02, 0), W("w", (1, 3, 3, 4)), A("y", (1, 8, 8, 4))]
sys.exit(check([("depthwise_dm0_shapeless_ifm", build(t, [OP("DEPTHWISE_CONV_2D", [0, 1], [2], dw)], [0], [2]), [])]))
''')
obs("models that are internally inconsistent but structurally valid flatbuffers (asserts instead of CPU fallback / diagnosis)",
    "Each of these dies with an AssertionError / ValueError / IndexError traceback instead of a fallback or a Vela error:\n  SPLIT num_splits != number of outputs, SPLIT_V sizes not summing to the dimension, UNPACK num != dimension,\n  PACK values_count != number of inputs (Operation.get_split_inputs_axis / get_concat_inputs_axis asserts),\n  MEAN with a 2-D axis tensor (truth value of an array in constraint_mean_axis), PAD with a [2,4] paddings tensor\n  (broadcast error in constraint_pad_output_shape), PAD with negative padding (address_for_coordinate assert),\n  SLICE with two inputs (tuple unpack in constraint_slice_inputs_const), FULLY_CONNECTED with 1-D or 4-D constant\n  weights (Tensor.transpose in the reader), per-channel weights with the wrong number of scales\n  (constraint_weights_limit broadcast), stride 0 (Kernel assert), RESHAPE new shape [0,-1] (int(inf)).",
'''
R = ("ReducerOptions", dict(KeepDims=True))
FC = ("FullyConnectedOptions", dict(FusedActivationFunction=0))
ax = T("axis", [], "INT32", data=[3], noquant=True)
cases = [
    ("split_num_splits_mismatch", build([ax, A("x"), A("a", (1, 4, 4, 4)), A("b", (1, 4, 4, 4))], [OP("SPLIT", [0, 1], [2, 3], ("SplitOptions", dict(NumSplits=4)))], [1], [2, 3])),
    ("split_v_sizes_sum", build([A("x"), I32("s", [3, 4]), ax, A("a", (1, 4, 4, 3)), A("b", (1, 4, 4, 4))], [OP("SPLIT_V", [0, 1, 2], [3, 4], ("SplitVOptions", dict(NumSplits=2)))], [0], [3, 4])),
    ("unpack_num_mismatch", build([A("x", (2, 4, 8)), A("a", (4, 8)), A("b", (4, 8))], [OP("UNPACK", [0], [1, 2], ("UnpackOptions", dict(Axis=0, Num=3)))], [0], [1, 2])),
    ("pack_values_count_mismatch", build([A("a", (4, 8)), A("b", (4, 8)), A("y", (2, 4, 8))], [OP("PACK", [0, 1], [2], ("PackOptions", dict(Axis=0, ValuesCount=3)))], [0, 1], [2])),
    ("mean_axis_2d", build([A("x", (1, 8, 8, 4)), I32("axis2d", [[1, 2]]), A("y", (1, 1, 1, 4))], [OP("MEAN", [0, 1], [2], R)], [0], [2])),
    ("pad_paddings_2x4", build([A("x", (1, 8, 8, 4)), I32("p", [[0, 1, 1, 0], [0, 1, 1, 0]]), A("y", (1, 10, 10, 4))], [OP("PAD", [0, 1], [2], ("PadOptions", {}))], [0], [2])),
    ("pad_negative", build([A("x", (1, 8, 8, 4)), I32("p", [[0, 0], [-1, 1], [0, 0], [0, 0]]), A("y", (1, 8, 8, 4))], [OP("PAD", [0, 1], [2], ("PadOptions", {}))], [0], [2])),
    ("slice_two_inputs", build([A("x", (1, 8, 8, 8)), I32("b", [0, 2, 2, 0]), A("y", (1, 4, 4, 8))], [OP("SLICE", [0, 1], [2], ("SliceOptions", {}))], [0], [2])),
    ("fc_weights_1d", build([A("x", (1, 16)), W("w", (16,)), A("y", (1, 1))], [OP("FULLY_CONNECTED", [0, 1], [2], FC)], [0], [2])),
    ("fc_weights_4d", build([A("x", (1, 16)), W("w", (8, 1, 1, 16)), A("y", (1, 8))], [OP("FULLY_CONNECTED", [0, 1], [2], FC)], [0], [2])),
    ("per_channel_wrong_length", build([A("x", (1, 4, 4, 8)), T("w", [8, 1, 1, 8], "INT8", np.linspace(0.01, 0.02, 5), np.zeros(5), data=rng.integers(-9, 9, (8, 1, 1, 8)), qdim=0), A("y", (1, 4, 4, 8))], [OP("CONV_2D", [0, 1], [2], CONV)], [0], [2])),
    ("max_pool_stride_0", build([A("x"), A("y")], [OP("MAX_POOL_2D", [0], [1], pool_opts(2, 0))], [0], [1])),
    ("reshape_new_shape_0_minus1", build([A("x", (1, 4, 4, 8)), I32("s", [0, -1]), A("y", (1, 128))], [OP("RESHAPE", [0, 1], [2], ("ReshapeOptions", {}))], [0], [2])),
]
sys.exit(check([(n, m, []) for n, m in cases]))
''')
obs("NaN / infinite / negative numeric attributes and scales",
    "LEAKY_RELU alpha = NaN or inf (int(NaN) / int(inf) in scaling.quantise_scale), CONV_2D with a NaN weight or IFM\nscale (same place; constraint_tens_quant_scale only rejects inf), CONV_2D with a negative weight scale\n(weight_compressor.encode_bias 'assert 0 <= scale'). These values are representable in the flatbuffer.",
'''
def lrelu(alpha):
    return build([A("x"), A("y")], [OP("LEAKY_RELU", [0], [1], ("LeakyReluOptions", dict(Alpha=alpha)))], [0], [1])


def conv(wscale, iscale=0.02):
    return build([A("x", (1, 8, 8, 4), scale=iscale), W("w", (8, 3, 3, 4), scale=wscale), A("y", (1, 8, 8, 8))], [OP("CONV_2D", [0, 1], [2], CONV)], [0], [2])


sys.exit(check([("leaky_relu_alpha_nan", lrelu(float("nan")), []), ("leaky_relu_alpha_inf", lrelu(float("inf")), []),
                ("conv_weight_scale_nan", conv(float("nan")), []), ("conv_ifm_scale_nan", conv(0.01, float("nan")), []),
                ("conv_weight_scale_negative", conv(-0.01), [])]))
''')
obs("a long sequential model exceeds the default recursion limit, and invalid enum option values",
    "(a) 2400 chained elementwise operators with default options: RecursionError traceback (re-raised as RecursionError\n    with a hint by nn_graph.refresh_after_modification, but not as a VelaError, so main() does not catch it).\n(b) --optimise Speed / --tensor-allocator Foo: the argparse 'type=lambda s: Enum[s]' raises KeyError, which argparse\n    does not convert to a usage error: KeyError traceback. --recursion-limit 0: ValueError traceback.",
'''
codes = ("RELU", "LOGISTIC", "TANH", "HARD_SWISH", "RELU6", "ABS") * 400
t = [A("t0")]
ops = []
for i, c in enumerate(codes):
    t.append(A("t%d" % (i + 1)))
    ops.append(OP(c, [i], [i + 1], {"HARD_SWISH": ("HardSwishOptions", {}), "ABS": ("AbsOptions", {})}.get(c)))
deep = build(t, ops, [0], [len(codes)])
small = build([A("x"), A("y")], [OP("RELU", [0], [1])], [0], [1])
sys.exit(check([("chain_of_2400_operators", deep, []), ("optimise_speed", small, ["--optimise", "Speed"]),
                ("tensor_allocator_foo", small, ["--tensor-allocator", "Foo"]), ("recursion_limit_0", small, ["--recursion-limit", "0"])]))
''')

for i, (title, detail, body) in enumerate(OBS, 1):
    src = HDR.format(n=i, title=title, detail=detail) + common + PRE + body.lstrip("\n")
    open("out/observation%d.py" % i, "w").write(src)
print(len(OBS))

import sys, os
sys.path.insert(0, os.getcwd()); sys.path.insert(0, os.path.join(os.getcwd(), "out"))
from mk import run_vela, verdict
import corpus, corpus2
def show(name, m, args=()):
    r = run_vela(m, list(args))
    v = verdict(r)
    tail = ""
    if v == "CRASH":
        tb = r[1].strip().splitlines()
        fr = [l.strip() for l in tb if l.strip().startswith("File")]
        tail = tb[-1][:160] + " @ " + fr[-1]
    elif v == "REJECT":
        tail = r[3].strip().splitlines()[-1][:200]
    print("TRY", name, v, tail)
    return r

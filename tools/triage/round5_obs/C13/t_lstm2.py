import sys, os
sys.path.insert(0, os.path.join(os.getcwd(), "out"))
from mk import run_vela
from lstm_model import lstm
r = run_vela(lstm(), ["--show-cpu-operations"])
import re
print([l for l in r[3].splitlines() if "operators" in l or "Warning" in l or " - " in l][:20])

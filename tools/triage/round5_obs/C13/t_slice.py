import sys, os
sys.path.insert(0, os.path.join(os.getcwd(), "out"))
from _obs_common import *
import corpus
for begin, size in [([0,2,2,0],[-1,-1,-1,-1]), ([0,2,2,0],[1,6,4,-1]), ([0,2,2,0],[-1,6,4,8]), ([0,2,2,0],[1,6,-1,8]), ([0,2,2,0],[1,-1,4,8]), ([0,0,0,0],[1,-1,-1,8]),([0,2,2,2],[1,6,6,-1]), ([0,0,0,2],[1,8,8,-1])]:
    print(begin, size, compile_with_vela("s", corpus.slice_((1,8,8,8), begin, size)))

import itertools
import os
import sys

import numpy as np

sys.path.insert(0, os.path.join(os.getcwd(), "out"))
from mk import T, OP, build  # noqa

rng = np.random.default_rng(1234)

QR = {"INT8": (-128, 127), "UINT8": (0, 255), "INT16": (-32768, 32767), "INT32": (-1000, 1000)}


def rnd(shape, dt="INT8"):
    lo, hi = QR.get(dt, (-100, 100))
    return rng.integers(lo, hi + 1, size=shape)


def q(dt, zp=None):
    """(scale, zp) default quantisation for a dtype"""
    if dt == "INT16":
        return 0.001, 0
    if dt == "UINT8":
        return 0.02, 128 if zp is None else zp
    if dt == "INT32":
        return 0.001, 0
    return 0.02, -3 if zp is None else zp


def conv(ifm=(1, 8, 8, 4), k=(3, 3), oc=8, dt="INT8", pad=0, stride=(1, 1), dil=(1, 1), faf=0, per_ch=False,
         bias=True, bias_dt=None, wdt=None, wzp=0, depthwise=False, dm=1, dyn_w=False):
    n, h, w, c = ifm
    if depthwise:
        oc = c * dm
        wshape = [1, k[0], k[1], oc]
    else:
        wshape = [oc, k[0], k[1], c]
    if pad == 0:  # SAME
        oh, ow = -(-h // stride[0]), -(-w // stride[1])
    else:
        oh = -(-(h - (k[0] - 1) * dil[0]) // stride[0])
        ow = -(-(w - (k[1] - 1) * dil[1]) // stride[1])
    wdt = wdt or ("INT8" if dt == "INT16" else dt)
    bias_dt = bias_dt or ("INT64" if dt == "INT16" else "INT32")
    s, z = q(dt)
    if per_ch:
        ws = np.linspace(0.01, 0.05, oc)
        wz = np.zeros(oc)
        qd = 3 if depthwise else 0
    else:
        ws, wz, qd = 0.03, wzp, None
    t = [T("in", list(ifm), dt, s, z),
         T("w", wshape, wdt, ws, wz, data=None if dyn_w else rnd(wshape, wdt), qdim=qd)]
    ins = [0, 1]
    if bias:
        t.append(T("b", [oc], bias_dt, np.asarray(ws) * s, np.zeros_like(np.atleast_1d(ws)) if per_ch else 0,
                   data=rnd([oc], "INT32"), qdim=0 if per_ch else None))
        ins.append(2)
    t.append(T("out", [n, oh, ow, oc], dt, s * 2, z))
    if depthwise:
        o = OP("DEPTHWISE_CONV_2D", ins, [len(t) - 1],
               ("DepthwiseConv2DOptions", dict(Padding=pad, StrideW=stride[1], StrideH=stride[0], DepthMultiplier=dm,
                                               DilationWFactor=dil[1], DilationHFactor=dil[0],
                                               FusedActivationFunction=faf)))
    else:
        o = OP("CONV_2D", ins, [len(t) - 1],
               ("Conv2DOptions", dict(Padding=pad, StrideW=stride[1], StrideH=stride[0], DilationWFactor=dil[1],
                                      DilationHFactor=dil[0], FusedActivationFunction=faf)))
    return build(t, [o], [0] + ([1] if dyn_w else []), [len(t) - 1])


def fc(ifm=(1, 16), oc=8, dt="INT8", bias=True, keep=False, faf=0, wdt=None, out_shape=None):
    ic = ifm[-1]
    s, z = q(dt)
    wdt = wdt or ("INT8" if dt == "INT16" else dt)
    t = [T("in", list(ifm), dt, s, z), T("w", [oc, ic], wdt, 0.03, 0, data=rnd([oc, ic], wdt))]
    ins = [0, 1]
    if bias:
        t.append(T("b", [oc], "INT64" if dt == "INT16" else "INT32", 0.03 * s, 0, data=rnd([oc], "INT32")))
        ins.append(2)
    if out_shape is None:
        out_shape = (list(ifm[:-1]) + [oc]) if keep else [int(np.prod(ifm)) // ic, oc]
    t.append(T("out", out_shape, dt, s * 2, z))
    o = OP("FULLY_CONNECTED", ins, [len(t) - 1],
           ("FullyConnectedOptions", dict(FusedActivationFunction=faf, KeepNumDims=keep)))
    return build(t, [o], [0], [len(t) - 1])


def binop(code, a, b_, out=None, dt="INT8", const_b=False, faf=0, odt=None, qa=None, qb=None, qo=None, noquant=False,
          bdt=None):
    s, z = q(dt)
    if out is None:
        out = list(np.broadcast_shapes(tuple(a), tuple(b_)))
    optname = {"ADD": "AddOptions", "SUB": "SubOptions", "MUL": "MulOptions", "DIV": "DivOptions",
               "MAXIMUM": "MaximumMinimumOptions", "MINIMUM": "MaximumMinimumOptions",
               "SQUARED_DIFFERENCE": "SquaredDifferenceOptions", "PRELU": None, "LESS": "LessOptions",
               "GREATER": "GreaterOptions", "EQUAL": "EqualOptions", "POW": "PowOptions",
               "FLOOR_DIV": "FloorDivOptions", "FLOOR_MOD": "FloorModOptions", "ATAN2": None}[code]
    fields = dict(FusedActivationFunction=faf) if code in ("ADD", "SUB", "MUL", "DIV") else {}
    bdt = bdt or dt
    qa = qa or (s, z)
    qb = qb or (s * 1.5, z)
    qo = qo or (s * 2, z)
    t = [T("a", list(a), dt, *qa, noquant=noquant),
         T("b", list(b_), bdt, *qb, data=rnd(list(b_), bdt) if const_b else None, noquant=noquant),
         T("out", list(out), odt or dt, *qo, noquant=noquant)]
    o = OP(code, [0, 1], [2], (optname, fields) if optname else None)
    return build(t, [o], [0] if const_b else [0, 1], [2])


def unop(code, shape, dt="INT8", opts=None, odt=None, qi=None, qo=None, noquant=False):
    s, z = q(dt)
    qi = qi or (s, z)
    qo = qo or ((1 / 256, -128) if code in ("LOGISTIC", "SOFTMAX") and (odt or dt) == "INT8" else (s, z))
    t = [T("in", list(shape), dt, *qi, noquant=noquant), T("out", list(shape), odt or dt, *qo, noquant=noquant)]
    return build(t, [OP(code, [0], [1], opts)], [0], [1])


def pool(code, ifm=(1, 8, 8, 4), k=(2, 2), stride=(2, 2), pad=1, dt="INT8", faf=0, qo=None):
    n, h, w, c = ifm
    if pad == 0:
        oh, ow = -(-h // stride[0]), -(-w // stride[1])
    else:
        oh, ow = -(-(h - k[0] + 1) // stride[0]), -(-(w - k[1] + 1) // stride[1])
    s, z = q(dt)
    t = [T("in", list(ifm), dt, s, z), T("out", [n, oh, ow, c], dt, *(qo or (s, z)))]
    o = OP(code, [0], [1], ("Pool2DOptions", dict(Padding=pad, StrideW=stride[1], StrideH=stride[0], FilterWidth=k[1],
                                                   FilterHeight=k[0], FusedActivationFunction=faf)))
    return build(t, [o], [0], [1])


def reshape(ishape, oshape, dt="INT8", shape_tensor=True, attr=True, then_relu=False):
    s, z = q(dt)
    t = [T("in", list(ishape), dt, s, z)]
    ins = [0]
    if shape_tensor:
        t.append(T("shape", [len(oshape)], "INT32", data=oshape, noquant=True))
        ins.append(1)
    t.append(T("out", list(oshape), dt, s, z))
    ops = [OP("RESHAPE", ins, [len(t) - 1], ("ReshapeOptions", dict(NewShape=list(oshape))) if attr else
              ("ReshapeOptions", {}))]
    if then_relu:
        t.append(T("out2", list(oshape), dt, s, z))
        ops.append(OP("RELU", [len(t) - 2], [len(t) - 1]))
    return build(t, ops, [0], [len(t) - 1])


def concat(shapes, axis, dt="INT8", same_q=True, faf=0):
    s, z = q(dt)
    t = [T("i%d" % i, list(sh), dt, s if same_q else s * (i + 1), z) for i, sh in enumerate(shapes)]
    out = list(shapes[0])
    out[axis] = sum(sh[axis] for sh in shapes)
    t.append(T("out", out, dt, s, z))
    o = OP("CONCATENATION", list(range(len(shapes))), [len(shapes)],
           ("ConcatenationOptions", dict(Axis=axis, FusedActivationFunction=faf)))
    return build(t, [o], list(range(len(shapes))), [len(shapes)])


def split(shape, axis, num, dt="INT8", const_axis=True):
    s, z = q(dt)
    ax = axis if axis >= 0 else axis + len(shape)
    oshape = list(shape)
    oshape[ax] //= num
    t = [T("axis", [], "INT32", data=[axis] if const_axis else None, noquant=True), T("in", list(shape), dt, s, z)]
    for i in range(num):
        t.append(T("o%d" % i, oshape, dt, s, z))
    o = OP("SPLIT", [0, 1], list(range(2, 2 + num)), ("SplitOptions", dict(NumSplits=num)))
    return build(t, [o], [1] if const_axis else [0, 1], list(range(2, 2 + num)))


def split_v(shape, axis, sizes, dt="INT8"):
    s, z = q(dt)
    ax = axis if axis >= 0 else axis + len(shape)
    t = [T("in", list(shape), dt, s, z), T("sizes", [len(sizes)], "INT32", data=sizes, noquant=True),
         T("axis", [], "INT32", data=[axis], noquant=True)]
    rest = shape[ax] - sum(x for x in sizes if x >= 0)
    for i, sz in enumerate(sizes):
        osh = list(shape)
        osh[ax] = sz if sz >= 0 else rest
        t.append(T("o%d" % i, osh, dt, s, z))
    o = OP("SPLIT_V", [0, 1, 2], list(range(3, 3 + len(sizes))), ("SplitVOptions", dict(NumSplits=len(sizes))))
    return build(t, [o], [0], list(range(3, 3 + len(sizes))))


def pack(shape, n, axis, dt="INT8"):
    s, z = q(dt)
    t = [T("i%d" % i, list(shape), dt, s, z) for i in range(n)]
    out = list(shape)
    out.insert(axis if axis >= 0 else axis + len(shape) + 1, n)
    t.append(T("out", out, dt, s, z))
    o = OP("PACK", list(range(n)), [n], ("PackOptions", dict(Axis=axis, ValuesCount=n)))
    return build(t, [o], list(range(n)), [n])


def unpack(shape, axis, dt="INT8"):
    s, z = q(dt)
    ax = axis if axis >= 0 else axis + len(shape)
    n = shape[ax]
    osh = list(shape)
    del osh[ax]
    t = [T("in", list(shape), dt, s, z)] + [T("o%d" % i, osh, dt, s, z) for i in range(n)]
    o = OP("UNPACK", [0], list(range(1, n + 1)), ("UnpackOptions", dict(Axis=axis, Num=n)))
    return build(t, [o], [0], list(range(1, n + 1)))


def slice_(shape, begin, size, dt="INT8"):
    s, z = q(dt)
    osh = [sz if sz >= 0 else shape[i] - begin[i] for i, sz in enumerate(size)]
    t = [T("in", list(shape), dt, s, z), T("begin", [len(begin)], "INT32", data=begin, noquant=True),
         T("size", [len(size)], "INT32", data=size, noquant=True), T("out", osh, dt, s, z)]
    return build(t, [OP("SLICE", [0, 1, 2], [3], ("SliceOptions", {}))], [0], [3])


def strided_slice(shape, begin, end, strides, osh, dt="INT8", masks=None):
    s, z = q(dt)
    masks = masks or {}
    t = [T("in", list(shape), dt, s, z), T("begin", [len(begin)], "INT32", data=begin, noquant=True),
         T("end", [len(end)], "INT32", data=end, noquant=True),
         T("strides", [len(strides)], "INT32", data=strides, noquant=True), T("out", list(osh), dt, s, z)]
    f = dict(BeginMask=masks.get("b", 0), EndMask=masks.get("e", 0), EllipsisMask=masks.get("el", 0),
             NewAxisMask=masks.get("n", 0), ShrinkAxisMask=masks.get("s", 0))
    return build(t, [OP("STRIDED_SLICE", [0, 1, 2, 3], [4], ("StridedSliceOptions", f))], [0], [4])


def mean(shape, axes, keep, dt="INT8", qo=None, axis_dt="INT32"):
    s, z = q(dt)
    osh = []
    naxes = [a if a >= 0 else a + len(shape) for a in axes]
    for i, d in enumerate(shape):
        if i in naxes:
            if keep:
                osh.append(1)
        else:
            osh.append(d)
    t = [T("in", list(shape), dt, s, z), T("axes", [len(axes)], axis_dt, data=axes, noquant=True),
         T("out", osh, dt, *(qo or (s, z)))]
    return t, osh


def reduce_(code, shape, axes, keep, dt="INT8", qo=None):
    t, osh = mean(shape, axes, keep, dt, qo)
    return build(t, [OP(code, [0, 1], [2], ("ReducerOptions", dict(KeepDims=keep)))], [0], [2])


def pad(shape, pads, dt="INT8", v2=False, mirror=None, pad_dt="INT32"):
    s, z = q(dt)
    osh = [d + p[0] + p[1] for d, p in zip(shape, pads)]
    t = [T("in", list(shape), dt, s, z), T("pads", [len(pads), 2], pad_dt, data=pads, noquant=True)]
    ins = [0, 1]
    if v2:
        t.append(T("cv", [1], dt, s, z, data=[1]))
        ins.append(2)
    t.append(T("out", osh, dt, s, z))
    if mirror is not None:
        o = OP("MIRROR_PAD", ins, [len(t) - 1], ("MirrorPadOptions", dict(Mode=mirror)))
    elif v2:
        o = OP("PADV2", ins, [len(t) - 1], ("PadV2Options", {}))
    else:
        o = OP("PAD", ins, [len(t) - 1], ("PadOptions", {}))
    return build(t, [o], [0], [len(t) - 1])


def resize(code, ifm, osz, dt="INT8", ac=False, hpc=False, const_size=True):
    s, z = q(dt)
    n, h, w, c = ifm
    t = [T("in", list(ifm), dt, s, z), T("size", [2], "INT32", data=list(osz) if const_size else None, noquant=True),
         T("out", [n, osz[0], osz[1], c], dt, s, z)]
    on = "ResizeBilinearOptions" if code == "RESIZE_BILINEAR" else "ResizeNearestNeighborOptions"
    return build(t, [OP(code, [0, 1], [2], (on, dict(AlignCorners=ac, HalfPixelCenters=hpc)))],
                 [0] if const_size else [0, 1], [2])


def transpose(shape, perm, dt="INT8"):
    s, z = q(dt)
    t = [T("in", list(shape), dt, s, z), T("perm", [len(perm)], "INT32", data=perm, noquant=True),
         T("out", [shape[p] for p in perm], dt, s, z)]
    return build(t, [OP("TRANSPOSE", [0, 1], [2], ("TransposeOptions", {}))], [0], [2])


def argmax(shape, axis, dt="INT8", odt="INT32"):
    s, z = q(dt)
    ax = axis if axis >= 0 else axis + len(shape)
    osh = list(shape)
    del osh[ax]
    t = [T("in", list(shape), dt, s, z), T("axis", [], "INT32", data=[axis], noquant=True),
         T("out", osh, odt, noquant=True)]
    from ethosu.vela.tflite.TensorType import TensorType
    return build(t, [OP("ARG_MAX", [0, 1], [2], ("ArgMaxOptions", dict(OutputType=getattr(TensorType, odt))))], [0],
                 [2])


def softmax(shape, dt="INT8", beta=1.0):
    s, z = q(dt)
    qo = {"INT8": (1 / 256, -128), "UINT8": (1 / 256, 0), "INT16": (1 / 32768, 0)}.get(dt, (s, z))
    t = [T("in", list(shape), dt, s, z), T("out", list(shape), dt, *qo)]
    return build(t, [OP("SOFTMAX", [0], [1], ("SoftmaxOptions", dict(Beta=beta)))], [0], [1])


def quantize(shape, idt, odt, qi=None, qo=None):
    qi = qi or q(idt)
    qo = qo or q(odt)
    t = [T("in", list(shape), idt, *qi, noquant=idt.startswith("FLOAT")),
         T("out", list(shape), odt, *qo, noquant=odt.startswith("FLOAT"))]
    code = "DEQUANTIZE" if odt.startswith("FLOAT") else "QUANTIZE"
    return build(t, [OP(code, [0], [1], ("DequantizeOptions" if code == "DEQUANTIZE" else "QuantizeOptions", {}))],
                 [0], [1])


def tconv(ifm=(1, 4, 4, 4), k=(3, 3), oc=8, stride=(2, 2), pad=0, dt="INT8", bias=False):
    n, h, w, c = ifm
    s, z = q(dt)
    if pad == 0:
        oh, ow = h * stride[0], w * stride[1]
    else:
        oh, ow = (h - 1) * stride[0] + k[0], (w - 1) * stride[1] + k[1]
    wsh = [oc, k[0], k[1], c]
    t = [T("oshape", [4], "INT32", data=[n, oh, ow, oc], noquant=True), T("w", wsh, "INT8" if dt != "UINT8" else dt,
                                                                           0.03, 0, data=rnd(wsh)),
         T("in", list(ifm), dt, s, z)]
    ins = [0, 1, 2]
    if bias:
        t.append(T("b", [oc], "INT32", 0.03 * s, 0, data=rnd([oc], "INT32")))
        ins.append(3)
    t.append(T("out", [n, oh, ow, oc], dt, s, z))
    return build(t, [OP("TRANSPOSE_CONV", ins, [len(t) - 1],
                        ("TransposeConvOptions", dict(Padding=pad, StrideW=stride[1], StrideH=stride[0])))], [2],
                 [len(t) - 1])


def chain(shape=(1, 8, 8, 4), dt="INT8", codes=("RELU", "LOGISTIC", "TANH")):
    s, z = q(dt)
    t = [T("t0", list(shape), dt, s, z)]
    ops = []
    for i, c in enumerate(codes):
        t.append(T("t%d" % (i + 1), list(shape), dt, s, z))
        ops.append(OP(c, [i], [i + 1]))
    return build(t, ops, [0], [len(codes)])


def gen():
    DTS = ["INT8", "UINT8", "INT16"]
    # convs
    for dt in DTS:
        yield "conv_%s" % dt, conv(dt=dt)
        yield "conv_perch_%s" % dt, conv(dt=dt, per_ch=True)
        yield "dw_%s" % dt, conv(dt=dt, depthwise=True)
        yield "fc_%s" % dt, fc(dt=dt)
    yield "conv_nobias", conv(bias=False)
    yield "conv_batch2", conv(ifm=(2, 8, 8, 4))
    yield "conv_1x1_ifm1x1", conv(ifm=(1, 1, 1, 1), k=(1, 1), oc=1)
    yield "conv_prime", conv(ifm=(1, 7, 13, 3), k=(3, 5), oc=11, pad=1)
    yield "conv_stride3", conv(ifm=(1, 9, 9, 4), stride=(3, 3))
    yield "conv_stride4", conv(ifm=(1, 9, 9, 4), stride=(4, 4))
    yield "conv_stride_w2h1", conv(stride=(1, 2))
    yield "conv_dil2", conv(dil=(2, 2))
    yield "conv_dil3_valid", conv(ifm=(1, 16, 16, 4), dil=(3, 3), pad=1)
    yield "conv_big_kernel", conv(ifm=(1, 70, 70, 2), k=(65, 65), oc=2, pad=1)
    yield "conv_k_8x8", conv(k=(8, 8))
    yield "conv_relu6", conv(faf=3)
    yield "conv_tanh", conv(faf=4)
    yield "conv_signbit", conv(faf=5)
    yield "conv_wzp", conv(dt="UINT8", wzp=128)
    yield "conv_int8_wzp5", conv(wzp=5)
    yield "conv_dynw", conv(dyn_w=True)
    yield "conv_bias_int64_int8", conv(bias_dt="INT64")
    yield "conv_w_int16", conv(dt="INT16", wdt="INT16")
    yield "conv_oc1", conv(oc=1)
    yield "conv_oc_300", conv(ifm=(1, 4, 4, 300), oc=300, k=(1, 1))
    yield "conv_wide", conv(ifm=(1, 2, 2000, 4))
    yield "dw_dm2", conv(ifm=(1, 8, 8, 1), depthwise=True, dm=2)
    yield "dw_dm2_c4", conv(ifm=(1, 8, 8, 4), depthwise=True, dm=2)
    yield "dw_perch", conv(depthwise=True, per_ch=True)
    yield "dw_stride2", conv(depthwise=True, stride=(2, 2))
    yield "dw_dil2", conv(depthwise=True, dil=(2, 2))
    yield "dw_batch3", conv(ifm=(3, 8, 8, 4), depthwise=True)
    yield "fc_nobias", fc(bias=False)
    yield "fc_batch4", fc(ifm=(4, 16))
    yield "fc_4d", fc(ifm=(1, 2, 2, 16))
    yield "fc_4d_keep", fc(ifm=(1, 2, 2, 16), keep=True)
    yield "fc_3d_keep", fc(ifm=(2, 3, 16), keep=True)
    yield "fc_1d", fc(ifm=(16,), out_shape=[1, 8])
    yield "fc_relu", fc(faf=1)
    yield "fc_big", fc(ifm=(1, 1000), oc=257)
    yield "fc_5d", fc(ifm=(1, 1, 2, 2, 16), keep=True)
    # elementwise
    for code in ["ADD", "SUB", "MUL", "MAXIMUM", "MINIMUM", "SQUARED_DIFFERENCE", "DIV", "PRELU", "LESS", "POW",
                 "FLOOR_DIV"]:
        for dt in DTS + ["INT32"]:
            odt = "BOOL" if code == "LESS" else None
            yield "%s_%s" % (code, dt), binop(code, (1, 4, 4, 8), (1, 4, 4, 8), dt=dt, odt=odt)
        yield "%s_bcast" % code, binop(code, (1, 4, 4, 8), (1, 1, 1, 8))
        yield "%s_bcast_rev" % code, binop(code, (1, 1, 1, 8), (1, 4, 4, 8))
        yield "%s_scalar_const" % code, binop(code, (1, 4, 4, 8), (), const_b=True)
        yield "%s_rank0" % code, binop(code, (), ())
        yield "%s_rank1" % code, binop(code, (7,), (7,))
        yield "%s_rank2_b" % code, binop(code, (3, 7), (1, 7))
        yield "%s_rank3" % code, binop(code, (3, 5, 7), (3, 5, 7))
        yield "%s_rank5" % code, binop(code, (1, 2, 3, 5, 7), (1, 2, 3, 5, 7))
        yield "%s_rank5_b2" % code, binop(code, (2, 2, 3, 5, 7), (2, 2, 3, 5, 7))
        yield "%s_rank_mismatch" % code, binop(code, (1, 4, 4, 8), (8,))
        yield "%s_both_bcast" % code, binop(code, (1, 4, 1, 8), (1, 1, 4, 8))
        yield "%s_batch2" % code, binop(code, (2, 4, 4, 8), (2, 4, 4, 8))
        yield "%s_noquant" % code, binop(code, (1, 4, 4, 8), (1, 4, 4, 8), noquant=True)
        yield "%s_float" % code, binop(code, (1, 4, 4, 8), (1, 4, 4, 8), dt="FLOAT32", noquant=True)
        yield "%s_const_full" % code, binop(code, (1, 4, 4, 8), (1, 4, 4, 8), const_b=True)
        yield "%s_relu" % code, binop(code, (1, 4, 4, 8), (1, 4, 4, 8), faf=1)
        yield "%s_mixed_dt" % code, binop(code, (1, 4, 4, 8), (1, 4, 4, 8), dt="INT8", bdt="UINT8")
        yield "%s_out16" % code, binop(code, (1, 4, 4, 8), (1, 4, 4, 8), dt="INT8", odt="INT16")
        yield "%s_large" % code, binop(code, (1, 1, 1, 70000), (1, 1, 1, 70000))
        yield "%s_zero_dim" % code, binop(code, (1, 0, 4, 8), (1, 0, 4, 8))
    yield "ADD_int16_pot", binop("ADD", (1, 4, 4, 8), (1, 4, 4, 8), dt="INT16", qa=(2 ** -10, 0), qb=(2 ** -9, 0),
                                 qo=(2 ** -8, 0))
    yield "MUL_scale0", binop("MUL", (1, 4, 4, 8), (1, 4, 4, 8), qa=(0.0, 0))
    yield "ADD_scale_inf", binop("ADD", (1, 4, 4, 8), (1, 4, 4, 8), qa=(float("inf"), 0))
    yield "ADD_scale_tiny", binop("ADD", (1, 4, 4, 8), (1, 4, 4, 8), qa=(1e-30, 0))
    yield "ADD_scale_huge", binop("ADD", (1, 4, 4, 8), (1, 4, 4, 8), qa=(1e30, 0))
    yield "ADD_outscale_tiny", binop("ADD", (1, 4, 4, 8), (1, 4, 4, 8), qo=(1e-30, 0))
    yield "MUL_outscale_tiny", binop("MUL", (1, 4, 4, 8), (1, 4, 4, 8), qo=(1e-30, 0))
    yield "MUL_outscale_huge", binop("MUL", (1, 4, 4, 8), (1, 4, 4, 8), qo=(1e30, 0))
    yield "ADD_zp_out_of_range", binop("ADD", (1, 4, 4, 8), (1, 4, 4, 8), qa=(0.1, 1000))
    yield "ADD_perch_act", binop("ADD", (1, 4, 4, 8), (1, 4, 4, 8), qa=(np.linspace(0.1, 0.2, 8), np.zeros(8)))
    # unary / activations
    for code in ["RELU", "RELU6", "RELU_N1_TO_1", "RELU_0_TO_1", "LOGISTIC", "TANH", "HARD_SWISH", "ABS", "EXP", "LOG",
                 "SQRT", "RSQRT", "NEG", "FLOOR", "GELU", "SIN", "ELU", "SQUARE", "CEIL", "ROUND", "SIGN",
                 "LOGICAL_NOT", "ZEROS_LIKE"]:
        optmap = {"HARD_SWISH": "HardSwishOptions", "ABS": "AbsOptions", "EXP": "ExpOptions", "NEG": "NegOptions",
                  "GELU": "GeluOptions", "SQUARE": "SquareOptions", "SIGN": "SignOptions",
                  "LOGICAL_NOT": "LogicalNotOptions", "ZEROS_LIKE": "ZerosLikeOptions"}
        opts = (optmap[code], {}) if code in optmap else None
        for dt in DTS + ["INT32", "FLOAT32"]:
            yield "%s_%s" % (code, dt), unop(code, (1, 4, 4, 8), dt=dt, opts=opts, noquant=dt == "FLOAT32")
        yield "%s_rank0" % code, unop(code, (), opts=opts)
        yield "%s_rank1" % code, unop(code, (5,), opts=opts)
        yield "%s_rank2" % code, unop(code, (3, 5), opts=opts)
        yield "%s_rank3" % code, unop(code, (2, 3, 5), opts=opts)
        yield "%s_rank5" % code, unop(code, (1, 2, 2, 3, 5), opts=opts)
        yield "%s_rank6" % code, unop(code, (1, 1, 2, 2, 3, 5), opts=opts)
        yield "%s_batch2" % code, unop(code, (2, 4, 4, 8), opts=opts)
        yield "%s_noquant" % code, unop(code, (1, 4, 4, 8), opts=opts, noquant=True)
        yield "%s_zp_extreme" % code, unop(code, (1, 4, 4, 8), opts=opts, qi=(0.1, 127), qo=(0.1, -128))
        yield "%s_scale_tiny" % code, unop(code, (1, 4, 4, 8), opts=opts, qi=(1e-20, 0), qo=(1e20, 0))
        yield "%s_in8_out16" % code, unop(code, (1, 4, 4, 8), opts=opts, odt="INT16")
    for a in [0.1, 0.0, 1.0, -0.5, 2.0, float("nan"), float("inf")]:
        for dt in DTS:
            yield "leaky_%s_%s" % (a, dt), unop("LEAKY_RELU", (1, 4, 4, 8), dt=dt,
                                                opts=("LeakyReluOptions", dict(Alpha=a)))
    yield "leaky_rank1", unop("LEAKY_RELU", (5,), opts=("LeakyReluOptions", dict(Alpha=0.1)))
    for dt in DTS + ["INT32", "FLOAT32"]:
        for sh in [(1, 10), (2, 10), (1, 4, 4, 8), (10,), (2, 3, 10), (1, 1, 2, 3, 10), (1, 1), (1, 1, 1, 1), ()]:
            yield "softmax_%s_%s" % (dt, "x".join(map(str, sh))), softmax(sh, dt)
    yield "softmax_beta0", softmax((1, 10), beta=0.0)
    yield "softmax_beta_neg", softmax((1, 10), beta=-1.0)
    yield "softmax_beta_big", softmax((1, 10), beta=1e6)
    yield "softmax_big", softmax((1, 70000))
    # pooling
    for code in ["MAX_POOL_2D", "AVERAGE_POOL_2D", "L2_POOL_2D"]:
        for dt in DTS:
            yield "%s_%s" % (code, dt), pool(code, dt=dt)
        yield "%s_same" % code, pool(code, pad=0)
        yield "%s_k3s1_same" % code, pool(code, k=(3, 3), stride=(1, 1), pad=0)
        yield "%s_k9_same" % code, pool(code, ifm=(1, 16, 16, 4), k=(9, 9), stride=(1, 1), pad=0)
        yield "%s_k9_valid" % code, pool(code, ifm=(1, 16, 16, 4), k=(9, 9), stride=(1, 1), pad=1)
        yield "%s_kbig" % code, pool(code, ifm=(1, 300, 300, 1), k=(257, 257), stride=(1, 1), pad=1)
        yield "%s_global" % code, pool(code, ifm=(1, 7, 7, 16), k=(7, 7), stride=(7, 7), pad=1)
        yield "%s_k1" % code, pool(code, k=(1, 1), stride=(1, 1))
        yield "%s_stride4" % code, pool(code, ifm=(1, 16, 16, 4), k=(2, 2), stride=(4, 4))
        yield "%s_batch2" % code, pool(code, ifm=(2, 8, 8, 4))
        yield "%s_relu" % code, pool(code, faf=1)
        yield "%s_rescale" % code, pool(code, qo=(0.5, 10))
        yield "%s_k1_rescale" % code, pool(code, k=(1, 1), stride=(1, 1), qo=(0.5, 10))
        yield "%s_stride0" % code, pool(code, stride=(1, 1), k=(2, 2))
    # reshape family
    yield "reshape", reshape((1, 4, 4, 8), (1, 128))
    yield "reshape_noattr", reshape((1, 4, 4, 8), (1, 128), attr=False)
    yield "reshape_notens", reshape((1, 4, 4, 8), (1, 128), shape_tensor=False)
    yield "reshape_neither", reshape((1, 4, 4, 8), (1, 128), shape_tensor=False, attr=False)
    yield "reshape_relu", reshape((1, 4, 4, 8), (1, 128), then_relu=True)
    yield "reshape_rank0", reshape((1,), ())
    yield "reshape_rank6", reshape((1, 4, 4, 8), (1, 1, 2, 2, 4, 8), then_relu=True)
    yield "reshape_batch", reshape((2, 4, 4, 8), (4, 64), then_relu=True)
    yield "reshape_int16", reshape((1, 4, 4, 8), (1, 128), dt="INT16")
    yield "reshape_float", reshape((1, 4, 4, 8), (1, 128), dt="FLOAT32")
    yield "reshape_io_same", reshape((1, 4, 4, 8), (1, 4, 4, 8))
    for ax in [0, 1, 2, 3, -1]:
        yield "concat_ax%d" % ax, concat([(1, 4, 4, 8), (1, 4, 4, 8)], ax)
        yield "concat3_ax%d_diffq" % ax, concat([(1, 4, 4, 8)] * 3, ax, same_q=False)
    yield "concat_rank1", concat([(3,), (5,)], 0)
    yield "concat_rank2", concat([(2, 3), (2, 5)], 1)
    yield "concat_rank5", concat([(1, 2, 2, 3, 4), (1, 2, 2, 3, 4)], 4)
    yield "concat_rank5_ax0", concat([(1, 2, 2, 3, 4), (1, 2, 2, 3, 4)], 0)
    yield "concat_single", concat([(1, 4, 4, 8)], 3)
    yield "concat_unaligned", concat([(1, 4, 4, 3), (1, 4, 4, 5)], 3)
    yield "concat_relu", concat([(1, 4, 4, 8), (1, 4, 4, 8)], 3, faf=1)
    yield "concat_int16", concat([(1, 4, 4, 8), (1, 4, 4, 8)], 3, dt="INT16", same_q=False)
    yield "concat_float", concat([(1, 4, 4, 8), (1, 4, 4, 8)], 3, dt="FLOAT32")
    yield "concat_ax_oob", concat([(1, 4, 4, 8), (1, 4, 4, 8)], -4)
    for ax in [0, 1, 2, 3, -1, -4]:
        yield "split_ax%d" % ax, split((2, 4, 4, 8), ax, 2)
    yield "split_rank1", split((8,), 0, 4)
    yield "split_rank2", split((2, 8), 1, 4)
    yield "split_rank5", split((1, 2, 2, 4, 8), 4, 2)
    yield "split_1", split((1, 4, 4, 8), 3, 1)
    yield "split_dynaxis", split((1, 4, 4, 8), 3, 2, const_axis=False)
    yield "split_unaligned", split((1, 4, 4, 6), 3, 2)
    yield "splitv", split_v((1, 4, 4, 8), 3, [3, 5])
    yield "splitv_neg", split_v((1, 4, 4, 8), 3, [3, -1])
    yield "splitv_negax", split_v((1, 4, 4, 8), -1, [3, -1, 2])
    yield "splitv_rank1", split_v((8,), 0, [3, 5])
    yield "splitv_zero", split_v((1, 4, 4, 8), 3, [8, 0])
    yield "splitv_ax1", split_v((1, 4, 4, 8), 1, [1, 3])
    for ax in [0, 1, 2, 3, -1]:
        yield "pack_ax%d" % ax, pack((4, 4, 8), 2, ax)
        yield "unpack_ax%d" % ax, unpack((2, 4, 2, 8), ax)
    yield "pack_rank0", pack((), 3, 0)
    yield "pack_rank4", pack((1, 4, 4, 8), 2, 0)
    yield "pack_rank4_last", pack((1, 4, 4, 8), 2, 4)
    yield "pack_1", pack((4, 4, 8), 1, 0)
    yield "unpack_rank1", unpack((3,), 0)
    yield "unpack_rank5", unpack((2, 1, 4, 4, 8), 0)
    yield "slice", slice_((1, 8, 8, 8), [0, 2, 2, 0], [1, 4, 4, 8])
    yield "slice_neg", slice_((1, 8, 8, 8), [0, 2, 2, 0], [-1, -1, -1, -1])
    yield "slice_rank1", slice_((8,), [2], [4])
    yield "slice_rank5", slice_((1, 2, 8, 8, 8), [0, 0, 2, 2, 0], [1, 2, 4, 4, 8])
    yield "slice_batch", slice_((4, 8, 8, 8), [1, 0, 0, 0], [2, 8, 8, 8])
    yield "slice_ch", slice_((1, 8, 8, 8), [0, 0, 0, 3], [1, 8, 8, 3])
    yield "slice_full", slice_((1, 8, 8, 8), [0, 0, 0, 0], [1, 8, 8, 8])
    yield "ss_basic", strided_slice((1, 8, 8, 8), [0, 2, 2, 0], [1, 6, 6, 8], [1, 1, 1, 1], (1, 4, 4, 8))
    yield "ss_stride2", strided_slice((1, 8, 8, 8), [0, 0, 0, 0], [1, 8, 8, 8], [1, 2, 2, 1], (1, 4, 4, 8))
    yield "ss_stride2_c", strided_slice((1, 8, 8, 8), [0, 0, 0, 0], [1, 8, 8, 8], [1, 1, 1, 2], (1, 8, 8, 4))
    yield "ss_neg_stride", strided_slice((1, 8, 8, 8), [0, 7, 0, 0], [1, 0, 8, 8], [1, -1, 1, 1], (1, 7, 8, 8))
    yield "ss_masks", strided_slice((1, 8, 8, 8), [0, 2, 2, 0], [1, 6, 6, 8], [1, 1, 1, 1], (1, 8, 8, 8),
                                    masks=dict(b=15, e=15))
    yield "ss_shrink", strided_slice((1, 8, 8, 8), [0, 2, 0, 0], [1, 3, 8, 8], [1, 1, 1, 1], (1, 8, 8),
                                     masks=dict(s=2))
    yield "ss_shrink_all", strided_slice((2, 2), [1, 1], [2, 2], [1, 1], (), masks=dict(s=3))
    yield "ss_newaxis", strided_slice((8, 8, 8), [0, 0, 0, 0], [0, 8, 8, 8], [1, 1, 1, 1], (1, 8, 8, 8),
                                      masks=dict(n=1))
    yield "ss_ellipsis", strided_slice((1, 8, 8, 8), [0, 2], [0, 6], [1, 1], (1, 8, 8, 4), masks=dict(el=1))
    yield "ss_rank1", strided_slice((8,), [2], [6], [1], (4,))
    yield "ss_rank2", strided_slice((4, 8), [0, 2], [4, 6], [1, 1], (4, 4))
    yield "ss_rank5", strided_slice((1, 1, 8, 8, 8), [0, 0, 2, 2, 0], [1, 1, 6, 6, 8], [1, 1, 1, 1, 1],
                                    (1, 1, 4, 4, 8))
    yield "ss_negidx", strided_slice((1, 8, 8, 8), [0, -6, -6, 0], [1, -2, -2, 8], [1, 1, 1, 1], (1, 4, 4, 8))
    yield "ss_oob", strided_slice((1, 8, 8, 8), [0, 0, 0, 0], [1, 100, 100, 8], [1, 1, 1, 1], (1, 8, 8, 8))
    yield "ss_stride0", strided_slice((1, 8, 8, 8), [0, 0, 0, 0], [1, 8, 8, 8], [1, 0, 1, 1], (1, 8, 8, 8))
    yield "ss_short", strided_slice((1, 8, 8, 8), [0, 2], [1, 6], [1, 1], (1, 4, 8, 8))
    for code in ["MEAN", "SUM", "REDUCE_MAX", "REDUCE_MIN", "REDUCE_PROD", "REDUCE_ANY"]:
        for keep in (True, False):
            yield "%s_hw_%d" % (code, keep), reduce_(code, (1, 8, 8, 4), [1, 2], keep)
            yield "%s_h_%d" % (code, keep), reduce_(code, (1, 8, 8, 4), [1], keep)
            yield "%s_w_%d" % (code, keep), reduce_(code, (1, 8, 8, 4), [2], keep)
            yield "%s_c_%d" % (code, keep), reduce_(code, (1, 8, 8, 4), [3], keep)
            yield "%s_neg_%d" % (code, keep), reduce_(code, (1, 8, 8, 4), [-1], keep)
            yield "%s_n_%d" % (code, keep), reduce_(code, (2, 8, 8, 4), [0], keep)
            yield "%s_all_%d" % (code, keep), reduce_(code, (1, 8, 8, 4), [0, 1, 2, 3], keep)
            yield "%s_rank2_%d" % (code, keep), reduce_(code, (8, 4), [0], keep)
            yield "%s_rank3_%d" % (code, keep), reduce_(code, (8, 8, 4), [0, 1], keep)
            yield "%s_rank1_%d" % (code, keep), reduce_(code, (8,), [0], keep)
            yield "%s_rank5_%d" % (code, keep), reduce_(code, (1, 2, 8, 8, 4), [2, 3], keep)
            yield "%s_empty_axes_%d" % (code, keep), reduce_(code, (1, 8, 8, 4), [], keep)
            yield "%s_dup_axes_%d" % (code, keep), reduce_(code, (1, 8, 8, 4), [1, 1], keep)
        for dt in DTS + ["INT32"]:
            yield "%s_%s" % (code, dt), reduce_(code, (1, 8, 8, 4), [1, 2], True, dt=dt)
        yield "%s_rescale" % code, reduce_(code, (1, 8, 8, 4), [1, 2], True, qo=(0.5, 7))
        yield "%s_big" % code, reduce_(code, (1, 100, 100, 4), [1, 2], True)
        yield "%s_bigger" % code, reduce_(code, (1, 300, 300, 4), [1, 2], True)
        yield "%s_big_h" % code, reduce_(code, (1, 5000, 2, 4), [1], True)
        yield "%s_big_rescale" % code, reduce_(code, (1, 100, 100, 4), [1, 2], True, qo=(0.5, 7))
        yield "%s_big16" % code, reduce_(code, (1, 100, 100, 4), [1, 2], True, dt="INT16")
        yield "%s_batch2" % code, reduce_(code, (2, 8, 8, 4), [1, 2], True)
    # pad
    for dt in DTS:
        yield "pad_%s" % dt, pad((1, 8, 8, 4), [[0, 0], [1, 1], [2, 2], [0, 0]], dt=dt)
    yield "pad_c", pad((1, 8, 8, 4), [[0, 0], [1, 1], [2, 2], [1, 3]])
    yield "pad_n", pad((1, 8, 8, 4), [[1, 0], [1, 1], [2, 2], [0, 0]])
    yield "pad_rank2", pad((8, 4), [[1, 1], [2, 2]])
    yield "pad_rank3", pad((8, 8, 4), [[1, 1], [2, 2], [0, 0]])
    yield "pad_rank1", pad((8,), [[1, 1]])
    yield "pad_rank5", pad((1, 1, 8, 8, 4), [[0, 0], [0, 0], [1, 1], [2, 2], [0, 0]])
    yield "pad_zero", pad((1, 8, 8, 4), [[0, 0], [0, 0], [0, 0], [0, 0]])
    yield "pad_big", pad((1, 8, 8, 4), [[0, 0], [100, 100], [100, 100], [0, 0]])
    yield "pad_int64", pad((1, 8, 8, 4), [[0, 0], [1, 1], [2, 2], [0, 0]], pad_dt="INT64")
    yield "padv2", pad((1, 8, 8, 4), [[0, 0], [1, 1], [2, 2], [0, 0]], v2=True)
    yield "mirror_pad0", pad((1, 8, 8, 4), [[0, 0], [1, 1], [2, 2], [0, 0]], mirror=0)
    yield "mirror_pad1", pad((1, 8, 8, 4), [[0, 0], [1, 1], [2, 2], [0, 0]], mirror=1)
    yield "mirror_pad_c", pad((1, 8, 8, 4), [[0, 0], [1, 1], [2, 2], [1, 1]], mirror=0)
    yield "mirror_pad_rank2", pad((8, 4), [[1, 1], [2, 2]], mirror=0)
    # resize
    for code in ["RESIZE_BILINEAR", "RESIZE_NEAREST_NEIGHBOR"]:
        for ac, hpc in [(False, False), (True, False), (False, True), (True, True)]:
            for ifm, osz in [((1, 4, 4, 8), (8, 8)), ((1, 4, 4, 8), (7, 7)), ((1, 1, 1, 8), (5, 5)),
                             ((1, 4, 4, 8), (4, 4)), ((1, 4, 4, 8), (16, 16)), ((1, 4, 4, 8), (13, 9)),
                             ((1, 8, 8, 8), (4, 4)), ((1, 4, 4, 8), (1, 1)), ((1, 3, 5, 8), (5, 9)),
                             ((1, 4, 4, 8), (32, 32)), ((1, 4, 4, 8), (64, 64)), ((1, 2, 2, 8), (3, 3)),
                             ((1, 4, 4, 8), (12, 12)), ((1, 4, 4, 8), (8, 4)), ((2, 4, 4, 8), (8, 8)),
                             ((1, 4, 1, 8), (8, 1)), ((1, 1, 4, 8), (1, 8)), ((1, 4, 1, 8), (7, 1))]:
                yield "%s_%d%d_%s_%s" % (code, ac, hpc, "x".join(map(str, ifm)), "x".join(map(str, osz))), resize(
                    code, ifm, osz, ac=ac, hpc=hpc)
        yield "%s_int16" % code, resize(code, (1, 4, 4, 8), (8, 8), dt="INT16")
        yield "%s_uint8" % code, resize(code, (1, 4, 4, 8), (8, 8), dt="UINT8")
        yield "%s_dynsize" % code, resize(code, (1, 4, 4, 8), (8, 8), const_size=False)
    # transpose
    for sh, perm in [((1, 4, 6, 8), (0, 2, 1, 3)), ((1, 4, 6, 8), (0, 3, 1, 2)), ((1, 4, 6, 8), (0, 1, 2, 3)),
                     ((4, 6), (1, 0)), ((4, 6, 8), (2, 0, 1)), ((1, 4, 6, 8), (3, 2, 1, 0)), ((5,), (0,)),
                     ((1, 1, 4, 6, 8), (0, 1, 3, 2, 4)), ((2, 4, 6, 8), (0, 2, 1, 3)), ((1, 4, 6, 8), (0, 1, 3, 2)),
                     ((1, 4, 6, 8), (0, 2, 3, 1))]:
        yield "transpose_%s_%s" % ("x".join(map(str, sh)), "".join(map(str, perm))), transpose(sh, perm)
    yield "transpose_int16", transpose((1, 4, 6, 8), (0, 2, 1, 3), dt="INT16")
    yield "transpose_int32", transpose((1, 4, 6, 8), (0, 2, 1, 3), dt="INT32")
    # argmax
    for sh, ax in [((1, 4, 4, 8), 3), ((1, 4, 4, 8), -1), ((1, 4, 4, 8), 1), ((1, 8), 1), ((8,), 0),
                   ((2, 4, 4, 8), 3), ((1, 4, 4, 300), 3), ((1, 4, 4, 1), 3), ((1, 1, 1, 8), 3), ((1, 2, 4, 4, 8), 4),
                   ((1, 4, 4, 128), 3), ((1, 4, 4, 127), 3), ((1, 4, 4, 129), 3)]:
        for dt in ["INT8", "UINT8", "INT16"]:
            for odt in ["INT32", "INT64"]:
                yield "argmax_%s_%d_%s_%s" % ("x".join(map(str, sh)), ax, dt, odt), argmax(sh, ax, dt, odt)
    # quantize
    for idt, odt in itertools.product(["INT8", "UINT8", "INT16", "INT32", "FLOAT32"], ["INT8", "UINT8", "INT16",
                                                                                         "INT32", "FLOAT32"]):
        if idt == odt == "FLOAT32":
            continue
        yield "quantize_%s_%s" % (idt, odt), quantize((1, 4, 4, 8), idt, odt)
        yield "quantize_r1_%s_%s" % (idt, odt), quantize((5,), idt, odt)
    yield "quantize_same", quantize((1, 4, 4, 8), "INT8", "INT8", (0.1, 1), (0.1, 1))
    yield "quantize_bigratio", quantize((1, 4, 4, 8), "INT8", "INT8", (1e6, 1), (1e-6, 1))
    yield "quantize_smallratio", quantize((1, 4, 4, 8), "INT8", "INT8", (1e-9, 1), (1e6, 1))
    # transpose conv
    for stride in [(1, 1), (2, 2), (3, 3), (2, 1), (1, 2)]:
        for p in (0, 1):
            for k in [(3, 3), (2, 2), (1, 1), (4, 4), (5, 5), (3, 1), (1, 3)]:
                yield "tconv_s%s_p%d_k%s" % (stride, p, k), tconv(stride=stride, pad=p, k=k)
    yield "tconv_bias", tconv(bias=True)
    yield "tconv_int16", tconv(dt="INT16")
    yield "tconv_uint8", tconv(dt="UINT8")
    yield "tconv_batch2", tconv(ifm=(2, 4, 4, 4))
    yield "tconv_1x1", tconv(ifm=(1, 1, 1, 4))
    yield "chain", chain()
    yield "chain16", chain(dt="INT16")
    yield "chain_long", chain(codes=("RELU", "LOGISTIC", "TANH", "HARD_SWISH", "RELU6", "ABS") * 4)

import sys, os
sys.path.insert(0, os.path.join(os.getcwd(), "out"))
exec(open("out/try.py").read())
for pads in ([[0,0],[0,0],[0,2],[0,0]], [[0,0],[0,0],[2,0],[0,0]], [[0,0],[1,1],[1,3],[0,0]], [[0,0],[1,2],[3,1],[0,0]], [[0,0],[0,3],[0,0],[0,0]], [[0,0],[2,1],[1,1],[0,0]]):
    show("pad%s" % pads, corpus.pad((1,8,8,4), pads))

import os, sys
import numpy as np
sys.path.insert(0, os.path.join(os.getcwd(), "out"))
from mk import T, OP, build
rng = np.random.default_rng(7)

def lstm(n_batch=1, n_time=2, n_feat=4, n_out=4, dt="INT8", time_major=False, state_variable=True, cifg=False, proj_clip=0.0, cell_clip=0.0):
    t = []
    def add(x):
        t.append(x); return len(t) - 1
    ishape = [n_time, n_batch, n_feat] if time_major else [n_batch, n_time, n_feat]
    oshape = [n_time, n_batch, n_out] if time_major else [n_batch, n_time, n_out]
    act_s = 1/128 if dt == "INT8" else 1/32768
    x = add(T("in", ishape, dt, act_s, 0))
    def w(name, shape):
        return add(T(name, shape, "INT8", 0.01, 0, data=rng.integers(-127, 128, shape)))
    def b(name):
        return add(T(name, [n_out], "INT32", 0.0001, 0, data=rng.integers(-100, 100, [n_out])))
    i2i = -1 if cifg else w("i2i", [n_out, n_feat])
    i2f = w("i2f", [n_out, n_feat]); i2c = w("i2c", [n_out, n_feat]); i2o = w("i2o", [n_out, n_feat])
    r2i = -1 if cifg else w("r2i", [n_out, n_out])
    r2f = w("r2f", [n_out, n_out]); r2c = w("r2c", [n_out, n_out]); r2o = w("r2o", [n_out, n_out])
    bi = -1 if cifg else b("bi"); bf = b("bf"); bc = b("bc"); bo = b("bo")
    ostate = add(T("output_state", [n_batch, n_out], dt, act_s, 0, variable=state_variable))
    cstate = add(T("cell_state", [n_batch, n_out], "INT16", 2**-11, 0, variable=state_variable))
    inter = [add(T("inter%d" % i, [], "INT16", 2**-12, 0)) for i in range(4)]
    inter.append(add(T("eff_hidden", [], dt, 2**-7, 0)))
    out = add(T("out", oshape, dt, act_s, 0))
    inputs = [x, i2i, i2f, i2c, i2o, r2i, r2f, r2c, r2o, -1, -1, -1, bi, bf, bc, bo, -1, -1, ostate, cstate, -1, -1, -1, -1]
    op = OP("UNIDIRECTIONAL_SEQUENCE_LSTM", inputs, [out],
            ("UnidirectionalSequenceLSTMOptions", dict(FusedActivationFunction=4, CellClip=cell_clip, ProjClip=proj_clip, TimeMajor=time_major)),
            intermediates=inter)
    return build(t, [op], [x], [out])

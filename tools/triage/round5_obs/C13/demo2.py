"""C13 demonstration 2: an int8 UNIDIRECTIONAL_SEQUENCE_LSTM in time-major layout whose number of time steps differs
from its batch size must compile (or be rejected with a Vela error); vela must not die with an internal exception.
Run as: cd /tmp/seed5/C13 && /venv/bin/python out/demo2.py"""
import importlib
import os
import subprocess
import sys
import tempfile

sys.path.insert(0, os.getcwd())

import flatbuffers  # noqa: E402
import numpy as np  # noqa: E402

from ethosu.vela.tflite import Buffer, Model, Operator, OperatorCode, QuantizationParameters, SubGraph, Tensor  # noqa
from ethosu.vela.tflite.BuiltinOperator import BuiltinOperator  # noqa: E402
from ethosu.vela.tflite.BuiltinOptions import BuiltinOptions  # noqa: E402
from ethosu.vela.tflite.TensorType import TensorType  # noqa: E402

NP = {"INT8": np.int8, "INT16": np.int16, "INT32": np.int32, "INT64": np.int64, "UINT8": np.uint8}


def _vec(b, kind, vals):
    size = 8 if kind == "q" else 4
    b.StartVector(size, len(vals), size)
    for v in list(vals)[::-1]:
        if kind == "i":
            b.PrependInt32(int(v))
        elif kind == "q":
            b.PrependInt64(int(v))
        elif kind == "f":
            b.PrependFloat32(float(v))
        else:
            b.PrependUOffsetTRelative(v)
    return b.EndVector()


def _bytes(b, data):
    b.StartVector(1, len(data), 16)
    b.head = b.head - len(data)
    b.Bytes[b.head : b.head + len(data)] = data
    return b.EndVector()


def tensor(name, shape, dtype="INT8", scale=None, zp=None, data=None, variable=False):
    return dict(name=name, shape=shape, dtype=dtype, scale=scale, zp=zp, data=data, variable=variable)


def operator(code, inputs, outputs, options=None, intermediates=None):
    # options = (options table name, {field: value})
    return dict(code=code, inputs=inputs, outputs=outputs, options=options, intermediates=intermediates)


def build_model(tensors, operators, inputs, outputs):
    """Serialises a single-subgraph TFLite model using only the flatbuffers runtime and the generated schema classes"""
    b = flatbuffers.Builder(1024)
    codes = []
    for o in operators:
        if o["code"] not in codes:
            codes.append(o["code"])
    code_offs = []
    for c in codes:
        v = getattr(BuiltinOperator, c)
        OperatorCode.OperatorCodeStart(b)
        OperatorCode.OperatorCodeAddDeprecatedBuiltinCode(b, min(v, 127))
        OperatorCode.OperatorCodeAddBuiltinCode(b, v)
        OperatorCode.OperatorCodeAddVersion(b, 1)
        code_offs.append(OperatorCode.OperatorCodeEnd(b))
    codes_off = _vec(b, "o", code_offs)
    buffers = [None]
    t_offs = []
    for t in tensors:
        buffers.append(None if t["data"] is None else np.asarray(t["data"]).astype(NP[t["dtype"]]).tobytes())
        shp = _vec(b, "i", t["shape"])
        nm = b.CreateString(t["name"])
        q = None
        if t["scale"] is not None:
            sc = _vec(b, "f", np.atleast_1d(t["scale"]))
            zp = _vec(b, "q", np.atleast_1d(t["zp"]))
            QuantizationParameters.QuantizationParametersStart(b)
            QuantizationParameters.QuantizationParametersAddScale(b, sc)
            QuantizationParameters.QuantizationParametersAddZeroPoint(b, zp)
            q = QuantizationParameters.QuantizationParametersEnd(b)
        Tensor.TensorStart(b)
        Tensor.TensorAddShape(b, shp)
        Tensor.TensorAddType(b, getattr(TensorType, t["dtype"]))
        Tensor.TensorAddBuffer(b, len(buffers) - 1)
        Tensor.TensorAddName(b, nm)
        if q is not None:
            Tensor.TensorAddQuantization(b, q)
        Tensor.TensorAddIsVariable(b, t["variable"])
        t_offs.append(Tensor.TensorEnd(b))
    tens_off = _vec(b, "o", t_offs)
    op_offs = []
    for o in operators:
        i_off = _vec(b, "i", o["inputs"])
        o_off = _vec(b, "i", o["outputs"])
        m_off = _vec(b, "i", o["intermediates"]) if o["intermediates"] is not None else None
        opt_off = None
        if o["options"] is not None:
            oname, fields = o["options"]
            mod = importlib.import_module("ethosu.vela.tflite." + oname)
            getattr(mod, oname + "Start")(b)
            for k, v in fields.items():
                getattr(mod, oname + "Add" + k)(b, v)
            opt_off = getattr(mod, oname + "End")(b)
        Operator.OperatorStart(b)
        Operator.OperatorAddOpcodeIndex(b, codes.index(o["code"]))
        Operator.OperatorAddInputs(b, i_off)
        Operator.OperatorAddOutputs(b, o_off)
        if m_off is not None:
            Operator.OperatorAddIntermediates(b, m_off)
        if opt_off is not None:
            Operator.OperatorAddBuiltinOptionsType(b, getattr(BuiltinOptions, o["options"][0]))
            Operator.OperatorAddBuiltinOptions(b, opt_off)
        op_offs.append(Operator.OperatorEnd(b))
    ops_off = _vec(b, "o", op_offs)
    in_off = _vec(b, "i", inputs)
    out_off = _vec(b, "i", outputs)
    sg_name = b.CreateString("main")
    SubGraph.SubGraphStart(b)
    SubGraph.SubGraphAddTensors(b, tens_off)
    SubGraph.SubGraphAddInputs(b, in_off)
    SubGraph.SubGraphAddOutputs(b, out_off)
    SubGraph.SubGraphAddOperators(b, ops_off)
    SubGraph.SubGraphAddName(b, sg_name)
    sgs_off = _vec(b, "o", [SubGraph.SubGraphEnd(b)])
    buf_offs = []
    for d in buffers:
        d_off = _bytes(b, d) if d is not None else None
        Buffer.BufferStart(b)
        if d_off is not None:
            Buffer.BufferAddData(b, d_off)
        buf_offs.append(Buffer.BufferEnd(b))
    bufs_off = _vec(b, "o", buf_offs)
    desc = b.CreateString("demo model")
    Model.ModelStart(b)
    Model.ModelAddVersion(b, 3)
    Model.ModelAddOperatorCodes(b, codes_off)
    Model.ModelAddSubgraphs(b, sgs_off)
    Model.ModelAddDescription(b, desc)
    Model.ModelAddBuffers(b, bufs_off)
    b.Finish(Model.ModelEnd(b), b"TFL3")
    return bytes(b.Output())


def compile_with_vela(name, model_bytes, extra_args=()):
    """Runs the vela command line on the model. Returns None if the run satisfies the property (an output model was
    written with status 0, or vela printed an error and returned a non-zero status), otherwise a description"""
    workdir = tempfile.mkdtemp(prefix="c13_demo_")
    path = os.path.join(workdir, name + ".tflite")
    with open(path, "wb") as f:
        f.write(model_bytes)
    cmd = [sys.executable, "-m", "ethosu.vela", path, "--output-dir", workdir] + list(extra_args)
    try:
        res = subprocess.run(cmd, cwd=os.getcwd(), capture_output=True, text=True, timeout=600)
    except subprocess.TimeoutExpired:
        return f"{name}: vela did not terminate within 600 s"
    out_file = os.path.join(workdir, name + "_vela.tflite")
    written = os.path.isfile(out_file) and os.path.getsize(out_file) > 0
    if "Traceback (most recent call last)" in res.stderr:
        last = [line for line in res.stderr.strip().splitlines() if line.strip()][-1]
        where = [line.strip() for line in res.stderr.splitlines() if line.strip().startswith("File ")][-1]
        return f"{name}: vela died with an internal exception (status {res.returncode}): {last} at {where}"
    if res.returncode == 0 and not written:
        return f"{name}: vela returned status 0 but wrote no output model"
    if res.returncode != 0 and "error" not in (res.stdout + res.stderr).lower():
        return f"{name}: vela returned status {res.returncode} without a diagnosis"
    print(f"  {name}: status {res.returncode}, output model {'written' if written else 'not written'}")
    return None


def lstm_model(n_batch, n_time, n_feature, n_output, time_major):
    rng = np.random.default_rng(7)
    tens = []

    def add(t):
        tens.append(t)
        return len(tens) - 1

    def weights(name, shape):
        return add(tensor(name, shape, "INT8", 0.01, 0, data=rng.integers(-127, 128, shape)))

    def bias(name):
        return add(tensor(name, [n_output], "INT32", 0.0001, 0, data=rng.integers(-100, 100, [n_output])))

    io_shape = (lambda d: [n_time, n_batch, d]) if time_major else (lambda d: [n_batch, n_time, d])
    ifm = add(tensor("input", io_shape(n_feature), "INT8", 1 / 128, 0))
    in_w = [weights("input_to_%s_w" % g, [n_output, n_feature]) for g in ("input", "forget", "cell", "output")]
    re_w = [weights("recurrent_to_%s_w" % g, [n_output, n_output]) for g in ("input", "forget", "cell", "output")]
    biases = [bias("%s_bias" % g) for g in ("input", "forget", "cell", "output")]
    output_state = add(tensor("output_state", [n_batch, n_output], "INT8", 1 / 128, 0, variable=True))
    cell_state = add(tensor("cell_state", [n_batch, n_output], "INT16", 2**-11, 0, variable=True))
    inter = [add(tensor("intermediate_%d" % i, [], "INT16", 2**-12, 0)) for i in range(4)]
    inter.append(add(tensor("effective_hidden_scale_intermediate", [], "INT8", 2**-7, 0)))
    ofm = add(tensor("output", io_shape(n_output), "INT8", 1 / 128, 0))
    none = -1  # absent optional operand (peephole, projection, layer normalisation)
    inputs = [ifm] + in_w + re_w + [none] * 3 + biases + [none] * 2 + [output_state, cell_state] + [none] * 4
    options = dict(FusedActivationFunction=4, CellClip=0.0, ProjClip=0.0, TimeMajor=time_major)  # 4 = TANH
    op = operator(
        "UNIDIRECTIONAL_SEQUENCE_LSTM", inputs, [ofm], ("UnidirectionalSequenceLSTMOptions", options), intermediates=inter
    )
    return build_model(tens, [op], [ifm], [ofm])


def main():
    models = [
        ("lstm_batch_major_b2_t3", lstm_model(2, 3, 4, 4, time_major=False)),  # control
        ("lstm_time_major_b2_t2", lstm_model(2, 2, 4, 4, time_major=True)),  # control
        ("lstm_time_major_b1_t2", lstm_model(1, 2, 4, 4, time_major=True)),
        ("lstm_time_major_b2_t3", lstm_model(2, 3, 6, 5, time_major=True)),
        ("lstm_time_major_b4_t2", lstm_model(4, 2, 4, 4, time_major=True)),
    ]
    failures = [msg for msg in (compile_with_vela(name, model) for name, model in models) if msg]
    if failures:
        print("FAIL")
        for msg in failures:
            print("  " + msg)
        return 1
    print("PASS")
    return 0


if __name__ == "__main__":
    sys.exit(main())

import sys, os
sys.path.insert(0, os.path.join(os.getcwd(), "out"))
exec(open("out/try.py").read())
m = corpus.conv()
for a in (["--recursion-limit","10"], ["--recursion-limit","50"], ["--recursion-limit","100"], ["--recursion-limit","0"], ["--recursion-limit","-5"], ["--arena-cache-size","-1"], ["--hillclimb-max-iterations","-1"], ["--max-block-dependency","4"],
          ["--cpu-tensor-alignment","8"], ["--cpu-tensor-alignment","0"], ["--optimise","Speed"], ["--config","nonexist.ini"], ["--system-config","Foo"], ["--memory-mode","Bar"],
          ["--config","Arm/vela.ini","--system-config","Ethos_U55_High_End_Embedded","--memory-mode","Dedicated_Sram","--accelerator-config","ethos-u55-128"],
          ["--config","Arm/vela.ini","--system-config","Ethos_U65_High_End","--memory-mode","Shared_Sram","--accelerator-config","ethos-u55-128"],
          ["--config","Arm/vela.ini","--system-config","Ethos_U65_High_End"], ["--config","Arm/vela.ini","--memory-mode","Shared_Sram"], ["--arena-cache-size","99999999999999"]):
    show("conv %s" % a, m, a)
m = corpus.chain(codes=("RELU","LOGISTIC","TANH","HARD_SWISH","RELU6","ABS")*100)
show("chain600", m); show("chain600 rl=300", m, ["--recursion-limit","300"])

"""Observation on the UNMODIFIED tree (adjacent to C15, not a validity violation).

api.npu_find_block_configs computes
    min_block_height = max(arch.ofm_ublock.height, 2 if ifm_resampling_mode != NpuResamplingMode.NONE else 1)
but ifm_resampling_mode is resampling_mode_map[npu_op.ifm_upscale], i.e. a member of
ethos_u55_regs.resampling_mode, which never compares equal to a member of api.NpuResamplingMode.  The '!=' is
therefore always True and the minimum (and step) of the enumerated block height / width is 2 for every operation,
also without upscaling.  On Ethos-U55-32/-64 (micro-block 1x1) the query consequently
  * never offers a block of odd height or width although the hardware / try_block_config accept them, and
  * raises AssertionError (empty result) for operations that only fit with a 1-high or 1-wide block.
Every configuration that IS offered is valid, so the statement of C15 is not violated.

Run: cd /tmp/seed5/C15 && /venv/bin/python out/observation1.py
"""
import os
import sys

sys.path.insert(0, os.getcwd())

from ethosu.vela.api import (  # noqa: E402
    NpuAccelerator,
    NpuActivation,
    NpuActivationOp,
    NpuAddressRange,
    NpuConvDepthWiseOperation,
    NpuDataType,
    NpuFeatureMap,
    NpuKernel,
    NpuLayout,
    NpuPadding,
    NpuQuantization,
    NpuResamplingMode,
    NpuShape3D,
    NpuTileBox,
    npu_find_block_configs,
    npu_generate_register_command_stream,
)
from ethosu.vela.ethos_u55_regs.ethos_u55_regs import resampling_mode  # noqa: E402


def fm(h, w, d, addr, dtype):
    f = NpuFeatureMap()
    f.data_type = dtype
    f.shape = NpuShape3D(height=h, width=w, depth=d)
    f.tiles = NpuTileBox(width_0=w, height_0=h, height_1=h, addresses=[addr, 0, 0, 0])
    f.region = 1
    f.layout = NpuLayout.NHWC
    f.quantization = NpuQuantization(scale_f32=0.5, zero_point=0)
    return f


print("resampling_mode.NONE != NpuResamplingMode.NONE ->", resampling_mode.NONE != NpuResamplingMode.NONE)

op = NpuConvDepthWiseOperation()
op.ifm = fm(122, 12, 17, 0x100000, NpuDataType.INT16)
op.ofm = fm(40, 2, 17, 0x800000, NpuDataType.INT16)
op.kernel = NpuKernel(5, 3, 3, 3, 2, 1)
op.padding = NpuPadding(top=0, left=0, bottom=0, right=0)
op.weights = [NpuAddressRange(region=0, address=0, length=1024)]
op.biases = [NpuAddressRange(region=0, address=4096, length=160)]
op.activation = NpuActivation(NpuActivationOp.TABLE_LOOKUP)
op.activation.lookup_table_index = 0
op.ifm_upscale = NpuResamplingMode.NONE

accel = NpuAccelerator.Ethos_U55_64
# a 1x1x24 block is valid for this operation: the command stream generator accepts and programs it
op.block_config = NpuShape3D(height=1, width=1, depth=24)
cmds = npu_generate_register_command_stream([op], accel)
print("generator accepts block 1x1x24:", len(cmds) > 0)
try:
    cfgs = npu_find_block_configs(op, accel)
    print("query offers", len(cfgs), "configs; odd heights offered:", any(c.height % 2 for c in cfgs))
except AssertionError:
    print("OBSERVED: npu_find_block_configs raised AssertionError (no configuration offered) although 1x1x24 is valid")



# OBSERVATION 5 (unmodified tree): quantisation records that carry only min/max (no scale / zero_point), as found in
# float models exported with range information, are dropped from interface tensors and CPU operands
# (tflite_reader.parse_tensor sets tens.quantization = None when scale and zero_point are both absent).
tens = [T("in", [1, 16], TT.FLOAT32, qmin=[-1.0], qmax=[2.0]), T("out", [1, 16], TT.FLOAT32, qmin=[0.0], qmax=[2.0])]
ops = [O(BO.RELU, ["in"], ["out"])]
src, out, errs = run_obs(tens, ops, ["in"], ["out"], expect={"out"})
finish(errs)

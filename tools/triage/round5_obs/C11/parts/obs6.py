

# OBSERVATION 6 (unmodified tree): minor verbatim deviations
#  a) a tensor listed twice in the subgraph outputs is listed once in the output model (the reader removes duplicates
#     with a warning)
#  b) an operator without a builtin options table (here ADD) is written back with a default options table
rng = np.random.default_rng(1)
tens = [
    T("in", [1, 4, 8, 4], TT.INT8, **q()),
    T("w", [8, 1, 1, 4], TT.INT8, data=rng.integers(-100, 100, (8, 1, 1, 4)), scale=[0.01] * 8, zp=[0] * 8, qdim=0),
    T("b", [8], TT.INT32, data=rng.integers(-100, 100, (8,)), scale=[0.005] * 8, zp=[0] * 8, qdim=0),
    T("out", [1, 4, 8, 8], TT.INT8, **q()),
]
ops = [O(BO.CONV_2D, ["in", "w", "b"], ["out"], "Conv2DOptions", dict(Padding=0, StrideW=1, StrideH=1, DilationWFactor=1, DilationHFactor=1))]
errs = ["a) " + e for e in run_obs(tens, ops, ["in"], ["out", "out"])[2]]
tens = [T("in", [1, 4], TT.FLOAT32), T("k", [1, 4], TT.FLOAT32, data=[1, 2, 3, 4]), T("out", [1, 4], TT.FLOAT32)]
errs += ["b) " + e for e in run_obs(tens, [O(BO.ADD, ["in", "k"], ["out"])], ["in"], ["out"], expect={"out"})[2]]
finish(errs)

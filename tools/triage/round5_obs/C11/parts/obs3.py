

# OBSERVATION 3 (unmodified tree): a CPU resident DEPTHWISE_CONV_2D with depth_multiplier == 0 (implicit multiplier)
# is written back with depth_multiplier == weight channels // ifm channels: tflite_reader.parse_operator overwrites
# attrs["depth_multiplier"] and the writer only restores the cached value for operators that run on the NPU.
rng = np.random.default_rng(1)
tens = [
    T("in", [1, 4, 4, 4], TT.FLOAT32),
    T("w", [1, 1, 1, 8], TT.FLOAT32, data=rng.random((1, 1, 1, 8))),
    T("b", [8], TT.FLOAT32, data=rng.random(8)),
    T("out", [1, 4, 4, 8], TT.FLOAT32),
]
ops = [
    O(
        BO.DEPTHWISE_CONV_2D,
        ["in", "w", "b"],
        ["out"],
        "DepthwiseConv2DOptions",
        dict(Padding=0, StrideW=1, StrideH=1, DepthMultiplier=0, DilationWFactor=1, DilationHFactor=1),
    )
]
src, out, errs = run_obs(tens, ops, ["in"], ["out"], expect={"out"})
finish(errs)



# OBSERVATION 4 (unmodified tree): CPU resident TRANSPOSE_CONV (float, 3 operands, fused RELU):
#  - TransposeConvOptions.fused_activation_function is not in Vela's option table and is written back as NONE
#  - the operand list grows from 3 to 4 (a -1 bias is appended by the reader and written out)
# the second effect also shows on a FULLY_CONNECTED that has only two operands (2 -> 3).
rng = np.random.default_rng(1)
tens = [
    T("in", [1, 4, 4, 4], TT.FLOAT32),
    T("os", [4], TT.INT32, data=[1, 4, 4, 4]),
    T("w", [4, 1, 1, 4], TT.FLOAT32, data=rng.random((4, 1, 1, 4))),
    T("out", [1, 4, 4, 4], TT.FLOAT32),
]
ops = [O(BO.TRANSPOSE_CONV, ["os", "w", "in"], ["out"], "TransposeConvOptions", dict(Padding=1, StrideW=1, StrideH=1, FusedActivationFunction=1))]
src, out, errs = run_obs(tens, ops, ["in"], ["out"], expect={"out"})
tens = [T("in", [1, 16], TT.FLOAT32), T("fw", [4, 16], TT.FLOAT32, data=rng.random((4, 16))), T("out", [1, 4], TT.FLOAT32)]
ops = [O(BO.FULLY_CONNECTED, ["in", "fw"], ["out"], "FullyConnectedOptions", dict(FusedActivationFunction=1))]
errs += run_obs(tens, ops, ["in"], ["out"], expect={"out"})[2]
finish(errs)

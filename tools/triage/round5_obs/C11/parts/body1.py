

# ---------------------------------------------------------------- demonstration 1
# A model with three subgraphs: main (third-party custom op with a constant operand, then WHILE), the WHILE
# condition (LESS against a constant, REDUCE_ANY over a constant axis) and the WHILE body (ADD of a constant).
# Every operator stays on the CPU, so every operator and every constant operand must come out unchanged.
def main():
    main_t = [
        T("in", [1, 4], TT.FLOAT32),
        T("kc", [1, 4], TT.FLOAT32, data=[1.5, 2.5, 3.5, 4.5]),
        T("a", [1, 4], TT.FLOAT32),
        T("out", [1, 4], TT.FLOAT32),
    ]
    main_o = [
        O(BO.CUSTOM, ["in", "kc"], ["a"], custom_code="foo", custom_options=[7, 7]),
        O(BO.WHILE, ["a"], ["out"], "WhileOptions", dict(CondSubgraphIndex=1, BodySubgraphIndex=2)),
    ]
    cond_t = [
        T("cx", [1, 4], TT.FLOAT32),
        T("lim", [1, 4], TT.FLOAT32, data=[10, 10, 10, 10]),
        T("cl", [1, 4], TT.BOOL),
        T("cb", [], TT.BOOL),
        T("ax", [1], TT.INT32, data=[1]),
    ]
    cond_o = [
        O(BO.LESS, ["cx", "lim"], ["cl"], "LessOptions", {}),
        O(BO.REDUCE_ANY, ["cl", "ax"], ["cb"], "ReducerOptions", dict(KeepDims=False)),
    ]
    body_t = [T("bx", [1, 4], TT.FLOAT32), T("one", [1, 4], TT.FLOAT32, data=[1, 1, 1, 1]), T("by", [1, 4], TT.FLOAT32)]
    body_o = [O(BO.ADD, ["bx", "one"], ["by"], "AddOptions", dict(FusedActivationFunction=0))]
    src = build_model(
        main_t,
        main_o,
        ["in"],
        ["out"],
        more_subgraphs=[(cond_t, cond_o, ["cx"], ["cb"], "cond"), (body_t, body_o, ["bx"], ["by"], "body")],
    )
    out, outp, _ = compile_model(src)
    errs = []
    expect = [{"a", "out"}, {"cl", "cb"}, {"by"}]
    for i in range(3):
        errs += [f"subgraph {i}: " + e for e in check_preserved(src, out, expect_cpu=expect[i], sg_index=i)]
    try:
        reads_back(outp)
    except BaseException as e:  # noqa: B902
        errs.append(f"output does not read back: {type(e).__name__}: {e}")
    finish(errs)


main()



def q(s=0.5, z=0):
    return dict(scale=[s], zp=[z])


def describe(out):
    P = parse_model(out)["subgraphs"][0]
    for o in P["ops"]:
        nm = "ethos-u" if o["code"][1] == "ethos-u" else BO_NAME[o["code"][0]]
        print(
            "   ",
            nm,
            [P["tensors"][i]["name"] if i >= 0 else None for i in o["inputs"] if i < 0 or "_split_" not in P["tensors"][i]["name"]],
            "->",
            [P["tensors"][i]["name"] for i in o["outputs"]],
        )


def run_obs(tens, ops, ins, outs, expect=None):
    src = build_model(tens, ops, ins, outs)
    out, outp, _ = compile_model(src)
    print("output model operators:")
    describe(out)
    errs = check_preserved(src, out, expect_cpu=expect)
    try:
        reads_back(outp)
    except BaseException as e:  # noqa: B902
        errs.append(f"output does not read back: {type(e).__name__}: {e}")
    return src, out, errs

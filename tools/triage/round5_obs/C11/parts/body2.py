

# ---------------------------------------------------------------- demonstration 2
# int8 network: CONV_2D (stride 1, runs on the NPU) followed by CONV_2D with stride 4 (not supported by the NPU, so it
# stays on the CPU). The CPU convolution has per-channel quantised weights and bias (one scale / zero point per output
# channel, quantized_dimension 0) as written by the TFLite converter. The operator and its constant operands, including
# their quantisation parameters, must come out unchanged.
def conv(i, o, w, b, stride):
    return O(
        BO.CONV_2D,
        [i, w, b],
        [o],
        "Conv2DOptions",
        dict(Padding=1, StrideW=stride, StrideH=stride, DilationWFactor=1, DilationHFactor=1),
    )


def weights(rng, w, b, scales, cin, cout):
    return [
        T(w, [cout, 1, 1, cin], TT.INT8, data=rng.integers(-100, 100, (cout, 1, 1, cin)), scale=scales, zp=[0] * cout, qdim=0),
        T(b, [cout], TT.INT32, data=rng.integers(-100, 100, (cout,)), scale=[s * 0.5 for s in scales], zp=[0] * cout, qdim=0),
    ]


def one(rng, cpu_scales):
    tens = (
        [T("in", [1, 8, 8, 4], TT.INT8, scale=[0.5], zp=[0])]
        + weights(rng, "w1", "b1", [0.01 * (i + 1) for i in range(8)], 4, 8)
        + weights(rng, "w2", "b2", cpu_scales, 8, 8)
        + [T("c", [1, 8, 8, 8], TT.INT8, scale=[0.25], zp=[1]), T("out", [1, 2, 2, 8], TT.INT8, scale=[0.3], zp=[2])]
    )
    ops = [conv("in", "c", "w1", "b1", 1), conv("c", "out", "w2", "b2", 4)]
    src = build_model(tens, ops, ["in"], ["out"])
    out, outp, _ = compile_model(src)
    errs = check_preserved(src, out, expect_cpu={"out"})
    try:
        reads_back(outp)
    except BaseException as e:  # noqa: B902
        errs.append(f"output does not read back: {type(e).__name__}: {e}")
    return errs


def main():
    rng = np.random.default_rng(1)
    errs = ["[distinct per-channel scales] " + e for e in one(rng, [0.02 * (i + 1) for i in range(8)])]
    errs += ["[equal per-channel scales] " + e for e in one(rng, [0.02] * 8)]
    finish(errs)


main()



# ---------------------------------------------------------------- demonstration 3
# int16 SOFTMAX (runs on the NPU) whose result is the network output, next to a third-party custom operator on the
# CPU that reads the same input. The subgraph interface (names, shapes, types, quantisation parameters) must be that
# of the source model.
def main():
    tens = [
        T("in", [1, 8, 8, 16], TT.INT16, scale=[0.001], zp=[0]),
        T("probs", [1, 8, 8, 16], TT.INT16, scale=[1.0 / 32768.0], zp=[0]),
        T("aux", [1, 8, 8, 16], TT.INT16, scale=[0.001], zp=[0]),
    ]
    ops = [
        O(BO.SOFTMAX, ["in"], ["probs"], "SoftmaxOptions", dict(Beta=1.0)),
        O(BO.CUSTOM, ["in"], ["aux"], custom_code="foo", custom_options=[1, 2, 3]),
    ]
    src = build_model(tens, ops, ["in"], ["probs", "aux"])
    out, outp, _ = compile_model(src)
    errs = check_preserved(src, out, expect_cpu={"aux"})
    try:
        reads_back(outp)
    except BaseException as e:  # noqa: B902
        errs.append(f"output does not read back: {type(e).__name__}: {e}")
    finish(errs)


main()

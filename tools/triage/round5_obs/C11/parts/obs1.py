

# OBSERVATION 1 (unmodified tree): READ_VARIABLE is hoisted above the ASSIGN_VARIABLE that it follows in the source.
# source order: VAR_HANDLE -> h ; CONV_2D(in) -> c ; ASSIGN_VARIABLE(h, c) ; READ_VARIABLE(h) -> r ; CUSTOM(r) -> out
# pass_packing criterion 1 moves every VarHandle/ReadVariable/CallOnce pass to the top of the pass list, so the written
# model reads the variable before the value is assigned (the dependency through the resource variable is not respected).
rng = np.random.default_rng(1)
tens = [
    T("in", [1, 4, 8, 4], TT.INT8, **q()),
    T("w", [8, 1, 1, 4], TT.INT8, data=rng.integers(-100, 100, (8, 1, 1, 4)), scale=[0.01] * 8, zp=[0] * 8, qdim=0),
    T("b", [8], TT.INT32, data=rng.integers(-100, 100, (8,)), scale=[0.005] * 8, zp=[0] * 8, qdim=0),
    T("h", [], TT.RESOURCE),
    T("c", [1, 4, 8, 8], TT.INT8, **q(0.25, 1)),
    T("r", [1, 4, 8, 8], TT.INT8, **q(0.25, 1)),
    T("out", [1, 4, 8, 8], TT.INT8, **q(0.25, 1)),
]
ops = [
    O(BO.VAR_HANDLE, [], ["h"], "VarHandleOptions", dict(Container="cc", SharedName="vv")),
    O(BO.CONV_2D, ["in", "w", "b"], ["c"], "Conv2DOptions", dict(Padding=0, StrideW=1, StrideH=1, DilationWFactor=1, DilationHFactor=1)),
    O(BO.ASSIGN_VARIABLE, ["h", "c"], [], "AssignVariableOptions", {}),
    O(BO.READ_VARIABLE, ["h"], ["r"], "ReadVariableOptions", {}),
    O(BO.CUSTOM, ["r"], ["out"], custom_code="foo", custom_options=[1]),
]
src, out, errs = run_obs(tens, ops, ["in"], ["out"])
D = parse_model(out)["subgraphs"][0]
names = [BO_NAME[o["code"][0]] for o in D["ops"]]
if names.index("READ_VARIABLE") < names.index("ASSIGN_VARIABLE"):
    errs.append(f"READ_VARIABLE is executed before ASSIGN_VARIABLE (source order: assign, then read): {names}")
finish(errs)



# OBSERVATION 2 (unmodified tree): convert_mul_max_to_abs_or_lrelu renames the result tensor of the MAXIMUM it
# rewrites (str.replace("Maximum", "LeakyRelu") on the tensor name). When that tensor is a subgraph output (or is read
# by a CPU operator) the interface name changes.
tens = [
    T("in", [1, 4, 4, 8], TT.INT8, **q(0.5, 0)),
    T("alpha", [], TT.INT8, data=[64], **q(0.005, 0)),
    T("m", [1, 4, 4, 8], TT.INT8, **q(0.5, 0)),
    T("net/Maximum", [1, 4, 4, 8], TT.INT8, **q(0.5, 0)),
]
ops = [
    O(BO.MUL, ["in", "alpha"], ["m"], "MulOptions", dict(FusedActivationFunction=0)),
    O(BO.MAXIMUM, ["in", "m"], ["net/Maximum"], "MaximumMinimumOptions", {}),
]
src, out, errs = run_obs(tens, ops, ["in"], ["net/Maximum"])
finish(errs)

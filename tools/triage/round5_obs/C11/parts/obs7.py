

# OBSERVATION 7 (unmodified tree): valid networks that are rejected or crash the compiler (no output is produced)
#  a) BUCKETIZE / CONCAT_EMBEDDINGS: "Invalid tflite file. Got BucketizeOptions.Boundaries() missing 1 required
#     positional argument: 'j'" - the option table rows list indexed vector accessors as scalar members
#  b) a third-party custom operator whose custom_options happen to be the bytes 01 04 01 is taken for an existing
#     Ethos-U operator: "Invalid Custom operator in the input network. Scratch tensor not found."
#  c) DEQUANTIZE -> EXP -> QUANTIZE where the float EXP result is also a subgraph output: merge_dequant_lut_quant rewires
#     the EXP without looking at other consumers -> AssertionError in verify_subgraph_health
def attempt(label, tens, ops, ins, outs):
    src = build_model(tens, ops, ins, outs)
    try:
        compile_model(src)
        return []
    except BaseException as e:  # noqa: B902
        return [f"{label}: compilation failed: {type(e).__name__}: {e}"]


errs = []
fl = [T("in", [1, 4, 4, 4], TT.FLOAT32), T("out", [1, 4, 4, 4], TT.FLOAT32)]
errs += attempt("a) BUCKETIZE", fl, [O(BO.BUCKETIZE, ["in"], ["out"], "BucketizeOptions", {})], ["in"], ["out"])
errs += attempt(
    "b) custom op with options 01 04 01",
    [T("in", [1, 4], TT.FLOAT32), T("out", [1, 4], TT.FLOAT32)],
    [O(BO.CUSTOM, ["in"], ["out"], custom_code="foo", custom_options=[1, 4, 1])],
    ["in"],
    ["out"],
)
errs += attempt(
    "c) dequantize-exp-quantize with extra output",
    [
        T("in", [1, 4, 4, 8], TT.INT8, **q(0.05, 0)),
        T("f1", [1, 4, 4, 8], TT.FLOAT32),
        T("f2", [1, 4, 4, 8], TT.FLOAT32),
        T("out", [1, 4, 4, 8], TT.INT8, **q(0.05, -128)),
    ],
    [
        O(BO.DEQUANTIZE, ["in"], ["f1"], "DequantizeOptions", {}),
        O(BO.EXP, ["f1"], ["f2"], "ExpOptions", {}),
        O(BO.QUANTIZE, ["f2"], ["out"], "QuantizeOptions", {}),
    ],
    ["in"],
    ["out", "f2"],
)
finish(errs)

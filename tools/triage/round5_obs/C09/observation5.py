"""Observation 5 (UNMODIFIED tree): int16 pooling with fused TANH / SIGMOID, input scale close to (but not exactly)
2^-11 or 2^-12.

generate_ofm_scaling_for_pooling treats the input scale as a power of two when |log2(scale) - round(log2(scale))|
< 0.001 and then emits the exact pair for the power of two (multiplier 3 << k, shift 0).  A scale up to 0.07% away
from 2^-11 therefore gets a pair whose relative error is up to 2^-10.5, far above the 2^-14 / 2^-15 that the generic
int16 path (15-bit multiplier) delivers for the neighbouring scales.
"""
import math
import sys
from fractions import Fraction

from _model_util import np
from ethosu.vela.api import npu_find_block_configs
from ethosu.vela.api import npu_generate_register_command_stream
from ethosu.vela.api import NpuAccelerator
from ethosu.vela.api import NpuActivation
from ethosu.vela.api import NpuActivationOp
from ethosu.vela.api import NpuDataType
from ethosu.vela.api import NpuFeatureMap
from ethosu.vela.api import NpuKernel
from ethosu.vela.api import NpuLayout
from ethosu.vela.api import NpuPadding
from ethosu.vela.api import NpuPoolingOp
from ethosu.vela.api import NpuPoolingOperation
from ethosu.vela.api import NpuQuantization
from ethosu.vela.api import NpuShape3D
from ethosu.vela.api import NpuTileBox


def fm(addr, scale):
    f = NpuFeatureMap()
    f.data_type = NpuDataType.INT16
    f.shape = NpuShape3D(height=8, width=8, depth=16)
    f.tiles = NpuTileBox(width_0=8, height_0=8, height_1=8, addresses=[addr, 0, 0, 0])
    f.region = 1
    f.layout = NpuLayout.NHWC
    f.quantization = NpuQuantization(scale_f32=scale, zero_point=0)
    return f


def ofm_scale(ifm_scale):
    op = NpuPoolingOperation(NpuPoolingOp.AVERAGE)
    op.ifm = fm(0, ifm_scale)
    op.ofm = fm(0x4000, np.float32(2.0**-15))
    op.kernel = NpuKernel(1, 1)
    op.padding = NpuPadding(0, 0, 0, 0)
    op.activation = NpuActivation(NpuActivationOp.TANH)
    acc = NpuAccelerator.Ethos_U55_128
    op.block_config = npu_find_block_configs(op, acc)[0]
    words = npu_generate_register_command_stream([op], acc)
    for i, w in enumerate(words):
        if (w & 0xFFFF) == 0x4024:
            return int(words[i + 1]), int(w >> 16)


def main():
    violations = 0
    for factor in (1.0, 1.0006, 1.0008, 0.9994):
        s = np.float32(2.0**-11 * factor)
        m, sh = ofm_scale(s)
        real = 0x3000 * Fraction(float(s))
        rel = abs(Fraction(m, 1 << sh) - real) / real
        bad = rel > Fraction(1, 1 << 14)
        violations += bad
        print(
            f"ifm scale 2^-11 * {factor}: OFM_SCALE ({m}, {sh}) for 0x3000 * scale = {float(real):.6f}, relative error "
            f"{'0' if not rel else '2^%.1f' % math.log2(float(rel))}  {'VIOLATION (> 2^-14)' if bad else 'ok'}"
        )
    return 1 if violations else 0


if __name__ == "__main__":
    sys.exit(main())

"""Observation 4 (UNMODIFIED tree): scaling.quantise_pooling_scale() is not exact for large int16 windows.

The divisor pair (scale, shift) over-estimates 1/n by up to 2^-31/n relative; that is harmless while the
accumulator stays below 2^30, but an int16 window of n >= ~33000 elements (the hardware allows kernels up to
256x256 = 65536) can produce accumulators above 2^30 and then the scaled, rounded result is one too high for
accumulators just below an exact half (it is neither round-half-up nor round-half-away division).
"""
import sys

sys.path.insert(0, ".")

from ethosu.vela import scaling  # noqa: E402


def apply(acc, scale, shift):
    return (acc * scale + (1 << (shift - 1))) >> shift


def half_up(acc, n):
    return (2 * acc + n) // (2 * n)


def main():
    failing = {}
    for h in range(129, 257):
        for w in range(h, 257):
            n = h * w
            if n in failing:
                continue
            scale, shift = scaling.quantise_pooling_scale(n)
            for q in range(32767, 32700, -1):
                acc = (2 * q * n - n - 1) // 2  # largest accumulator whose exact quotient rounds to q - 1
                if acc <= 32767 * n and apply(acc, scale, shift) != half_up(acc, n):
                    failing[n] = (h, w, acc, apply(acc, scale, shift), half_up(acc, n))
                    break
    print(f"{len(failing)} window sizes h*w (129 <= h <= w <= 256) have a reachable int16 accumulator that is mis-divided")
    for n in sorted(failing)[:5]:
        h, w, acc, got, want = failing[n]
        print(f"  window {h}x{w} = {n}: accumulator {acc} (<= 32767*n) -> {got}, exact rounded division gives {want}")
    return 1 if failing else 0


if __name__ == "__main__":
    sys.exit(main())

"""Helpers shared by the observation scripts: build a one-operator TFLite model in memory with Vela's own
classes, compile it end to end and decode the register command stream."""
import contextlib
import io
import os
import sys
import types

sys.path.insert(0, os.getcwd())

import numpy as np  # noqa: E402

from ethosu.vela import compiler_driver  # noqa: E402
from ethosu.vela import model_reader  # noqa: E402
from ethosu.vela import scheduler  # noqa: E402
from ethosu.vela import tflite_writer  # noqa: E402
from ethosu.vela.architecture_features import ArchitectureFeatures  # noqa: E402
from ethosu.vela.debug_database import DebugDatabase  # noqa: E402
from ethosu.vela.ethos_u55_regs.ethos_u55_regs import cmd1  # noqa: E402
from ethosu.vela.nn_graph import Graph  # noqa: E402
from ethosu.vela.nn_graph import PassPlacement  # noqa: E402
from ethosu.vela.nn_graph import Subgraph  # noqa: E402
from ethosu.vela.operation import Op  # noqa: E402
from ethosu.vela.operation import Operation  # noqa: E402
from ethosu.vela.tensor import QuantizationParameters  # noqa: E402
from ethosu.vela.tensor import TensorAddressMap  # noqa: E402
from ethosu.vela.tensor_allocation import TensorAllocator  # noqa: E402
from ethosu.vela.weight_compressor import CompressedWeightCache  # noqa: E402


def qp(scale, zp=0):
    q = QuantizationParameters()
    q.scale_f32 = np.float32(scale)
    q.zero_point = zp
    return q


def model_bytes(op, inputs, outputs):
    for t in inputs:
        Operation(Op.Placeholder, t.name + "_placeholder").set_output_tensor(t)
    sg = Subgraph("main", PassPlacement.Cpu)
    sg.input_tensors = list(inputs)
    sg.original_inputs = list(inputs)
    sg.output_tensors = list(outputs)
    sg.passes = [types.SimpleNamespace(ops=[op])]
    nng = Graph("model")
    nng.subgraphs.append(sg)
    with contextlib.redirect_stdout(io.StringIO()):
        return bytearray(tflite_writer.write_tflite_buffer(nng))


def compile_model(data, accelerator="ethos-u55-128"):
    DebugDatabase.clean_db()
    TensorAddressMap.clear_address_map()
    CompressedWeightCache.clear()
    arch = ArchitectureFeatures(
        vela_config_files=None,
        system_config=ArchitectureFeatures.DEFAULT_CONFIG,
        memory_mode=ArchitectureFeatures.DEFAULT_CONFIG,
        accelerator_config=accelerator,
        max_blockdep=ArchitectureFeatures.MAX_BLOCKDEP,
        verbose_config=False,
        arena_cache_size=None,
    )
    compiler_options = compiler_driver.CompilerOptions(tensor_allocator=TensorAllocator.HillClimb, output_dir="output")
    scheduler_options = scheduler.SchedulerOptions(
        optimization_strategy=scheduler.OptimizationStrategy.Performance,
        sram_target=arch.arena_cache_size,
        verbose_schedule=False,
    )
    with contextlib.redirect_stdout(io.StringIO()):
        nng, network_type = model_reader.read_tflite_model(data, model_reader.ModelReaderOptions())
        compiler_driver.compiler_driver(nng, arch, compiler_options, scheduler_options, network_type, "model")
    return nng


def scale_registers(nng):
    """[(register name, multiplier/payload, shift/param)] for OFM/OPA/OPB_SCALE in emission order"""
    names = {
        cmd1.NPU_SET_OFM_SCALE.value: "OFM_SCALE",
        cmd1.NPU_SET_OPA_SCALE.value: "OPA_SCALE",
        cmd1.NPU_SET_OPB_SCALE.value: "OPB_SCALE",
    }
    regs = []
    for sg in nng.subgraphs:
        words = list(getattr(sg, "register_command_stream", None) or [])
        i = 0
        while i < len(words):
            w = int(words[i])
            if w & 0x4000:
                code = w & 0x3FF
                if code in names:
                    regs.append((names[code], int(words[i + 1]), w >> 16))
                i += 2
            else:
                i += 1
    return regs



# =============================================================================================
# observation 4 (UNMODIFIED tree): an operator that is re-lowered late in the graph optimiser (int8 SIGMOID / TANH ->
# lookup table, MEAN -> depthwise convolution, RESIZE_NEAREST_NEIGHBOR) and whose output goes into a RESHAPE.
# The RESHAPE is bypassed first (its output tensor becomes the output of the producer); the later rewrite calls
# op.set_ifm_ofm_shapes() again, which now takes the OFM shape from the RESHAPED tensor.  An elementwise operation
# then runs over the reshaped OFM volume while addressing its IFM with the strides of the original shape: it reads
# beyond the input tensor - arena bytes that were never defined or that belong to other tensors.
# =============================================================================================
def net_sigmoid_reshape():
    n = Net(seed=11)
    x = n.input([1, 8, 24, 8])
    y = n.unary(x, Op.Sigmoid, scale=1.0 / 256, zp=-128)
    y = n.reshape(y, [1, 32, 2, 24])
    return n.build([y])


def net_tanh_reshape_conv():
    n = Net(seed=12)
    x = n.input([1, 8, 24, 8])
    c = n.conv(x, 8, 3)
    y = n.unary(c, Op.Tanh, scale=1.0 / 128, zp=0)
    y = n.reshape(y, [1, 32, 2, 24])
    y = n.conv(y, 8, 3)
    return n.build([y])


def net_control():
    n = Net(seed=13)
    x = n.input([1, 8, 24, 8])
    y = n.unary(x, Op.Sigmoid, scale=1.0 / 256, zp=-128)
    return n.build([y])


def main():
    seen = 0
    for title, model in (
        ("SIGMOID -> RESHAPE", net_sigmoid_reshape()),
        ("control: CONV -> TANH (fused into the convolution) -> RESHAPE -> CONV", net_tanh_reshape_conv()),
        ("control: SIGMOID alone", net_control()),
    ):
        nng, arch = compile_model(model)
        violations, ex = check_compiled(nng, arch)
        print(f"{title}: {len(violations)} violation(s)")
        for sg in nng.subgraphs:
            if sg.placement == PassPlacement.Npu:
                for so in sg.sched_ops:
                    if "lut" in so.name:
                        print("      ", so.name, "IFM shape", so.parent_ps.ifm_shapes[0], "OFM shape", so.parent_ps.ofm_shapes[0])
        for v in violations[:3]:
            print("    ", v)
        seen += bool(violations)
    if seen:
        print("OBSERVED: a LUT activation in front of a RESHAPE reads bytes outside its input tensor")
        return 1
    print("not observed")
    return 0


if __name__ == "__main__":
    sys.exit(main())

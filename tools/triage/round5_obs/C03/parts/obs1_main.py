

# =============================================================================================
# observation 1 (UNMODIFIED tree): an input model that already carries an "OfflineMemoryAllocation" metadata entry
# (every file written by Vela's own tflite_writer has one - e.g. the output of an earlier Vela run) keeps that stale
# entry: tflite_reader preserves all metadata and tflite_writer.serialise_model() only generates the entry
# "if not any(name == b'OfflineMemoryAllocation' ...)".  The output file then tells the runtime to place the arena
# tensors according to the OLD table (wrong number of tensors, here all "-1" = let the runtime decide), while the
# command stream reads the network input / writes the output at the arena offsets Vela has just allocated.
# The NPU therefore consumes arena bytes that nobody defined.
# =============================================================================================
def main():
    n = Net(seed=5)
    x = n.input([1, 16, 16, 8])
    y = n.conv(x, 16, 3)
    y = n.conv(y, 16, 3)
    model = n.build([y], keep_offline_allocation=True)  # as written by Vela's tflite_writer
    nng, arch = compile_model(model)
    alloc = read_offline_allocation(nng.c03_output_file)
    declared, present = alloc["__count__"]
    print(f"output file: OfflineMemoryAllocation declares {declared} tensors, the subgraph has {present}")
    root = nng.get_root_subgraph()
    for tens in root.input_tensors + root.output_tensors:
        print(f"  tensor '{tens.name}': Vela allocated arena offset {tens.address}, the file says {alloc.get(tens.name)}")
    violations, ex = check_compiled(nng, arch)
    for v in violations[:6]:
        print("    ", v)
    if violations:
        print("OBSERVED: the compiled network reads arena memory that was never defined (stale OfflineMemoryAllocation)")
        return 1
    print("not observed")
    return 0


if __name__ == "__main__":
    sys.exit(main())

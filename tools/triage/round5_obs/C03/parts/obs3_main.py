

# =============================================================================================
# observation 3 (UNMODIFIED tree): a STRIDED_SLICE / SPLIT output with a non-zero offset in H or W consumed by an
# operator with stride 2.  The slice is folded into the consumer as a read offset;
# high_level_command_stream.Box.transform_with_strides_and_skirt() first adds the read offset to the OFM
# coordinates and THEN multiplies by the stride, so the IFM box starts at offset * stride instead of offset.
# The IFM box is clamped at the tensor end, hence it is also too short: the operation reads rows below the box,
# which the tile registers map to base address 0 of the arena, i.e. bytes of unrelated tensors.
# (With larger offsets the box start falls outside the tensor and the compiler stops with an assertion instead.)
# =============================================================================================
def net_conv(offset_h, offset_w, stride):
    n = Net(seed=10)
    x = n.input([1, 24, 16, 8])
    z = n.input([1, 24, 16, 8])
    u = n.unary(z, Op.Tanh, scale=1.0 / 128, zp=0)  # an unrelated tensor that lives at the start of the arena
    c = n.conv(x, 8, 3)
    a = n.strided_slice(c, [0, offset_h, offset_w, 0], [1, 24, 16, 8])
    y = n.conv(a, 16, 3, stride=stride, padding="VALID")
    return n.build([y, u])


def net_dw_right_half():
    n = Net(seed=16)
    x = n.input([1, 32, 12, 16])
    c = n.conv(x, 16, 3)
    a, b = n.split(c, 2, 2)
    y = n.dwconv(b, 3, 2)
    return n.build([y, a])


def main():
    seen = 0
    for title, model in (
        ("stride-2 depthwise convolution of the right half (columns 6..11) of a feature map", net_dw_right_half()),
        ("stride-2 convolution of rows 2.. of a feature map", net_conv(2, 0, 2)),
        ("stride-2 convolution of columns 1.. of a feature map", net_conv(0, 1, 2)),
        ("control: stride-1 convolution of rows 2..", net_conv(2, 0, 1)),
        ("control: stride-2 convolution of the whole feature map", net_conv(0, 0, 2)),
    ):
        try:
            nng, arch = compile_model(model)
        except AssertionError as e:
            print(f"{title}: compiler assertion {e!r}")
            continue
        violations, ex = check_compiled(nng, arch)
        print(f"{title}: {len(violations)} violation(s)")
        for sg in nng.subgraphs:
            if sg.placement == PassPlacement.Npu:
                for cmd in sg.high_level_command_stream:
                    if getattr(cmd, "ifm_box", None) is not None and cmd.ps.primary_op.read_offsets[0] is not None:
                        print("      read offset", cmd.ps.primary_op.read_offsets[0], "-> IFM box", cmd.ifm_box)
        for v in violations[:3]:
            print("    ", v)
        seen += bool(violations)
    if seen:
        print("OBSERVED: a strided operator that consumes a slice reads rows / columns that are not its input")
        return 1
    print("not observed")
    return 0


if __name__ == "__main__":
    sys.exit(main())

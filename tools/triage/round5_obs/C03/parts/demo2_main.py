

# =============================================================================================
# demo 2: cascades of convolutions over narrow feature maps (1-D style networks: tall, one or two columns wide).
# Inside a cascade the intermediate feature maps only exist as rolling buffers; every row an operation reads from
# such a buffer must still be the row that the producer wrote for it (not yet overwritten by a later row).
# The emitted command streams are executed on tagged memory to check exactly that.
# =============================================================================================
def demo_net(h, w, c, cmid, k):
    n = Net(seed=3)
    x = n.input([1, h, w, c])
    y = n.conv(x, cmid, k)
    y = n.conv(y, cmid, k)
    y = n.conv(y, c, k)
    return n.build([y])


def main():
    failures = []
    cases = [
        ("256x1x16 -> 128 -> 128 -> 16, 5x1 kernels", demo_net(256, 1, 16, 128, (5, 1)), dict(optimise="Size")),
        ("256x1x16 -> 128 -> 128 -> 16, 3x1 kernels", demo_net(256, 1, 16, 128, (3, 1)), dict(optimise="Size")),
        ("256x2x16 -> 128 -> 128 -> 16, 5x1 kernels", demo_net(256, 2, 16, 128, (5, 1)), dict(optimise="Size")),
        ("256x16x16 -> 128 -> 128 -> 16, 5x3 kernels (wide control)", demo_net(256, 16, 16, 128, (5, 3)), dict(optimise="Size")),
    ]
    for title, model, kw in cases:
        nng, arch = compile_model(model, **kw)
        ncasc = sum(len(sg.schedule.cascades) for sg in nng.subgraphs if sg.placement == PassPlacement.Npu)
        violations, ex = check_compiled(nng, arch)
        print(f"{title}: {ncasc} cascade(s), {len(ex.log)} NPU operations executed, {len(violations)} violation(s)")
        for v in violations[:6]:
            print("    ", v)
        if violations:
            failures.append(title)
    if failures:
        print("FAIL: NPU operations consumed rolling-buffer bytes that were overwritten / never defined in:", "; ".join(failures))
        return 1
    print("PASS")
    return 0


if __name__ == "__main__":
    sys.exit(main())



# =============================================================================================
# observation 6 (UNMODIFIED tree): SPLIT -> RESHAPE where the RESHAPE cannot be bypassed (the split output has a second
# consumer) so that it becomes a Memcpy.  remove_SplitSliceRead() folds the split into the Memcpy as a read offset /
# read shape, but high_level_command_stream_generator.dma_feature_map_if_necessary() builds the DMA from the box of
# the whole un-sliced source tensor: the DMA copies the FIRST bytes of the source (not the slice) and copies the size
# of the whole source, i.e. it writes past the end of the destination tensor into whatever is allocated behind it.
# The consumer of the reshaped tensor reads bytes that are not its input; the tensors behind the destination are
# overwritten while they are live.
# =============================================================================================
def net():
    n = Net(seed=15)
    x = n.input([1, 64, 1, 32])
    a, b = n.split(x, 2, 1)
    r = n.reshape(b, [1, 4, 4, 64])
    c = n.conv(r, 16, 3)
    d = n.conv(b, 16, (3, 1))  # second consumer of the split output
    return n.build([c, d, a])


def main():
    nng, arch = compile_model(net())
    violations, ex = check_compiled(nng, arch)
    for sg in nng.subgraphs:
        if sg.placement == PassPlacement.Npu:
            for cmd in sg.high_level_command_stream:
                if isinstance(cmd, HL_DMA) and cmd.in_tensor.purpose == TensorPurpose.FeatureMap:
                    op = cmd.ps.primary_op
                    print(
                        f"  Memcpy '{op.name}': read offset {op.read_offsets[0]}, read shape {op.read_shapes[0]};"
                        f" DMA box {cmd.box}; destination tensor has {cmd.out_tensor.elements()} bytes"
                    )
    print(f"{len(violations)} violation(s)")
    for v in violations[:4]:
        print("    ", v)
    if violations:
        print("OBSERVED: the copy of a slice copies the wrong bytes (and too many of them)")
        return 1
    print("not observed")
    return 0


if __name__ == "__main__":
    sys.exit(main())

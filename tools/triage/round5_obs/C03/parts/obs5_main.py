

# =============================================================================================
# observation 5 (UNMODIFIED tree): lut.optimize_high_level_cmd_stream() computes the LUT index of an operation in two
# different units.  When the table is DMA-ed:   lut_index = (address - lut_start) // 256            (slot_size)
# when an equal table is already in SHRAM:      lut_index = get_lut_index() = (address - lut_start) // storage_size
# The two agree for 256-byte tables, and for bigger tables only at offset 0.  The exp() table of an int8 SOFTMAX is
# 1 KiB; if another table occupies the first KiB of the LUT area it is placed at offset 1024 (index 4).  A second
# SOFTMAX with the same input quantisation finds the table "already present", skips its DMA and gets index
# 1024 // 1024 = 1: it looks the values up at offset 256..1279, i.e. SHRAM bytes that were never loaded plus the
# first quarter of the real table.  Needs an accelerator whose LUT area is not wiped by ordinary operations
# (24 SHRAM banks or more: Ethos-U55-128/256, Ethos-U65).
# =============================================================================================
def net():
    n = Net(seed=14)
    x = n.input([1, 4, 4, 8])
    a = n.unary(x, Op.LeakyRelu, attrs={"alpha": 0.1})  # 256-byte table, goes to offset 0
    s1 = n.softmax(a)  # 1 KiB exp table, goes to offset 1024
    s2 = n.softmax(a)  # equal table: reused
    return n.build([s1, s2])


def main():
    seen = 0
    for accel in ("ethos-u55-128", "ethos-u65-256", "ethos-u55-64"):
        nng, arch = compile_model(net(), accel=accel)
        violations, ex = check_compiled(nng, arch)
        print(f"{accel}: {len(violations)} violation(s)")
        for sg in nng.subgraphs:
            if sg.placement == PassPlacement.Npu:
                for so in sg.sched_ops:
                    op = so.parent_op
                    if op.activation_lut is not None and "sub1" in so.name:
                        lut = [t for t in op.inputs if t.purpose == TensorPurpose.LUT][0]
                        print(f"      {so.name}: table at SHRAM offset {lut.address - arch.shram_lut_address}, lut_index {op.activation.lut_index}")
        for v in violations[:4]:
            print("    ", v)
        seen += bool(violations)
    if seen:
        print("OBSERVED: an operation reads its lookup table from SHRAM bytes that were never loaded")
        return 1
    print("not observed")
    return 0


if __name__ == "__main__":
    sys.exit(main())

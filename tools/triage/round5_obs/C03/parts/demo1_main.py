

# =============================================================================================
# demo 1: a RESHAPE that cannot be removed (its input is also read by another operator, or comes from the CPU) is
# executed as a plain byte copy; whoever reads the copy must read it in the linear layout in which it was written.
# The emitted command streams are executed on tagged memory; every byte an NPU operation reads must have been
# defined, and must be the datum of the tensor the operation consumes.
# =============================================================================================
def demo_net_two_consumers(channels):
    n = Net(seed=1)
    x = n.input([1, 16, 16, 8])
    a = n.conv(x, channels, 3)
    p = n.pool(a, "max", 2, 2)  # second consumer of 'a': the reshape below has to become a copy
    y = n.reshape(a, [1, 8, 32, channels])
    y = n.conv(y, 16, 3)
    y = n.conv(y, 16, 3)
    return n.build([y, p])


def demo_net_reshaped_input(channels):
    n = Net(seed=2)
    x = n.input([1, 16, 16, channels])
    y = n.reshape(x, [1, 8, 32, channels])  # reshape of a network input (produced outside the NPU)
    y = n.conv(y, 16, 3)
    y = n.conv(y, 16, 3)
    return n.build([y])


def main():
    failures = []
    cases = [
        ("reshape of a tensor with two consumers, 24 channels", demo_net_two_consumers(24), {}),
        ("reshape of a tensor with two consumers, 32 channels", demo_net_two_consumers(32), {}),
        ("reshape of a network input, 32 channels", demo_net_reshaped_input(32), {}),
        ("reshape of a tensor with two consumers, 24 channels, U65", demo_net_two_consumers(24), {"accel": "ethos-u65-256"}),
    ]
    for title, model, kw in cases:
        nng, arch = compile_model(model, **kw)
        violations, ex = check_compiled(nng, arch)
        print(f"{title}: {len(ex.log)} NPU operations executed, {len(violations)} violation(s)")
        for v in violations[:6]:
            print("    ", v)
        if violations:
            failures.append(title)
    if failures:
        print("FAIL: NPU operations consumed bytes that were not defined for them in:", "; ".join(failures))
        return 1
    print("PASS")
    return 0


if __name__ == "__main__":
    sys.exit(main())

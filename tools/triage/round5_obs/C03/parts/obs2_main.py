

# =============================================================================================
# observation 2 (UNMODIFIED tree): SPLIT / STRIDED_SLICE output consumed by SOFTMAX (or MEAN).
# tflite_graph_optimiser.remove_SplitSliceRead() folds the slice into its consumer through
# graph_optimiser_util.move_splitsliceread_to_consumer(), which overwrites cons_op.ifm_shapes[0] with the shape of the
# un-sliced tensor.  The operators that the SOFTMAX / MEAN lowering creates view their input through a reshaped
# IFM shape (e.g. 1 x (H*W) x C x 1); after the overwrite their strides and boxes are computed from the wrong shape
# (and the sliced tensor may even be in NHCWB16 format), so the first operator of the lowered sequence reads far
# outside the tensor: arena bytes that were never defined or that belong to other tensors.
# =============================================================================================
def net_softmax_after_split(axis):
    n = Net(seed=6)
    x = n.input([1, 8, 8, 32 if axis == 3 else 16])
    a, b = n.split(x, 2, axis)
    y = n.softmax(a)
    return n.build([y, b])


def net_softmax_after_slice():
    n = Net(seed=7)
    x = n.input([1, 8, 8, 16])
    c = n.conv(x, 16, 3)
    a = n.strided_slice(c, [0, 2, 0, 0], [1, 8, 8, 16])
    y = n.softmax(a)
    return n.build([y])


def net_mean_after_split():
    n = Net(seed=8)
    x = n.input([1, 256, 8, 8])
    c = n.conv(x, 24, 3)
    a, b = n.split(c, 2, 1)
    y = n.mean(a)
    return n.build([y, b])


def net_softmax_control():
    n = Net(seed=9)
    x = n.input([1, 4, 8, 16])
    y = n.softmax(x)
    return n.build([y])


def main():
    seen = 0
    for title, model in (
        ("softmax of the first half (split along H)", net_softmax_after_split(1)),
        ("softmax of the first half (split along W)", net_softmax_after_split(2)),
        ("softmax of the first half (split along C)", net_softmax_after_split(3)),
        ("softmax of a strided slice of a convolution output", net_softmax_after_slice()),
        ("mean of the first half (split along H) of a convolution output", net_mean_after_split()),
        ("control: softmax of a whole tensor", net_softmax_control()),
    ):
        nng, arch = compile_model(model)
        violations, ex = check_compiled(nng, arch)
        print(f"{title}: {len(violations)} violation(s)")
        for v in violations[:3]:
            print("    ", v)
        seen += bool(violations)
    if seen:
        print("OBSERVED: NPU operations read undefined / foreign bytes when SOFTMAX or MEAN consumes a SPLIT / SLICE output")
        return 1
    print("not observed")
    return 0


if __name__ == "__main__":
    sys.exit(main())



# =============================================================================================
# demo 3: two convolutions that share one weight tensor but have their own bias / output scale.  The second one reuses
# the encoded weights of the first and only gets its own bias-and-scale stream, which stays in permanent storage while
# the weights are streamed through an SRAM buffer.  Every scale/weight byte a convolution reads must come from the
# stream that was encoded for it.
# =============================================================================================
def demo_net(c):
    n = Net(seed=4)
    x = n.input([1, 16, 16, c])
    a = n.conv(x, c, 3)
    shared = n.last_weights
    b = n.conv(a, c, 3, weights=shared, scale=0.07)
    return n.build([b])


def main():
    failures = []
    cases = [
        ("shared 3x3x32 weights, Ethos-U55-128", demo_net(32), {}),
        ("shared 3x3x32 weights, Ethos-U65-512 (two cores)", demo_net(32), {"accel": "ethos-u65-512"}),
        ("shared 3x3x64 weights, Ethos-U55-256", demo_net(64), {"accel": "ethos-u55-256"}),
    ]
    for title, model, kw in cases:
        nng, arch = compile_model(model, **kw)
        standalone = 0
        for sg in nng.subgraphs:
            if sg.placement == PassPlacement.Npu:
                standalone += sum(1 for c in sg.high_level_command_stream if getattr(c, "scale_tensor", None) is not None)
        violations, ex = check_compiled(nng, arch)
        print(
            f"{title}: {standalone} stripe(s) with a separate scale stream, {len(ex.log)} NPU operations executed,"
            f" {len(violations)} violation(s)"
        )
        for v in violations[:6]:
            print("    ", v)
        if violations:
            failures.append(title)
    if failures:
        print("FAIL: convolutions read bias/scale bytes that are not their own stream in:", "; ".join(failures))
        return 1
    print("PASS")
    return 0


if __name__ == "__main__":
    sys.exit(main())

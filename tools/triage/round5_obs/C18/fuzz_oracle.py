import os, sys, tempfile, itertools, random, configparser, traceback, io, contextlib
sys.path.insert(0, os.getcwd())
from ethosu.vela.architecture_features import ArchitectureFeatures, MemPort
from ethosu.vela.tensor import MemArea, BandwidthDirection
from ethosu.vela.errors import VelaError

def build(ini, sc, mm, accel="ethos-u55-128", cli=None):
    with tempfile.NamedTemporaryFile("w", suffix=".ini", delete=False) as f:
        f.write(ini); p = f.name
    try:
        with contextlib.redirect_stdout(io.StringIO()):
            return ArchitectureFeatures([p], accel, sc, mm, 3, False, cli)
    finally:
        os.unlink(p)

AREAS = ["Sram", "Dram", "OnChipFlash", "OffChipFlash"]

class Reject(Exception): pass

def resolve(cp, section, key, seen=()):
    if not cp.has_section(section): raise Reject("nosection "+section)
    if section in seen: raise Reject("cycle")
    raw = dict(cp.items(section, raw=True)) if False else None
    if cp.has_option(section, key): 
        # still must validate the chain
        if cp.has_option(section, "inherit"):
            resolve(cp, cp.get(section, "inherit"), key, seen+(section,))
        return cp.get(section, key)
    if cp.has_option(section, "inherit"):
        return resolve(cp, cp.get(section, "inherit"), key, seen+(section,))
    return None

def expected(ini, sc, mm, accel, cli):
    cp = configparser.ConfigParser(); cp.read_string(ini)
    u65 = "u65" in accel
    maxaddr = 1 << (40 if u65 else 32)
    e = {}
    s = "System_Config."+sc
    if not cp.has_section(s):
        raise Reject("unknown sys")
    def g(k, d, conv):
        v = resolve(cp, s, k)
        return conv(v) if v is not None else d
    e["core_clock"] = g("core_clock", 1.0, float)
    ports = []
    for k in ("axi0_port", "axi1_port"):
        v = resolve(cp, s, k)
        if v is None: v = "Sram"
        if v not in AREAS: raise Reject("bad port "+v)
        ports.append(v)
    e["axi0"], e["axi1"] = ports
    mem = {}
    for a in set(ports):
        mem[a] = (g(a+"_clock_scale", 1.0, float), g(a+"_burst_length", 1, int), g(a+"_read_latency", 0, int), g(a+"_write_latency", 0, int))
    m = "Memory_Mode."+mm
    if not cp.has_section(m): raise Reject("unknown mm")
    def h(k, d):
        v = resolve(cp, m, k)
        return v if v is not None else d
    areas = {}
    for k in ("const_mem_area", "arena_mem_area", "cache_mem_area"):
        v = h(k, "Axi0")
        if v not in ("Axi0", "Axi1"): raise Reject("bad memport")
        areas[k] = v
    size = int(h("arena_cache_size", maxaddr))
    if cli is not None: size = cli
    pm = {"Axi0": ports[0], "Axi1": ports[1]}
    if pm[areas["const_mem_area"]] == "Sram" and len(set(areas.values())) == 1:
        other = "Axi1" if areas["const_mem_area"] == "Axi0" else "Axi0"
        areas["const_mem_area"] = other
        pm[other] = "OnChipFlash"
        mem["OnChipFlash"] = mem["Sram"]
    if pm[areas["const_mem_area"]] not in ("Dram", "OnChipFlash", "OffChipFlash"): raise Reject("const")
    if pm[areas["arena_mem_area"]] not in ("Sram", "Dram"): raise Reject("arena")
    if pm[areas["cache_mem_area"]] != "Sram": raise Reject("cache")
    if size < 0 or size > maxaddr: raise Reject("size")
    e["axi0"], e["axi1"] = pm["Axi0"], pm["Axi1"]
    e["areas"] = areas; e["size"] = size; e["mem"] = mem
    e["perm"] = pm[areas["const_mem_area"]]; e["fm"] = pm[areas["arena_mem_area"]]; e["fast"] = pm[areas["cache_mem_area"]]
    return e

def actual(arch):
    e = {"core_clock": arch.core_clock, "axi0": arch.axi0_port.name, "axi1": arch.axi1_port.name}
    e["areas"] = {"const_mem_area": arch.const_mem_area.name, "arena_mem_area": arch.arena_mem_area.name, "cache_mem_area": arch.cache_mem_area.name}
    e["size"] = arch.arena_cache_size
    e["perm"] = arch.permanent_storage_mem_area.name; e["fm"] = arch.feature_map_storage_mem_area.name; e["fast"] = arch.fast_storage_mem_area.name
    mem = {}
    for a in AREAS:
        A = MemArea[a]
        mem[a] = (float(arch.memory_clock_scales[A]), int(arch.memory_burst_length[A]), int(arch.memory_latency[A][0]), int(arch.memory_latency[A][1]))
    e["mem"] = mem
    return e

def compare(ini, sc, mm, accel, cli):
    try:
        exp = expected(ini, sc, mm, accel, cli)
    except Reject as r:
        exp = r
    except Exception as ex:
        exp = Reject("oracle-exc %r" % ex)
    try:
        act = actual(build(ini, sc, mm, accel, cli))
    except VelaError as v:
        act = v
    except Exception as ex:
        return "CRASH %s: %r (expected %r)" % (type(ex).__name__, ex, exp)
    if isinstance(exp, Reject):
        if isinstance(act, VelaError): return None
        return "ACCEPTED but expected reject %r: %r" % (exp, act)
    if isinstance(act, VelaError):
        return "REJECTED %s but expected %r" % (act.data, exp)
    diffs = []
    for k in ("core_clock", "axi0", "axi1", "areas", "size", "perm", "fm", "fast"):
        if exp[k] != act[k]: diffs.append((k, exp[k], act[k]))
    for a, v in exp["mem"].items():
        if act["mem"][a] != v: diffs.append(("mem "+a, v, act["mem"][a]))
    for a in AREAS:
        if a not in exp["mem"] and act["mem"][a] != (1.0, 1, 0, 0): diffs.append(("unset mem "+a, (1.0,1,0,0), act["mem"][a]))
    return diffs or None

def gen(rng):
    nsys = rng.randint(1, 4); nmm = rng.randint(1, 4)
    lines = []
    sysnames = ["S%d" % i for i in range(nsys)]; mmnames = ["M%d" % i for i in range(nmm)]
    for i, n in enumerate(sysnames):
        lines.append("[System_Config.%s]" % n)
        r = rng.random()
        if r < 0.6 and nsys > 1:
            tgt = rng.choice(sysnames + (["Nope"] if rng.random() < 0.1 else []))
            lines.append("inherit=System_Config.%s" % tgt)
        if rng.random() < 0.6: lines.append("core_clock=%s" % rng.choice(["500e6", "1e9", "2.5e8", "123456"]))
        for p in ("axi0_port", "axi1_port"):
            if rng.random() < 0.6: lines.append("%s=%s" % (p, rng.choice(AREAS + (["Shram", "Unknown", "Size", "Bogus"] if rng.random() < 0.15 else []))))
        for a in AREAS:
            for suffix, vals in (("clock_scale", ["0.5", "0.125", "0.75", "0.1"]), ("burst_length", ["32", "128", "64"]), ("read_latency", ["32", "500", "64"]), ("write_latency", ["32", "250", "64"])):
                if rng.random() < 0.3: lines.append("%s_%s=%s" % (a, suffix, rng.choice(vals)))
    for i, n in enumerate(mmnames):
        lines.append("[Memory_Mode.%s]" % n)
        if rng.random() < 0.6 and nmm > 1:
            lines.append("inherit=Memory_Mode.%s" % rng.choice(mmnames))
        for k in ("const_mem_area", "arena_mem_area", "cache_mem_area"):
            if rng.random() < 0.6: lines.append("%s=%s" % (k, rng.choice(["Axi0", "Axi1"])))
        if rng.random() < 0.5: lines.append("arena_cache_size=%s" % rng.choice(["0", "393216", "524288", "4294967296", "4294967297", "1099511627776", "1099511627777", "-1"]))
    return "\n".join(lines) + "\n", rng.choice(sysnames + ["Zed"] * (rng.random() < 0.05)), rng.choice(mmnames + ["Zed"] * (rng.random() < 0.05))

if __name__ == "__main__":
    rng = random.Random(int(sys.argv[1]) if len(sys.argv) > 1 else 0)
    n = int(sys.argv[2]) if len(sys.argv) > 2 else 3000
    seen = {}
    for i in range(n):
        ini, sc, mm = gen(rng)
        accel = rng.choice(["ethos-u55-128", "ethos-u65-256", "ethos-u55-32", "ethos-u65-512"])
        cli = rng.choice([None, None, 0, 1000, 393216, -1, 1 << 32, (1 << 32) + 1, 1 << 40, (1 << 40) + 1])
        r = compare(ini, sc, mm, accel, cli)
        if r:
            key = str(r)[:60]
            if key not in seen:
                seen[key] = (ini, sc, mm, accel, cli, r)
    for k, v in seen.items():
        print("=" * 70); print(v[0]); print(v[1:5]); print(v[5])
    print(len(seen), "distinct discrepancies")

"""Observation 3 (UNMODIFIED tree): the 'internal-default' system configuration is not the documented one and depends
on whether --config is present.

OPTIONS.md (System Config): internal-default = Ethos_U65_Client_Server (Dram_clock_scale 0.75) for Ethos-U65 and
Ethos_U55_High_End_Embedded (500 MHz, axi1 = OffChipFlash, scale 0.125) for Ethos-U55.
  * `vela net.tflite --accelerator-config ethos-u55-128`  -> Imx93ArchitectureFeatures: 1 GHz, axi1_port = Dram,
    Dram_clock_scale 0.234375 (the Ethos-U65 High-End numbers) combined with the U55 Shared_Sram memory mode
  * `vela net.tflite --accelerator-config ethos-u65-256`  -> Dram_clock_scale 0.234375 (High_End), not 0.75
  * adding `--config Arm/vela.ini` (nothing selected from it) switches both to the documented values.
Run: cd /tmp/seed5/C18 && /venv/bin/python out/observation3.py   (exit 1 = reproduced)
"""
import contextlib
import io
import os
import sys

sys.path.insert(0, os.getcwd())
from ethosu.vela import vela  # noqa: E402
from ethosu.vela.tensor import MemArea  # noqa: E402

seen = {}


def fake_process(input_name, enable_debug_db, arch, *a):
    seen["arch"] = arch
    raise vela.VelaError("stop after configuration")


vela.process = fake_process
DOCUMENTED = {
    "ethos-u55-128": (500e6, "OffChipFlash", 0.125),
    "ethos-u65-256": (1e9, "Dram", 0.75),
}
reproduced = False
for accel, doc in DOCUMENTED.items():
    for extra in ([], ["--config", "Arm/vela.ini"]):
        with contextlib.redirect_stdout(io.StringIO()):
            vela.main(["net.tflite", "--accelerator-config", accel] + extra)
        arch = seen["arch"]
        got = (arch.core_clock, arch.axi1_port.name, float(arch.memory_clock_scales[arch.axi1_port]))
        print(f"{accel} {' '.join(extra) or '(no --config)'}: (core_clock, axi1_port, axi1 clock scale) = {got}; documented {doc}")
        reproduced |= got != doc
print("REPRODUCED" if reproduced else "not reproduced")
sys.exit(1 if reproduced else 0)

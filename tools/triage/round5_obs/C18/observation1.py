"""Observation 1 (UNMODIFIED tree): `--config ./Dir/file.ini` silently uses the BUNDLED file.

vela.main()'s _parse_config normalises the name with os.path.normpath() *before* it tests
`not config.startswith(".")`, so the explicit relative path ./Arm/vela.ini becomes Arm/vela.ini and is looked up in
ethosu/config_files even though ./Arm/vela.ini exists in the working directory (the startswith(".") guard only still
works for ../x).  A local ./mine/cfg.ini that does exist is reported as 'File not found' (in config_files/mine/).
Run: cd /tmp/seed5/C18 && /venv/bin/python out/observation1.py   (exit 1 = reproduced)
"""
import os
import subprocess
import sys
import tempfile

root = os.getcwd()
code = f"import sys; sys.path.insert(0, {root!r}); from ethosu.vela import vela; sys.exit(vela.main(sys.argv[1:]))"
LOCAL = (
    "[System_Config.Ethos_U55_High_End_Embedded]\ncore_clock=111e6\naxi0_port=Sram\naxi1_port=OffChipFlash\n"
    "[Memory_Mode.Shared_Sram]\nconst_mem_area=Axi1\narena_mem_area=Axi0\ncache_mem_area=Axi0\n"
)
reproduced = False
with tempfile.TemporaryDirectory() as cwd:
    for d in ("Arm", "mine"):
        os.makedirs(os.path.join(cwd, d))
    with open(os.path.join(cwd, "Arm", "vela.ini"), "w") as f:
        f.write(LOCAL)
    with open(os.path.join(cwd, "mine", "cfg.ini"), "w") as f:
        f.write(LOCAL)
    common = ["nonexistent.tflite", "--accelerator-config", "ethos-u55-128", "--verbose-config"]
    common += ["--system-config", "Ethos_U55_High_End_Embedded", "--memory-mode", "Shared_Sram"]
    for cfg in ("./Arm/vela.ini", "./mine/cfg.ini"):
        r = subprocess.run(
            ["/venv/bin/python", "-c", code] + common + ["--config", cfg], cwd=cwd, capture_output=True, text=True
        )
        lines = [ln.strip() for ln in r.stdout.splitlines() if "core_clock" in ln or "config_files" in ln or "Error" in ln]
        print(f"--config {cfg} (local file has core_clock=111e6):")
        for ln in lines:
            print("    " + ln[:200])
        if "core_clock = 111000000.0" not in r.stdout:
            reproduced = True
print("REPRODUCED: the local ./Dir/file.ini was not the file that was read" if reproduced else "not reproduced")
sys.exit(1 if reproduced else 0)

"""Observation 2 (UNMODIFIED tree): through the command line driver the arena_cache_size of a configuration file can
never take effect, and 'unspecified' never means 'maximum address'.

vela.main() declares --arena-cache-size with default=384*1024 and always forwards it, and
ArchitectureFeatures._get_vela_config overrides the file whenever the value is not None.  OPTIONS.md says the option
overrides the file only "if specified", and that if neither is specified the maximum address is used.
  * --config Arm/vela.ini --memory-mode Dedicated_Sram_512KB (file: arena_cache_size=524288) -> 393216 "from CLI option"
  * U55 + Shared_Sram (no size in the file, none on the command line)                        -> 393216, not 2**32
Run: cd /tmp/seed5/C18 && /venv/bin/python out/observation2.py   (exit 1 = reproduced)
"""
import contextlib
import io
import os
import re
import sys

sys.path.insert(0, os.getcwd())
from ethosu.vela import vela  # noqa: E402

seen = {}


def fake_process(input_name, enable_debug_db, arch, *a):
    seen["size"] = arch.arena_cache_size
    raise vela.VelaError("stop after configuration")


vela.process = fake_process
reproduced = False
for opts, expected, why in (
    (
        ["--accelerator-config", "ethos-u65-256", "--system-config", "Ethos_U65_High_End", "--memory-mode", "Dedicated_Sram_512KB"],
        524288,
        "value of the selected section of Arm/vela.ini",
    ),
    (
        ["--accelerator-config", "ethos-u55-128", "--system-config", "Ethos_U55_High_End_Embedded", "--memory-mode", "Shared_Sram"],
        1 << 32,
        "neither file nor command line specify it: maximum address",
    ),
):
    out = io.StringIO()
    with contextlib.redirect_stdout(out):
        vela.main(["net.tflite", "--config", "Arm/vela.ini", "--verbose-config"] + opts)
    line = re.search(r"arena_cache_size = .*", out.getvalue()).group(0)
    print(" ".join(opts[-2:]), "->", line, f"(documented: {expected}, {why})")
    reproduced |= seen["size"] != expected
print("REPRODUCED" if reproduced else "not reproduced")
sys.exit(1 if reproduced else 0)

"""Observation on the UNMODIFIED tree (C07), same root cause as observation1: the compressed-weight
cache key does not contain the operator type although encode_weight_and_scale_tensor flips the
kernel in H and W for Op.Conv2DBackpropInputSwitchedBias (transpose convolution).  A weight tensor
shared by a Conv2D and a TransposeConv gets ONE stream: whichever operator is encoded second
receives the other operator's (un)flipped weights.
Run: cd /tmp/seed5/C07 && /venv/bin/python out/observation2.py    (exit 1 = violation shown)
"""
import os
import sys

sys.path.insert(0, os.getcwd())
sys.path.insert(0, os.path.join(os.getcwd(), "out"))
import numpy as np
from demo2 import UBLOCKS, hw_order, qp
from ethosu import mlw_codec
from ethosu.vela import architecture_features, weight_compressor
from ethosu.vela.api import NpuBlockTraversal
from ethosu.vela.architecture_allocator import ArchitectureBlockConfig
from ethosu.vela.architecture_features import Accelerator
from ethosu.vela.data_type import DataType
from ethosu.vela.operation import Kernel, Op, Operation
from ethosu.vela.shape4d import Shape4D
from ethosu.vela.tensor import Tensor, TensorFormat, TensorPurpose, create_const_tensor

rng = np.random.default_rng(4)
H, W, I, O = 3, 3, 16, 16
w = rng.integers(-128, 128, (H, W, I, O))
wt = create_const_tensor("w", [H, W, I, O], DataType.int8, w, quantization=qp())
wt.values = w.astype(np.int8)


def make_op(op_type, name):
    ifm = Tensor([1, 8, 8, I], DataType.int8, name + "_ifm")
    ifm.quantization = qp()
    ofm = Tensor([1, 8, 8, O], DataType.int8, name + "_ofm")
    ofm.quantization = qp()
    bt = create_const_tensor(name + "_b", [O], DataType.int32, np.zeros(O, dtype=np.int64), quantization=qp())
    bt.purpose = TensorPurpose.FeatureMap
    bt.format = TensorFormat.NHWC
    op = Operation(op_type, name)
    op.add_input_tensor(ifm)
    op.add_input_tensor(wt)  # the SAME weight tensor
    if op_type == Op.Conv2DBackpropInputSwitchedBias:
        op.add_input_tensor(create_const_tensor(name + "_shape", [4], DataType.int32, [1, 8, 8, O]))
    op.add_input_tensor(bt)
    op.set_output_tensor(ofm)
    return op, bt


acc = Accelerator.Ethos_U55_128
arch = architecture_features.create_default_arch(acc)
bc = ArchitectureBlockConfig()
bc.ofm_block = Shape4D(1, 8, 8, 16)
weight_compressor.CompressedWeightCache.clear()
bad = 0
for op_type, name in ((Op.Conv2DBias, "conv"), (Op.Conv2DBackpropInputSwitchedBias, "transpose_conv")):
    op, bt = make_op(op_type, name)
    wtens, _ = weight_compressor.encode_weight_and_scale_tensor(arch, op, wt, bt, Kernel(W, H), bc, [0, O])
    r = list(wtens.encoded_ranges.values())[0]
    a = r.offset + r.weight_offset
    dec = mlw_codec.decode(bytearray(wtens.buffer[a : a + r.weight_bytes]))
    pk = wtens.hw_traversal == NpuBlockTraversal.PART_KERNEL_FIRST
    src = w[::-1, ::-1] if op_type == Op.Conv2DBackpropInputSwitchedBias else w
    ref = hw_order(np.transpose(src, (3, 0, 1, 2)), *UBLOCKS[acc.name], 16, False, pk, 8, 8, 8)
    ok = dec == ref
    print("%s: %s" % (name, "ok" if ok else "stream holds the un-flipped kernel of the cached Conv2D stream"))
    bad += not ok
sys.exit(1 if bad else 0)

"""Observation on the UNMODIFIED tree (C07): the compressed-weight cache key
(WeightCompressionConfig: block type, block depth, depth offsets, dilation, weight value_id) does not
contain the IFM bit depth (nor the operator type), although both select the hardware layout of the
stream.  When one weight tensor is consumed by an operator with int8 activations and by one with
int16 activations, the second call of encode_weight_and_scale_tensor gets the stream cached for the
first, i.e. a stream in the 8-bit traversal order for a 16-bit operator (and vice versa).
Run: cd /tmp/seed5/C07 && /venv/bin/python out/observation1.py    (exit 1 = violation shown)
"""
import os
import sys

sys.path.insert(0, os.getcwd())
sys.path.insert(0, os.path.join(os.getcwd(), "out"))
import numpy as np
from demo2 import UBLOCKS, hw_order, qp  # independent hardware-order oracle
from ethosu import mlw_codec
from ethosu.vela import architecture_features, weight_compressor
from ethosu.vela.api import NpuBlockTraversal
from ethosu.vela.architecture_allocator import ArchitectureBlockConfig
from ethosu.vela.architecture_features import Accelerator
from ethosu.vela.data_type import DataType
from ethosu.vela.operation import Kernel, Op, Operation
from ethosu.vela.shape4d import Shape4D
from ethosu.vela.tensor import Tensor, TensorFormat, TensorPurpose, create_const_tensor

rng = np.random.default_rng(3)
H, W, I, O = 1, 1, 48, 32
w = rng.integers(-128, 128, (H, W, I, O))
wt = create_const_tensor("w", [H, W, I, O], DataType.int8, w, quantization=qp())
wt.values = w.astype(np.int8)


def make_op(ifm_dtype, name):
    ifm = Tensor([1, 8, 8, I], ifm_dtype, name + "_ifm")
    ifm.quantization = qp()
    ofm = Tensor([1, 8, 8, O], ifm_dtype, name + "_ofm")
    ofm.quantization = qp()
    bias_dt = DataType.int64 if ifm_dtype == DataType.int16 else DataType.int32
    bt = create_const_tensor(name + "_b", [O], bias_dt, np.zeros(O, dtype=np.int64), quantization=qp())
    bt.purpose = TensorPurpose.FeatureMap
    bt.format = TensorFormat.NHWC
    op = Operation(Op.Conv2DBias, name)
    op.add_input_tensor(ifm)
    op.add_input_tensor(wt)  # the SAME weight tensor
    op.add_input_tensor(bt)
    op.set_output_tensor(ofm)
    return op, bt


acc = Accelerator.Ethos_U55_128
arch = architecture_features.create_default_arch(acc)
bc = ArchitectureBlockConfig()
bc.ofm_block = Shape4D(1, 8, 8, 32)
weight_compressor.CompressedWeightCache.clear()
bad = 0
for ifm_dtype, name in ((DataType.int8, "conv8"), (DataType.int16, "conv16")):
    op, bt = make_op(ifm_dtype, name)
    wtens, _ = weight_compressor.encode_weight_and_scale_tensor(arch, op, wt, bt, Kernel(W, H), bc, [0, O])
    rngs = list(wtens.encoded_ranges.values())
    r = rngs[0]
    a = r.offset + r.weight_offset
    dec = mlw_codec.decode(bytearray(wtens.buffer[a : a + r.weight_bytes]))
    pk = wtens.hw_traversal == NpuBlockTraversal.PART_KERNEL_FIRST
    bits = 16 if ifm_dtype == DataType.int16 else 8
    ref = hw_order(np.transpose(w, (3, 0, 1, 2)), *UBLOCKS[acc.name], 32, False, pk, bits, 8, 8)
    ok = dec == ref
    print("%s (ifm %s): stream decodes to %d weights, hardware order for %d-bit IFM has %d -> %s"
          % (name, ifm_dtype, len(dec), bits, len(ref), "ok" if ok else "WRONG LAYOUT (cached 8-bit stream reused)"))
    bad += not ok
sys.exit(1 if bad else 0)

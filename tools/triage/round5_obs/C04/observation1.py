# OBSERVATION 1 (unmodified tree): get_address_ranges() decides about tile 3 with height_0 instead of height_1.
#
# Hardware tile selection (and Vela's own get_address()): x >= width_0 and y >= height_1 -> tile 3.
# get_address_ranges() only returns a range for tile 3 when tile 1 AND tile 2 exist (width > width_0 and
# height > height_0).  For a feature map with  height_1 < height <= height_0  (left column = one tile, right column
# split in tiles 1 and 3) tile 3 is used by the hardware, but its bytes are missing from the read/write sets
# (get_op_memory_accesses) and from the IFM/OFM overlap test of calc_blockdep:
#   a) no KERNEL_WAIT / DMA_WAIT between a DMA and a kernel that touch the same tile-3 bytes
#   b) BLOCKDEP 3 although the consumer's first job reads what the producer's last block writes (tile 3)
# With  height_0 < height <= height_1  (tiles 1 and 2 exist, tile 3 is NOT used) the function builds a tile-3 range
# from (y=height_1) to (y=height-1): a bogus range [addresses[3], end of tile 1) when addresses[3] is small (e.g. 0),
# or one of negative length when addresses[3] is larger -> AssertionError in RangeSet.__init__ for a valid
# operation (with python -O an inverted range is stored silently).
#
# run: cd /tmp/seed5/C04 && /venv/bin/python out/observation1.py
import os
import sys

sys.path.insert(0, os.getcwd())
sys.path.insert(0, os.path.join(os.getcwd(), "out"))
from ethosu.vela.api import *  # noqa
from ethosu.vela.register_command_stream_util import get_address_ranges  # noqa
import c04_oracle as O  # noqa


def fm(h, w, d, addr, tiles=None):
    f = NpuFeatureMap()
    f.data_type = NpuDataType.INT8
    f.shape = NpuShape3D(height=h, width=w, depth=d)
    f.tiles = tiles or NpuTileBox(height_0=h, height_1=h, width_0=w, addresses=[addr, 0, 0, 0])
    f.region = 1
    f.layout = NpuLayout.NHWC
    f.quantization = NpuQuantization(scale_f32=1.0, zero_point=0)
    f.strides = NpuShape3D(height=w * d, width=d, depth=1)
    return f


def pool(ifm, ofm, block):
    op = NpuPoolingOperation(NpuPoolingOp.MAX)
    op.ifm, op.ofm = ifm, ofm
    op.kernel = NpuKernel(1, 1)
    op.padding = NpuPadding(0, 0, 0, 0)
    op.block_config = block
    return op


A, B, D = 0x1000, 0x2000, 0x3000
# 4x4x16: columns 0-1 -> tile 0 (4 rows, at A); columns 2-3: rows 0-1 -> tile 1 (B), rows 2-3 -> tile 3 (D)
tiles = NpuTileBox(height_0=4, height_1=2, width_0=2, addresses=[A, B, 0, D])
print("get_address_ranges:", get_address_ranges(fm(4, 4, 16, A, tiles)))
bad = False
for acc, name in ((NpuAccelerator.Ethos_U55_128, "U55_128"), (NpuAccelerator.Ethos_U65_256, "U65_256")):
    # a) kernel reads the tiled IFM, the DMA then overwrites the memory of tile 3
    k = pool(fm(4, 4, 16, A, tiles), fm(4, 4, 16, 0x8000), NpuShape3D(4, 4, 16))
    d = NpuDmaOperation(NpuAddressRange(0, 0, 64), NpuAddressRange(1, D, 64))
    for ops in ([k, d], [d, k]):
        v = O.check_stream(npu_generate_register_command_stream(ops, acc), name)
        bad |= bool(v)
        print(name, "a)", v)
    # b) producer writes the tiled OFM (last block = rows 2-3), consumer reads the tile-3 memory as a 2x2x16 IFM
    p = pool(fm(4, 4, 16, 0x8000), fm(4, 4, 16, A, tiles), NpuShape3D(2, 4, 16))
    view = fm(2, 2, 16, D)
    view.strides = NpuShape3D(height=64, width=16, depth=1)
    c = pool(view, fm(2, 2, 16, 0x9000), NpuShape3D(2, 2, 16))
    v = O.check_stream(npu_generate_register_command_stream([p, c], acc), name)
    bad |= bool(v)
    print(name, "b)", v)
# c) crash: tiles 1 and 2 exist, tile 3 not used
try:
    t = NpuTileBox(height_0=2, height_1=4, width_0=2, addresses=[A, B, D, 0xF000])  # base of the unused tile 3 is arbitrary
    k = pool(fm(4, 4, 16, A, t), fm(4, 4, 16, 0x8000), NpuShape3D(4, 4, 16))
    npu_generate_register_command_stream([k], NpuAccelerator.Ethos_U55_128)
    print("c) no crash")
except AssertionError as e:
    bad = True
    print("c) AssertionError for a valid tile configuration:", get_address_ranges(fm(4, 4, 16, A, t)))
print("VIOLATION OBSERVED" if bad else "nothing observed")

# OBSERVATION 4 (unmodified tree, depends on the exact hardware model): kernel -> kernel dependencies that
# calc_blockdep does not look at.  BLOCKDEP is computed only from (previous kernel's OFM) vs (this kernel's IFM/IFM2):
#   a) K1 writes X in 4 blocks, K2 is an unrelated single-block kernel, K3 reads X.  K2 and K3 both get BLOCKDEP 3.
#      Under the model "consecutive kernels overlap by at most BLOCKDEP jobs" K2's only job may run together with
#      K1's last 3 blocks and K3's first job together with K2's job, i.e. K3 job 0 may read X while K1's last blocks
#      are still being written (the 2-kernel outstanding limit does not prevent this).
#   b) a kernel whose WEIGHTS / SCALES address range is the previous kernel's OFM gets BLOCKDEP 3.
# run: cd /tmp/seed5/C04 && /venv/bin/python out/observation4.py
import os
import sys

sys.path.insert(0, os.getcwd())
sys.path.insert(0, os.path.join(os.getcwd(), "out"))
from ethosu.vela.api import *  # noqa
import c04_oracle as O  # noqa


def fm(h, w, d, addr, dtype=NpuDataType.INT8, layout=NpuLayout.NHWC, strides=None):
    f = NpuFeatureMap()
    f.data_type = dtype
    f.shape = NpuShape3D(height=h, width=w, depth=d)
    f.tiles = NpuTileBox(height_0=h, height_1=h, width_0=w, addresses=[addr, 0, 0, 0])
    f.region = 1
    f.layout = layout
    f.quantization = NpuQuantization(scale_f32=1.0, zero_point=0)
    f.strides = strides
    return f


def pool(ifm, ofm, block):
    op = NpuPoolingOperation(NpuPoolingOp.MAX)
    op.ifm, op.ofm = ifm, ofm
    op.kernel = NpuKernel(1, 1)
    op.padding = NpuPadding(0, 0, 0, 0)
    op.block_config = block
    return op


def show(words, name):
    for e in O.build_ops(words, name):
        if e[0] == "op":
            print("      ", e[1].desc, ("BLOCKDEP=%d" % e[1].blockdep) if e[1].kind == "kernel" else "")
        else:
            print("      ", e[0], e[1])


acc, name = NpuAccelerator.Ethos_U55_128, "U55_128"
bad = False
# a)
X = fm(8, 8, 16, 0x1000)
k1 = pool(fm(8, 8, 16, 0x4000), X, NpuShape3D(2, 8, 16))
k2 = pool(fm(2, 2, 16, 0x6000), fm(2, 2, 16, 0x6800), NpuShape3D(2, 2, 16))
k3 = pool(X, fm(8, 8, 16, 0x7000), NpuShape3D(8, 8, 16))
words = npu_generate_register_command_stream([k1, k2, k3], acc)
show(words, name)
ops = [e[1] for e in O.build_ops(words, name) if e[0] == "op"]
o1, o2, o3 = ops
n2 = len(O.ofm_blocks(o2))
# K3 job i may overlap the (BLOCKDEP(K3) - i) preceding jobs; those beyond K2's n2 jobs are K1's last blocks
for i in range(o3.blockdep):
    spill = min(o3.blockdep - i - n2, o2.blockdep)
    rd = O.job_reads(o3, i)
    for k in range(max(spill, 0)):
        wr = O.block_writes(o1, k)
        if rd is not None and wr is not None and wr.intersection(rd) is not None:
            bad = True
            print("   VIOLATION: K3 job %d reads bytes written by K1 block last-%d; nothing orders them" % (i, k))
# b)
c = NpuConv2DOperation()
c.ifm, c.ofm = fm(4, 4, 16, 0x9000), fm(4, 4, 16, 0xA000)
c.kernel, c.padding = NpuKernel(1, 1), NpuPadding(0, 0, 0, 0)
c.weights = [NpuAddressRange(1, 0x1000, 256)]
c.biases = [NpuAddressRange(1, 0xB000, 160)]
c.block_config = NpuShape3D(4, 4, 16)
c.block_traversal = NpuBlockTraversal.DEPTH_FIRST
words = npu_generate_register_command_stream([k1, c], acc)
show(words, name)
ops = [e[1] for e in O.build_ops(words, name) if e[0] == "op"]
hit = ops[0].writes.intersection(ops[1].reads)
if ops[1].blockdep > 0 and hit is not None:
    bad = True
    print("   VIOLATION: conv with BLOCKDEP %d reads region %d byte %#x (weights) written by the previous kernel"
          % (ops[1].blockdep, hit[0], hit[1]))
print("VIOLATION OBSERVED" if bad else "nothing observed")

# Independent hazard oracle for Ethos-U register command streams (property C04).
#
# Works on the EMITTED 32-bit words only: decodes the register writes, rebuilds for every
# NPU_OP_* the exact set of bytes it reads and writes, and then replays the stream under the
# hardware execution model:
#   * kernel operations and DMA transfers are issued in order into two queues
#   * at most MAX_KERNELS kernel ops / MAX_DMA(accelerator) DMA ops can be outstanding
#   * NPU_OP_KERNEL_WAIT k / NPU_OP_DMA_WAIT k return when at most k ops of that queue are outstanding
#   * consecutive kernel ops A, B overlap by at most BLOCKDEP(B) block jobs
# A violation is reported when two ops that may be in flight together have a RAW / WAR / WAW conflict
# on at least one byte.
import bisect

MEM2MEM = (1 << 8) | 3
MAX_KERNELS = 2

# accelerator name -> (max outstanding dma, shram banks, cores)
ACCELS = {
    "U55_32": (1, 16, 1),
    "U55_64": (1, 16, 1),
    "U55_128": (1, 24, 1),
    "U55_256": (1, 48, 1),
    "U65_256": (2, 48, 1),
    "U65_512": (2, 48, 2),
}

# cmd0 opcodes
OP_STOP, OP_IRQ, OP_CONV, OP_DEPTHWISE, OP_POOL, OP_ELEMENTWISE = 0x000, 0x001, 0x002, 0x003, 0x005, 0x006
OP_DMA_START, OP_DMA_WAIT, OP_KERNEL_WAIT = 0x010, 0x011, 0x012
C0 = dict(
    PAD_TOP=0x100, PAD_LEFT=0x101, PAD_RIGHT=0x102, PAD_BOTTOM=0x103, IFM_DEPTH_M1=0x104, IFM_PRECISION=0x105,
    IFM_UPSCALE=0x107, IFM_WIDTH0_M1=0x10A, IFM_HEIGHT0_M1=0x10B, IFM_HEIGHT1_M1=0x10C, IFM_REGION=0x10F,
    OFM_WIDTH_M1=0x111, OFM_HEIGHT_M1=0x112, OFM_DEPTH_M1=0x113, OFM_PRECISION=0x114, OFM_BLK_WIDTH_M1=0x115,
    OFM_BLK_HEIGHT_M1=0x116, OFM_BLK_DEPTH_M1=0x117, OFM_WIDTH0_M1=0x11A, OFM_HEIGHT0_M1=0x11B,
    OFM_HEIGHT1_M1=0x11C, OFM_REGION=0x11F, KERNEL_WIDTH_M1=0x120, KERNEL_HEIGHT_M1=0x121, KERNEL_STRIDE=0x122,
    ACTIVATION=0x125, WEIGHT_REGION=0x128, SCALE_REGION=0x129, BLOCKDEP=0x12F, DMA0_SRC_REGION=0x130,
    DMA0_DST_REGION=0x131, IFM2_BROADCAST=0x180, IFM2_PRECISION=0x185, IFM2_WIDTH0_M1=0x18A,
    IFM2_HEIGHT0_M1=0x18B, IFM2_HEIGHT1_M1=0x18C, IFM2_REGION=0x18F,
)
C1 = dict(
    IFM_BASE0=0x000, IFM_BASE1=0x001, IFM_BASE2=0x002, IFM_BASE3=0x003, IFM_STRIDE_X=0x004, IFM_STRIDE_Y=0x005,
    IFM_STRIDE_C=0x006, OFM_BASE0=0x010, OFM_BASE1=0x011, OFM_BASE2=0x012, OFM_BASE3=0x013, OFM_STRIDE_X=0x014,
    OFM_STRIDE_Y=0x015, OFM_STRIDE_C=0x016, WEIGHT_BASE=0x020, WEIGHT_LENGTH=0x021, SCALE_BASE=0x022,
    SCALE_LENGTH=0x023, DMA0_SRC=0x030, DMA0_DST=0x031, DMA0_LEN=0x032, IFM2_BASE0=0x080, IFM2_BASE1=0x081,
    IFM2_BASE2=0x082, IFM2_BASE3=0x083, IFM2_STRIDE_X=0x084, IFM2_STRIDE_Y=0x085, IFM2_STRIDE_C=0x086,
    WEIGHT1_BASE=0x090, WEIGHT1_LENGTH=0x091, SCALE1_BASE=0x092, SCALE1_LENGTH=0x093,
)
C0_INV = {v: k for k, v in C0.items()}
C1_INV = {v: k for k, v in C1.items()}


# ------------------------------------------------------------------ byte sets
class ByteSet:
    """Set of bytes: region -> sorted, merged list of [start, end) intervals"""

    def __init__(self):
        self.raw = {}
        self.norm = None

    def add(self, region, start, end):
        if end > start:
            self.raw.setdefault(region, []).append((start, end))
            self.norm = None

    def update(self, other):
        for region, ivs in other.raw.items():
            self.raw.setdefault(region, []).extend(ivs)
        self.norm = None

    def regions(self):
        if self.norm is None:
            self.norm = {}
            for region, ivs in self.raw.items():
                ivs = sorted(ivs)
                merged = [list(ivs[0])]
                for s, e in ivs[1:]:
                    if s <= merged[-1][1]:
                        merged[-1][1] = max(merged[-1][1], e)
                    else:
                        merged.append([s, e])
                self.norm[region] = ([m[0] for m in merged], [m[1] for m in merged])
        return self.norm

    def intersection(self, other):
        """Returns (region, address) of one common byte, or None"""
        a, b = self.regions(), other.regions()
        for region in a.keys() & b.keys():
            starts_a, ends_a = a[region]
            starts_b, ends_b = b[region]
            for s, e in zip(starts_a, ends_a):
                # first interval of b that ends after s
                i = bisect.bisect_right(ends_b, s)
                if i < len(starts_b) and starts_b[i] < e:
                    return region, max(s, starts_b[i])
        return None

    def empty(self):
        return not any(self.raw.values())


class FM:
    """Feature map as programmed in the registers"""

    def __init__(self, region, bases, h0, h1, w0, height, width, depth, sy, sx, sc, nhcwb16, elem_size):
        self.region, self.bases, self.h0, self.h1, self.w0 = region, bases, h0, h1, w0
        self.height, self.width, self.depth = height, width, depth
        self.sy, self.sx, self.sc, self.nhcwb16, self.es = sy, sx, sc, nhcwb16, elem_size

    def pixel_base(self, y, x):
        t = 0
        if x >= self.w0:
            x -= self.w0
            t = 1
            if y >= self.h1:
                y -= self.h1
                t = 3
        elif y >= self.h0:
            y -= self.h0
            t = 2
        if self.nhcwb16:
            return self.bases[t] + y * self.sy + x * 16 * self.es
        return self.bases[t] + y * self.sy + x * self.sx

    def bytes(self, y0=0, y1=None, x0=0, x1=None, c0=0, c1=None):
        """Bytes of the (clamped) volume [y0,y1) x [x0,x1) x [c0,c1)"""
        res = ByteSet()
        y1 = self.height if y1 is None else min(y1, self.height)
        x1 = self.width if x1 is None else min(x1, self.width)
        c1 = self.depth if c1 is None else min(c1, self.depth)
        y0, x0, c0 = max(y0, 0), max(x0, 0), max(c0, 0)
        if y0 >= y1 or x0 >= x1 or c0 >= c1:
            return res
        for y in range(y0, y1):
            for x in range(x0, x1):
                base = self.pixel_base(y, x)
                if self.nhcwb16:
                    c = c0
                    while c < c1:
                        brick_end = min(c1, (c // 16 + 1) * 16)
                        a = base + (c // 16) * self.sc + (c % 16) * self.es
                        res.add(self.region, a, a + (brick_end - c) * self.es)
                        c = brick_end
                else:
                    res.add(self.region, base + c0 * self.es, base + c1 * self.es)
        return res


class Op:
    pass


# ------------------------------------------------------------------ decoding
def decode(words):
    """Yields (is_cmd1, opcode, param, payload)"""
    i = 0
    while i < len(words):
        w = words[i]
        code = w & 0xFFFF
        param = (w >> 16) & 0xFFFF
        if code & 0x4000:
            yield True, code & 0x3FF, param, words[i + 1]
            i += 2
        else:
            yield False, code & 0x3FF, param, None
            i += 1


def _fm_from_regs(r0, r1, prefix, height, width, depth, precision_is_ofm):
    prec = r0[prefix + "_PRECISION"]
    if precision_is_ofm:
        es = 1 << ((prec >> 1) & 3)
    else:
        es = 1 << ((prec >> 2) & 3)
    nhcwb16 = bool((prec >> 6) & 1)
    return FM(
        r0[prefix + "_REGION"],
        [r1[prefix + "_BASE%d" % i] for i in range(4)],
        r0[prefix + "_HEIGHT0_M1"] + 1,
        r0[prefix + "_HEIGHT1_M1"] + 1,
        r0[prefix + "_WIDTH0_M1"] + 1,
        height,
        width,
        depth,
        r1[prefix + "_STRIDE_Y"],
        r1[prefix + "_STRIDE_X"],
        r1[prefix + "_STRIDE_C"],
        nhcwb16,
        es,
    )


def build_ops(words, accel):
    """Replays the register writes; returns the list of stream events:
    ("op", Op) / ("kernel_wait", k) / ("dma_wait", k)"""
    max_dma, shram_banks, cores = ACCELS[accel]
    shram_size = shram_banks * 1024
    lut_start = shram_size - 2048
    r0, r1 = {}, {}
    events = []
    for is_cmd1, opcode, param, payload in decode(words):
        if is_cmd1:
            name = C1_INV.get(opcode)
            if name is not None:
                r1[name] = (param << 32) | payload
            continue
        if opcode in C0_INV:
            r0[C0_INV[opcode]] = param
            continue
        if opcode == OP_KERNEL_WAIT:
            events.append(("kernel_wait", param & 0xF))
        elif opcode == OP_DMA_WAIT:
            events.append(("dma_wait", param & 0xF))
        elif opcode == OP_DMA_START:
            op = Op()
            op.kind = "dma"
            op.index = len([e for e in events if e[0] == "op"])
            length = r1["DMA0_LEN"]
            op.reads, op.writes = ByteSet(), ByteSet()
            op.reads.add(r0["DMA0_SRC_REGION"], r1["DMA0_SRC"], r1["DMA0_SRC"] + length)
            op.writes.add(r0["DMA0_DST_REGION"], r1["DMA0_DST"], r1["DMA0_DST"] + length)
            op.desc = "DMA %d:%#x -> %d:%#x len %d" % (
                r0["DMA0_SRC_REGION"], r1["DMA0_SRC"], r0["DMA0_DST_REGION"], r1["DMA0_DST"], length)
            events.append(("op", op))
        elif opcode in (OP_CONV, OP_DEPTHWISE, OP_POOL, OP_ELEMENTWISE):
            op = Op()
            op.kind = "kernel"
            op.index = len([e for e in events if e[0] == "op"])
            op.type = {OP_CONV: "conv", OP_DEPTHWISE: "depthwise", OP_POOL: "pool", OP_ELEMENTWISE: "elementwise"}[
                opcode
            ]
            op.blockdep = r0.get("BLOCKDEP", 0)
            oh, ow, od = r0["OFM_HEIGHT_M1"] + 1, r0["OFM_WIDTH_M1"] + 1, r0["OFM_DEPTH_M1"] + 1
            op.ofm = _fm_from_regs(r0, r1, "OFM", oh, ow, od, True)
            op.blk = (r0["OFM_BLK_HEIGHT_M1"] + 1, r0["OFM_BLK_WIDTH_M1"] + 1, r0["OFM_BLK_DEPTH_M1"] + 1)
            idepth = r0["IFM_DEPTH_M1"] + 1
            op.ifm2 = None
            if op.type == "elementwise":
                op.kh = op.kw = op.sy = op.sx = 1
                op.pad_top = op.pad_left = 0
                op.upscale = 1
                ih, iw = oh, ow
                # unary ops: ABS=6 LRELU=7 CLZ=5 -> no IFM2
                unary = param in (5, 6, 7)
                if not unary:
                    bc = r0.get("IFM2_BROADCAST", 0)
                    if not (bc & 0x80):  # not a scalar
                        h2 = 1 if bc & 1 else oh
                        w2 = 1 if bc & 2 else ow
                        d2 = 1 if bc & 4 else idepth
                        op.ifm2 = _fm_from_regs(r0, r1, "IFM2", h2, w2, d2, False)
            else:
                st = r0["KERNEL_STRIDE"]
                op.sx = ((st & 1) | (((st >> 6) & 7) << 1)) + 1
                op.sy = (((st >> 1) & 1) | (((st >> 9) & 7) << 1)) + 1
                op.kh = r0["KERNEL_HEIGHT_M1"] + 1  # dilated
                op.kw = r0["KERNEL_WIDTH_M1"] + 1
                op.pad_top, op.pad_left = r0.get("PAD_TOP", 0), r0.get("PAD_LEFT", 0)
                pb, pr = r0.get("PAD_BOTTOM", 0), r0.get("PAD_RIGHT", 0)
                op.upscale = 1 if r0.get("IFM_UPSCALE", 0) == 0 else 2
                ih = (oh - 1) * op.sy + op.kh - op.pad_top - pb
                iw = (ow - 1) * op.sx + op.kw - op.pad_left - pr
                ih, iw = -(-ih // op.upscale), -(-iw // op.upscale)
            op.ifm = _fm_from_regs(r0, r1, "IFM", ih, iw, idepth, False)
            op.reads, op.writes = ByteSet(), ByteSet()
            op.reads.update(op.ifm.bytes())
            if op.ifm2 is not None:
                op.reads.update(op.ifm2.bytes())
            if op.type in ("conv", "depthwise"):
                for core in range(cores):
                    sfx = "" if core == 0 else "1"
                    if "WEIGHT%s_LENGTH" % sfx in r1:
                        b = r1["WEIGHT%s_BASE" % sfx]
                        op.reads.add(r0["WEIGHT_REGION"], b, b + r1["WEIGHT%s_LENGTH" % sfx])
                    if "SCALE%s_LENGTH" % sfx in r1:
                        b = r1["SCALE%s_BASE" % sfx]
                        op.reads.add(r0["SCALE_REGION"], b, b + r1["SCALE%s_LENGTH" % sfx])
            op.writes.update(op.ofm.bytes())
            uses_lut = r0.get("ACTIVATION", 0) & 0x1F >= 16
            if uses_lut:
                op.reads.add(MEM2MEM, lut_start, shram_size)
            # SHRAM used as working memory: everything, except the LUT banks when those are
            # reserved (more than 16 banks) or in use by this operation
            op.writes.add(MEM2MEM, 0, lut_start if (uses_lut or shram_banks > 16) else shram_size)
            op.desc = "%s ofm %d:%#x %dx%dx%d ifm %d:%#x" % (
                op.type, op.ofm.region, op.ofm.bases[0], oh, ow, od, op.ifm.region, op.ifm.bases[0])
            events.append(("op", op))
    return events


# ------------------------------------------------------------------ block jobs
def ifm_block_depth(op):
    if op.type != "conv":
        return None
    d = -(-op.ifm.depth // 8) * 8
    return min(d, 256 // (8 * op.ifm.es))


def ofm_blocks(op):
    """OFM blocks in execution order (depth first, then width, then height): (y, x, z) start coordinates"""
    bh, bw, bd = op.blk
    res = []
    for y in range(0, op.ofm.height, bh):
        for x in range(0, op.ofm.width, bw):
            for z in range(0, op.ofm.depth, bd):
                res.append((y, x, z))
    return res


def job_reads(op, job):
    """Bytes of IFM/IFM2 read by the job with the given index (None if there is no such job)"""
    blocks = ofm_blocks(op)
    bh, bw, bd = op.blk
    if op.type == "conv":
        ibd = ifm_block_depth(op)
        slices = -(-op.ifm.depth // ibd)
        blk, sl = divmod(job, slices)
        if blk >= len(blocks):
            return None
        c0, c1 = sl * ibd, (sl + 1) * ibd
    else:
        if job >= len(blocks):
            return None
        blk = job
        if op.type == "pool" and op.ifm.depth != op.ofm.depth:
            c0, c1 = 0, op.ifm.depth  # reduce sum
        else:
            c0, c1 = blocks[blk][2], blocks[blk][2] + bd
    y, x, z = blocks[blk]
    y0 = y * op.sy - op.pad_top
    x0 = x * op.sx - op.pad_left
    y1 = (min(y + bh, op.ofm.height) - 1) * op.sy - op.pad_top + op.kh
    x1 = (min(x + bw, op.ofm.width) - 1) * op.sx - op.pad_left + op.kw
    if op.upscale == 2:
        y0, x0, y1, x1 = y0 // 2, x0 // 2, -(-y1 // 2), -(-x1 // 2)
    res = op.ifm.bytes(y0, y1, x0, x1, c0, c1)
    if op.ifm2 is not None:
        f2 = op.ifm2
        res.update(
            f2.bytes(
                0 if f2.height == 1 else y0, 1 if f2.height == 1 else y1,
                0 if f2.width == 1 else x0, 1 if f2.width == 1 else x1,
                0 if f2.depth == 1 else c0, 1 if f2.depth == 1 else c1,
            )
        )
    return res


def block_writes(op, back):
    """Bytes written by the OFM block that is `back` blocks before the end (0 = last)"""
    blocks = ofm_blocks(op)
    if back >= len(blocks):
        return None
    y, x, z = blocks[len(blocks) - 1 - back]
    bh, bw, bd = op.blk
    return op.ofm.bytes(y, y + bh, x, x + bw, z, z + bd)


def conflict(a, b):
    """First conflicting byte between two ops (a issued before b), or None"""
    for kind, s1, s2 in (("RAW", a.writes, b.reads), ("WAR", a.reads, b.writes), ("WAW", a.writes, b.writes)):
        hit = s1.intersection(s2)
        if hit is not None:
            return kind, hit
    return None


# ------------------------------------------------------------------ replay
def check_stream(words, accel, check_blockdep=True):
    """Returns a list of human readable violations (empty list: the stream is hazard free)"""
    max_dma = ACCELS[accel][0]
    violations = []
    out_kernels, out_dmas = [], []
    prev_kernel = None
    for ev, arg in build_ops(words, accel):
        if ev == "kernel_wait":
            out_kernels = out_kernels[max(0, len(out_kernels) - arg):] if arg else []
        elif ev == "dma_wait":
            out_dmas = out_dmas[max(0, len(out_dmas) - arg):] if arg else []
        else:
            op = arg
            others = out_kernels if op.kind == "dma" else out_dmas
            for other in others:
                c = conflict(other, op)
                if c is not None:
                    violations.append(
                        "op %d (%s) is issued while op %d (%s) may still be executing: %s on region %d byte %#x"
                        % (op.index, op.desc, other.index, other.desc, c[0], c[1][0], c[1][1])
                    )
            if op.kind == "dma":
                out_dmas.append(op)
                out_dmas = out_dmas[-max_dma:]
            else:
                if check_blockdep and prev_kernel is not None:
                    d = op.blockdep
                    for i in range(d):
                        rd = job_reads(op, i)
                        if rd is None:
                            break
                        for k in range(d - i):
                            wr = block_writes(prev_kernel, k)
                            if wr is None:
                                break
                            hit = wr.intersection(rd)
                            if hit is not None:
                                violations.append(
                                    "kernel op %d (%s) has BLOCKDEP %d, but its job %d reads region %d byte %#x which "
                                    "is written by block last-%d of kernel op %d (%s)"
                                    % (op.index, op.desc, d, i, hit[0], hit[1], k, prev_kernel.index, prev_kernel.desc)
                                )
                prev_kernel = op
                out_kernels.append(op)
                out_kernels = out_kernels[-MAX_KERNELS:]
    return violations

# OBSERVATION 3 (unmodified tree): NpuDmaOperation with dest.length != src.length is accepted.
# generate_dma_op() programs NPU_SET_DMA0_LEN = src.length, get_dma_memory_accesses() records dest.length bytes as
# written.  With dest.length < src.length the transfer writes bytes that the wait logic does not know about.
# run: cd /tmp/seed5/C04 && /venv/bin/python out/observation3.py
import os
import sys

sys.path.insert(0, os.getcwd())
sys.path.insert(0, os.path.join(os.getcwd(), "out"))
from ethosu.vela.api import *  # noqa
import c04_oracle as O  # noqa


def fm(h, w, d, addr, dtype=NpuDataType.INT8, layout=NpuLayout.NHWC, strides=None):
    f = NpuFeatureMap()
    f.data_type = dtype
    f.shape = NpuShape3D(height=h, width=w, depth=d)
    f.tiles = NpuTileBox(height_0=h, height_1=h, width_0=w, addresses=[addr, 0, 0, 0])
    f.region = 1
    f.layout = layout
    f.quantization = NpuQuantization(scale_f32=1.0, zero_point=0)
    f.strides = strides
    return f


def pool(ifm, ofm, block):
    op = NpuPoolingOperation(NpuPoolingOp.MAX)
    op.ifm, op.ofm = ifm, ofm
    op.kernel = NpuKernel(1, 1)
    op.padding = NpuPadding(0, 0, 0, 0)
    op.block_config = block
    return op


def show(words, name):
    for e in O.build_ops(words, name):
        if e[0] == "op":
            print("      ", e[1].desc, ("BLOCKDEP=%d" % e[1].blockdep) if e[1].kind == "kernel" else "")
        else:
            print("      ", e[0], e[1])


bad = False
for acc, name in ((NpuAccelerator.Ethos_U55_128, "U55_128"), (NpuAccelerator.Ethos_U65_256, "U65_256")):
    k = pool(fm(8, 8, 16, 0x2200), fm(8, 8, 16, 0x8000), NpuShape3D(8, 8, 16))
    d = NpuDmaOperation(NpuAddressRange(0, 0, 1024), NpuAddressRange(1, 0x2000, 16))
    for ops in ([k, d], [d, k]):
        words = npu_generate_register_command_stream(ops, acc)
        v = O.check_stream(words, name)
        show(words, name)
        for x in v:
            print("   VIOLATION:", x)
        bad |= bool(v)
print("VIOLATION OBSERVED" if bad else "nothing observed")

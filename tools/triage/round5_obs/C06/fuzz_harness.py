"""Scratch fuzz harness: independent decoder + oracle for the register command stream (not a deliverable)."""
import os
import random
import sys

sys.path.insert(0, os.getcwd())

from ethosu.vela.api import *  # noqa: E402,F401,F403
from ethosu.vela.api import npu_find_block_configs  # noqa: E402
from ethosu.vela.api import npu_generate_register_command_stream  # noqa: E402

# ---- independent opcode tables (from the Ethos-U command stream spec) ----
OPS = {0x000: "STOP", 0x002: "CONV", 0x003: "DEPTHWISE", 0x005: "POOL", 0x006: "ELEMENTWISE", 0x010: "DMA_START",
       0x011: "DMA_WAIT", 0x012: "KERNEL_WAIT"}
C0 = {
    0x100: "IFM_PAD_TOP", 0x101: "IFM_PAD_LEFT", 0x102: "IFM_PAD_RIGHT", 0x103: "IFM_PAD_BOTTOM", 0x104: "IFM_DEPTH_M1",
    0x105: "IFM_PRECISION", 0x107: "IFM_UPSCALE", 0x109: "IFM_ZERO_POINT", 0x10A: "IFM_WIDTH0_M1",
    0x10B: "IFM_HEIGHT0_M1", 0x10C: "IFM_HEIGHT1_M1", 0x10D: "IFM_IB_END", 0x10F: "IFM_REGION",
    0x111: "OFM_WIDTH_M1", 0x112: "OFM_HEIGHT_M1", 0x113: "OFM_DEPTH_M1", 0x114: "OFM_PRECISION",
    0x115: "OFM_BLK_WIDTH_M1", 0x116: "OFM_BLK_HEIGHT_M1", 0x117: "OFM_BLK_DEPTH_M1", 0x118: "OFM_ZERO_POINT",
    0x11A: "OFM_WIDTH0_M1", 0x11B: "OFM_HEIGHT0_M1", 0x11C: "OFM_HEIGHT1_M1", 0x11F: "OFM_REGION",
    0x120: "KERNEL_WIDTH_M1", 0x121: "KERNEL_HEIGHT_M1", 0x122: "KERNEL_STRIDE", 0x123: "PARALLEL_MODE",
    0x124: "ACC_FORMAT", 0x125: "ACTIVATION", 0x126: "ACTIVATION_MIN", 0x127: "ACTIVATION_MAX",
    0x128: "WEIGHT_REGION", 0x129: "SCALE_REGION", 0x12D: "AB_START", 0x12F: "BLOCKDEP",
    0x130: "DMA0_SRC_REGION", 0x131: "DMA0_DST_REGION", 0x132: "DMA0_SIZE0", 0x133: "DMA0_SIZE1",
    0x180: "IFM2_BROADCAST", 0x181: "IFM2_SCALAR", 0x185: "IFM2_PRECISION", 0x189: "IFM2_ZERO_POINT",
    0x18A: "IFM2_WIDTH0_M1", 0x18B: "IFM2_HEIGHT0_M1", 0x18C: "IFM2_HEIGHT1_M1", 0x18D: "IFM2_IB_START",
    0x18F: "IFM2_REGION",
}
C1 = {
    0x000: "IFM_BASE0", 0x001: "IFM_BASE1", 0x002: "IFM_BASE2", 0x003: "IFM_BASE3", 0x004: "IFM_STRIDE_X",
    0x005: "IFM_STRIDE_Y", 0x006: "IFM_STRIDE_C", 0x010: "OFM_BASE0", 0x011: "OFM_BASE1", 0x012: "OFM_BASE2",
    0x013: "OFM_BASE3", 0x014: "OFM_STRIDE_X", 0x015: "OFM_STRIDE_Y", 0x016: "OFM_STRIDE_C", 0x020: "WEIGHT_BASE",
    0x021: "WEIGHT_LENGTH", 0x022: "SCALE_BASE", 0x023: "SCALE_LENGTH", 0x024: "OFM_SCALE", 0x025: "OPA_SCALE",
    0x026: "OPB_SCALE", 0x030: "DMA0_SRC", 0x031: "DMA0_DST", 0x032: "DMA0_LEN", 0x080: "IFM2_BASE0",
    0x081: "IFM2_BASE1", 0x082: "IFM2_BASE2", 0x083: "IFM2_BASE3", 0x084: "IFM2_STRIDE_X", 0x085: "IFM2_STRIDE_Y",
    0x086: "IFM2_STRIDE_C", 0x090: "WEIGHT1_BASE", 0x091: "WEIGHT1_LENGTH", 0x092: "SCALE1_BASE",
    0x093: "SCALE1_LENGTH",
}


def decode(words):
    """Returns list of events: (kind, name, param, regs_snapshot) for every OP/WAIT command"""
    regs = {}
    events = []
    i = 0
    while i < len(words):
        w = words[i]
        assert 0 <= w < (1 << 32), f"word {i} out of 32-bit range: {w}"
        code = w & 0xFFFF
        param = w >> 16
        assert code & 0x8000 == 0, f"bad code {code:#x}"
        if code & 0x4000:
            payload = words[i + 1]
            assert 0 <= payload < (1 << 32)
            name = C1[code & 0x3FF]
            regs[name] = (param << 32) | payload
            i += 2
        else:
            opc = code & 0x3FF
            if opc < 0x100:
                events.append((OPS[opc], param, dict(regs), i))
            else:
                regs[C0[opc]] = param
            i += 1
    return events


def s16(v):
    return v - 0x10000 if v & 0x8000 else v


class Mismatch(Exception):
    pass


def exp_strides(fm):
    if fm.strides is not None:
        return fm.strides.depth, fm.strides.height, fm.strides.width
    es = fm.data_type.size_in_bits() // 8
    h, w, c = fm.shape
    if fm.layout == NpuLayout.NHWC:
        return es, w * c * es, c * es
    c16 = (c + 15) // 16 * 16
    return 16 * es * w, es * w * c16, 16 * es


def fits(v, bits, signed=False):
    if signed:
        return -(1 << (bits - 1)) <= v < (1 << (bits - 1))
    return 0 <= v < (1 << bits)


def expect(regs, name, value, errs, bits=16, signed=False):
    if not fits(value, bits, signed):
        errs.append(f"{name}: value {value} does not fit {bits}-bit register (truncated)")
    mask = (1 << bits) - 1
    got = regs.get(name)
    if got is None:
        errs.append(f"{name}: never written, expected {value}")
    elif got != (value & mask):
        errs.append(f"{name}: decoded {got} expected {value & mask} ({value})")


def check_fm(regs, pfx, fm, errs, is_ofm=False, with_geom=True):
    es = fm.data_type.size_in_bits() // 8
    if with_geom:
        expect(regs, f"{pfx}_REGION", fm.region, errs, 3)
        for i in range(4):
            expect(regs, f"{pfx}_BASE{i}", fm.tiles.addresses[i], errs, 40)
            al = 16 if fm.layout == NpuLayout.NHCWB16 else es
            if fm.tiles.addresses[i] % al:
                errs.append(f"{pfx}_BASE{i} misaligned")
        expect(regs, f"{pfx}_HEIGHT0_M1", fm.tiles.height_0 - 1, errs)
        expect(regs, f"{pfx}_HEIGHT1_M1", fm.tiles.height_1 - 1, errs)
        expect(regs, f"{pfx}_WIDTH0_M1", fm.tiles.width_0 - 1, errs)
        sc, sy, sx = exp_strides(fm)
        expect(regs, f"{pfx}_STRIDE_C", sc, errs, 40)
        expect(regs, f"{pfx}_STRIDE_Y", sy, errs, 40)
        expect(regs, f"{pfx}_STRIDE_X", sx, errs, 40)
    zp = 0 if fm.quantization is None else int(fm.quantization.zero_point)
    expect(regs, f"{pfx}_ZERO_POINT", zp, errs, 16, signed=zp < 0)
    if pfx == "IFM":
        expect(regs, "IFM_DEPTH_M1", fm.shape.depth - 1, errs)
    if is_ofm:
        expect(regs, "OFM_HEIGHT_M1", fm.shape.height - 1, errs)
        expect(regs, "OFM_WIDTH_M1", fm.shape.width - 1, errs)
        expect(regs, "OFM_DEPTH_M1", fm.shape.depth - 1, errs)
    prec = regs.get(f"{pfx}_PRECISION")
    if prec is None:
        errs.append(f"{pfx}_PRECISION never written")
    else:
        signed = prec & 1
        if is_ofm:
            pbits = (prec >> 1) & 3
        else:
            pbits = (prec >> 2) & 3
        fmt = (prec >> 6) & 3
        if signed != int(fm.data_type.is_signed()):
            errs.append(f"{pfx}_PRECISION signedness {signed} != {fm.data_type}")
        if pbits != {8: 0, 16: 1, 32: 2}[fm.data_type.size_in_bits()]:
            errs.append(f"{pfx}_PRECISION size bits {pbits} != {fm.data_type}")
        if fmt != (1 if fm.layout == NpuLayout.NHCWB16 else 0):
            errs.append(f"{pfx}_PRECISION format {fmt} != {fm.layout}")


UNARY = (NpuElementWiseOp.ABS, NpuElementWiseOp.LRELU, NpuElementWiseOp.CLZ)
EW_CODE = {NpuElementWiseOp.MUL: 0, NpuElementWiseOp.ADD: 1, NpuElementWiseOp.SUB: 2, NpuElementWiseOp.MIN: 3,
           NpuElementWiseOp.MAX: 4, NpuElementWiseOp.LRELU: 5, NpuElementWiseOp.ABS: 6, NpuElementWiseOp.CLZ: 7,
           NpuElementWiseOp.SHR: 8, NpuElementWiseOp.SHL: 9}
POOL_CODE = {NpuPoolingOp.MAX: 0, NpuPoolingOp.AVERAGE: 1, NpuPoolingOp.REDUCE_SUM: 2}


def check_block_op(op, kind, param, regs, ncores, errs):
    if isinstance(op, NpuConv2DOperation):
        if kind != "CONV":
            errs.append(f"op kind {kind} != CONV")
    elif isinstance(op, NpuConvDepthWiseOperation):
        if kind != "DEPTHWISE":
            errs.append(f"op kind {kind} != DEPTHWISE")
    elif isinstance(op, NpuPoolingOperation):
        if kind != "POOL" or param != POOL_CODE[op.sub_op_type]:
            errs.append(f"op kind {kind}/{param} != POOL {op.sub_op_type}")
    elif isinstance(op, NpuElementWiseOperation):
        if kind != "ELEMENTWISE" or param != EW_CODE[op.sub_op_type]:
            errs.append(f"op kind {kind}/{param} != ELEMENTWISE {op.sub_op_type}")
    check_fm(regs, "IFM", op.ifm, errs)
    check_fm(regs, "OFM", op.ofm, errs, is_ofm=True)
    expect(regs, "IFM_UPSCALE", {NpuResamplingMode.NONE: 0, NpuResamplingMode.NEAREST: 1,
                                 NpuResamplingMode.TRANSPOSE: 2}[op.ifm_upscale], errs, 2)
    if op.padding is not None:
        expect(regs, "IFM_PAD_TOP", op.padding.top, errs, 7)
        expect(regs, "IFM_PAD_LEFT", op.padding.left, errs, 7)
        expect(regs, "IFM_PAD_BOTTOM", op.padding.bottom, errs, 8)
        expect(regs, "IFM_PAD_RIGHT", op.padding.right, errs, 8)
    rnd = (regs.get("OFM_PRECISION", 0) >> 14) & 3
    if rnd != {NpuRoundingMode.TFL: 0, NpuRoundingMode.TRUNCATE: 1, NpuRoundingMode.NATURAL: 2}[op.rounding_mode]:
        errs.append(f"OFM_PRECISION rounding {rnd} != {op.rounding_mode}")
    if not isinstance(op, NpuElementWiseOperation):
        k = op.kernel
        expect(regs, "KERNEL_HEIGHT_M1", k.dilation_y * (k.height - 1), errs)
        expect(regs, "KERNEL_WIDTH_M1", k.dilation_x * (k.width - 1), errs)
        ks = regs.get("KERNEL_STRIDE", 0)
        sx = ((ks >> 0) & 1) | (((ks >> 6) & 7) << 1)
        sy = ((ks >> 1) & 1) | (((ks >> 9) & 7) << 1)
        dx = (ks >> 3) & 1
        dy = (ks >> 4) & 1
        pk = (ks >> 2) & 1
        if (sx + 1, sy + 1, dx + 1, dy + 1) != (k.stride_x, k.stride_y, k.dilation_x, k.dilation_y):
            errs.append(f"KERNEL_STRIDE decoded stride/dilation {(sx+1, sy+1, dx+1, dy+1)} != "
                        f"{(k.stride_x, k.stride_y, k.dilation_x, k.dilation_y)}")
        exp_pk = int(isinstance(op, NpuConv2DOperation) and op.block_traversal == NpuBlockTraversal.PART_KERNEL_FIRST)
        if pk != exp_pk:
            errs.append(f"KERNEL_STRIDE part-kernel bit {pk} != {exp_pk}")
    # weights / scales
    for nm, rngs in (("WEIGHT", op.weights), ("SCALE", op.biases)):
        if len(rngs) == 0:
            continue
        expect(regs, f"{nm}_REGION", rngs[0].region, errs, 3)
        for core in range(ncores):
            sfx = "" if core == 0 else "1"
            if core < len(rngs):
                expect(regs, f"{nm}{sfx}_BASE", rngs[core].address, errs, 40)
                expect(regs, f"{nm}{sfx}_LENGTH", rngs[core].length, errs, 32)
                if rngs[core].length % 16:
                    errs.append(f"{nm}{sfx}_LENGTH not multiple of 16")
                if nm == "WEIGHT" and rngs[core].address % 16:
                    errs.append(f"{nm}{sfx}_BASE not 16 aligned")
            else:
                expect(regs, f"{nm}{sfx}_LENGTH", 0, errs, 32)
    # activation
    act = op.activation
    odt = op.ofm.data_type
    if act is None or act.op_type == NpuActivationOp.NONE_OR_RELU:
        expect(regs, "ACTIVATION", 0, errs)
    elif act.op_type == NpuActivationOp.TANH:
        expect(regs, "ACTIVATION", 3, errs)
    elif act.op_type == NpuActivationOp.SIGMOID:
        expect(regs, "ACTIVATION", 4, errs)
    else:
        av = regs.get("ACTIVATION", 0)
        if av & 0x1F != 16 + act.lookup_table_index:
            errs.append(f"ACTIVATION lut {av} != index {act.lookup_table_index}")
    amin = s16(regs.get("ACTIVATION_MIN", 0))
    amax = s16(regs.get("ACTIVATION_MAX", 0)) if odt.is_signed() or True else regs.get("ACTIVATION_MAX")
    q = op.ofm.quantization
    sc = 1 if q is None or q.scale_f32 is None else q.scale_f32
    zp = 0 if q is None else q.zero_point
    lo = odt.min_value() if act is None or act.min is None else max(odt.min_value(), round(act.min / sc) + zp)
    hi = odt.max_value() if act is None or act.max is None else min(odt.max_value(), round(act.max / sc) + zp)
    if odt.size_in_bits() <= 16:
        rmin = regs.get("ACTIVATION_MIN", 0)
        rmax = regs.get("ACTIVATION_MAX", 0)
        gmin = s16(rmin) if odt.is_signed() else rmin
        gmax = s16(rmax) if odt.is_signed() else rmax
        if abs(gmin - lo) > 1 or abs(gmax - hi) > 1:
            errs.append(f"ACTIVATION_MIN/MAX decoded {gmin}/{gmax} expected {lo}/{hi}")
    # block config
    expect(regs, "OFM_BLK_HEIGHT_M1", op.block_config.height - 1, errs, 5)
    expect(regs, "OFM_BLK_WIDTH_M1", op.block_config.width - 1, errs, 6)
    expect(regs, "OFM_BLK_DEPTH_M1", op.block_config.depth - 1, errs, 7)
    # shram sanity
    ib_end = regs.get("IFM_IB_END")
    ab = regs.get("AB_START")
    if ib_end is None or ab is None or not (2 < ib_end <= ab):
        errs.append(f"SHRAM layout insane ib_end={ib_end} ab_start={ab}")
    accf = regs.get("ACC_FORMAT")
    if accf is None:
        errs.append("ACC_FORMAT unset")
    else:
        if accf == 1 and op.ifm.data_type.size_in_bits() != 16:
            errs.append(f"ACC_FORMAT 40-bit for {op.ifm.data_type} IFM")
    if isinstance(op, NpuElementWiseOperation) and op.sub_op_type not in UNARY:
        has_scalar = op.ifm2_scalar is not None
        check_fm(regs, "IFM2", op.ifm2, errs, with_geom=not has_scalar)
        bc = regs.get("IFM2_BROADCAST", 0)
        if bool(bc & 0x80) != has_scalar:
            errs.append(f"IFM2_BROADCAST scalar bit {bc}")
        if bool(bc & 0x40) != bool(op.reversed_operands):
            errs.append(f"IFM2_BROADCAST reverse bit {bc}")
        if not has_scalar:
            eb = ((op.ifm.shape.height != op.ifm2.shape.height) * 1 | (op.ifm.shape.width != op.ifm2.shape.width) * 2
                  | (op.ifm.shape.depth != op.ifm2.shape.depth) * 4)
            if bc & 7 != eb:
                errs.append(f"IFM2_BROADCAST dims {bc & 7} != {eb}")
            s2 = regs.get("IFM2_IB_START")
            if s2 is None or not (2 < s2 < ab):
                errs.append(f"IFM2_IB_START insane {s2}")
        else:
            q2 = op.ifm2.quantization
            sc2 = 1 if q2 is None or q2.scale_f32 is None else q2.scale_f32
            zp2 = 0 if q2 is None else q2.zero_point
            ev = round(op.ifm2_scalar / sc2) + zp2
            if not fits(ev, 16, signed=op.ifm2.data_type.is_signed()):
                errs.append(f"IFM2_SCALAR {ev} does not fit 16 bits (truncated)")
            got = regs.get("IFM2_SCALAR")
            if got is None or abs((s16(got) if op.ifm2.data_type.is_signed() else got) - ev) > 1:
                errs.append(f"IFM2_SCALAR decoded {got} expected {ev}")


def check_dma(op, kind, param, regs, u65, errs):
    if kind != "DMA_START":
        errs.append(f"op kind {kind} != DMA_START")
    expect(regs, "DMA0_SRC_REGION", op.src.region, errs, 9)
    expect(regs, "DMA0_DST_REGION", op.dest.region, errs, 9)
    expect(regs, "DMA0_SRC", op.src.address, errs, 40)
    expect(regs, "DMA0_DST", op.dest.address, errs, 40)
    expect(regs, "DMA0_LEN", op.src.length, errs, 40)
    MEM2MEM = 0x103
    src_r, dst_r = regs.get("DMA0_SRC_REGION"), regs.get("DMA0_DST_REGION")
    if u65:
        if src_r == MEM2MEM and regs["DMA0_SRC"] % 16:
            errs.append("DMA src (internal) not 16 aligned")
        if dst_r == MEM2MEM and (regs["DMA0_DST"] % 16 or regs["DMA0_LEN"] % 16):
            errs.append("DMA dst/len (internal) not 16 aligned")
    else:
        if regs["DMA0_SRC"] % 16 or regs["DMA0_DST"] % 16 or regs["DMA0_LEN"] % 16:
            errs.append("DMA src/dst/len not 16 aligned")


def check_stream(ops, accel, words):
    errs = []
    ev = decode(words)
    u65 = accel in (NpuAccelerator.Ethos_U65_256, NpuAccelerator.Ethos_U65_512)
    ncores = 2 if accel == NpuAccelerator.Ethos_U65_512 else 1
    stops = [e for e in ev if e[0] == "STOP"]
    if len(stops) != 1 or ev[-1][0] != "STOP" or ev[-1][3] != len(words) - 1 or ev[-1][1] != 0xFFFF:
        errs.append("stream does not end in exactly one STOP")
    real = [e for e in ev if e[0] not in ("STOP", "DMA_WAIT", "KERNEL_WAIT")]
    if len(real) != len(ops):
        errs.append(f"{len(real)} ops decoded, {len(ops)} given")
        return errs
    for idx, (op, (kind, param, regs, pos)) in enumerate(zip(ops, real)):
        e2 = []
        if isinstance(op, NpuDmaOperation):
            check_dma(op, kind, param, regs, u65, e2)
        else:
            check_block_op(op, kind, param, regs, ncores, e2)
        errs.extend(f"op{idx} {kind}: {m}" for m in e2)
    return errs


# ---------------- random op generation ----------------
ACCS = list(NpuAccelerator)


def rnd_fm(rng, shape, dtype, layout, region, addr, quant=True, tiles=False):
    fm = NpuFeatureMap()
    fm.data_type = dtype
    fm.shape = shape
    fm.layout = layout
    fm.region = region
    if quant:
        zp = rng.choice([0, 0, 3, 128 if not dtype.is_signed() else -128, -5 if dtype.is_signed() else 7])
        fm.quantization = NpuQuantization(scale_f32=rng.choice([1.0, 0.5, 0.0078125, 0.02, 0.3]), zero_point=zp)
    else:
        fm.quantization = None
    h, w = shape.height, shape.width
    if tiles and h > 2 and w > 2:
        h0 = rng.randint(1, h - 1)
        h1 = rng.randint(1, h - 1)
        w0 = rng.randint(1, w - 1)
        fm.tiles = NpuTileBox(height_0=h0, height_1=h1, width_0=w0,
                              addresses=[addr, addr + 0x10000, addr + 0x20000, addr + 0x30000])
    else:
        fm.tiles = NpuTileBox(height_0=h, height_1=h, width_0=w, addresses=[addr, 0, 0, 0])
    return fm


def gen_op(rng, accel):
    kind = rng.choice(["conv", "dw", "pool", "ew", "ew", "dma"])
    ncores = 2 if accel == NpuAccelerator.Ethos_U65_512 else 1
    u65 = accel in (NpuAccelerator.Ethos_U65_256, NpuAccelerator.Ethos_U65_512)
    if kind == "dma":
        ln = rng.randint(1, 64) * 16
        return NpuDmaOperation(NpuAddressRange(rng.randint(0, 7), rng.randint(0, 1000) * 16, ln),
                               NpuAddressRange(rng.randint(0, 7), 0x100000 + rng.randint(0, 1000) * 16, ln))
    dt8 = rng.choice([NpuDataType.UINT8, NpuDataType.INT8, NpuDataType.INT16])
    lay = lambda: rng.choice([NpuLayout.NHWC, NpuLayout.NHCWB16])  # noqa: E731
    base = lambda: rng.randint(0, 4000) * 16  # noqa: E731
    if kind in ("conv", "dw", "pool"):
        kw, kh = rng.randint(1, 4), rng.randint(1, 4)
        sx, sy = rng.randint(1, 3), rng.randint(1, 3)
        dx, dy = (rng.randint(1, 2), rng.randint(1, 2)) if kind != "pool" else (1, 1)
        oh, ow = rng.randint(1, 20), rng.randint(1, 20)
        up = rng.choice([NpuResamplingMode.NONE] * 4 + [NpuResamplingMode.NEAREST, NpuResamplingMode.TRANSPOSE])
        if up != NpuResamplingMode.NONE:
            sx = sy = 1
        pad = NpuPadding(rng.randint(0, 1), rng.randint(0, 1), rng.randint(0, 1), rng.randint(0, 1))
        ih = (oh - 1) * sy + (kh - 1) * dy + 1 - pad.top - pad.bottom
        iw = (ow - 1) * sx + (kw - 1) * dx + 1 - pad.left - pad.right
        if up != NpuResamplingMode.NONE:
            ih, iw = (ih + 1) // 2, (iw + 1) // 2
        ih, iw = max(ih, 1), max(iw, 1)
        oc = rng.randint(1, 40)
        ic = oc if kind != "conv" else rng.randint(1, 40)
        if kind == "conv":
            op = NpuConv2DOperation()
            op.block_traversal = rng.choice(list(NpuBlockTraversal))
        elif kind == "dw":
            op = NpuConvDepthWiseOperation()
        else:
            op = NpuPoolingOperation(rng.choice(list(NpuPoolingOp)))
            if op.sub_op_type == NpuPoolingOp.REDUCE_SUM:
                oc = 1
        ilay = lay()
        if kind == "pool" and op.sub_op_type == NpuPoolingOp.REDUCE_SUM and accel == NpuAccelerator.Ethos_U65_512:
            ilay = NpuLayout.NHWC
        op.ifm = rnd_fm(rng, NpuShape3D(ih, iw, ic), dt8, ilay, rng.randint(0, 7), base(), tiles=rng.random() < 0.3)
        odt = dt8 if kind != "pool" or op.sub_op_type != NpuPoolingOp.REDUCE_SUM else rng.choice(
            [dt8, NpuDataType.INT32])
        op.ofm = rnd_fm(rng, NpuShape3D(oh, ow, oc), odt, lay(), rng.randint(0, 7), 0x200000 + base(),
                        tiles=rng.random() < 0.3)
        op.kernel = NpuKernel(kw, kh, sx, sy, dx, dy)
        op.padding = pad
        op.ifm_upscale = up
        if kind != "pool":
            nw = rng.randint(1, ncores)
            op.weights = [NpuAddressRange(rng.randint(0, 7), 0x400000 + i * 0x1000 + rng.randint(0, 100) * 16,
                                          rng.randint(1, 100) * 16) for i in range(nw)]
            if rng.random() < 0.8:
                op.biases = [NpuAddressRange(rng.randint(0, 7), 0x500000 + i * 0x1000 + rng.randint(0, 100) * 16,
                                             rng.randint(1, 100) * 16) for i in range(nw)]
    else:
        sub = rng.choice(list(NpuElementWiseOp))
        op = NpuElementWiseOperation(sub)
        dt = rng.choice([NpuDataType.UINT8, NpuDataType.INT8, NpuDataType.INT16, NpuDataType.INT32])
        if sub in (NpuElementWiseOp.CLZ, NpuElementWiseOp.SHL):
            dt = NpuDataType.INT32
        h, w, c = rng.randint(1, 20), rng.randint(1, 20), rng.randint(1, 40)
        op.ifm = rnd_fm(rng, NpuShape3D(h, w, c), dt, lay(), rng.randint(0, 7), base(), tiles=rng.random() < 0.2)
        op.ofm = rnd_fm(rng, NpuShape3D(h, w, c), dt, lay(), rng.randint(0, 7), 0x200000 + base())
        if sub not in UNARY:
            mode = rng.choice(["same", "bcast", "scalar"])
            dt2 = dt if rng.random() < 0.7 else rng.choice([d for d in NpuDataType if d.size_in_bits() ==
                                                           dt.size_in_bits()])
            if mode == "same":
                op.ifm2 = rnd_fm(rng, NpuShape3D(h, w, c), dt2, lay(), rng.randint(0, 7), 0x300000 + base())
            elif mode == "bcast":
                sh = NpuShape3D(rng.choice([1, h]), rng.choice([1, w]), rng.choice([1, c]))
                op.ifm2 = rnd_fm(rng, sh, dt2, lay(), rng.randint(0, 7), 0x300000 + base())
            else:
                op.ifm2 = rnd_fm(rng, NpuShape3D(1, 1, 1), dt2, NpuLayout.NHWC, 0, 0)
                q2 = op.ifm2.quantization
                v = rng.randint(max(dt2.min_value(), -30000), min(dt2.max_value(), 30000))
                op.ifm2_scalar = (v - q2.zero_point) * q2.scale_f32
            op.reversed_operands = rng.random() < 0.3
    op.rounding_mode = rng.choice(list(NpuRoundingMode))
    r = rng.random()
    if r < 0.3:
        op.activation = NpuActivation(NpuActivationOp.NONE_OR_RELU)
        if rng.random() < 0.7:
            op.activation.min = 0.0
        if rng.random() < 0.5:
            op.activation.max = 6.0
    elif r < 0.4:
        op.activation = NpuActivation(NpuActivationOp.TABLE_LOOKUP)
        op.activation.lookup_table_index = rng.randint(0, 7)
    elif r < 0.5 and op.ifm.data_type != NpuDataType.INT32:
        op.activation = NpuActivation(rng.choice([NpuActivationOp.TANH, NpuActivationOp.SIGMOID]))
    try:
        cfgs = npu_find_block_configs(op, accel)
    except AssertionError:
        return None
    op.block_config = rng.choice(cfgs)
    return op


def main():
    seed0 = int(sys.argv[1]) if len(sys.argv) > 1 else 0
    n = int(sys.argv[2]) if len(sys.argv) > 2 else 300
    seen = {}
    for seed in range(seed0, seed0 + n):
        rng = random.Random(seed)
        accel = rng.choice(ACCS)
        ops = []
        for _ in range(rng.randint(1, 6)):
            try:
                op = gen_op(rng, accel)
            except Exception as e:  # generation problem
                print("GEN-EXC", seed, type(e).__name__, e)
                op = None
            if op is not None:
                ops.append(op)
        if not ops:
            continue
        try:
            words = npu_generate_register_command_stream(ops, accel)
        except Exception as e:
            key = f"EXC {type(e).__name__}: {str(e)[:80]}"
            seen.setdefault(key, []).append(seed)
            continue
        for m in check_stream(ops, accel, words):
            key = m.split(":")[0] + ":" + m.split(":")[1][:50]
            seen.setdefault(key, []).append((seed, m))
    for k, v in seen.items():
        print(k, len(v), v[:2])


if __name__ == "__main__":
    main()

"""Observation 3 (UNMODIFIED tree): two fields that do not fit their 16-bit register are silently masked.

(a) NpuFeatureMap documents (api.py) that in the normal single-tile case "height_1 is 0" (and that is the constructor
    default). generate_tiles() writes tiles.height_1 - 1 = -1, i.e. NPU_SET_IFM_HEIGHT1_M1 = 0xFFFF.
(b) An INT32 binary elementwise op with ifm2_scalar outside the int16 range: generate_elementwise_op() only asserts
    that the quantised scalar fits the IFM2 *data type* (int32), NPU_SET_IFM2_SCALAR is a 16-bit field, so 100000 is
    emitted as 34464.
Run: /venv/bin/python out/observation3.py
"""
import os
import sys

sys.path.insert(0, os.getcwd())

from ethosu.vela.api import *  # noqa: E402,F401,F403
from ethosu.vela.api import npu_generate_register_command_stream  # noqa: E402


def fm(h, w, c, addr, dt=NpuDataType.INT8, quant=NpuQuantization(1.0, 0)):
    f = NpuFeatureMap()
    f.data_type = dt
    f.shape = NpuShape3D(h, w, c)
    f.tiles = NpuTileBox(height_0=h, height_1=h, width_0=w, addresses=[addr, 0, 0, 0])
    f.region = 1
    f.quantization = quant
    return f


def cmd0_regs(words):
    i = 0
    r = {}
    while i < len(words):
        code = words[i] & 0xFFFF
        if code & 0x4000:
            i += 2
            continue
        r[code & 0x3FF] = words[i] >> 16
        i += 1
    return r


bad = 0
op = NpuPoolingOperation(NpuPoolingOp.MAX)
op.ifm = fm(8, 8, 16, 0)
op.ifm.tiles = NpuTileBox(height_0=8, height_1=0, width_0=8, addresses=[0, 0, 0, 0])  # as documented in api.py
op.ofm = fm(8, 8, 16, 0x1000)
op.kernel = NpuKernel(1, 1)
op.padding = NpuPadding(0, 0, 0, 0)
op.block_config = NpuShape3D(8, 8, 16)
r = cmd0_regs(npu_generate_register_command_stream([op], NpuAccelerator.Ethos_U55_128))
print(f"(a) IFM_HEIGHT1_M1 = {r[0x10C]:#x} for tiles.height_1 == 0")
bad += r[0x10C] == 0xFFFF

op = NpuElementWiseOperation(NpuElementWiseOp.ADD)
op.ifm = fm(4, 4, 16, 0, NpuDataType.INT32, None)
op.ofm = fm(4, 4, 16, 0x1000, NpuDataType.INT32, None)
op.ifm2 = fm(1, 1, 1, 0, NpuDataType.INT32, None)
op.ifm2_scalar = 100000
op.block_config = NpuShape3D(4, 4, 16)
r = cmd0_regs(npu_generate_register_command_stream([op], NpuAccelerator.Ethos_U55_128))
print(f"(b) IFM2_SCALAR = {r[0x181]} for ifm2_scalar == 100000")
bad += r[0x181] != 100000
if bad:
    print("VIOLATION: value(s) truncated to 16 bits without an error")
sys.exit(1 if bad else 0)

"""Observation 1 (UNMODIFIED tree): get_address_ranges() forgets tile 3 when tile 2 is unused.

A feature map whose left column is a single tile (height_0 == shape.height) but whose right column is split
(height_1 < shape.height, width_0 < shape.width) uses tiles 0, 1 and 3 (get_address() and the hardware both address
rows >= height_1 of the right column through BASE3). get_address_ranges() only builds t3 when both t1 and t2 exist,
so the memory behind BASE3 is not part of the operation's read/written ranges: no DMA_WAIT (and no KERNEL_WAIT,
BLOCKDEP dependency or memory-limit check) is generated for it.

Here a DMA writes 64 bytes at the IFM's tile-3 address immediately before the pooling operation that reads them.
Expected: NPU_OP_DMA_WAIT between NPU_OP_DMA_START and NPU_OP_POOL.  Run: /venv/bin/python out/observation1.py
"""
import os
import sys

sys.path.insert(0, os.getcwd())

from ethosu.vela.api import *  # noqa: E402,F401,F403
from ethosu.vela.api import npu_generate_register_command_stream  # noqa: E402
from ethosu.vela.register_command_stream_util import get_address_ranges  # noqa: E402


def fm(h, w, c, tiles):
    f = NpuFeatureMap()
    f.data_type = NpuDataType.INT8
    f.shape = NpuShape3D(h, w, c)
    f.tiles = tiles
    f.region = 1
    f.layout = NpuLayout.NHWC
    f.quantization = NpuQuantization(1.0, 0)
    return f


def ops_of(words):
    i = 0
    res = []
    while i < len(words):
        code = words[i] & 0xFFFF
        if code & 0x4000:
            i += 2
            continue
        if (code & 0x3FF) < 0x100:
            res.append(code & 0x3FF)
        i += 1
    return res


op = NpuPoolingOperation(NpuPoolingOp.MAX)
# 8x8x16 IFM: tile 0 = left 4 columns, all 8 rows; tile 1 = right 4 columns, rows 0-3; tile 3 = right columns, rows 4-7
op.ifm = fm(8, 8, 16, NpuTileBox(height_0=8, height_1=4, width_0=4, addresses=[0x0, 0x1000, 0x2000, 0x3000]))
op.ofm = fm(8, 8, 16, NpuTileBox(height_0=8, height_1=8, width_0=8, addresses=[0x8000, 0, 0, 0]))
op.kernel = NpuKernel(1, 1)
op.padding = NpuPadding(0, 0, 0, 0)
op.block_config = NpuShape3D(8, 8, 16)
dma = NpuDmaOperation(NpuAddressRange(0, 0x100, 64), NpuAddressRange(1, 0x3000, 64))  # writes IFM tile 3
print("get_address_ranges(ifm):", get_address_ranges(op.ifm))
seq = ops_of(npu_generate_register_command_stream([dma, op], NpuAccelerator.Ethos_U55_128))
print("operation commands:", [hex(c) for c in seq], "(0x10 DMA_START, 0x11 DMA_WAIT, 0x5 POOL, 0x0 STOP)")
if 0x11 not in seq:
    print("VIOLATION: the pool reads BASE3 = 0x3000.. (rows 4-7, columns 4-7) that the DMA is still writing; no DMA_WAIT")
    sys.exit(1)
print("ok")

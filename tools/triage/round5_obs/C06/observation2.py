"""Observation 2 (UNMODIFIED tree): OFM_SCALE overflows 32 bits and is silently masked for un-padded AVERAGE pools
with a kernel larger than 1x1 whose IFM scale is larger than the OFM scale.

generate_ofm_scaling_for_pooling(), final else-branch: rescale_bits is only computed for 1x1 kernels ("kernel height
== kernel width == 1 is always true in this case"), for other kernels quantise_pooling_scale(k*k, 0) already returns a
~32-bit scale which is then multiplied by ifm_scale / ofm_scale; cmd1_with_offset masks the product with 0xFFFFFFFF.
Nothing in the API (nor in the TFLite supported-operator checks for AVERAGE_POOL_2D) requires equal IFM/OFM scales.
Oracle: decoded OFM_SCALE (scale * 2^-shift) must approximate ifm_scale / ofm_scale / (kernel_w * kernel_h).
Run: /venv/bin/python out/observation2.py
"""
import os
import sys

sys.path.insert(0, os.getcwd())

from ethosu.vela.api import *  # noqa: E402,F401,F403
from ethosu.vela.api import npu_generate_register_command_stream  # noqa: E402


def fm(h, w, c, addr, scale):
    f = NpuFeatureMap()
    f.data_type = NpuDataType.INT8
    f.shape = NpuShape3D(h, w, c)
    f.tiles = NpuTileBox(height_0=h, height_1=h, width_0=w, addresses=[addr, 0, 0, 0])
    f.region = 1
    f.layout = NpuLayout.NHWC
    f.quantization = NpuQuantization(scale, 0)
    return f


def ofm_scale(words):
    i = 0
    res = None
    while i < len(words):
        code = words[i] & 0xFFFF
        if code & 0x4000:
            if code & 0x3FF == 0x024:
                res = (words[i + 1], words[i] >> 16)
            i += 2
        else:
            i += 1
    return res


bad = 0
for k, ifm_scale, ofm_scale_f in ((1, 1.0, 0.5), (2, 1.0, 1.0), (2, 1.0, 0.5), (3, 1.0, 0.8), (3, 1.0, 0.5), (5, 1.0, 0.25)):
    op = NpuPoolingOperation(NpuPoolingOp.AVERAGE)
    op.ifm = fm(8 + k - 1, 8 + k - 1, 16, 0, ifm_scale)
    op.ofm = fm(8, 8, 16, 0x4000, ofm_scale_f)
    op.kernel = NpuKernel(k, k)
    op.padding = NpuPadding(0, 0, 0, 0)
    op.block_config = NpuShape3D(8, 8, 16)
    scale, shift = ofm_scale(npu_generate_register_command_stream([op], NpuAccelerator.Ethos_U55_128))
    real, want = scale / 2.0 ** shift, ifm_scale / ofm_scale_f / (k * k)
    ok = abs(real - want) / want < 0.01
    bad += not ok
    print(f"kernel {k}x{k} ifm/ofm scale {ifm_scale / ofm_scale_f:g}: OFM_SCALE=({scale}, shift {shift}) = {real:.6g},"
          f" wanted {want:.6g} {'ok' if ok else 'VIOLATION (scale truncated to 32 bits)'}")
sys.exit(1 if bad else 0)

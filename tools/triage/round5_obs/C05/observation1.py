"""Observation 1 (UNMODIFIED tree): GreedyAllocator overlaps two live buffers when a zero-size live range is live.

GreedyAllocator.alloc walks current_allocs (sorted by address) and sets current_offset = start_addr + lr.size after
every entry.  A zero-size range placed at address 0 sorts *after* a non-empty range that also starts at 0
(tuple tie broken by LiveRange.__lt__), so it resets current_offset back to 0 and the following gap test believes
[0, next_start) is free although the first range still occupies it.

Zero-size ranges cannot come from Tensor.storage_size() (it forces >= 1 byte, rounded to 16) but LiveRange.size is
also written by LiveRange.set_buffer_size(); HillClimb and LinearAlloc handle the same input correctly.
Exits 1 when the overlap is reproduced.
"""
import os
import sys

sys.path.insert(0, os.getcwd())

from ethosu.vela import greedy_allocation  # noqa: E402
from ethosu.vela.data_type import DataType  # noqa: E402
from ethosu.vela.live_range import LiveRangeGraph  # noqa: E402
from ethosu.vela.tensor import Tensor  # noqa: E402

spec = [(2, 4, 0, 16), (0, 4, 32, 16), (4, 4, 32, 16), (3, 4, 16, 16)]  # (start, end, size, alignment)
graph = LiveRangeGraph()
for i, (start, end, size, alignment) in enumerate(spec):
    lr = graph.get_or_create_range(Tensor([max(size, 1)], DataType.uint8, "t%d" % i), alignment)
    lr.start_time, lr.end_time, lr.size = start, end, size
total = greedy_allocation.allocate_live_ranges(graph, 16)
addrs = [lr.tensors[0].address for lr in graph.lrs]
print("addresses", addrs, "total", total)
bad = 0
for i, (s, e, size, _) in enumerate(spec):
    for j in range(i):
        s2, e2, size2, _ = spec[j]
        if max(s, s2) <= min(e, e2) and max(addrs[i], addrs[j]) < min(addrs[i] + size, addrs[j] + size2):
            print(
                "OVERLAP: lr%d [%d,%d) live %d..%d and lr%d [%d,%d) live %d..%d"
                % (i, addrs[i], addrs[i] + size, s, e, j, addrs[j], addrs[j] + size2, s2, e2)
            )
            bad = 1
sys.exit(bad)

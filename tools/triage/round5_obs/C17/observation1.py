"""Observation (unmodified tree): a Vela-optimised model that is compiled again for a DIFFERENT accelerator
keeps its existing ethos-u custom operator, so the output model contains a command-stream tensor whose
configuration action does not match the accelerator the output was generated for (no error, no warning).

Run: cd /tmp/seed5/C17 && /venv/bin/python out/observation1.py
"""
import contextlib
import io
import os
import struct
import sys
import tempfile

sys.path.insert(0, os.getcwd())

import numpy as np  # noqa: E402

from ethosu.vela import tflite_writer  # noqa: E402
from ethosu.vela import vela  # noqa: E402
from ethosu.vela.data_type import DataType  # noqa: E402
from ethosu.vela.nn_graph import Graph  # noqa: E402
from ethosu.vela.nn_graph import Pass  # noqa: E402
from ethosu.vela.nn_graph import PassPlacement  # noqa: E402
from ethosu.vela.nn_graph import Subgraph  # noqa: E402
from ethosu.vela.operation import NpuBlockType  # noqa: E402
from ethosu.vela.operation import Op  # noqa: E402
from ethosu.vela.operation import Operation  # noqa: E402
from ethosu.vela.tensor import create_const_tensor  # noqa: E402
from ethosu.vela.tensor import QuantizationParameters  # noqa: E402
from ethosu.vela.tensor import Tensor  # noqa: E402
from ethosu.vela.tflite.Model import Model  # noqa: E402


def qp():
    q = QuantizationParameters()
    q.scale_f32 = np.float32(0.5)
    q.zero_point = 0
    return q


def build_model():
    shape = [1, 8, 8, 4]
    x = Tensor(shape, DataType.int8, "input")
    x.quantization = qp()
    ph = Operation(Op.Placeholder, "input_ph")
    ph.set_output_tensor(x)
    c = create_const_tensor("c", shape, DataType.int8, np.ones(shape, np.int8), quantization=qp())
    y = Tensor(shape, DataType.int8, "output")
    y.quantization = qp()
    add = Operation(Op.Add, "add")
    add.add_input_tensor(x)
    add.add_input_tensor(c)
    add.set_output_tensor(y)
    add.attrs = {"fused_activation_function": None}
    add.set_ifm_ofm_shapes()
    sg = Subgraph("main", PassPlacement.Cpu)
    for op in (ph, add):
        ps = Pass(op.name, PassPlacement.Cpu, False, NpuBlockType.Default)
        ps.ops = [op]
        ps.primary_op = op
        sg.passes.append(ps)
    sg.input_tensors = [x]
    sg.original_inputs = [x]
    sg.output_tensors = [y]
    nng = Graph("model")
    nng.subgraphs.append(sg)
    return bytes(tflite_writer.write_tflite_buffer(nng))


def compile_model(data, accelerator, name):
    d = tempfile.mkdtemp()
    fn = os.path.join(d, name + ".tflite")
    with open(fn, "wb") as f:
        f.write(data)
    log = io.StringIO()
    with contextlib.redirect_stdout(log):
        rc = vela.main([fn, "--output-dir", os.path.join(d, "out"), "--accelerator-config", accelerator])
    assert rc == 0, log.getvalue()
    with open(os.path.join(d, "out", name + "_vela.tflite"), "rb") as f:
        return f.read(), log.getvalue()


def command_stream_configs(buf):
    m = Model.GetRootAsModel(bytearray(buf), 0)
    sg = m.Subgraphs(0)
    res = []
    for i in range(sg.OperatorsLength()):
        o = sg.Operators(i)
        if m.OperatorCodes(o.OpcodeIndex()).CustomCode() == b"ethos-u":
            payload = m.Buffers(sg.Tensors(o.Inputs(0)).Buffer()).DataAsNumpy().tobytes()
            cfg = struct.unpack("<I", payload[8:12])[0]
            res.append({"product": cfg >> 28, "log2_macs": cfg & 0xF, "shram_kb": (cfg >> 8) & 0xFF})
    return res


first, _ = compile_model(build_model(), "ethos-u65-256", "a")
second, log = compile_model(first, "ethos-u55-64", "b")
print("compiled for ethos-u65-256     :", command_stream_configs(first))
print("recompiled for ethos-u55-64    :", command_stream_configs(second))
print("expected for ethos-u55-64      : [{'product': 0, 'log2_macs': 6, 'shram_kb': 16}]")
print("warnings printed by 2nd compile:", [line for line in log.splitlines() if "arning" in line])

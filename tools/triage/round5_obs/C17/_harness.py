import os, sys, struct, tempfile
sys.path.insert(0, os.getcwd())
import numpy as np
from ethosu.vela import vela
from ethosu.vela.data_type import DataType
from ethosu.vela.nn_graph import Graph, Subgraph, PassPlacement, Pass
from ethosu.vela.operation import NpuBlockType
from ethosu.vela.operation import Op, Operation
from ethosu.vela.tensor import Tensor, QuantizationParameters, create_const_tensor
from ethosu.vela import tflite_writer
from ethosu.vela.tflite.Model import Model


def qp(scale=0.5, zp=0):
    q = QuantizationParameters()
    q.scale_f32 = np.float32(scale)
    q.zero_point = zp
    q.min = None; q.max = None
    return q


def act(name, shape):
    t = Tensor(shape, DataType.int8, name)
    t.quantization = qp()
    return t


def add_op(name, ifm, shape, val=1):
    c = create_const_tensor(name + "_c", shape, DataType.int8, np.full(shape, val, np.int8), quantization=qp())
    ofm = act(name + "_out", shape)
    op = Operation(Op.Add, name)
    op.add_input_tensor(ifm); op.add_input_tensor(c)
    op.set_output_tensor(ofm)
    op.attrs = {"fused_activation_function": None}
    op.set_ifm_ofm_shapes()
    return ofm


def cpu_op(name, ifm, shape, optype=Op.Neg):
    ofm = act(name + "_out", shape)
    op = Operation(optype, name)
    op.add_input_tensor(ifm)
    op.set_output_tensor(ofm)
    return ofm


def build_model(pattern, shape=(1, 8, 8, 4)):
    """pattern: string of 'n' (NPU add) and 'c' (CPU op)"""
    shape = list(shape)
    x = act("input", shape)
    pl = Operation(Op.Placeholder, "input_ph"); pl.set_output_tensor(x)
    t = x
    for i, ch in enumerate(pattern):
        if ch == "n":
            t = add_op(f"add{i}", t, shape, val=i + 1)
        else:
            t = cpu_op(f"cpu{i}", t, shape)
    sg = Subgraph("main", PassPlacement.Cpu)
    ops = []
    tt = t
    while tt.ops and tt.ops[0].type != Op.Placeholder:
        ops.insert(0, tt.ops[0]); tt = tt.ops[0].inputs[0]
    for op in [pl] + ops:
        ps = Pass(op.name, PassPlacement.Cpu, False, NpuBlockType.Default)
        ps.ops = [op]; ps.primary_op = op
        sg.passes.append(ps)
    sg.input_tensors = [x]; sg.output_tensors = [t]
    sg.original_inputs = [x]
    nng = Graph("model"); nng.subgraphs.append(sg)
    return bytes(tflite_writer.write_tflite_buffer(nng))


def compile_model(data, extra_args=(), name="m"):
    d = tempfile.mkdtemp()
    fn = os.path.join(d, name + ".tflite")
    open(fn, "wb").write(data)
    out = os.path.join(d, "out")
    import io, contextlib
    buf = io.StringIO()
    with contextlib.redirect_stdout(buf):
        vela.main([fn, "--output-dir", out] + list(extra_args))
    return open(os.path.join(out, name + "_vela.tflite"), "rb").read()


def command_streams(buf):
    """yield (tensor name, bytes, file offset) of the first input of every ethos-u custom op"""
    m = Model.GetRootAsModel(bytearray(buf), 0)
    res = []
    for si in range(m.SubgraphsLength()):
        sg = m.Subgraphs(si)
        for oi in range(sg.OperatorsLength()):
            o = sg.Operators(oi)
            oc = m.OperatorCodes(o.OpcodeIndex())
            if oc.CustomCode() == b"ethos-u":
                t = sg.Tensors(o.Inputs(0))
                b = m.Buffers(t.Buffer())
                data = b.DataAsNumpy().tobytes()
                res.append((t.Name().decode(), data, [t.Shape(i) for i in range(t.ShapeLength())]))
    return res

if __name__ == "__main__":
    data = build_model(sys.argv[1] if len(sys.argv) > 1 else "n")
    out = compile_model(data, sys.argv[2:])
    for n, d, s in command_streams(out):
        print(n, len(d), s, d[:40].hex())

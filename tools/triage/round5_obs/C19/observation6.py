"""Observation 6 (unmodified tree): compilation aborts while generating EXP tables.
 a) int8 EXP whose dequantised input exceeds 709.78 (ifm_scale * (127 - zp_in) large): math.exp raises
    'OverflowError: math range error' in create_lut_8bit_op (the float32 reference kernel yields +inf -> code 127).
 b) Dequantize(uint8) -> EXP/LOG -> Quantize(uint8): merge_dequant_lut_quant fuses the three into a uint8 EXP/LOG,
    is_operator_supported() accepts it (the 'signed input' constraint lives in the semantic checker, which is not
    re-run) and convert_ops_to_lut hits 'assert False, Unsupported data type uint8'.
 c) Dequantize(int8) -> EXP -> Quantize(uint8)  or  Dequantize(int16) -> EXP -> Quantize(int8): fused as well,
    then convert_to_lut fails on 'assert ifm.dtype == ofm.dtype'."""
exec(open(__file__.replace("observation6.py", "_obs_common.py")).read())

bad = False
try:
    tgo.convert_ops_to_lut(unary_op(Op.Exp, 3.2, -128, 0.0765, 38), ARCH, None)
    print("a) ok")
except OverflowError as e:
    print("a) EXP ifm(scale=3.2, zp=-128):", type(e).__name__, e)
    bad = True


def dq_lut_q(din, dout, op_type):
    x = Tensor(SHAPE, din, "x")
    x.quantization = quant(0.02, np.int64(100 if din == DataType.uint8 else -10), din)
    ph = Operation(Op.Placeholder, "ph")
    ph.set_output_tensor(x)
    f1 = Tensor(SHAPE, DataType.float32, "f1")
    dq = Operation(Op.Dequantize, "dq")
    dq.add_input_tensor(x)
    dq.set_output_tensor(f1)
    dq.set_ifm_ofm_shapes()
    f2 = Tensor(SHAPE, DataType.float32, "f2")
    e = Operation(op_type, "lutop")
    e.add_input_tensor(f1)
    e.set_output_tensor(f2)
    e.set_ifm_ofm_shapes()
    y = Tensor(SHAPE, dout, "y")
    y.quantization = quant(0.05, np.int64(3 if dout == DataType.uint8 else -128), dout)
    q = Operation(Op.Quantize, "q")
    q.add_input_tensor(f2)
    q.set_output_tensor(y)
    q.set_ifm_ofm_shapes()
    sg = Subgraph("main", PassPlacement.Cpu)
    sg.input_tensors = [x]
    sg.output_tensors = [y]
    nng = Graph("g")
    nng.subgraphs.append(sg)
    return nng


for label, din, dout, t in (("b", DataType.uint8, DataType.uint8, Op.Exp), ("b", DataType.uint8, DataType.uint8, Op.Log),
                            ("c", DataType.int8, DataType.uint8, Op.Exp), ("c", DataType.int16, DataType.int8, Op.Exp)):
    try:
        tgo.tflite_optimise_graph(dq_lut_q(din, dout, t), ARCH, False)
        print(f"{label}) {din} -> {t} -> {dout}: ok")
    except AssertionError as e:
        print(f"{label}) Dequantize({din}) -> {t} -> Quantize({dout}): AssertionError {e}")
        bad = True
if bad:
    print("VIOLATION (compilation aborted)")
    sys.exit(1)
print("ok")

"""Observation 4, end to end: compiles  {x -> RELU -> y ; const -> QUANTIZE -> q_out}  with ethosu.vela.vela.main and
prints the zero-point registers of the elementwise Add that copies the folded constant to the subgraph output:
IFM2_ZERO_POINT is the output zero point (-20 = 0xffec) while the IFM2 data is the code 0."""
exec(open(__file__.replace("observation4_e2e.py", "_obs_common.py")).read())
import contextlib  # noqa: E402
import io  # noqa: E402
import tempfile  # noqa: E402

from ethosu.vela import tflite_writer, vela  # noqa: E402
from ethosu.vela.nn_graph import Pass  # noqa: E402
from ethosu.vela.operation import NpuBlockType  # noqa: E402

dt = DataType.int8
si, zi, so, zo = 0.1, np.int64(5), 0.05, np.int64(-20)
vals = np.arange(-64, 64, dtype=np.int8).reshape(SHAPE)
c = create_const_tensor("c", SHAPE, dt, vals, quantization=quant(si, zi))
out = Tensor(SHAPE, dt, "q_out")
out.quantization = quant(so, zo)
q = Operation(Op.Quantize, "quant")
q.add_input_tensor(c)
q.set_output_tensor(out)
q.set_ifm_ofm_shapes()
x = Tensor(SHAPE, dt, "x")
x.quantization = quant(si, zi)
y = Tensor(SHAPE, dt, "y")
y.quantization = quant(si, zi)
r = Operation(Op.Relu, "relu")
r.add_input_tensor(x)
r.set_output_tensor(y)
r.set_ifm_ofm_shapes()
sg = Subgraph("main", PassPlacement.Cpu)
sg.input_tensors = [x]
sg.original_inputs = [x]
sg.output_tensors = [y, out]
for op in (r, q):
    ps = Pass(op.name, PassPlacement.Cpu, False, NpuBlockType.Default)
    ps.ops = [op]
    sg.passes.append(ps)
nng = Graph("g")
nng.subgraphs.append(sg)
d = tempfile.mkdtemp()
path = os.path.join(d, "m.tflite")
tflite_writer.write_tflite(nng, path)
buf = io.StringIO()
with contextlib.redirect_stdout(buf):
    vela.main([path, "--output-dir", d, "--accelerator-config", "ethos-u55-128", "--verbose-register-command-stream"])
seen = False
for line in buf.getvalue().splitlines():
    if any(k in line for k in ("IFM_ZERO_POINT", "IFM2_ZERO_POINT", "OFM_ZERO_POINT", "NPU_OP_ELEMENTWISE", "NPU_OP_POOL")):
        print(line)
        if "IFM2_ZERO_POINT" in line and line.split()[-1] != "0":
            seen = True
if seen:
    print("VIOLATION: the copy adds a 'zero' operand whose zero point is not 0")
    sys.exit(1)
print("ok")

"""Observation 1 (unmodified tree): RSQRT table, input zero point above -128.
create_lut_rsqrt_int8_op special-cases only the input code -128 as 'real 0 -> highest output code'. For any other
input zero point the code equal to the zero point (real 0.0, 1/sqrt = +inf, TFLite's kernel returns kMax for
value == 0) indexes RSQRT_LUT[0] == 0 and gets the code of real 0.0 (= output zero point) instead of 127."""
exec(open(__file__.replace("observation1.py", "_obs_common.py")).read())

si, zi, so, zo = 1 / 64, -100, 1 / 32, -128
op = tgo.convert_ops_to_lut(unary_op(Op.Rsqrt, si, zi, so, zo), ARCH, None)
t = lut_of(op)
got = t[zi + 128]
print(f"RSQRT ifm(scale={si}, zp={zi}) ofm(scale={so}, zp={zo}): table[code {zi}] = {got}; neighbours "
      f"{zi + 1}->{t[zi + 129]}, {zi + 2}->{t[zi + 130]}; expected 127 (saturated +inf / reference kMax)")
if got != 127:
    print("VIOLATION")
    sys.exit(1)
print("ok")

"""Observation 7 (unmodified tree): scaling.quantise_scale returns the multiplier 2**31 (does not fit int32) when
the significand rounds up to 1.0 (scale within 2**-33 below a power of two). TFLite's QuantizeMultiplier handles that
case (q_fixed == 1 << 31 -> q_fixed /= 2, ++shift). With it fp_math.multiply_by_quantized_multiplier raises
OverflowError, e.g. for an int8 LEAKY_RELU with ifm_scale = (1 + 2**-23) * ofm_scale and alpha = 1 - 2**-23
(ifm_scale * alpha / ofm_scale = 1 - 2**-46)."""
exec(open(__file__.replace("observation7.py", "_obs_common.py")).read())
from ethosu.vela import scaling  # noqa: E402

a = np.float32(1 + 2 ** -23)
c = np.float32(1 - 2 ** -23)
scale = float(a) * float(c)
m, s = scaling.quantise_scale(scale)
print(f"quantise_scale({scale!r}) = ({m}, {s});  int32 max = {2 ** 31 - 1}; reference: (1073741824, shift 30)")
bad = m > 2 ** 31 - 1
try:
    tgo.convert_lrelu(unary_op(Op.LeakyRelu, a * np.float32(0.5), 0, 0.5, 0, {"alpha": float(c)}), ARCH, None)
    print("LEAKY_RELU table generated")
except OverflowError as e:
    print("LEAKY_RELU table generation:", type(e).__name__, e)
    bad = True
if bad:
    print("VIOLATION")
    sys.exit(1)
print("ok")

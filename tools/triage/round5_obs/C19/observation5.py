"""Observation 5 (unmodified tree): Maximum(x, Mul(x, c)) -> Abs / LeakyRelu is decided on the raw quantised code of c.
convert_mul_max_to_abs_or_lrelu tests const.values (the stored code) with  val >= 0  /  val == -1  and stores it as
attrs['alpha'], not the dequantised (code - zero_point) * scale:
  a) code 0 with zero point -64, scale 1/256 (alpha = 0.25): attrs['alpha'] == 0 -> convert_lrelu turns it into RELU
  b) code -1 with scale 0.5, zero point 0 (alpha = -0.5): rewritten to ABS although Maximum(x, -0.5 x) != |x|
  c) alpha = 2.0 (code 127, zp -128, scale 2/255): rewritten to a LeakyRelu table (2x below the zero point, x
     above), but Maximum(x, 2x) is x below the zero point and 2x above it."""
exec(open(__file__.replace("observation5.py", "_obs_common.py")).read())


def build(c_code, c_zp, c_scale, s=0.05, zp=3):
    dt = DataType.int8
    x = Tensor(SHAPE, dt, "x")
    x.quantization = quant(s, np.int64(zp))
    ph = Operation(Op.Placeholder, "ph")
    ph.set_output_tensor(x)
    c = create_const_tensor("alpha", [], dt, np.array(c_code, dtype=np.int8), quantization=quant(c_scale, np.int64(c_zp)))
    mul_out = Tensor(SHAPE, dt, "mul_out")
    mul_out.quantization = quant(s, np.int64(zp))
    mul = Operation(Op.Mul, "mul")
    mul.add_input_tensor(x)
    mul.add_input_tensor(c)
    mul.set_output_tensor(mul_out)
    mul.set_ifm_ofm_shapes()
    out = Tensor(SHAPE, dt, "Maximum_out")
    out.quantization = quant(s, np.int64(zp))
    mx = Operation(Op.Maximum, "Maximum")
    mx.add_input_tensor(x)
    mx.add_input_tensor(mul_out)
    mx.set_output_tensor(out)
    mx.set_ifm_ofm_shapes()
    sg = Subgraph("main", PassPlacement.Cpu)
    sg.input_tensors = [x]
    sg.output_tensors = [out]
    nng = Graph("g")
    nng.subgraphs.append(sg)
    return nng


bad = False
for label, c_code, c_zp, c_scale in (("a", 0, -64, 1 / 256), ("b", -1, 0, 0.5), ("c", 127, -128, 2 / 255)):
    nng = tgo.tflite_optimise_graph(build(c_code, c_zp, c_scale), ARCH, False)
    op = nng.subgraphs[0].output_tensors[0].ops[0]
    alpha = (c_code - c_zp) * c_scale
    desc = f"{op.type}" + (" + LUT" if op.activation_lut is not None else "")
    print(f"{label}) real alpha {alpha:+.3f}: Maximum(x, Mul(x, c)) became {desc}")
    if label == "a" and op.type == Op.Relu:
        bad = True
    if label == "b" and op.type == Op.Abs:
        bad = True
    if label == "c" and op.activation_lut is not None:
        t = lut_of(op)
        s, zp = 0.05, 3
        # real function max(x, 2x)
        for x in (-40, -10, 20, 40):
            want = min(127, max(-128, round_away(max(s * (x - zp), alpha * s * (x - zp)) / s) + zp))
            print(f"     code {x}: table {t[x + 128]}, Maximum(x, 2x) = {want}")
            bad = bad or t[x + 128] != want
if bad:
    print("VIOLATION")
    sys.exit(1)
print("ok")

"""Observation 2 (unmodified tree): LOG table with a coarse output scale.
For codes at/below the input zero point convert_ops_to_lut uses log(sys.float_info.min) = -708.4 as stand-in for
log(0) = -inf ('which saturates to the lowest output code'). It does not saturate when -708.4 / ofm_scale + zp_out
is above -128, i.e. for ofm_scale > ~2.78 (with zp_out = 127): those entries become a mid-range code instead of -128."""
exec(open(__file__.replace("observation2.py", "_obs_common.py")).read())

si, zi, so, zo = 1 / 128, 82, 5.618, 127
op = tgo.convert_ops_to_lut(unary_op(Op.Log, si, zi, so, zo), ARCH, None)
t = lut_of(op)
print(f"LOG ifm(scale={si}, zp={zi}) ofm(scale={so}, zp={zo}): codes -128..{zi} (real <= 0, log = -inf) -> {sorted(set(t[: zi + 129]))}, expected [-128]")
print(f"   first positive input code {zi + 1}: {t[zi + 129]} (log({si}) / {so} + {zo} = {math.log(si) / so + zo:.2f})")
if set(t[: zi + 129]) != {-128}:
    print("VIOLATION")
    sys.exit(1)
print("ok")

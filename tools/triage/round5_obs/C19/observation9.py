"""Observation 9 (unmodified tree, microscopic): convert_to_lut8 rounds  zp_out + y / ofm_scale  as a whole
(round_away_zero of the sum) instead of  round(y / ofm_scale) + zp_out  as the reference does (and as
lut.create_lut_8bit_op does). The two differ at exact ties when the sum is negative: SIGMOID with ofm_scale = 1.0 and
a negative output zero point gives, for the input code equal to the input zero point (sigmoid(0) = 0.5),
round_away(-10 + 0.5) = -10 instead of round(0.5) + (-10) = -9."""
exec(open(__file__.replace("observation9.py", "_obs_common.py")).read())

op = tgo.convert_tanh_sigmoid_to_lut(unary_op(Op.Sigmoid, 0.1, 5, 1.0, -10), ARCH, None)
got = lut_of(op)[5 + 128]
want = round_away(0.5 / 1.0) + (-10)
print(f"SIGMOID ofm(scale=1.0, zp=-10): table[code 5 (real 0.0)] = {got}, round(0.5 / 1.0) + zp_out = {want}")
if got != want:
    print("VIOLATION")
    sys.exit(1)
print("ok")

"""Observation 3 (unmodified tree): HARD_SWISH table when ofm_scale <= ifm_scale / 128.
Then the output multiplier (ifm_scale / 128 / ofm_scale) is >= 1, its exponent is > 0; TFLite's HardSwishPrepare
rejects that (TF_LITE_ENSURE(output_multiplier_exponent <= 0)). convert_hardswish_to_lut silently drops the left
shift (shift = 0), the operator passes the semantic and supported-operator checks, and the table is off by up to
hundreds of codes from x * relu6(x + 3) / 6."""
exec(open(__file__.replace("observation3.py", "_obs_common.py")).read())
from ethosu.vela.tflite_model_semantic import TFLiteSemantic  # noqa: E402
from ethosu.vela.tflite_supported_operators import TFLiteSupportedOperators  # noqa: E402

si, zi, so, zo = 1.0, 0, 1 / 512, 0
op = unary_op(Op.HardSwish, si, zi, so, zo)
print("semantic check:", TFLiteSemantic().is_operator_semantic_valid(op), " supported on NPU:", TFLiteSupportedOperators().is_operator_supported(op))
t = lut_of(tgo.convert_hardswish_to_lut(op, ARCH, None))
worst = 0
for idx, x in enumerate(range(-128, 128)):
    xr = si * (x - zi)
    want = min(127, max(-128, round_away(xr * min(6.0, max(0.0, xr + 3.0)) / 6.0 / so) + zo))
    if abs(t[idx] - want) > worst:
        worst = abs(t[idx] - want)
        print(f"  code {x} (real {xr}): table {t[idx]}, real function {want}")
print("largest error", worst, "codes")
if worst > 1:
    print("VIOLATION")
    sys.exit(1)
print("ok")

"""Observation 8 (unmodified tree): optimise_quantize with a Python-int zero point (graphs built through the Python
classes; the TFLite reader delivers numpy.int64 and is not affected): 'val - ifm.quantization.zero_point' is evaluated
in int8 (NEP 50: np.int8 - Python int -> np.int8) and wraps, e.g. 127 - (-54) -> -75, so the folded constants are wrong
(RuntimeWarning 'overflow encountered in scalar subtract' is the only sign)."""
exec(open(__file__.replace("observation8.py", "_obs_common.py")).read())
import warnings  # noqa: E402

vals = np.array([127, 100, 0, -128], dtype=np.int8)
s, zi, zo = 0.0772, -54, 0
c = create_const_tensor("c", [4], DataType.int8, vals, quantization=quant(s, zi))
out = Tensor([4], DataType.int8, "o")
out.quantization = quant(s, zo)
q = Operation(Op.Quantize, "q")
q.add_input_tensor(c)
q.set_output_tensor(out)
q.set_ifm_ofm_shapes()
q.run_on_npu = True
with warnings.catch_warnings(record=True) as w:
    warnings.simplefilter("always")
    r = tgo.optimise_quantize(q, ARCH, None)
got = [int(v) for v in r.ofm.values]
want = [min(127, max(-128, int(v) - zi + zo)) for v in vals]  # same scale: out = in - zp_in + zp_out, saturated
print("folded:", got, "reference:", want, "warnings:", [str(x.message) for x in w][:1])
if got != want:
    print("VIOLATION")
    sys.exit(1)
print("ok")

"""Observation 3 (unmodified tree): MEAN that satisfies every listed constraint is kept on the CPU.

Listed MEAN constraint: "If Width axis is reduced its shape must be no greater than 4096."
TFLiteSupportedOperators.constraint_mean_width tests `w <= 4096` unconditionally - it never looks at the axis tensor.
MEAN over the *height* axis only of an int8 [1,4,5000,2] tensor (width is not reduced, product of reduced axes = 4,
depth not reduced) therefore satisfies the report but is rejected ("Width is 5000") and left on the CPU.
"""
import os
import sys

sys.path.insert(0, os.getcwd())
sys.path.insert(0, os.path.dirname(os.path.abspath(__file__)))
from kit import *  # noqa: E402,F401,F403  (out/kit.py: tiny model builder + compile_model helper)
from ethosu.vela.operation import Padding  # noqa: E402


def quiet_compile(buf, accel="ethos-u55-128", extra=()):
    devnull = os.open(os.devnull, os.O_WRONLY)
    saved = os.dup(1)
    os.dup2(devnull, 1)
    try:
        return compile_model(buf, accel, extra)
    finally:
        os.dup2(saved, 1)


def warnings_of(out):
    return [ln for ln in out.splitlines() if ln.startswith("Warning") or ln.startswith(" - ")]


def mean_model(ifm_shape, axes):
    x = act("x", ifm_shape)
    ofm_shape = [1 if i in axes else d for i, d in enumerate(ifm_shape)]
    y = act("y", ofm_shape)
    ax = const("axis", [len(axes)], DataType.int32, axes)
    return build([mkop(Op.Mean, "y", [x, ax], y, {"keep_dims": True})], [x], [y])


bad = False
for shape, axes, expect_npu in (([1, 4, 4096, 2], [1], True), ([1, 4, 5000, 2], [1], True), ([1, 4, 5000, 2], [2], False)):
    ops, out, _ = quiet_compile(mean_model(shape, axes))
    on_npu = "MEAN" not in ops
    print(f"MEAN ifm {shape} axes {axes}: listed constraints say {'NPU' if expect_npu else 'CPU'}, output operators {ops}")
    for ln in warnings_of(out):
        print("    " + ln)
    bad |= on_npu != expect_npu
print("VIOLATION" if bad else "as expected by C16")
sys.exit(1 if bad else 0)

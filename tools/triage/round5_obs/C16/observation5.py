"""Observation 5 (unmodified tree): the generated supported-operators report does not list exactly what is enforced.

 i)   CONV_2D / DEPTHWISE_CONV_2D with int8 (or int16) IFM and a non-zero weight zero point is put on the CPU by
      tflite_graph_optimiser.check_asymmetric_weights ("... has asymmetric weights. To run the operator on Ethos-U use
      the option --force-symmetric-int-weights").  No line of `vela --supported-ops-report` mentions weight zero points,
      so an operator inside every listed constraint stays on the CPU.
 ii)  CONV_2D, listed: "Stride w must be between 1 and 3 ... or stride w must be divisible by 2 or 3 and ifm width must be
      divisible by stride_w/2 or stride_w/3".  stride_w = 5 with IFM width 30 is neither, yet it is accepted
      (utils.calc_resize_factor accepts every stride that divides the IFM width) and placed on the NPU.
 iii) SHAPE of a float32 tensor violates the generic "Tensors must be of type: int16, int32, int8, uint8" (SHAPE is not
      exempt), but convert_shape_op_to_constant_tensor runs before the supported-operator check and folds it away: the
      operator does not stay on the CPU.
 iv)  SOFTMAX, listed: "Beta value needs to be positive"; beta = 0.0 is accepted (the code tests beta >= 0).
"""
import os
import sys

sys.path.insert(0, os.getcwd())
sys.path.insert(0, os.path.dirname(os.path.abspath(__file__)))
from kit import *  # noqa: E402,F401,F403  (out/kit.py: tiny model builder + compile_model helper)
from ethosu.vela.operation import Padding  # noqa: E402


def quiet_compile(buf, accel="ethos-u55-128", extra=()):
    devnull = os.open(os.devnull, os.O_WRONLY)
    saved = os.dup(1)
    os.dup2(devnull, 1)
    try:
        return compile_model(buf, accel, extra)
    finally:
        os.dup2(saved, 1)


def warnings_of(out):
    return [ln for ln in out.splitlines() if ln.startswith("Warning") or ln.startswith(" - ")]

import contextlib  # noqa: E402
import io  # noqa: E402
import tempfile  # noqa: E402

from ethosu.vela import vela  # noqa: E402

I8, I32, F32 = DataType.int8, DataType.int32, DataType.float32


def conv(ifm_w=8, stride_w=1, k=3, wzp=0, pad=Padding.SAME):
    ofm_w = -(-ifm_w // stride_w) if pad == Padding.SAME else (ifm_w - k) // stride_w + 1
    x = act("x", [1, 8, ifm_w, 4])
    y = act("y", [1, 8 if pad == Padding.SAME else 8 - k + 1, ofm_w, 4])
    w = const("w", [4, k, k, 4], I8, np.ones([4, k, k, 4]), scale=0.5, zp=wzp)
    b = const("b", [4], I32, np.zeros([4]), scale=0.25, zp=0)
    attrs = {"dilation_h_factor": 1, "dilation_w_factor": 1, "fused_activation_function": None,
             "padding": pad, "stride_h": 1, "stride_w": stride_w}
    return build([mkop(Op.Conv2DBias, "y", [x, w, b], y, attrs)], [x], [y])


def shape_f32():
    x = act("x", [1, 8, 8, 4], F32, quant=False)
    y = act("y", [4], I32, quant=False)
    return build([mkop(Op.Shape, "y", [x], y, {"out_type": I32})], [x], [y])


def softmax(beta):
    x = act("x", [1, 8])
    y = act("y", [1, 8])
    return build([mkop(Op.Softmax, "y", [x], y, {"beta": beta})], [x], [y])


with tempfile.TemporaryDirectory() as d:
    cwd = os.getcwd()
    os.chdir(d)
    with contextlib.redirect_stdout(io.StringIO()):
        vela.generate_supported_ops()
    report = open("SUPPORTED_OPS.md").read()
    os.chdir(cwd)
bad = 0
ops, out, _ = quiet_compile(conv(wzp=3))
mentions = any(s in report.lower() for s in ("zero point", "zero_point", "asymmetric", "symmetric"))
print(f"i)   CONV_2D int8, weight zero point 3: output operators {ops}; report mentions weight zero points: {mentions}")
bad += "CONV_2D" in ops and not mentions
ops, out, _ = quiet_compile(conv(ifm_w=30, stride_w=5, k=1, pad=Padding.VALID))
print(f"ii)  CONV_2D stride_w 5, IFM width 30: output operators {ops} (listed text: stride w in 1..3 or divisible by 2 or 3)")
bad += "CONV_2D" not in ops
ops, out, _ = quiet_compile(shape_f32())
print(f"iii) SHAPE of a float32 tensor: output operators {ops} (listed: tensors must be int8/uint8/int16/int32)")
bad += "SHAPE" not in ops
ops, out, _ = quiet_compile(softmax(0.0))
print(f"iv)  SOFTMAX beta 0.0: output operators {ops} (listed: beta value needs to be positive)")
bad += "SOFTMAX" not in ops
print(f"{bad} of 4 cases disagree with the report")
sys.exit(1 if bad else 0)

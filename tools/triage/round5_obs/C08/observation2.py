"""C08 observation 2 (UNMODIFIED tree): a CONV_2D and a TRANSPOSE_CONV that use the SAME weight tensor ("tied
weights", both operators take OHWI weights) get the same encoded weight tensor from the process-wide
CompressedWeightCache, although a fresh encoding differs: encode_weight_and_scale_tensor flips the kernel in H and W
for Op.Conv2DBackpropInputSwitchedBias only, and the cache key (block type = ConvolutionMxN for both, block depth,
depth slices, dilation, value_id) does not contain the operator kind.  tflite_reader clones the shared tensor once
per operator with clone_and_reshape_tensor(..., set_unique=False), so both clones keep the same value_id.
Whichever operator is encoded second reads a stream with the wrong kernel orientation.

Part 1 shows it with two direct calls of weight_compressor.encode_weight_and_scale_tensor, part 2 end to end.
Exits 1 (prints FAIL) when the violation is present, 0 otherwise.
"""
import os
import sys
import tempfile
import types

sys.path.insert(0, os.getcwd())

import numpy as np  # noqa: E402

from ethosu import mlw_codec  # noqa: E402
from ethosu.vela import compiler_driver  # noqa: E402
from ethosu.vela import high_level_command_to_npu_op as h2n  # noqa: E402
from ethosu.vela import model_reader  # noqa: E402
from ethosu.vela import scheduler  # noqa: E402
from ethosu.vela import tflite_writer  # noqa: E402
from ethosu.vela import weight_compressor as wc  # noqa: E402
from ethosu.vela.api import NpuBlockTraversal  # noqa: E402
from ethosu.vela.api import NpuConv2DOperation  # noqa: E402
from ethosu.vela.api import NpuConvDepthWiseOperation  # noqa: E402
from ethosu.vela.architecture_features import ArchitectureFeatures  # noqa: E402
from ethosu.vela.data_type import DataType  # noqa: E402
from ethosu.vela.debug_database import DebugDatabase  # noqa: E402
from ethosu.vela.high_level_command_stream import DMA  # noqa: E402
from ethosu.vela.nn_graph import Graph  # noqa: E402
from ethosu.vela.nn_graph import PassPlacement  # noqa: E402
from ethosu.vela.nn_graph import Subgraph  # noqa: E402
from ethosu.vela.operation import Op  # noqa: E402
from ethosu.vela.operation import Operation  # noqa: E402
from ethosu.vela.operation import Padding  # noqa: E402
from ethosu.vela.tensor import create_const_tensor  # noqa: E402
from ethosu.vela.tensor import QuantizationParameters  # noqa: E402
from ethosu.vela.tensor import Tensor  # noqa: E402
from ethosu.vela.tensor import TensorAddressMap  # noqa: E402
from ethosu.vela.tensor import TensorPurpose  # noqa: E402
from ethosu.vela.tensor_allocation import TensorAllocator  # noqa: E402


def round_up(a, b):
    return ((a + b - 1) // b) * b


def hw_stream_order(ohwi, ifm_ublock, ofm_ublock, ofm_block_depth, is_depthwise, is_partkernel):
    """Order in which the hardware consumes 8-bit weights of one core (undilated kernels, 8x8 sub-kernels)."""
    ofm_depth, kh, kw, ifm_depth = ohwi.shape
    out = []
    ifm_block_depth = 16 if is_partkernel else 32
    for ofm_block_z in range(0, ofm_depth, ofm_block_depth):
        clipped_ofm = min(ofm_block_depth, ofm_depth - ofm_block_z)
        for ifm_block_z in range(0, 1 if is_depthwise else ifm_depth, ifm_block_depth):
            if is_depthwise:
                clipped_ifm = ifm_ublock
            elif is_partkernel:
                clipped_ifm = min(ifm_block_depth, ifm_depth - ifm_block_z)
            else:
                clipped_ifm = ifm_block_depth
            for sky in range(0, kh, 8):
                sub_h = min(kh - sky, 8)
                for skx in range(0, kw, 8):
                    sub_w = min(kw - skx, 8)
                    n_el = sub_w * sub_h
                    if is_partkernel or is_depthwise:
                        n_el = round_up(n_el, 4)
                    outer = clipped_ifm if is_partkernel else 1
                    inner = 1 if is_partkernel else clipped_ifm
                    for ifm_outer in range(0, outer, ifm_ublock):
                        for ofm_ublk in range(0, clipped_ofm, ofm_ublock):
                            for element in range(n_el):
                                kx, ky = element % sub_w, element // sub_w
                                for ifm_inner in range(0, inner, ifm_ublock):
                                    for oz in range(ofm_ublock):
                                        for iz in range(1 if is_depthwise else ifm_ublock):
                                            ifm_z = ifm_block_z + ifm_inner + ifm_outer + iz
                                            ofm_z = ofm_block_z + ofm_ublk + oz
                                            if ifm_z < ifm_depth and ofm_z < ofm_depth and ky < sub_h:
                                                out.append(int(ohwi[ofm_z, sky + ky, skx + kx, ifm_z]))
                                            else:
                                                out.append(0)
    return out


def qp(scale, zp):
    q = QuantizationParameters()
    q.scale_f32 = scale
    q.zero_point = zp
    return q


def compile_model(data, accelerator):
    DebugDatabase.clean_db()
    TensorAddressMap.clear_address_map()
    wc.CompressedWeightCache.clear()
    arch = ArchitectureFeatures(
        vela_config_files=None,
        system_config=ArchitectureFeatures.DEFAULT_CONFIG,
        memory_mode=ArchitectureFeatures.DEFAULT_CONFIG,
        accelerator_config=accelerator,
        max_blockdep=ArchitectureFeatures.MAX_BLOCKDEP,
        verbose_config=False,
        arena_cache_size=None,
    )
    with tempfile.TemporaryDirectory(prefix="c08_") as outdir:
        options = compiler_driver.CompilerOptions(tensor_allocator=TensorAllocator.HillClimb, output_dir=outdir)
        sched_options = scheduler.SchedulerOptions(
            optimization_strategy=scheduler.OptimizationStrategy.Performance,
            sram_target=arch.arena_cache_size,
            verbose_schedule=False,
        )
        nng, network_type = model_reader.read_tflite_model(bytearray(data), model_reader.ModelReaderOptions())
        compiler_driver.compiler_driver(nng, arch, options, sched_options, network_type, os.path.join(outdir, "m"))
    return nng, arch


def weights_seen_by_npu(nng, arch):
    """Replays the weight DMAs and yields (cmd, npu_op, core, channels, decoded weight stream, encoded tensor name)
    for every convolution / depthwise stripe of the compiled network."""
    for sg in nng.subgraphs:
        if sg.placement != PassPlacement.Npu:
            continue
        flash = bytearray(sg.flash_tensor.values.astype(np.uint8).tobytes())
        mem = {}

        def region(idx, need, mem=mem):
            m = mem.setdefault(idx, bytearray())
            if len(m) < need:
                m.extend(b"\xa5" * (need - len(m)))
            return m

        for cmd in sg.high_level_command_stream:
            npu_op = h2n.convert_command_to_npu_op(cmd, arch)
            if isinstance(cmd, DMA):
                if cmd.in_tensor.purpose != TensorPurpose.Weights:
                    continue
                src, dst = npu_op.src, npu_op.dest
                if src.region not in mem:
                    mem[src.region] = bytearray(flash)
                data = region(src.region, src.address + src.length)[src.address : src.address + src.length]
                region(dst.region, dst.address + dst.length)[dst.address : dst.address + dst.length] = data
                continue
            if not isinstance(npu_op, (NpuConv2DOperation, NpuConvDepthWiseOperation)):
                continue
            if cmd.weight_tensor.src_tensor is None and npu_op.weights[0].region not in mem:
                mem[npu_op.weights[0].region] = bytearray(flash)
            start, end = int(cmd.ofm_box.start_coord[-1]), int(cmd.ofm_box.end_coord[-1])
            encoded = cmd.weight_tensor.src_tensor or cmd.weight_tensor
            for core in range(len(npu_op.weights)):
                chans = list(range(start + core, end, arch.ncores))
                wr = npu_op.weights[core]
                wm = region(wr.region, wr.address + wr.length)
                decoded = list(mlw_codec.decode(bytearray(wm[wr.address : wr.address + wr.length])))
                yield cmd, npu_op, core, chans, decoded, encoded.name


from ethosu.vela import architecture_features  # noqa: E402
from ethosu.vela.architecture_allocator import ArchitectureBlockConfig  # noqa: E402
from ethosu.vela.operation import Kernel  # noqa: E402
from ethosu.vela.shape4d import Shape4D  # noqa: E402
from ethosu.vela.tensor import TensorFormat  # noqa: E402


def direct_calls():
    rng = np.random.default_rng(5)
    arch = architecture_features.create_default_arch(architecture_features.Accelerator.Ethos_U55_128)
    wvals = rng.integers(-127, 128, size=[3, 3, 16, 16]).astype(np.int8)  # Vela layout HWIO
    weights = create_const_tensor("W", [3, 3, 16, 16], DataType.int8, wvals, quantization=qp(np.float32(0.01), 0))
    weights.values = wvals
    weights.purpose = TensorPurpose.Weights
    ops = []
    for op_type in (Op.Conv2DBias, Op.Conv2DBackpropInputSwitchedBias):
        ifm = Tensor([1, 8, 8, 16], DataType.int8, "ifm")
        ifm.quantization = qp(np.float32(0.5), 0)
        ofm = Tensor([1, 8, 8, 16], DataType.int8, "ofm")
        ofm.quantization = qp(np.float32(0.25), 0)
        bias = create_const_tensor("b", [16], DataType.int32, list(range(16)), quantization=qp(np.float32(1.0), 0))
        bias.purpose = TensorPurpose.FSBias
        bias.format = TensorFormat.NHWC
        op = Operation(op_type, op_type.name)
        op.add_input_tensor(ifm)
        op.add_input_tensor(weights)
        if op_type == Op.Conv2DBackpropInputSwitchedBias:
            op.add_input_tensor(create_const_tensor("oshape", [4], DataType.int32, [1, 8, 8, 16]))
        op.add_input_tensor(bias)
        op.set_output_tensor(ofm)
        ops.append((op, bias))
    bc = ArchitectureBlockConfig()
    bc.ofm_block = Shape4D(1, 2, 2, 16)
    bc.ifm_block = Shape4D(1, 2, 2, 32)
    bad = 0
    for order in (ops, ops[::-1]):
        wc.CompressedWeightCache.clear()
        for op, bias in order:
            wt, _ = wc.encode_weight_and_scale_tensor(arch, op, weights, bias, Kernel(3, 3), bc, [0, 16])
            r = wt.encoded_ranges[wc.WeightKey(0, 0)]
            stream = bytearray(bytes(wt.buffer)[r.offset + r.weight_offset : r.offset + r.weight_offset + r.weight_bytes])
            decoded = list(mlw_codec.decode(stream))
            ohwi = np.transpose(wvals.astype(np.int64), (3, 0, 1, 2))
            if op.type == Op.Conv2DBackpropInputSwitchedBias:
                ohwi = ohwi[:, ::-1, ::-1, :]
            is_pk = wt.hw_traversal == NpuBlockTraversal.PART_KERNEL_FIRST
            expected = hw_stream_order(ohwi, 8, 8, 16, False, is_pk)
            ok = decoded[: len(expected)] == expected and not any(decoded[len(expected) :])
            bad += not ok
            print(f"direct call, {op.type.name}: {'ok' if ok else 'cached encoding of the OTHER operator kind returned'}")
    return bad


def build(order):
    rng = np.random.default_rng(3)
    sg = Subgraph()
    nng = Graph()
    ifm = Tensor([1, 8, 8, 16], DataType.int8, "input")
    ifm.quantization = qp(np.float32(0.05), 0)
    ph = Operation(Op.Placeholder, "ph")
    ph.set_output_tensor(ifm)
    wv = rng.integers(-127, 128, size=[16, 3, 3, 16]).astype(np.int8)  # TensorFlow Lite OHWI
    weights = create_const_tensor("W", [16, 3, 3, 16], DataType.int8, wv, quantization=qp(np.float32(0.01), 0))
    weights.values = wv
    ops = [ph]
    cur = ifm
    for kind in order:
        bv = rng.integers(-1000, 1000, size=[16]).astype(np.int32)
        bias = create_const_tensor(kind + "_b", [16], DataType.int32, bv, quantization=qp(np.float32(1.0), 0))
        if kind == "conv":
            ofm = Tensor([1, cur.shape[1], cur.shape[2], 16], DataType.int8, kind + "_out")
            op = Operation(Op.Conv2DBias, kind)
            op.add_input_tensor(cur)
            op.add_input_tensor(weights)
            op.add_input_tensor(bias)
            op.attrs = {
                "padding": Padding.SAME,
                "stride_h": 1,
                "stride_w": 1,
                "strides": (1, 1, 1, 1),
                "dilation_h_factor": 1,
                "dilation_w_factor": 1,
                "dilation": (1, 1, 1, 1),
                "fused_activation_function": None,
            }
        else:
            ofm = Tensor([1, cur.shape[1] * 2, cur.shape[2] * 2, 16], DataType.int8, kind + "_out")
            op = Operation(Op.Conv2DBackpropInput, kind)
            op.add_input_tensor(create_const_tensor(kind + "_oshape", [4], DataType.int32, ofm.shape))
            op.add_input_tensor(weights)
            op.add_input_tensor(cur)
            op.add_input_tensor(bias)
            op.attrs = {
                "padding": Padding.SAME,
                "stride_h": 2,
                "stride_w": 2,
                "strides": (1, 2, 2, 1),
                "fused_activation_function": None,
            }
        ofm.quantization = qp(np.float32(0.05), 0)
        op.set_output_tensor(ofm)
        ops.append(op)
        cur = ofm
    sg.input_tensors = [ifm]
    sg.original_inputs = [ifm]
    sg.output_tensors = [cur]
    sg.passes = [types.SimpleNamespace(ops=ops)]
    nng.subgraphs.append(sg)
    return bytes(tflite_writer.write_tflite_buffer(nng)), wv.astype(np.int64)


def end_to_end():
    bad = 0
    for order in (("conv", "tconv"), ("tconv", "conv")):
        data, ohwi_all = build(order)
        for accelerator in ("ethos-u55-128", "ethos-u65-512"):
            nng, arch = compile_model(data, accelerator)
            cfg = ArchitectureFeatures.accelerator_configs[arch.accelerator_config]
            for cmd, npu_op, core, chans, decoded, encoded_name in weights_seen_by_npu(nng, arch):
                name = cmd.ps.primary_op.name.rsplit("_out", 1)[0]
                ohwi = ohwi_all[chans]
                if name == "tconv":
                    ohwi = ohwi[:, ::-1, ::-1, :]  # transpose convolution: kernel rotated by 180 degrees
                is_pk = npu_op.block_traversal == NpuBlockTraversal.PART_KERNEL_FIRST
                core_bd = (npu_op.block_config.depth + arch.ncores - 1 - core) // arch.ncores
                expected = hw_stream_order(ohwi, cfg.ifm_ublock.depth, cfg.ofm_ublock.depth, core_bd, False, is_pk)
                ok = decoded[: len(expected)] == expected and not any(decoded[len(expected) :])
                bad += not ok
                print(
                    f"{accelerator} order {order}: {name} core {core} uses '{encoded_name}': "
                    f"{'ok' if ok else 'WRONG kernel orientation'}"
                )
    return bad


def main():
    bad = direct_calls() + end_to_end()
    if bad:
        print("FAIL: %d weight streams were reused from the other operator kind" % bad)
        return 1
    print("PASS")
    return 0


if __name__ == "__main__":
    sys.exit(main())

import os, sys
sys.path.insert(0, os.getcwd()); sys.path.insert(0, os.path.join(os.getcwd(), "out"))
from kit import *

def m1(seed=0):
    n = Net("m1", seed)
    x = n.input([1, 16, 16, 8])
    a = n.conv(x, 16)
    b = n.dwconv(a)
    c = n.conv(b, 16, k=1)
    d = n.add(a, c)
    e = n.pool(d)
    f = n.unary(e, Op.Tanh)
    g = n.reshape(f, [1, 8*8*16])
    h = n.fc(g, 10)
    s = n.unary(h, Op.Softmax)
    return n.build([s])

def m2(seed=1):
    # bigger: forces weight buffering / cascades; two branches, concat, sigmoid + tanh (two LUTs)
    n = Net("m2", seed)
    x = n.input([1, 48, 48, 16])
    a = n.conv(x, 32, k=3)
    b1 = n.conv(a, 32, k=3, act=Op.Relu)
    b2 = n.dwconv(a, k=3)
    t1 = n.unary(b1, Op.Tanh)
    t2 = n.unary(b2, Op.Sigmoid)
    c = n.concat([b1, b2])
    d = n.conv(c, 64, k=1, act=Op.Relu6)
    e = n.pool(d, Op.AvgPool)
    f = n.conv(e, 96, k=3, stride=2)
    g = n.add(n.unary(f, Op.Tanh), f)
    return n.build([g, t1, t2])

def m3(seed=2):
    # shared weights (same values) in two convs + cpu op in the middle (two npu subgraphs)
    n = Net("m3", seed)
    x = n.input([1, 12, 12, 8])
    a = n.conv(x, 8, wseed=7)
    b = n.conv(a, 8, wseed=7)
    h = n.reshape(b, [1, 12*12*8])
    s = n.unary(h, Op.Softmax)
    r = n.reshape(s, [1, 12, 12, 8])
    c = n.conv(r, 8, wseed=7)
    d = n.unary(c, Op.LeakyRelu)
    return n.build([d])

def m4(seed=3):
    # many small elementwise ops with similarly sized tensors (ties in allocators), int16 path
    n = Net("m4", seed)
    x = n.input([1, 8, 8, 16])
    y = n.input([1, 8, 8, 16])
    ts = []
    a = n.add(x, y)
    b = n.add(x, a, optype=Op.Mul)
    c = n.add(a, b, optype=Op.Sub)
    d = n.add(b, c, optype=Op.Maximum)
    e = n.add(c, d, optype=Op.Minimum)
    f = n.add(d, e)
    g = n.add(e, f)
    h = n.add(f, a)
    return n.build([g, h])

def m5(seed=4):
    # large FC -> big weights, multiple
    n = Net("m5", seed)
    x = n.input([1, 512])
    a = n.fc(x, 256, act=Op.Relu)
    b = n.fc(a, 256)
    c = n.unary(b, Op.Tanh)
    d = n.fc(c, 64)
    e = n.unary(d, Op.Sigmoid)
    return n.build([e])

def m6(seed=5):
    # deep chain to trigger cascading with big fm
    n = Net("m6", seed)
    x = n.input([1, 96, 96, 8])
    a = n.conv(x, 16, k=3, stride=2)
    b = n.dwconv(a, 3)
    c = n.conv(b, 24, k=1)
    d = n.dwconv(c, 3, stride=2)
    e = n.conv(d, 32, k=1, act=Op.Relu)
    f = n.dwconv(e, 3)
    g = n.conv(f, 32, k=1)
    h = n.add(e, g)
    i = n.pool(h, Op.AvgPool, k=2, stride=2)
    return n.build([i])

def m7(seed=6):
    # dilated conv + valid padding + uint8
    n = Net("m7", seed)
    x = n.input([1, 20, 20, 4])
    a = n.conv(x, 8, k=3, dil=2, padding=Padding.VALID)
    b = n.conv(a, 8, k=3, dil=4, padding=Padding.VALID)
    c = n.pool(b, Op.MaxPool, k=3, stride=1, padding=Padding.SAME)
    return n.build([c])

def m8(seed=7):
    # 1D convolutions (height 1): audio style
    n = Net("m8", seed)
    x = n.input([1, 1, 64, 16])
    a = n.conv(x, 32, k=(1, 3))
    b = n.conv(a, 32, k=(1, 5), act=Op.Relu)
    c = n.conv(b, 16, k=(1, 1))
    return n.build([c])

def m9(seed=8, samename=True):
    # parallel identical branches, all tensors share one name (stripped model)
    n = Net("m9", seed)
    if samename:
        n.uid = lambda base: "t"
    x = n.input([1, 8, 8, 16])
    br = []
    for i in range(6):
        a = n.conv(x, 16, k=1, wseed=100 + i)
        b = n.unary(a, Op.Tanh if i % 2 else Op.Sigmoid)
        br.append(b)
    s1 = n.add(br[0], br[1])
    s2 = n.add(br[2], br[3])
    s3 = n.add(br[4], br[5])
    s4 = n.add(s1, s2)
    s5 = n.add(s4, s3)
    return n.build([s5])

def m10(seed=9):
    # two graph inputs with the same name and size feeding one Add (+ a Mul so both stay live equally long)
    n = Net("m10", seed)
    x = n.input([1, 8, 8, 16], name="in")
    y = n.input([1, 8, 8, 16], name="in")
    a = n.add(x, y)
    b = n.add(x, y, optype=Op.Mul)
    c = n.add(a, b)
    return n.build([c])

def m11(seed=10):
    # CPU ops in the middle -> several NPU subgraphs; same LUT (tanh, same quantisation) in each of them; pad; mean
    n = Net("m11", seed)
    x = n.input([1, 12, 12, 8])
    a = n.conv(x, 8, wseed=7)
    t1 = n.unary(a, Op.Tanh)
    f = n.unary(t1, Op.Floor)
    b = n.conv(f, 8, wseed=7)
    t2 = n.unary(b, Op.Tanh)
    g = n.unary(t2, Op.Elu)
    c = n.conv(g, 8, wseed=8)
    t3 = n.unary(c, Op.Tanh)
    return n.build([t3])

def m12(seed=11):
    # FC without bias, Pad, Mean: compiler generated constants with value-keyed ids
    n = Net("m12", seed)
    x = n.input([1, 10, 10, 8])
    padv = n.const(np.array([[0, 0], [1, 1], [2, 2], [0, 0]]), DataType.int32)
    p = n.fm([1, 12, 14, 8], DataType.int8, 0.05, 0)
    n.op(Op.Pad, [x, padv], p, {}, version=1)
    a = n.conv(p, 8, k=3, padding=Padding.VALID)
    ax = n.const(np.array([1, 2]), DataType.int32)
    m = n.fm([1, 8], DataType.int8, 0.05, 0)
    n.op(Op.Mean, [a, ax], m, {"keep_dims": False}, version=1)
    w = n.const(n.rng.randint(-127, 128, size=(8, 8)), DataType.int8, 0.004, 0)
    o = n.fm([1, 8], DataType.int8, 0.09)
    n.op(Op.FullyConnected, [m, w], o, {"fused_activation_function": None, "weights_format": 0, "keep_num_dims": False, "asymmetric_quantize_inputs": False}, version=4)
    return n.build([o])

ALL = {"m11": m11, "m12": m12, "m10": m10, "m9": m9, "m8": m8, "m1": m1, "m2": m2, "m3": m3, "m4": m4, "m5": m5, "m6": m6, "m7": m7}

"""Scratch model kit: build small .tflite input models in memory with Vela's own classes."""
import os
import sys
import types

sys.path.insert(0, os.getcwd())

import numpy as np

from ethosu.vela import tflite_writer
from ethosu.vela.data_type import DataType
from ethosu.vela.nn_graph import Graph, PassPlacement, Subgraph
from ethosu.vela.operation import Op, Operation, Padding
from ethosu.vela.tensor import QuantizationParameters, Tensor


def qp(scale, zp, dim=None):
    q = QuantizationParameters()
    q.scale_f32 = np.atleast_1d(np.asarray(scale, dtype=np.float32))
    q.zero_point = np.atleast_1d(np.asarray(zp, dtype=np.int64))
    if dim is not None:
        q.quant_dim = dim
    return q


class Net:
    def __init__(self, name="net", seed=0):
        self.rng = np.random.RandomState(seed)
        self.ops = []
        self.inputs = []
        self.name = name
        self.n = 0

    def uid(self, base):
        self.n += 1
        return f"{base}_{self.n}"

    def fm(self, shape, dtype=DataType.int8, scale=0.05, zp=0, name=None):
        t = Tensor(list(shape), dtype, name or self.uid("t"))
        t.quantization = qp(scale, zp)
        return t

    def input(self, shape, dtype=DataType.int8, scale=0.05, zp=0, name=None):
        t = self.fm(shape, dtype, scale, zp, name or self.uid("input"))
        op = Operation(Op.Placeholder, t.name)
        op.set_output_tensor(t)
        self.inputs.append(t)
        return t

    def const(self, values, dtype, scale=None, zp=None, name=None, dim=None):
        values = np.asarray(values).astype(dtype.as_numpy_type())
        t = Tensor(list(values.shape), dtype, name or self.uid("const"))
        t.values = values
        if scale is not None:
            t.quantization = qp(scale, zp, dim)
        op = Operation(Op.Const, t.name)
        op.set_output_tensor(t)
        return t

    def op(self, optype, inputs, ofm, attrs=None, version=1, name=None):
        o = Operation(optype, name or self.uid(optype.name))
        for i in inputs:
            if i is None:
                o.inputs.append(None)
            else:
                o.add_input_tensor(i)
        o.set_output_tensor(ofm)
        o.attrs = dict(attrs or {})
        o.version = version
        self.ops.append(o)
        return ofm

    def conv(self, ifm, ofm_c, k=3, stride=1, padding=Padding.SAME, act=None, per_channel=True, wseed=None, dil=1):
        n, h, w, c = ifm.shape
        kh, kw = (k, k) if isinstance(k, int) else k
        rng = self.rng if wseed is None else np.random.RandomState(wseed)
        wv = rng.randint(-127, 128, size=(ofm_c, kh, kw, c))
        ws = (rng.rand(ofm_c) * 0.01 + 0.001) if per_channel else 0.005
        wt = self.const(wv, DataType.int8, ws, np.zeros(ofm_c if per_channel else 1), dim=0 if per_channel else None)
        bv = rng.randint(-1000, 1000, size=(ofm_c,))
        bt = self.const(bv, DataType.int32, np.asarray(ws) * 0.05, np.zeros(ofm_c if per_channel else 1))
        if padding == Padding.SAME:
            oh, ow = -(-h // stride), -(-w // stride)
        else:
            ekh, ekw = (kh - 1) * dil + 1, (kw - 1) * dil + 1
            oh, ow = (h - ekh) // stride + 1, (w - ekw) // stride + 1
        ofm = self.fm([n, oh, ow, ofm_c], ifm.dtype, 0.07)
        attrs = {
            "padding": padding,
            "stride_w": stride,
            "stride_h": stride,
            "dilation_w_factor": dil,
            "dilation_h_factor": dil,
            "fused_activation_function": act,
        }
        return self.op(Op.Conv2DBias, [ifm, wt, bt], ofm, attrs, version=3)

    def dwconv(self, ifm, k=3, stride=1, padding=Padding.SAME, act=None):
        n, h, w, c = ifm.shape
        wv = self.rng.randint(-127, 128, size=(1, k, k, c))
        ws = self.rng.rand(c) * 0.01 + 0.001
        wt = self.const(wv, DataType.int8, ws, np.zeros(c), dim=3)
        bt = self.const(self.rng.randint(-1000, 1000, size=(c,)), DataType.int32, ws * 0.05, np.zeros(c))
        if padding == Padding.SAME:
            oh, ow = -(-h // stride), -(-w // stride)
        else:
            oh, ow = (h - k) // stride + 1, (w - k) // stride + 1
        ofm = self.fm([n, oh, ow, c], ifm.dtype, 0.07)
        attrs = {
            "padding": padding,
            "stride_w": stride,
            "stride_h": stride,
            "dilation_w_factor": 1,
            "dilation_h_factor": 1,
            "depth_multiplier": 1,
            "fused_activation_function": act,
        }
        return self.op(Op.DepthwiseConv2DBias, [ifm, wt, bt], ofm, attrs, version=3)

    def fc(self, ifm, out_c, act=None):
        n, c = ifm.shape
        wv = self.rng.randint(-127, 128, size=(out_c, c))
        wt = self.const(wv, DataType.int8, 0.004, 0)
        bt = self.const(self.rng.randint(-1000, 1000, size=(out_c,)), DataType.int32, 0.0002, 0)
        ofm = self.fm([n, out_c], ifm.dtype, 0.09)
        attrs = {"fused_activation_function": act, "weights_format": 0, "keep_num_dims": False,
                 "asymmetric_quantize_inputs": False}
        return self.op(Op.FullyConnected, [ifm, wt, bt], ofm, attrs, version=4)

    def add(self, a, b, act=None, optype=Op.Add):
        ofm = self.fm(a.shape, a.dtype, 0.1, 3)
        attrs = {"fused_activation_function": act}
        if optype in (Op.Add, Op.Sub):
            attrs["pot_scale_int16"] = False
        return self.op(optype, [a, b], ofm, attrs, version=2)

    def pool(self, ifm, optype=Op.MaxPool, k=2, stride=2, padding=Padding.VALID):
        n, h, w, c = ifm.shape
        if padding == Padding.SAME:
            oh, ow = -(-h // stride), -(-w // stride)
        else:
            oh, ow = (h - k) // stride + 1, (w - k) // stride + 1
        ofm = self.fm([n, oh, ow, c], ifm.dtype, ifm.quantization.scale_f32[0], int(ifm.quantization.zero_point[0]))
        attrs = {"padding": padding, "stride_w": stride, "stride_h": stride, "filter_width": k, "filter_height": k,
                 "fused_activation_function": None}
        return self.op(optype, [ifm], ofm, attrs, version=2)

    def unary(self, ifm, optype):
        if optype in (Op.Tanh,):
            ofm = self.fm(ifm.shape, ifm.dtype, 1.0 / 128, 0)
        elif optype in (Op.Sigmoid, Op.Softmax):
            ofm = self.fm(ifm.shape, ifm.dtype, 1.0 / 256, -128)
        else:
            ofm = self.fm(ifm.shape, ifm.dtype, 0.05, 0)
        attrs = {}
        if optype == Op.Softmax:
            attrs = {"beta": 1.0}
        if optype == Op.LeakyRelu:
            attrs = {"alpha": 0.1}
        return self.op(optype, [ifm], ofm, attrs, version=2)

    def reshape(self, ifm, new_shape):
        ofm = self.fm(new_shape, ifm.dtype, ifm.quantization.scale_f32[0], int(ifm.quantization.zero_point[0]))
        shp = self.const(np.array(new_shape), DataType.int32)
        return self.op(Op.Reshape, [ifm, shp], ofm, {"new_shape": list(new_shape)}, version=1)

    def concat(self, tens, axis=3):
        shape = list(tens[0].shape)
        shape[axis] = sum(t.shape[axis] for t in tens)
        ofm = self.fm(shape, tens[0].dtype, tens[0].quantization.scale_f32[0], int(tens[0].quantization.zero_point[0]))
        return self.op(Op.ConcatTFLite, tens, ofm, {"axis": axis, "fused_activation_function": None}, version=2)

    def build(self, outputs):
        nng = Graph(self.name)
        sg = Subgraph(self.name, PassPlacement.Cpu)
        sg.original_inputs = list(self.inputs)
        sg.input_tensors = list(self.inputs)
        sg.output_tensors = list(outputs)
        sg.passes = [types.SimpleNamespace(ops=[o]) for o in self.ops]
        nng.subgraphs.append(sg)
        buf = tflite_writer.write_tflite_buffer(nng)
        return bytes(buf)

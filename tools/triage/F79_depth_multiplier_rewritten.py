# Helper code shared by the C11 demonstrations.
# - builds a source .tflite with the plain flatbuffers builder and the generated schema classes
#   (Vela's writer / option tables are NOT used to build the source model)
# - compiles it with the Vela driver
# - parses source and output with the plain generated flatbuffer accessors (generic, reflection on the
#   generated option classes) and compares interface + CPU resident operators
import contextlib
import importlib
import io
import os
import sys
import tempfile

import flatbuffers
import numpy as np

sys.path.insert(0, os.getcwd())

from ethosu.vela.tflite import Buffer as fbBuffer  # noqa: E402
from ethosu.vela.tflite import Model as fbModel  # noqa: E402
from ethosu.vela.tflite import Operator as fbOperator  # noqa: E402
from ethosu.vela.tflite import OperatorCode as fbOperatorCode  # noqa: E402
from ethosu.vela.tflite import QuantizationParameters as fbQuant  # noqa: E402
from ethosu.vela.tflite import SubGraph as fbSubGraph  # noqa: E402
from ethosu.vela.tflite import Tensor as fbTensor  # noqa: E402
from ethosu.vela.tflite.BuiltinOperator import BuiltinOperator as BO  # noqa: E402
from ethosu.vela.tflite.BuiltinOptions import BuiltinOptions  # noqa: E402
from ethosu.vela.tflite.TensorType import TensorType as TT  # noqa: E402

NP_OF = {
    TT.UINT8: np.uint8,
    TT.INT8: np.int8,
    TT.INT16: np.int16,
    TT.INT32: np.int32,
    TT.INT64: np.int64,
    TT.FLOAT32: np.float32,
    TT.BOOL: np.bool_,
}
OPT_NAME = {v: k for k, v in vars(BuiltinOptions).items() if not k.startswith("_")}
BO_NAME = {v: k for k, v in vars(BO).items() if not k.startswith("_")}


class T:
    def __init__(self, name, shape, ttype, data=None, scale=None, zp=None, qmin=None, qmax=None, qdim=None, var=False):
        self.name, self.shape, self.ttype = name, list(shape), ttype
        self.data = None if data is None else np.asarray(data, dtype=NP_OF[ttype]).reshape(shape)
        self.scale, self.zp, self.qmin, self.qmax, self.qdim, self.var = scale, zp, qmin, qmax, qdim, var


class O:
    def __init__(self, code, inputs, outputs, opt=None, fields=None, version=1, custom_code=None, custom_options=None):
        self.code, self.inputs, self.outputs = code, list(inputs), list(outputs)
        self.opt, self.fields, self.version = opt, dict(fields or {}), version
        self.custom_code, self.custom_options = custom_code, custom_options


def _vec(b, vals, size, prepend):
    b.StartVector(size, len(vals), size)
    for v in reversed(list(vals)):
        prepend(v)
    return b.EndVector()


def _ivec(b, vals):
    return _vec(b, [int(v) for v in vals], 4, b.PrependInt32)


def build_model(tensors, ops, inputs, outputs, name="main", more_subgraphs=()):
    """tensors: list of T; ops: list of O referring to tensors by name (None -> -1); returns bytes.
    more_subgraphs: further (tensors, ops, inputs, outputs, name) tuples"""
    b = flatbuffers.Builder(1024)
    sgspecs = [(tensors, ops, inputs, outputs, name)] + list(more_subgraphs)

    codes = []
    for _, sops, _, _, _ in sgspecs:
        for o in sops:
            key = (o.code, o.custom_code, o.version)
            if key not in codes:
                codes.append(key)

    # buffers: 0 is the empty one, every tensor gets its own
    buffers = [None]
    sg_offs = []
    for tensors, ops, inputs, outputs, name in sgspecs:
        tidx = {t.name: i for i, t in enumerate(tensors)}

        def idx(n):
            return -1 if n is None else tidx[n]

        tens_offs = []
        for t in tensors:
            buffers.append(None if t.data is None else t.data.tobytes())
            bufi = len(buffers) - 1
            q = None
            if t.scale is not None or t.zp is not None or t.qmin is not None or t.qmax is not None:
                mn = None if t.qmin is None else _vec(b, np.atleast_1d(t.qmin).tolist(), 4, b.PrependFloat32)
                mx = None if t.qmax is None else _vec(b, np.atleast_1d(t.qmax).tolist(), 4, b.PrependFloat32)
                sc = None if t.scale is None else _vec(b, np.atleast_1d(t.scale).tolist(), 4, b.PrependFloat32)
                zp = None if t.zp is None else _vec(b, [int(z) for z in np.atleast_1d(t.zp)], 8, b.PrependInt64)
                fbQuant.QuantizationParametersStart(b)
                if mn is not None:
                    fbQuant.QuantizationParametersAddMin(b, mn)
                if mx is not None:
                    fbQuant.QuantizationParametersAddMax(b, mx)
                if sc is not None:
                    fbQuant.QuantizationParametersAddScale(b, sc)
                if zp is not None:
                    fbQuant.QuantizationParametersAddZeroPoint(b, zp)
                if t.qdim is not None:
                    fbQuant.QuantizationParametersAddQuantizedDimension(b, t.qdim)
                q = fbQuant.QuantizationParametersEnd(b)
            shp = _ivec(b, t.shape)
            nm = b.CreateString(t.name)
            fbTensor.TensorStart(b)
            fbTensor.TensorAddShape(b, shp)
            fbTensor.TensorAddType(b, t.ttype)
            fbTensor.TensorAddBuffer(b, bufi)
            fbTensor.TensorAddName(b, nm)
            if q is not None:
                fbTensor.TensorAddQuantization(b, q)
            fbTensor.TensorAddIsVariable(b, t.var)
            tens_offs.append(fbTensor.TensorEnd(b))

        op_offs = []
        for o in ops:
            ins = _ivec(b, [idx(n) for n in o.inputs])
            outs = _ivec(b, [idx(n) for n in o.outputs])
            opt_off = None
            if o.opt is not None:
                mod = importlib.import_module("ethosu.vela.tflite." + o.opt)
                pre = {}
                for k, v in o.fields.items():
                    if isinstance(v, (list, tuple)):
                        pre[k] = _ivec(b, v)
                    elif isinstance(v, str):
                        pre[k] = b.CreateString(v)
                    else:
                        pre[k] = v
                getattr(mod, o.opt + "Start")(b)
                for k, v in pre.items():
                    getattr(mod, o.opt + "Add" + k)(b, v)
                opt_off = getattr(mod, o.opt + "End")(b)
            cust = None
            if o.custom_options is not None:
                cust = _vec(b, list(o.custom_options), 1, b.PrependByte)
            fbOperator.OperatorStart(b)
            fbOperator.OperatorAddOpcodeIndex(b, codes.index((o.code, o.custom_code, o.version)))
            fbOperator.OperatorAddInputs(b, ins)
            fbOperator.OperatorAddOutputs(b, outs)
            if opt_off is not None:
                fbOperator.OperatorAddBuiltinOptionsType(b, getattr(BuiltinOptions, o.opt))
                fbOperator.OperatorAddBuiltinOptions(b, opt_off)
            if cust is not None:
                fbOperator.OperatorAddCustomOptions(b, cust)
            op_offs.append(fbOperator.OperatorEnd(b))

        tv = _vec(b, tens_offs, 4, b.PrependUOffsetTRelative)
        ov = _vec(b, op_offs, 4, b.PrependUOffsetTRelative)
        iv = _ivec(b, [idx(n) for n in inputs])
        outv = _ivec(b, [idx(n) for n in outputs])
        sgname = b.CreateString(name)
        fbSubGraph.SubGraphStart(b)
        fbSubGraph.SubGraphAddTensors(b, tv)
        fbSubGraph.SubGraphAddInputs(b, iv)
        fbSubGraph.SubGraphAddOutputs(b, outv)
        fbSubGraph.SubGraphAddOperators(b, ov)
        fbSubGraph.SubGraphAddName(b, sgname)
        sg_offs.append(fbSubGraph.SubGraphEnd(b))

    code_offs = []
    for code, custom_code, version in codes:
        cc = None if custom_code is None else b.CreateString(custom_code)
        fbOperatorCode.OperatorCodeStart(b)
        fbOperatorCode.OperatorCodeAddDeprecatedBuiltinCode(b, min(code, 127))
        fbOperatorCode.OperatorCodeAddBuiltinCode(b, code)
        fbOperatorCode.OperatorCodeAddVersion(b, version)
        if cc is not None:
            fbOperatorCode.OperatorCodeAddCustomCode(b, cc)
        code_offs.append(fbOperatorCode.OperatorCodeEnd(b))

    buf_offs = []
    for data in buffers:
        d = None
        if data is not None:
            d = b.CreateByteVector(data)
        fbBuffer.BufferStart(b)
        if d is not None:
            fbBuffer.BufferAddData(b, d)
        buf_offs.append(fbBuffer.BufferEnd(b))

    cv = _vec(b, code_offs, 4, b.PrependUOffsetTRelative)
    sv = _vec(b, sg_offs, 4, b.PrependUOffsetTRelative)
    bv = _vec(b, buf_offs, 4, b.PrependUOffsetTRelative)
    desc = b.CreateString("c11 source")
    fbModel.ModelStart(b)
    fbModel.ModelAddVersion(b, 3)
    fbModel.ModelAddOperatorCodes(b, cv)
    fbModel.ModelAddSubgraphs(b, sv)
    fbModel.ModelAddDescription(b, desc)
    fbModel.ModelAddBuffers(b, bv)
    m = fbModel.ModelEnd(b)
    b.Finish(m, b"TFL3")
    return bytes(b.Output())


# ---------------------------------------------------------------- plain parser
def _arr(x):
    return None if isinstance(x, int) else np.array(x)


def _read_options(op):
    """generic: reflect over the generated options class accessors"""
    ot = op.BuiltinOptionsType()
    tab = op.BuiltinOptions()
    if tab is None:
        return (OPT_NAME.get(ot, ot), None)
    name = OPT_NAME[ot]
    mod = importlib.import_module("ethosu.vela.tflite." + name)
    cls = getattr(mod, name)
    obj = cls()
    obj.Init(tab.Bytes, tab.Pos)
    fields = {}
    for attr in sorted(dir(cls)):
        if attr.startswith("_") or attr in ("Init", "GetRootAs") or attr.startswith("GetRootAs"):
            continue
        if attr.endswith("BufferHasIdentifier") or attr.endswith("Length") or attr.endswith("IsNone"):
            continue
        if attr.endswith("AsNumpy"):
            v = getattr(obj, attr)()
            fields[attr[: -len("AsNumpy")]] = None if isinstance(v, int) else tuple(int(e) for e in v)
            continue
        if hasattr(cls, attr + "AsNumpy"):
            continue
        v = getattr(obj, attr)()
        if isinstance(v, bytes):
            v = v.decode()
        if isinstance(v, float):
            v = float(np.float32(v))
        fields[attr] = v
    return (name, fields)


def parse_model(buf):
    buf = bytearray(buf)
    m = fbModel.Model.GetRootAsModel(buf, 0)
    codes = []
    for i in range(m.OperatorCodesLength()):
        c = m.OperatorCodes(i)
        code = c.BuiltinCode() or c.DeprecatedBuiltinCode()
        cc = c.CustomCode()
        codes.append((code, None if cc is None else cc.decode(), c.Version()))
    sgs = []
    for si in range(m.SubgraphsLength()):
        sg = m.Subgraphs(si)
        tensors = []
        for ti in range(sg.TensorsLength()):
            t = sg.Tensors(ti)
            shp = t.ShapeAsNumpy()
            shp = [] if isinstance(shp, int) else [int(s) for s in shp]
            q = t.Quantization()
            quant = None
            if q is not None:
                quant = dict(
                    min=_arr(q.MinAsNumpy()),
                    max=_arr(q.MaxAsNumpy()),
                    scale=_arr(q.ScaleAsNumpy()),
                    zp=_arr(q.ZeroPointAsNumpy()),
                    qdim=q.QuantizedDimension(),
                )
                if all(quant[k] is None for k in ("min", "max", "scale", "zp")):
                    quant = None
            bi = t.Buffer()
            data = None
            bb = m.Buffers(bi)
            if bb is not None and bb.DataLength() > 0:
                data = bytes(bb.DataAsNumpy().tobytes())
            tensors.append(
                dict(name=t.Name().decode(), shape=shp, type=t.Type(), quant=quant, data=data, var=bool(t.IsVariable()))
            )
        ops = []
        for oi in range(sg.OperatorsLength()):
            o = sg.Operators(oi)
            ins = o.InputsAsNumpy()
            ins = [] if isinstance(ins, int) else [int(i) for i in ins]
            outs = o.OutputsAsNumpy()
            outs = [] if isinstance(outs, int) else [int(i) for i in outs]
            co = None if o.CustomOptionsIsNone() else bytes(o.CustomOptionsAsNumpy().tobytes())
            ops.append(dict(code=codes[o.OpcodeIndex()], inputs=ins, outputs=outs, options=_read_options(o), custom=co))
        ii = sg.InputsAsNumpy()
        oo = sg.OutputsAsNumpy()
        sgs.append(
            dict(
                name=(sg.Name() or b"").decode(),
                tensors=tensors,
                ops=ops,
                inputs=[] if isinstance(ii, int) else [int(i) for i in ii],
                outputs=[] if isinstance(oo, int) else [int(i) for i in oo],
            )
        )
    return dict(codes=codes, subgraphs=sgs)


# ---------------------------------------------------------------- compile
@contextlib.contextmanager
def _quiet(enable):
    if not enable:
        yield
        return
    sys.stdout.flush()
    saved = os.dup(1)
    with tempfile.TemporaryFile(mode="w+b") as tf:
        os.dup2(tf.fileno(), 1)
        try:
            with contextlib.redirect_stdout(io.StringIO()):
                yield
        finally:
            sys.stdout.flush()
            os.dup2(saved, 1)
            os.close(saved)


def compile_model(src_bytes, extra_args=(), accel="ethos-u55-128", quiet=True):
    from ethosu.vela import vela

    tmp = tempfile.mkdtemp(prefix="c11_")
    src = os.path.join(tmp, "net.tflite")
    with open(src, "wb") as f:
        f.write(src_bytes)
    args = [src, "--output-dir", tmp, "--accelerator-config", accel] + list(extra_args)
    with _quiet(quiet):
        rc = vela.main(args)
    if rc not in (None, 0):
        raise RuntimeError("vela.main returned %r" % (rc,))
    outp = os.path.join(tmp, "net_vela.tflite")
    with open(outp, "rb") as f:
        return f.read(), outp, ""


# ---------------------------------------------------------------- oracle
def _qeq(a, b):
    if a is None or b is None:
        return a is None and b is None
    for k in ("min", "max", "scale", "zp"):
        x, y = a[k], b[k]
        if (x is None) != (y is None):
            return False
        if x is not None and (x.shape != y.shape or not np.array_equal(x, y)):
            return False
    if a["scale"] is not None and a["scale"].size > 1 and a["qdim"] != b["qdim"]:
        return False
    return True


def _tens_diff(what, s, d, errs, check_data=True):
    if s["name"] != d["name"]:
        errs.append(f"{what}: name {s['name']!r} -> {d['name']!r}")
    if s["shape"] != d["shape"]:
        errs.append(f"{what} {s['name']}: shape {s['shape']} -> {d['shape']}")
    if s["type"] != d["type"]:
        errs.append(f"{what} {s['name']}: element type {s['type']} -> {d['type']}")
    if not _qeq(s["quant"], d["quant"]):
        errs.append(f"{what} {s['name']}: quantisation {s['quant']} -> {d['quant']}")
    if check_data and s["data"] != d["data"]:
        errs.append(f"{what} {s['name']}: constant data changed")


def check_preserved(src_bytes, out_bytes, expect_cpu=None, sg_index=0):
    """returns list of violation strings. expect_cpu: names (first output tensor) of source operators that must
    survive on the CPU; None -> every source operator whose outputs all still exist by name in the output file
    or that is listed. Operators absorbed by the NPU are detected by their output names being absent."""
    errs = []
    S = parse_model(src_bytes)["subgraphs"][sg_index]
    D = parse_model(out_bytes)["subgraphs"][sg_index]
    st, dt = S["tensors"], D["tensors"]

    # interface
    if len(S["inputs"]) != len(D["inputs"]):
        errs.append(f"subgraph inputs: {[st[i]['name'] for i in S['inputs']]} -> {[dt[i]['name'] for i in D['inputs']]}")
    else:
        for a, b in zip(S["inputs"], D["inputs"]):
            _tens_diff("subgraph input", st[a], dt[b], errs, check_data=False)
    if len(S["outputs"]) != len(D["outputs"]):
        errs.append(
            f"subgraph outputs: {[st[i]['name'] for i in S['outputs']]} -> {[dt[i]['name'] for i in D['outputs']]}"
        )
    else:
        for a, b in zip(S["outputs"], D["outputs"]):
            _tens_diff("subgraph output", st[a], dt[b], errs, check_data=False)

    # operators
    dnames = {}
    for i, t in enumerate(dt):
        dnames.setdefault(t["name"], []).append(i)
    dprod = {}
    for oi, o in enumerate(D["ops"]):
        for t in o["outputs"]:
            dprod.setdefault(t, []).append(oi)
    for t, l in dprod.items():
        if len(l) > 1:
            errs.append(f"output tensor {dt[t]['name']} has {len(l)} producers")

    for so in S["ops"]:
        key = st[so["outputs"][0]]["name"] if so["outputs"] else None
        must = expect_cpu is not None and key in expect_cpu
        cands = [
            oi
            for oi, o in enumerate(D["ops"])
            if o["outputs"]
            and dt[o["outputs"][0]]["name"] == key
            and not (o["code"][0] == BO.CUSTOM and o["code"][1] == "ethos-u")
        ]
        if not cands:
            if must:
                errs.append(f"operator {BO_NAME[so['code'][0]]} '{key}' missing from output")
            continue
        if expect_cpu is not None and not must:
            errs.append(f"operator {BO_NAME[so['code'][0]]} '{key}' unexpectedly on CPU")
        if len(cands) > 1:
            errs.append(f"operator '{key}' appears {len(cands)} times")
        do = D["ops"][cands[0]]
        w = f"operator {BO_NAME[so['code'][0]]} '{key}'"
        if so["code"] != do["code"]:
            errs.append(f"{w}: operator code/custom code/version {so['code']} -> {do['code']}")
        if so["options"] != do["options"]:
            errs.append(f"{w}: options {so['options']} -> {do['options']}")
        if (so["custom"] or b"") != (do["custom"] or b""):
            errs.append(f"{w}: custom options {so['custom']} -> {do['custom']}")
        if len(so["inputs"]) != len(do["inputs"]):
            errs.append(f"{w}: {len(so['inputs'])} operands -> {len(do['inputs'])}")
        else:
            for k, (a, b) in enumerate(zip(so["inputs"], do["inputs"])):
                if (a == -1) != (b == -1):
                    errs.append(f"{w}: operand {k} optional-ness changed ({a} -> {b})")
                elif a != -1:
                    _tens_diff(f"{w} operand {k}", st[a], dt[b], errs)
        if len(so["outputs"]) != len(do["outputs"]):
            errs.append(f"{w}: {len(so['outputs'])} results -> {len(do['outputs'])}")
        else:
            for k, (a, b) in enumerate(zip(so["outputs"], do["outputs"])):
                _tens_diff(f"{w} result {k}", st[a], dt[b], errs, check_data=False)

    # order respects data dependencies
    produced = set(D["inputs"])
    for i, t in enumerate(dt):
        if t["data"] is not None or i not in dprod:
            produced.add(i)
    for oi, o in enumerate(D["ops"]):
        for t in o["inputs"]:
            if t != -1 and t not in produced:
                errs.append(f"operator #{oi} ({BO_NAME.get(o['code'][0])}) reads {dt[t]['name']} before it is produced")
        produced.update(o["outputs"])
    return errs


def reads_back(outp):
    from ethosu.vela import model_reader

    with _quiet(True):
        nng, _ = model_reader.read_model(outp, model_reader.ModelReaderOptions())
    return nng


def finish(errs):
    if errs:
        print("FAIL")
        for e in errs:
            print("  " + e)
        sys.exit(1)
    print("PASS")
    sys.exit(0)


def q(s=0.5, z=0):
    return dict(scale=[s], zp=[z])


def describe(out):
    P = parse_model(out)["subgraphs"][0]
    for o in P["ops"]:
        nm = "ethos-u" if o["code"][1] == "ethos-u" else BO_NAME[o["code"][0]]
        print(
            "   ",
            nm,
            [P["tensors"][i]["name"] if i >= 0 else None for i in o["inputs"] if i < 0 or "_split_" not in P["tensors"][i]["name"]],
            "->",
            [P["tensors"][i]["name"] for i in o["outputs"]],
        )


def run_obs(tens, ops, ins, outs, expect=None):
    src = build_model(tens, ops, ins, outs)
    out, outp, _ = compile_model(src)
    print("output model operators:")
    describe(out)
    errs = check_preserved(src, out, expect_cpu=expect)
    try:
        reads_back(outp)
    except BaseException as e:  # noqa: B902
        errs.append(f"output does not read back: {type(e).__name__}: {e}")
    return src, out, errs


# OBSERVATION 3 (unmodified tree): a CPU resident DEPTHWISE_CONV_2D with depth_multiplier == 0 (implicit multiplier)
# is written back with depth_multiplier == weight channels // ifm channels: tflite_reader.parse_operator overwrites
# attrs["depth_multiplier"] and the writer only restores the cached value for operators that run on the NPU.
rng = np.random.default_rng(1)
tens = [
    T("in", [1, 4, 4, 4], TT.FLOAT32),
    T("w", [1, 1, 1, 8], TT.FLOAT32, data=rng.random((1, 1, 1, 8))),
    T("b", [8], TT.FLOAT32, data=rng.random(8)),
    T("out", [1, 4, 4, 8], TT.FLOAT32),
]
ops = [
    O(
        BO.DEPTHWISE_CONV_2D,
        ["in", "w", "b"],
        ["out"],
        "DepthwiseConv2DOptions",
        dict(Padding=0, StrideW=1, StrideH=1, DepthMultiplier=0, DilationWFactor=1, DilationHFactor=1),
    )
]
src, out, errs = run_obs(tens, ops, ["in"], ["out"], expect={"out"})
finish(errs)

"""Observation 1 (unmodified tree): hillclimb_allocation.allocate_live_ranges raises ValueError
("empty range in randrange(0, 0)") instead of returning an allocation.

HillClimbAllocator.attempt_bottleneck_fix looks for the bottleneck (highest end_address) over ALL live
ranges, but after a trial that allocate_indices aborted early (size > best_size) the ranges that were not
reached keep address == NOT_ALLOCATED together with a STALE end_address / turn / predecessor from an older
trial.  Such a stale range can be picked as the bottleneck; if its stale turn number coincides with the
turn of its only neighbour, turn_list ends up with a single entry and
random.randint(0, len(turn_list) - 2) == randint(0, -1) raises.

All inputs are valid (start <= end, positive sizes, alignment 16, default iteration bound, generous
memory limit).  Exits 1 when the crash is reproduced.
"""
import os
import sys

sys.path.insert(0, os.getcwd())

from ethosu.vela import hillclimb_allocation  # noqa: E402
from ethosu.vela.live_range import LiveRange  # noqa: E402


def make_lr(start, end, size, alignment=16):
    lr = LiveRange(None, alignment)
    lr.start_time, lr.end_time, lr.size = start, end, size
    return lr


CASES = [
    # (specs (start, end, size), max_iterations, memory_limit)
    ([(2, 2, 8), (4, 4, 8016), (1, 2, 8000), (3, 4, 8), (0, 1, 24), (1, 3, 100)], None, 1 << 32),
    ([(6, 10, 40), (3, 8, 24), (5, 6, 8000), (9, 9, 8016), (3, 3, 8016)], None, 1000),
]

bad = 0
for specs, max_iterations, memory_limit in CASES:
    try:
        res = hillclimb_allocation.allocate_live_ranges([make_lr(*s) for s in specs], max_iterations, memory_limit)
        print("ok", specs, "->", res)
    except ValueError as e:
        bad += 1
        print("CRASH", specs, f"max_iterations={max_iterations} memory_limit={memory_limit}:", repr(e))
sys.exit(1 if bad else 0)

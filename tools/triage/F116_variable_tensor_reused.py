"""Observation 2 (unmodified tree): a variable (persistent state) tensor that is an operand of an elementwise operator
on the NPU is overwritten in place by the operator's result: live_range._get_ifm_to_fuse has no test for
Tensor.is_variable, so 'y' is fused into the live range of 'state' and both get the same arena offset.  The state
must survive the inference (it is live for the whole inference and across inferences), the first inference destroys it."""
import os
import sys

sys.path.insert(0, os.getcwd())
sys.path.insert(0, os.path.join(os.getcwd(), "out"))

import c12_lib as L  # noqa: E402


def build():
    b = L.ModelBuilder()
    x = b.input([1, 8, 8, 16], "in_a")
    v = b.tensor([1, 8, 8, 16], "state", variable=True)
    y = b.add(v, x, "y")
    z = b.cpu_unary(y, "z")
    return b.build([z])


found = []
for cfg_name, extra in (("u55_shared", []), ("u65_dedicated", ["--tensor-allocator", "Greedy"]), ("imx93", [])):
    cfg = L.ALL_CONFIGS[cfg_name]
    res = L.compile_model(build(), cfg, extra)
    out = L.parse_output(res.tflite)
    for t in out.subgraphs[0].tensors:
        if t.data is None:
            print(f"  {cfg_name:12} {t.name:28} size {t.size:6} offset {t.offset} {'variable' if t.is_variable else ''}")
    found += [f"{cfg_name} {extra}: {p}" for p in L.check_plan(res, cfg, 16)]
if found:
    print("VIOLATION REPRODUCED ON THIS TREE:")
    for f in found:
        print("  ", f)
    sys.exit(1)
print("no violation")

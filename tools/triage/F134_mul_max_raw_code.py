# Observation 2 (UNMODIFIED tree): the Maximum(x, Mul(x, const)) -> LeakyRelu rewrite decides on the RAW CODE of the constant
# and assumes 0 <= alpha <= 1, so two valid int8 graphs end up with a wrong activation (table):
#
#  (a) const code 0, zero point -128, scale 1/256  => real alpha = 0.5.  convert_mul_max_to_abs_or_lrelu() stores the raw
#      code (0) in op.attrs["alpha"]; convert_lrelu() sees alpha == 0 and turns the operator into a plain ReLU: negative
#      inputs give 0 instead of 0.5 * x and no leaky ReLU table is generated at all.
#  (b) const code 2, zero point 0, scale 1.0       => real alpha = 2.  Max(x, 2x) is 2x for x > 0 and x for x < 0, but the
#      operator is rewritten to LeakyRelu(alpha = 2) whose table holds x for x >= 0 and 2x for x < 0 - every entry except
#      the one for x = 0 differs from the reference result of the original two operators.
#
# The graphs are compiled with the command line driver; the reference is the TFLite MUL kernel arithmetic followed by the
# elementwise maximum of the codes (all three feature maps share scale 0.05 / zero point 0).
import os
import sys

sys.path.insert(0, os.getcwd())
sys.path.insert(0, os.path.dirname(os.path.abspath(__file__)))
import c19_util as U  # noqa: E402
import numpy as np  # noqa: E402

from ethosu.vela.data_type import DataType  # noqa: E402
from ethosu.vela.nn_graph import PassPlacement  # noqa: E402
from ethosu.vela.operation import Op  # noqa: E402
from ethosu.vela.operation import Operation  # noqa: E402
from ethosu.vela.tensor import create_const_tensor  # noqa: E402

S, ZP = np.float32(0.05), 0


def build(c_code, c_scale, c_zp):
    shape = (1, 4, 4, 8)
    x = U.with_producer(U.feature_map("x", DataType.int8, S, ZP, shape))
    c = create_const_tensor("c", [], DataType.int8, np.array(c_code, dtype=np.int8), quantization=U.quant(DataType.int8, c_scale, c_zp))
    c.name = "c"
    m = U.feature_map("m", DataType.int8, S, ZP, shape)
    y = U.feature_map("y", DataType.int8, S, ZP, shape)
    mul = Operation(Op.Mul, "mul")
    mul.add_input_tensor(x)
    mul.add_input_tensor(c)
    mul.set_output_tensor(m)
    mul.set_ifm_ofm_shapes()
    mx = Operation(Op.Maximum, "Maximum")
    mx.add_input_tensor(x)
    mx.add_input_tensor(m)
    mx.set_output_tensor(y)
    mx.set_ifm_ofm_shapes()
    return U.build_tflite([mul, mx], [x], [y])


def reference(c_code, c_scale, c_zp):
    qm, shift = U.ref_quantize_multiplier(float(S) * float(np.float32(c_scale)) / float(S))
    table = []
    for code in range(-128, 128):
        prod = (code - ZP) * (c_code - c_zp)
        mul_out = min(127, max(-128, U.ref_mbqm(prod, qm, shift) + ZP))
        table.append(max(code, mul_out))
    return table


def effective_table(nng):
    # what the single NPU operator computes for each input code
    for sg in nng.subgraphs:
        if sg.placement != PassPlacement.Npu:
            continue
        ops = [so.parent_op for so in sg.sched_ops]
        desc = [(op.type.name, None if op.activation is None else op.activation.op_type.name) for op in ops]
        if len(ops) == 1 and ops[0].activation_lut is not None:
            return desc, [int(v) for v in ops[0].activation_lut.values.flatten()]
        if len(ops) == 1 and ops[0].activation is not None and ops[0].activation.op_type == Op.Relu:
            return desc, [max(ZP, code) for code in range(-128, 128)]
        return desc, None
    return None, None


def main():
    status = 0
    for label, (c_code, c_scale, c_zp) in (("alpha 0.5 (code 0, zp -128)", (0, 1 / 256, -128)), ("alpha 2 (code 2, zp 0)", (2, 1.0, 0))):
        nng, _ = U.compile_tflite(build(c_code, c_scale, c_zp))
        desc, got = effective_table(nng)
        want = reference(c_code, c_scale, c_zp)
        if got is None:
            print(f"{label}: NPU operators {desc} (not analysed)")
            continue
        diff = [i for i in range(256) if got[i] != want[i]]
        print(f"{label}: NPU operators {desc}; {len(diff)} of 256 codes differ from Maximum(x, Mul(x, c))", end="")
        if diff:
            i = diff[0]
            print(f"; e.g. x = {i - 128}: {got[i]} instead of {want[i]}")
            status = 1
        else:
            print()
    print("VIOLATION on the unmodified tree" if status else "no violation")
    return status


if __name__ == "__main__":
    sys.exit(main())

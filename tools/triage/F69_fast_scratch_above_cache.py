#!/usr/bin/env python3
# Standalone program: run as `cd /tmp/seed5/C02 && /venv/bin/python out/observation1.py`
# C02 observation 1 (UNMODIFIED tree): --optimise Size in a Dedicated SRAM mode publishes a fast-scratch tensor larger than --arena-cache-size
import os
import sys

sys.path.insert(0, os.getcwd())
# Shared helper for the C02 demonstrations: builds small TFLite models in memory, compiles them with
# ethosu.vela.vela.main, parses the *_vela.tflite output and checks every decoded NPU / DMA access of the emitted
# command stream against the extents of the regions published in the output file.
import contextlib
import io
import os
import struct
import sys
import tempfile

import numpy as np

# ----------------------------------------------------------------------------------------------------------------------
# model construction (Vela's own classes)
# ----------------------------------------------------------------------------------------------------------------------


def _vela():
    from ethosu.vela import nn_graph, operation, tensor, data_type, tflite_writer  # noqa

    return nn_graph, operation, tensor, data_type, tflite_writer


class Model:
    def __init__(self, name="m", seed=0):
        self.ops = []
        self.inputs = []
        self.outputs = []
        self.name = name
        self.rng = np.random.RandomState(seed)
        self.n = 0

    def _name(self, base):
        self.n += 1
        return f"{base}_{self.n}"

    def quant(self, scale=0.05, zp=0, dtype=None):
        from ethosu.vela.tensor import QuantizationParameters

        qp = QuantizationParameters()
        qp.scale_f32 = np.float32(scale)
        qp.zero_point = np.int64(zp)
        qp.quant_min = -128
        qp.quant_max = 127
        return qp

    def fm(self, shape, dtype="int8", scale=0.05, zp=0, name=None):
        from ethosu.vela.tensor import Tensor
        from ethosu.vela.data_type import DataType

        t = Tensor(list(shape), getattr(DataType, dtype), name or self._name("t"))
        t.quantization = self.quant(scale, zp)
        return t

    def input(self, shape, dtype="int8", scale=0.05, zp=0):
        t = self.fm(shape, dtype, scale, zp, self._name("input"))
        self.inputs.append(t)
        return t

    def const(self, shape, dtype="int8", scale=0.02, zp=0, values=None, lo=-100, hi=100, per_channel=None):
        from ethosu.vela.tensor import create_const_tensor
        from ethosu.vela.data_type import DataType

        npdt = {"int8": np.int8, "uint8": np.uint8, "int16": np.int16, "int32": np.int32, "int64": np.int64}[dtype]
        if values is None:
            values = self.rng.randint(lo, hi + 1, size=shape).astype(npdt)
        else:
            values = np.asarray(values, dtype=npdt)
        t = create_const_tensor(self._name("const"), list(shape), getattr(DataType, dtype), values)
        q = self.quant(scale, zp)
        if per_channel is not None:
            q.scale_f32 = np.asarray([scale * (1 + 0.01 * (i % 7)) for i in range(per_channel)], dtype=np.float32)
            q.zero_point = np.zeros(per_channel, dtype=np.int64)
        t.quantization = q
        return t

    def op(self, optype, inputs, out, attrs=None, name=None):
        from ethosu.vela.operation import Operation, Op

        o = Operation(getattr(Op, optype), name or self._name(optype))
        o.run_on_npu = False
        for i in inputs:
            o.add_input_tensor(i)
        o.set_output_tensor(out)
        if attrs:
            o.attrs.update(attrs)
        self.ops.append(o)
        return out

    # ---- layers ----
    def conv(self, x, oc, k=3, stride=1, padding="SAME", act=None, dilation=1, scale=0.05, dtype=None, kh=None, kw=None):
        from ethosu.vela.operation import Padding

        kh = kh or k
        kw = kw or k
        n, h, w, c = x.shape
        sh, sw = (stride, stride) if isinstance(stride, int) else stride
        dil_h, dil_w = (dilation, dilation) if isinstance(dilation, int) else dilation
        dkh, dkw = (kh - 1) * dil_h + 1, (kw - 1) * dil_w + 1
        if padding == "SAME":
            oh, ow = -(-h // sh), -(-w // sw)
        else:
            oh, ow = (h - dkh) // sh + 1, (w - dkw) // sw + 1
        dtype = dtype or x.dtype.name if False else None
        xdt = _dtname(x)
        wt = self.const([oc, kh, kw, c], "int8", 0.02, lo=-127, hi=127)
        bias = self.const([oc], "int32" if xdt != "int16" else "int64", 0.001, lo=-1000, hi=1000)
        out = self.fm([n, oh, ow, oc], xdt, scale)
        attrs = {
            "padding": getattr(Padding, padding),
            "stride_h": sh,
            "stride_w": sw,
            "dilation_h_factor": dil_h,
            "dilation_w_factor": dil_w,
            "fused_activation_function": _act(act),
            "strides": (1, sh, sw, 1),
            "dilation": (1, dil_h, dil_w, 1),
        }
        return self.op("Conv2DBias", [x, wt, bias], out, attrs)

    def dwconv(self, x, k=3, stride=1, padding="SAME", act=None, scale=0.05, mult=1):
        from ethosu.vela.operation import Padding

        n, h, w, c = x.shape
        sh, sw = (stride, stride) if isinstance(stride, int) else stride
        if padding == "SAME":
            oh, ow = -(-h // sh), -(-w // sw)
        else:
            oh, ow = (h - k) // sh + 1, (w - k) // sw + 1
        xdt = _dtname(x)
        wt = self.const([1, k, k, c * mult], "int8", 0.02, lo=-127, hi=127)
        bias = self.const([c * mult], "int32" if xdt != "int16" else "int64", 0.001, lo=-1000, hi=1000)
        out = self.fm([n, oh, ow, c * mult], xdt, scale)
        attrs = {
            "padding": getattr(Padding, padding),
            "stride_h": sh,
            "stride_w": sw,
            "dilation_h_factor": 1,
            "dilation_w_factor": 1,
            "depth_multiplier": mult,
            "fused_activation_function": _act(act),
            "strides": (1, sh, sw, 1),
            "dilation": (1, 1, 1, 1),
        }
        return self.op("DepthwiseConv2DBias", [x, wt, bias], out, attrs)

    def fc(self, x, oc, act=None, scale=0.05):
        n, c = x.shape[0], x.shape[-1]
        xdt = _dtname(x)
        wt = self.const([oc, c], "int8", 0.02, lo=-127, hi=127)
        bias = self.const([oc], "int32" if xdt != "int16" else "int64", 0.001, lo=-1000, hi=1000)
        out = self.fm([n, oc], xdt, scale)
        attrs = {
            "fused_activation_function": _act(act),
            "weights_format": 0,
            "keep_num_dims": False,
            "asymmetric_quantize_inputs": False,
        }
        return self.op("FullyConnected", [x, wt, bias], out, attrs)

    def pool(self, x, kind="MaxPool", k=2, stride=2, padding="VALID", act=None):
        from ethosu.vela.operation import Padding

        n, h, w, c = x.shape
        sh, sw = (stride, stride) if isinstance(stride, int) else stride
        kh, kw = (k, k) if isinstance(k, int) else k
        if padding == "SAME":
            oh, ow = -(-h // sh), -(-w // sw)
        else:
            oh, ow = (h - kh) // sh + 1, (w - kw) // sw + 1
        out = self.fm([n, oh, ow, c], _dtname(x), float(x.quantization.scale_f32), int(x.quantization.zero_point))
        attrs = {
            "padding": getattr(Padding, padding),
            "stride_h": sh,
            "stride_w": sw,
            "filter_height": kh,
            "filter_width": kw,
            "fused_activation_function": _act(act),
            "strides": (1, sh, sw, 1),
            "ksize": (1, kh, kw, 1),
        }
        return self.op(kind, [x], out, attrs)

    def elw(self, kind, a, b, act=None, scale=0.07, zp=0):
        shape = list(np.broadcast_shapes(tuple(a.shape), tuple(b.shape)))
        out = self.fm(shape, _dtname(a), scale, zp)
        attrs = {"fused_activation_function": _act(act)}
        if kind in ("Add", "Sub"):
            attrs["pot_scale_int16"] = False
        return self.op(kind, [a, b], out, attrs)

    def unary(self, kind, x, scale=None, zp=None, attrs=None):
        sc = float(x.quantization.scale_f32) if scale is None else scale
        z = int(x.quantization.zero_point) if zp is None else zp
        out = self.fm(list(x.shape), _dtname(x), sc, z)
        return self.op(kind, [x], out, attrs or {})

    def reshape(self, x, shape):
        out = self.fm(list(shape), _dtname(x), float(x.quantization.scale_f32), int(x.quantization.zero_point))
        shp = self.const([len(shape)], "int32", values=list(shape))
        shp.quantization = None
        return self.op("Reshape", [x, shp], out, {"new_shape": list(shape)})

    def concat(self, xs, axis=-1, scale=None):
        ax = axis % len(xs[0].shape)
        shape = list(xs[0].shape)
        shape[ax] = sum(x.shape[ax] for x in xs)
        q = xs[0].quantization
        out = self.fm(shape, _dtname(xs[0]), float(q.scale_f32) if scale is None else scale, int(q.zero_point))
        return self.op("ConcatTFLite", list(xs), out, {"axis": axis, "fused_activation_function": None})

    def resize_bilinear(self, x, oh, ow, align_corners=False, half_pixel=False, kind="ResizeBilinear"):
        n, h, w, c = x.shape
        out = self.fm([n, oh, ow, c], _dtname(x), float(x.quantization.scale_f32), int(x.quantization.zero_point))
        size = self.const([2], "int32", values=[oh, ow])
        size.quantization = None
        return self.op(kind, [x, size], out, {"align_corners": align_corners, "half_pixel_centers": half_pixel})

    def pad(self, x, top, bottom, left, right):
        n, h, w, c = x.shape
        out = self.fm(
            [n, h + top + bottom, w + left + right, c],
            _dtname(x),
            float(x.quantization.scale_f32),
            int(x.quantization.zero_point),
        )
        p = self.const([4, 2], "int32", values=[[0, 0], [top, bottom], [left, right], [0, 0]])
        p.quantization = None
        return self.op("Pad", [x, p], out, {})

    def mean(self, x, axes=(1, 2), keep_dims=True, scale=None):
        shape = [1 if i in axes else d for i, d in enumerate(x.shape)]
        if not keep_dims:
            shape = [d for i, d in enumerate(x.shape) if i not in axes]
        q = x.quantization
        out = self.fm(shape, _dtname(x), float(q.scale_f32) if scale is None else scale, int(q.zero_point))
        ax = self.const([len(axes)], "int32", values=list(axes))
        ax.quantization = None
        return self.op("Mean", [x, ax], out, {"keep_dims": keep_dims})

    def transpose(self, x, perm):
        shape = [x.shape[p] for p in perm]
        q = x.quantization
        out = self.fm(shape, _dtname(x), float(q.scale_f32), int(q.zero_point))
        pm = self.const([len(perm)], "int32", values=list(perm))
        pm.quantization = None
        return self.op("Transpose", [x, pm], out, {})

    def softmax(self, x, beta=1.0):
        out = self.fm(list(x.shape), _dtname(x), 1.0 / 256, -128 if _dtname(x) == "int8" else 0)
        return self.op("Softmax", [x], out, {"beta": beta})

    def strided_slice(self, x, begin, end):
        shape = [e - b for b, e in zip(begin, end)]
        q = x.quantization
        out = self.fm(shape, _dtname(x), float(q.scale_f32), int(q.zero_point))
        bt = self.const([len(begin)], "int32", values=list(begin))
        et = self.const([len(end)], "int32", values=list(end))
        st = self.const([len(end)], "int32", values=[1] * len(end))
        for t in (bt, et, st):
            t.quantization = None
        attrs = {"begin_mask": 0, "end_mask": 0, "ellipsis_mask": 0, "new_axis_mask": 0, "shrink_axis_mask": 0, "offset": False}
        return self.op("StridedSlice", [x, bt, et, st], out, attrs)

    def transpose_conv(self, x, oc, k=3, stride=2, padding="SAME", scale=0.05):
        from ethosu.vela.operation import Padding

        n, h, w, c = x.shape
        if padding == "SAME":
            oh, ow = h * stride, w * stride
        else:
            oh, ow = (h - 1) * stride + k, (w - 1) * stride + k
        wt = self.const([oc, k, k, c], "int8", 0.02, lo=-127, hi=127)
        bias = self.const([oc], "int32", 0.001, lo=-1000, hi=1000)
        oshape = self.const([4], "int32", values=[n, oh, ow, oc])
        oshape.quantization = None
        out = self.fm([n, oh, ow, oc], _dtname(x), scale)
        attrs = {
            "padding": getattr(Padding, padding),
            "stride_h": stride,
            "stride_w": stride,
            "strides": (1, stride, stride, 1),
            "fused_activation_function": None,
        }
        # nng input order for Conv2DBackpropInput: see tflite_mapping TFLITE_CONV2D_BACKPROP_INDICES
        return self.op("Conv2DBackpropInput", [oshape, wt, x, bias], out, attrs)

    def output(self, *ts):
        self.outputs.extend(ts)

    # ---- serialise ----
    def to_bytes(self):
        from ethosu.vela.nn_graph import Graph, Subgraph, Pass, PassPlacement
        from ethosu.vela.operation import NpuBlockType
        from ethosu.vela.tflite_writer import write_tflite_buffer

        nng = Graph(self.name)
        sg = Subgraph("main", PassPlacement.Cpu)
        sg.input_tensors = list(self.inputs)
        sg.original_inputs = list(self.inputs)
        sg.output_tensors = list(self.outputs)
        ps = Pass("all", PassPlacement.Cpu, False, NpuBlockType.Default)
        ps.ops = list(self.ops)
        sg.passes = [ps]
        nng.subgraphs = [sg]
        return bytes(write_tflite_buffer(nng))


def _dtname(t):
    return t.dtype.name if hasattr(t.dtype, "name") else str(t.dtype)


def _act(act):
    if act is None:
        return None
    from ethosu.vela.operation import Op

    return getattr(Op, act)


# ----------------------------------------------------------------------------------------------------------------------
# compile
# ----------------------------------------------------------------------------------------------------------------------


def compile_model(model_bytes, args=(), quiet=True, keep_dir=None):
    """Runs ethosu.vela.vela.main on the model; returns the bytes of the *_vela.tflite output"""
    from ethosu.vela import vela

    d = keep_dir or tempfile.mkdtemp(prefix="c02_")
    src = os.path.join(d, "model.tflite")
    with open(src, "wb") as f:
        f.write(model_bytes)
    outdir = os.path.join(d, "out")
    argv = [src, "--output-dir", outdir] + list(args)
    log = ""
    if quiet:
        # Vela binds sys.stdout as a default argument in places: redirect the file descriptor as well
        sys.stdout.flush()
        logpath = os.path.join(d, "vela.log")
        saved_fd = os.dup(1)
        buf = io.StringIO()
        with open(logpath, "w") as lf:
            os.dup2(lf.fileno(), 1)
            try:
                with contextlib.redirect_stdout(buf):
                    vela.main(argv)
            finally:
                sys.stdout.flush()
                os.dup2(saved_fd, 1)
                os.close(saved_fd)
        with open(logpath) as lf:
            log = buf.getvalue() + lf.read()
    else:
        vela.main(argv)
    with open(os.path.join(outdir, "model_vela.tflite"), "rb") as f:
        return f.read(), log


# ----------------------------------------------------------------------------------------------------------------------
# output file parsing (flatbuffers, schema classes shipped in ethosu.vela.tflite)
# ----------------------------------------------------------------------------------------------------------------------


def parse_output(buf):
    """Returns a list of dicts, one per ethos-u custom operator:
    {cmd: bytes, flash: (size, buffer bytes or None), scratch: size, scratch_fast: size, ...}"""
    from ethosu.vela.tflite.Model import Model as FbModel

    m = FbModel.GetRootAsModel(bytearray(buf), 0)
    res = []
    for si in range(m.SubgraphsLength()):
        sg = m.Subgraphs(si)
        for oi in range(sg.OperatorsLength()):
            op = sg.Operators(oi)
            code = m.OperatorCodes(op.OpcodeIndex())
            cc = code.CustomCode()
            if cc is None or cc.decode() != "ethos-u":
                continue
            tens = []
            for k in range(op.InputsLength()):
                t = sg.Tensors(op.Inputs(k))
                shape = [t.Shape(j) for j in range(t.ShapeLength())]
                b = m.Buffers(t.Buffer())
                data = b.DataAsNumpy() if b.DataLength() else None
                tens.append((t.Name().decode(), shape, data, t.Type()))
            outs = []
            for k in range(op.OutputsLength()):
                t = sg.Tensors(op.Outputs(k))
                outs.append((t.Name().decode(), [t.Shape(j) for j in range(t.ShapeLength())], t.Type()))
            d = {
                "cmd": bytes(tens[0][2].tobytes()),
                "flash_size": int(np.prod(tens[1][1])),
                "flash_data": tens[1][2],
                "scratch_size": int(np.prod(tens[2][1])),
                "scratch_fast_size": int(np.prod(tens[3][1])),
                "names": [t[0] for t in tens[:4]],
                "ifms": [(t[0], t[1], t[3]) for t in tens[4:]],
                "ofms": outs,
            }
            res.append(d)
    # offline allocation metadata
    meta = {}
    for i in range(m.MetadataLength()):
        md = m.Metadata(i)
        meta[md.Name().decode()] = m.Buffers(md.Buffer()).DataAsNumpy()
    return res, meta


# ----------------------------------------------------------------------------------------------------------------------
# command stream decoding
# ----------------------------------------------------------------------------------------------------------------------

CMD0 = {
    0x000: "OP_STOP", 0x001: "OP_IRQ", 0x002: "OP_CONV", 0x003: "OP_DEPTHWISE", 0x005: "OP_POOL",
    0x006: "OP_ELEMENTWISE", 0x010: "OP_DMA_START", 0x011: "OP_DMA_WAIT", 0x012: "OP_KERNEL_WAIT",
    0x100: "IFM_PAD_TOP", 0x101: "IFM_PAD_LEFT", 0x102: "IFM_PAD_RIGHT", 0x103: "IFM_PAD_BOTTOM",
    0x104: "IFM_DEPTH_M1", 0x105: "IFM_PRECISION", 0x107: "IFM_UPSCALE", 0x109: "IFM_ZERO_POINT",
    0x10A: "IFM_WIDTH0_M1", 0x10B: "IFM_HEIGHT0_M1", 0x10C: "IFM_HEIGHT1_M1", 0x10D: "IFM_IB_END",
    0x10F: "IFM_REGION", 0x111: "OFM_WIDTH_M1", 0x112: "OFM_HEIGHT_M1", 0x113: "OFM_DEPTH_M1",
    0x114: "OFM_PRECISION", 0x115: "OFM_BLK_WIDTH_M1", 0x116: "OFM_BLK_HEIGHT_M1", 0x117: "OFM_BLK_DEPTH_M1",
    0x118: "OFM_ZERO_POINT", 0x11A: "OFM_WIDTH0_M1", 0x11B: "OFM_HEIGHT0_M1", 0x11C: "OFM_HEIGHT1_M1",
    0x11F: "OFM_REGION", 0x120: "KERNEL_WIDTH_M1", 0x121: "KERNEL_HEIGHT_M1", 0x122: "KERNEL_STRIDE",
    0x123: "PARALLEL_MODE", 0x124: "ACC_FORMAT", 0x125: "ACTIVATION", 0x126: "ACTIVATION_MIN",
    0x127: "ACTIVATION_MAX", 0x128: "WEIGHT_REGION", 0x129: "SCALE_REGION", 0x12D: "AB_START", 0x12F: "BLOCKDEP",
    0x130: "DMA0_SRC_REGION", 0x131: "DMA0_DST_REGION", 0x132: "DMA0_SIZE0", 0x133: "DMA0_SIZE1",
    0x180: "IFM2_BROADCAST", 0x181: "IFM2_SCALAR", 0x185: "IFM2_PRECISION", 0x189: "IFM2_ZERO_POINT",
    0x18A: "IFM2_WIDTH0_M1", 0x18B: "IFM2_HEIGHT0_M1", 0x18C: "IFM2_HEIGHT1_M1", 0x18D: "IFM2_IB_START",
    0x18F: "IFM2_REGION",
}
CMD1 = {
    0x000: "IFM_BASE0", 0x001: "IFM_BASE1", 0x002: "IFM_BASE2", 0x003: "IFM_BASE3", 0x004: "IFM_STRIDE_X",
    0x005: "IFM_STRIDE_Y", 0x006: "IFM_STRIDE_C", 0x010: "OFM_BASE0", 0x011: "OFM_BASE1", 0x012: "OFM_BASE2",
    0x013: "OFM_BASE3", 0x014: "OFM_STRIDE_X", 0x015: "OFM_STRIDE_Y", 0x016: "OFM_STRIDE_C", 0x020: "WEIGHT_BASE",
    0x021: "WEIGHT_LENGTH", 0x022: "SCALE_BASE", 0x023: "SCALE_LENGTH", 0x024: "OFM_SCALE", 0x025: "OPA_SCALE",
    0x026: "OPB_SCALE", 0x030: "DMA0_SRC", 0x031: "DMA0_DST", 0x032: "DMA0_LEN", 0x033: "DMA0_SKIP0",
    0x034: "DMA0_SKIP1", 0x080: "IFM2_BASE0", 0x081: "IFM2_BASE1", 0x082: "IFM2_BASE2", 0x083: "IFM2_BASE3",
    0x084: "IFM2_STRIDE_X", 0x085: "IFM2_STRIDE_Y", 0x086: "IFM2_STRIDE_C", 0x090: "WEIGHT1_BASE",
    0x091: "WEIGHT1_LENGTH", 0x092: "SCALE1_BASE", 0x093: "SCALE1_LENGTH",
}
_ADDR_REGS = {
    "IFM_BASE0", "IFM_BASE1", "IFM_BASE2", "IFM_BASE3", "OFM_BASE0", "OFM_BASE1", "OFM_BASE2", "OFM_BASE3",
    "IFM2_BASE0", "IFM2_BASE1", "IFM2_BASE2", "IFM2_BASE3", "WEIGHT_BASE", "SCALE_BASE", "WEIGHT1_BASE",
    "SCALE1_BASE", "DMA0_SRC", "DMA0_DST", "DMA0_LEN", "IFM_STRIDE_X", "IFM_STRIDE_Y", "IFM_STRIDE_C",
    "OFM_STRIDE_X", "OFM_STRIDE_Y", "OFM_STRIDE_C", "IFM2_STRIDE_X", "IFM2_STRIDE_Y", "IFM2_STRIDE_C",
}


def shram_kib_per_core(payload):
    """SHRAM size (KiB, all cores) published in the CONFIG driver action of the command stream tensor"""
    words = struct.unpack("<%dI" % (len(payload) // 4), payload)
    i = 1
    while i < len(words):
        tag = words[i] & 0xFF
        if tag == 1:
            return (words[i + 1] >> 8) & 0xFF
        i += 1
    return None


def extract_stream(payload):
    """Strips the driver actions; returns the register command stream words"""
    words = struct.unpack("<%dI" % (len(payload) // 4), payload)
    assert words[0] == struct.unpack("<I", b"COP1")[0], "bad fourcc"
    i = 1
    while i < len(words):
        tag = words[i] & 0xFF
        if tag == 1:  # config
            i += 3
        elif tag == 5:  # nop
            i += 1
        elif tag == 2:  # command stream
            length = (words[i] >> 16) | (((words[i] >> 8) & 0xFF) << 16)
            return list(words[i + 1 : i + 1 + length])
        else:
            raise AssertionError("unknown driver action %d" % tag)
    raise AssertionError("no command stream")


def decode_ops(stream):
    """Yields (opname, param, register state dict copy) for every NPU_OP_* that touches memory"""
    st = {}
    i = 0
    ops = []
    while i < len(stream):
        w = stream[i]
        code = w & 0x3FF
        param = w >> 16
        if w & 0x4000:
            payload = stream[i + 1]
            i += 2
            name = CMD1[code]
            if name in _ADDR_REGS:
                val = payload | (param << 32)
                if name.endswith(("STRIDE_X", "STRIDE_Y", "STRIDE_C")) and val & (1 << 39):
                    val -= 1 << 40
                st[name] = val
            else:
                st[name] = (payload, param)
        else:
            i += 1
            name = CMD0[code]
            if name.startswith("OP_"):
                if name in ("OP_CONV", "OP_DEPTHWISE", "OP_POOL", "OP_ELEMENTWISE", "OP_DMA_START"):
                    ops.append((name, param, dict(st)))
                if name == "OP_STOP":
                    break
            else:
                st[name] = param
    return ops


# ----------------------------------------------------------------------------------------------------------------------
# footprints
# ----------------------------------------------------------------------------------------------------------------------


class Access:
    def __init__(self, kind, region, lo, hi, write, what):
        self.kind, self.region, self.lo, self.hi, self.write, self.what = kind, region, lo, hi, write, what

    def __repr__(self):
        return (
            f"{self.kind}:{self.what} region={self.region:#x} [{self.lo},{self.hi}) {'WRITE' if self.write else 'read'}"
        )


def _fm_extent(st, pfx, h, w, d, prec_bits_shift):
    """Exact min/max byte addresses touched by the h x w x d volume of feature map `pfx` with its tiles / strides"""
    prec = st[pfx + "_PRECISION"]
    if pfx == "OFM":
        es = 1 << ((prec >> 1) & 3)
    else:
        es = 1 << ((prec >> 2) & 3)
    nhcwb16 = bool((prec >> 6) & 1)
    bases = [st.get(f"{pfx}_BASE{i}", 0) for i in range(4)]
    h0 = st[pfx + "_HEIGHT0_M1"] + 1
    h1 = st[pfx + "_HEIGHT1_M1"] + 1
    w0 = st[pfx + "_WIDTH0_M1"] + 1
    sx, sy, sc = st[pfx + "_STRIDE_X"], st[pfx + "_STRIDE_Y"], st[pfx + "_STRIDE_C"]
    lo, hi = None, None

    def tile_range(t, ty, tx):
        # ty/tx: inclusive ranges of local coordinates inside tile t
        nonlocal lo, hi
        (y0, y1), (x0, x1) = ty, tx
        if y1 < y0 or x1 < x0:
            return
        for y in (y0, y1):
            for x in (x0, x1):
                for c in (0, d - 1) if not nhcwb16 else sorted({0, min(15, d - 1), ((d - 1) // 16) * 16, d - 1}):
                    if nhcwb16:
                        a = bases[t] + y * sy + (c // 16) * sc + x * 16 * es + (c % 16) * es
                    else:
                        a = bases[t] + y * sy + x * sx + c * es
                    lo = a if lo is None else min(lo, a)
                    hi = a + es if hi is None else max(hi, a + es)

    # tile 0
    tile_range(0, (0, min(h, h0) - 1), (0, min(w, w0) - 1))
    if w > w0:
        tile_range(1, (0, min(h, h1) - 1), (0, w - w0 - 1))
    if h > h0:
        tile_range(2, (0, h - h0 - 1), (0, min(w, w0) - 1))
    if w > w0 and h > h1:
        tile_range(3, (0, h - h1 - 1), (0, w - w0 - 1))
    return lo, hi


def op_accesses(name, param, st):
    acc = []
    if name == "OP_DMA_START":
        ln = st["DMA0_LEN"]
        acc.append(Access("DMA", st["DMA0_SRC_REGION"], st["DMA0_SRC"], st["DMA0_SRC"] + ln, False, "src"))
        acc.append(Access("DMA", st["DMA0_DST_REGION"], st["DMA0_DST"], st["DMA0_DST"] + ln, True, "dst"))
        return acc
    oh, ow, od = st["OFM_HEIGHT_M1"] + 1, st["OFM_WIDTH_M1"] + 1, st["OFM_DEPTH_M1"] + 1
    lo, hi = _fm_extent(st, "OFM", oh, ow, od, 1)
    acc.append(Access(name, st["OFM_REGION"], lo, hi, True, "ofm"))
    if name == "OP_ELEMENTWISE":
        ih, iw, idp = oh, ow, od
        unary = param in (5, 6, 7)
        lo, hi = _fm_extent(st, "IFM", ih, iw, idp, 2)
        acc.append(Access(name, st["IFM_REGION"], lo, hi, False, "ifm"))
        if not unary:
            bc = st.get("IFM2_BROADCAST", 0)
            if not (bc & 0x80):
                h2 = 1 if bc & 1 else oh
                w2 = 1 if bc & 2 else ow
                d2 = 1 if bc & 4 else od
                lo, hi = _fm_extent(st, "IFM2", h2, w2, d2, 2)
                acc.append(Access(name, st["IFM2_REGION"], lo, hi, False, "ifm2"))
    else:
        ks = st["KERNEL_STRIDE"]
        sx = 1 + (ks & 1) + (((ks >> 6) & 7) << 1)
        sy = 1 + ((ks >> 1) & 1) + (((ks >> 9) & 7) << 1)
        kh = st["KERNEL_HEIGHT_M1"] + 1
        kw = st["KERNEL_WIDTH_M1"] + 1
        pt, pb = st.get("IFM_PAD_TOP", 0), st.get("IFM_PAD_BOTTOM", 0)
        pl, pr = st.get("IFM_PAD_LEFT", 0), st.get("IFM_PAD_RIGHT", 0)
        up = st.get("IFM_UPSCALE", 0)
        ih = (oh - 1) * sy + kh - pt - pb
        iw = (ow - 1) * sx + kw - pl - pr
        if up:
            ih, iw = -(-ih // 2), -(-iw // 2)
        ih, iw = max(ih, 1), max(iw, 1)
        if name == "OP_CONV" or (name == "OP_POOL" and param == 2):
            idp = st["IFM_DEPTH_M1"] + 1
        else:
            idp = od
        lo, hi = _fm_extent(st, "IFM", ih, iw, idp, 2)
        acc.append(Access(name, st["IFM_REGION"], lo, hi, False, "ifm"))
        if name in ("OP_CONV", "OP_DEPTHWISE"):
            ncores = st.get("PARALLEL_MODE", 0) + 1
            for core, sfx in enumerate(["", "1"][:ncores]):
                wl = st.get(f"WEIGHT{sfx}_LENGTH", (0, 0))[0]
                if wl:
                    b = st[f"WEIGHT{sfx}_BASE"]
                    acc.append(Access(name, st["WEIGHT_REGION"], b, b + wl, False, f"weights{sfx}"))
                sl = st.get(f"SCALE{sfx}_LENGTH", (0, 0))[0]
                if sl:
                    b = st[f"SCALE{sfx}_BASE"]
                    acc.append(Access(name, st["SCALE_REGION"], b, b + sl, False, f"scales{sfx}"))
    act = st.get("ACTIVATION", 0)
    return acc


def check_output(buf, arena_cache_size=None, shram_bytes=None, verbose=False):
    """Returns a list of violation strings (empty = property holds for this output file)"""
    npu_ops, meta = parse_output(buf)
    bad = []
    for k, d in enumerate(npu_ops):
        extents = {0: d["flash_size"], 1: d["scratch_size"], 2: d["scratch_fast_size"]}
        stream = extract_stream(d["cmd"])
        ops = decode_ops(stream)
        if shram_bytes is None:
            ncores = 1
            for w in stream:
                if (w & 0xFFFF) == 0x123:  # NPU_SET_PARALLEL_MODE
                    ncores = (w >> 16) + 1
            kib = shram_kib_per_core(d["cmd"])
            shram_limit = (kib * 1024) // ncores if kib else 48 * 1024
        else:
            shram_limit = shram_bytes
        if verbose:
            print(f"npu op {k}: flash={extents[0]} scratch={extents[1]} scratch_fast={extents[2]} cmds={len(ops)}")
        for idx, (name, param, st) in enumerate(ops):
            for a in op_accesses(name, param, st):
                if verbose:
                    print("   ", idx, a)
                if a.region & 0x100:
                    limit = shram_limit
                    rname = "SHRAM"
                else:
                    if a.region not in extents:
                        bad.append(f"npu op {k} cmd {idx}: {a} names an unknown region")
                        continue
                    limit = extents[a.region]
                    rname = d["names"][1 + a.region] if a.region < 3 else "?"
                if a.lo < 0 or a.hi > limit:
                    bad.append(f"npu op {k} cmd {idx}: {a} outside '{rname}' of {limit} bytes")
                if a.write and a.region == 0:
                    bad.append(f"npu op {k} cmd {idx}: {a} writes to the constants region")
        if arena_cache_size is not None and extents[2] > arena_cache_size:
            bad.append(f"npu op {k}: scratch_fast tensor is {extents[2]} bytes > arena cache size {arena_cache_size}")
    return bad, npu_ops


def run_case(model, args, arena_cache_size=None, verbose=False):
    out, log = compile_model(model.to_bytes() if hasattr(model, "to_bytes") else model, args)
    bad, npu_ops = check_output(out, arena_cache_size=arena_cache_size, verbose=verbose)
    return bad, npu_ops, log


# --------------------------------------------------------------------------------------------------------------------
# C02 observation 1 (UNMODIFIED tree): --optimise Size in a Dedicated SRAM mode publishes a fast-scratch tensor larger than --arena-cache-size
# --------------------------------------------------------------------------------------------------------------------

INI = os.path.join(os.getcwd(), "ethosu/config_files/Arm/vela.ini")


def build(c):
    m = Model("obs1")
    x = m.input([1, 24, 24, c])
    y = m.conv(x, c, 3)
    y = m.conv(y, c, 3)
    y = m.conv(y, c, 3)
    m.output(y)
    return m


def main():
    found = []
    for c, cache in [(8, 4600), (8, 4604), (4, 2292), (4, 2300)]:
        args = ["--accelerator-config", "ethos-u65-256", "--config", INI, "--system-config", "Ethos_U65_High_End",
                "--memory-mode", "Dedicated_Sram", "--optimise", "Size", "--arena-cache-size", str(cache)]
        try:
            out, log = compile_model(build(c).to_bytes(), args)
        except BaseException as e:
            print(f"depth {c}, --arena-cache-size {cache}: no output ({type(e).__name__})")
            continue
        bad, npu_ops = check_output(out, arena_cache_size=cache)
        print(f"depth {c}, --arena-cache-size {cache}: scratch_fast tensor = {[o['scratch_fast_size'] for o in npu_ops]} bytes")
        found += bad
    if found:
        print("VIOLATION (unmodified tree):")
        for f in found:
            print("  ", f)
        return 1
    print("no violation")
    return 0


if __name__ == "__main__":
    sys.exit(main())

# OBSERVATION 4 (unchanged tree): a third-party CUSTOM operator (custom code "VendorOp") whose custom_options bytes happen to
# be 01 04 01 is classified as an already compiled Ethos-U operator (CustomOptionsSerializer.deserialize compares the option
# bytes only, not the custom code) and mark_tensors then aborts the compilation with "Scratch tensor not found": the network
# with this third-party operator cannot be compiled at all instead of passing the operator through.
import tempfile

from obs_common import *  # noqa: F403

tensors = [fm("in0"), fm("c1"), fm("cust"), fm("out")]
ts, o = conv("conv1", "in0", "c1")
tensors += ts
ops = [o, O(BuiltinOperator.CUSTOM, ["c1"], ["cust"], custom_code="VendorOp", custom_options=b"\x01\x04\x01")]
ts, o = conv("conv2", "cust", "out")
tensors += ts
ops.append(o)
src = build_model(tensors, ops, ["in0"], ["out"])
with tempfile.TemporaryDirectory() as d:
    try:
        out, log = compile_file(src, d)
    except RuntimeError as e:
        print("compilation failed:", str(e)[-400:])
        sys.exit(1)
    report(check_preserved(src, out, ["cust"]))

"""Observation 7 (unmodified tree): a CPU PAD is modified through a constant it shares with an NPU PAD.

Two PAD operators use the same constant paddings tensor [[1,1],[0,0],[0,0],[2,2]] (batch and channel padding):
  'ya' int8  (inside all listed constraints)                               -> NPU
  'yb' int32 (violates "Tensors which are int32 are only valid when ...")  -> must stay on the CPU unchanged.
tflite_graph_optimiser.split_pad_to_sub_pad splits the NPU PAD into a batch PAD and a channel PAD and does
`pad_tensor.values[3] = [0, 0]` *in place* on the shared constant.  The CPU PAD 'yb' is therefore written with paddings
[[1,1],[0,0],[0,0],[0,0]] while its output tensor still has the channel-padded shape [3,8,8,8]: the CPU operator is
changed (and no longer consistent).
"""
import os
import sys

sys.path.insert(0, os.getcwd())
sys.path.insert(0, os.path.dirname(os.path.abspath(__file__)))
from kit import *  # noqa: E402,F401,F403  (out/kit.py: tiny model builder + compile_model helper)
from ethosu.vela.operation import Padding  # noqa: E402


def quiet_compile(buf, accel="ethos-u55-128", extra=()):
    devnull = os.open(os.devnull, os.O_WRONLY)
    saved = os.dup(1)
    os.dup2(devnull, 1)
    try:
        return compile_model(buf, accel, extra)
    finally:
        os.dup2(saved, 1)


def warnings_of(out):
    return [ln for ln in out.splitlines() if ln.startswith("Warning") or ln.startswith(" - ")]

from ethosu.vela.tflite import Model  # noqa: E402


def model():
    xa = act("xa", [1, 8, 8, 4])
    ya = act("ya", [3, 8, 8, 8])
    xb = act("xb", [1, 8, 8, 4], DataType.int32)
    yb = act("yb", [3, 8, 8, 8], DataType.int32)
    p = const("pads", [4, 2], DataType.int32, [[1, 1], [0, 0], [0, 0], [2, 2]])
    return build([mkop(Op.Pad, "ya", [xa, p], ya, {}), mkop(Op.Pad, "yb", [xb, p], yb, {})], [xa, xb], [ya, yb])


def pad_paddings(buf):
    m = Model.Model.GetRootAsModel(bytearray(buf), 0)
    sg = m.Subgraphs(0)
    res = {}
    for i in range(sg.OperatorsLength()):
        o = sg.Operators(i)
        oc = m.OperatorCodes(o.OpcodeIndex())
        if max(oc.BuiltinCode(), oc.DeprecatedBuiltinCode()) == 34:  # PAD
            t = sg.Tensors(int(o.InputsAsNumpy()[1]))
            data = np.frombuffer(m.Buffers(t.Buffer()).DataAsNumpy().tobytes(), dtype=np.int32).reshape(4, 2).tolist()
            out = sg.Tensors(int(o.OutputsAsNumpy()[0]))
            res[out.Name().decode()] = (data, [int(v) for v in out.ShapeAsNumpy()])
    return res


buf = model()
print("input :", op_list(buf), pad_paddings(buf))
ops, out, obuf = quiet_compile(buf)
print("\n".join(warnings_of(out)))
res = pad_paddings(obuf)
print("output:", ops, res)
bad = res.get("yb", (None,))[0] != [[1, 1], [0, 0], [0, 0], [2, 2]]
print("VIOLATION: the paddings of the CPU PAD 'yb' were changed" if bad else "as expected by C16")
sys.exit(1 if bad else 0)

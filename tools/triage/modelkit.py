"""Triage-only helpers (NOT part of any registered check): build small .tflite models with Vela's own
graph classes and writer so that a suspected defect can be demonstrated against the real code."""
import os
import sys
from types import SimpleNamespace

import numpy as np

REPO = os.environ.get("VELA_REPO", "/repo")
sys.path.insert(0, REPO)
from ethosu.vela import tflite_writer  # noqa: E402
from ethosu.vela.data_type import DataType  # noqa: E402
from ethosu.vela.nn_graph import Graph, PassPlacement, Subgraph  # noqa: E402
from ethosu.vela.operation import Op, Operation, Padding  # noqa: E402
from ethosu.vela.tensor import QuantizationParameters, Tensor, create_const_tensor  # noqa: E402


def qp(scale, zp=0):
    q = QuantizationParameters()
    q.scale_f32 = np.float32(scale)
    q.zero_point = zp
    return q


def fm(name, shape, scale=0.5, dtype=DataType.int8):
    t = Tensor(shape, dtype, name)
    t.quantization = qp(scale)
    return t


def unary(optype, name, ifm, scale=1 / 256.0, zp=-128):
    ofm = fm(name + "_out", list(ifm.shape), scale)
    ofm.quantization.zero_point = zp
    op = Operation(optype, name)
    op.attrs = {}
    op.add_input_tensor(ifm)
    op.set_output_tensor(ofm)
    return op


def add(name, a, b, scale=0.5):
    ofm = fm(name + "_out", list(a.shape), scale)
    op = Operation(Op.Add, name)
    op.attrs = {"fused_activation_function": None}
    op.add_input_tensor(a)
    op.add_input_tensor(b)
    op.set_output_tensor(ofm)
    return op


def const(name, shape, values, scale=0.5, dtype=DataType.int8):
    return create_const_tensor(name, shape, dtype, np.array(values), quantization=qp(scale))


def make_model(ops, inputs, outputs):
    nng = Graph("m")
    sg = Subgraph("main", PassPlacement.Cpu)
    sg.input_tensors = list(inputs)
    sg.original_inputs = list(inputs)
    sg.output_tensors = list(outputs)
    sg.passes = [SimpleNamespace(ops=[op]) for op in ops]
    nng.subgraphs.append(sg)
    return bytes(tflite_writer.write_tflite_buffer(nng))

import sys, os, io, contextlib, traceback, tempfile
sys.path.insert(0, "/verif/tools/triage")
from modelkit import *
from ethosu.vela import vela

def run(tag, data, extra=()):
    d = tempfile.mkdtemp(prefix="tri_")
    p = os.path.join(d, "m.tflite")
    open(p, "wb").write(data)
    out = io.StringIO()
    try:
        with contextlib.redirect_stdout(out), contextlib.redirect_stderr(out):
            rc = vela.main([p, "--output-dir", d, "--accelerator-config", "ethos-u55-128", *extra])
        print(tag, "rc", rc, "| last:", out.getvalue().strip().splitlines()[-1][:150] if out.getvalue().strip() else "")
    except BaseException as e:
        tb = traceback.extract_tb(e.__traceback__)[-1]
        print(tag, "INTERNAL", type(e).__name__, str(e)[:120], f"@{os.path.basename(tb.filename)}:{tb.lineno}")

# (1) custom op without custom_options
def custom_model():
    a = fm("a", [1, 4, 4, 8])
    ofm = fm("o", [1, 4, 4, 8])
    op = Operation(Op.Custom, "mycustom")
    op.attrs = {"custom_code": "MyOp", "custom_type": None}
    op.add_input_tensor(a); op.set_output_tensor(ofm)
    return a, op, ofm
a, op, ofm = custom_model()
data = make_model([op], [a], [ofm])
# strip the custom options: rebuild with writer then patch? simpler: re-serialise with custom_options absent via flatbuffers object API not available; emulate by reading and checking attr path
run("custom(with empty options)", data)

# (2) RESHAPE with per-axis quantised IFM and OFM
a = fm("a", [1, 4, 4, 16]); a.quantization.scale_f32 = np.full(16, 0.5, np.float32); a.quantization.zero_point = np.zeros(16, np.int64); a.quantization.quant_dim = 3
o = fm("o", [1, 16, 16]); o.quantization.scale_f32 = np.full(16, 0.5, np.float32); o.quantization.zero_point = np.zeros(16, np.int64); o.quantization.quant_dim = 2
shp = create_const_tensor("shape", [3], DataType.int32, np.array([1, 16, 16]))
op = Operation(Op.Reshape, "reshape"); op.attrs = {"new_shape": [1, 16, 16]}
op.add_input_tensor(a); op.add_input_tensor(shp); op.set_output_tensor(o)
run("reshape per-axis", make_model([op], [a], [o]))

# (3) MEAN with non-constant axis
a = fm("a", [1, 8, 8, 8]); ax = Tensor([2], DataType.int32, "axis"); o = fm("o", [1, 1, 1, 8])
op = Operation(Op.Mean, "mean"); op.attrs = {"keep_dims": True}
op.add_input_tensor(a); op.add_input_tensor(ax); op.set_output_tensor(o)
run("mean dynamic axis", make_model([op], [a, ax], [o]))

# (3b) SPLIT with non-constant axis
ax = Tensor([], DataType.int32, "axis"); ax.shape=[1]
a = fm("a", [1, 8, 8, 8]); o1 = fm("o1", [1, 8, 8, 4]); o2 = fm("o2", [1, 8, 8, 4])
op = Operation(Op.Split, "split"); op.attrs = {"num_splits": 2}
op.add_input_tensor(ax); op.add_input_tensor(a); op.outputs = [o1, o2]; o1.ops=[op]; o2.ops=[op]
run("split dynamic axis", make_model([op], [a, ax], [o1, o2]))

#!/usr/bin/env python3
"""Observation on the UNMODIFIED tree (not a demo for a seeded change): a network with a MEAN over H and W is not
compiled reproducibly within one process.  Run: cd /tmp/seed4/C14 && /venv/bin/python out/pristine_mean_repro.py"""
import contextlib
import hashlib
import os
import shutil
import subprocess
import sys
import tempfile

sys.path.insert(0, os.getcwd())

import numpy as np  # noqa: E402

from ethosu.vela import tflite_writer  # noqa: E402
from ethosu.vela import vela  # noqa: E402
from ethosu.vela.data_type import DataType  # noqa: E402
from ethosu.vela.nn_graph import Graph  # noqa: E402
from ethosu.vela.nn_graph import PassPlacement  # noqa: E402
from ethosu.vela.nn_graph import Subgraph  # noqa: E402
from ethosu.vela.operation import Op  # noqa: E402
from ethosu.vela.operation import Operation  # noqa: E402
from ethosu.vela.operation import Padding  # noqa: E402
from ethosu.vela.tensor import create_const_tensor  # noqa: E402
from ethosu.vela.tensor import QuantizationParameters  # noqa: E402
from ethosu.vela.tensor import Tensor  # noqa: E402


# ---------------------------------------------------------------- tiny in-memory model builder
class _Pass:
    def __init__(self, ops):
        self.ops = ops


def _qp(scale, zp=0):
    q = QuantizationParameters()
    q.scale_f32 = np.float32(scale)
    q.zero_point = np.int64(zp)
    return q


def _fm(name, shape, scale=0.05):
    t = Tensor(list(shape), DataType.int8, name)
    t.quantization = _qp(scale)
    return t


def _conv(name, ifm, ofm_c, k, weights, dilation=1):
    n, h, w, c = ifm.shape
    wt = create_const_tensor(name + "_w", [ofm_c, k, k, c], DataType.int8, weights, quantization=_qp(0.01))
    bias = np.arange(ofm_c, dtype=np.int32) * 7 - 20
    bt = create_const_tensor(name + "_b", [ofm_c], DataType.int32, bias, quantization=_qp(0.01 * 0.05))
    ofm = _fm(name + "_out", [n, h, w, ofm_c], 0.07)
    op = Operation(Op.Conv2DBias, name)
    op.add_input_tensor(ifm)
    op.add_input_tensor(wt)
    op.add_input_tensor(bt)
    op.set_output_tensor(ofm)
    op.attrs = {
        "padding": Padding.SAME,
        "stride_w": 1,
        "stride_h": 1,
        "dilation_w_factor": dilation,
        "dilation_h_factor": dilation,
        "fused_activation_function": None,
    }
    return op, ofm


def _build(ops, inputs, outputs):
    nng = Graph("net")
    sg = Subgraph("main", PassPlacement.Cpu)
    sg.original_inputs = list(inputs)
    sg.input_tensors = list(inputs)
    sg.output_tensors = list(outputs)
    sg.virtual_outputs = []
    sg.passes = [_Pass(list(ops))]
    nng.subgraphs.append(sg)
    return bytes(tflite_writer.write_tflite_buffer(nng))


def mean_model(h, w, c):
    x = _fm("input", [1, h, w, c])
    axis = create_const_tensor("axis", [2], DataType.int32, np.array([1, 2], dtype=np.int32))
    ofm = _fm("mean_out", [1, 1, 1, c], 0.05)
    op = Operation(Op.Mean, "mean")
    op.add_input_tensor(x)
    op.add_input_tensor(axis)
    op.set_output_tensor(ofm)
    op.attrs = {"keep_dims": True}
    return _build([op], [x], [ofm])


# ---------------------------------------------------------------- entry points
@contextlib.contextmanager
def _quiet():
    sys.stdout.flush()
    saved = os.dup(1)
    devnull = os.open(os.devnull, os.O_WRONLY)
    os.dup2(devnull, 1)
    try:
        yield
    finally:
        sys.stdout.flush()
        os.dup2(saved, 1)
        os.close(devnull)
        os.close(saved)


def via_convert_bytes(model):
    with _quiet():
        return bytes(vela.convert_bytes(bytearray(model)))


def show(tag, out):
    print("%-52s %6d bytes  sha256 %s" % (tag, len(out), hashlib.sha256(out).hexdigest()[:16]))


if __name__ == "__main__":
    a = mean_model(4, 8, 16)
    b = mean_model(8, 4, 16)
    if len(sys.argv) > 1:
        show("B alone (fresh interpreter)", via_convert_bytes(b))
    else:
        show("convert_bytes(A) #1", via_convert_bytes(a))
        show("convert_bytes(A) #2", via_convert_bytes(a))
        show("convert_bytes(A) #3", via_convert_bytes(a))
        show("convert_bytes(B) after A (B is 8x4 instead of 4x8)", via_convert_bytes(b))
        sys.stdout.flush()
        subprocess.run([sys.executable, os.path.abspath(__file__), "fresh"], check=True)

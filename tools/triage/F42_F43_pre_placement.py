import sys
exec(open("/verif/tools/triage/F33_F36_c13_batch.py").read().split("# (1) custom op")[0])
from ethosu.vela import tflite_reader, model_reader
def compile_and_read(data, extra=()):
    d = tempfile.mkdtemp(prefix="tri_"); p = os.path.join(d, "m.tflite"); open(p, "wb").write(data)
    out = io.StringIO()
    with contextlib.redirect_stdout(out):
        rc = vela.main([p, "--output-dir", d, "--accelerator-config", "ethos-u55-128", *extra])
    g = tflite_reader.TFLiteGraph(os.path.join(d, "m_vela.tflite"), 1, {}, [], [])
    return rc, g
# (a) conv stride 4 with asymmetric per-channel weights
a = fm("a", [1, 16, 16, 8], 0.05)
wq = QuantizationParameters(); wq.scale_f32 = np.full(8, 0.01, np.float32); wq.zero_point = np.arange(1, 9, dtype=np.int64); wq.quant_dim = 0
wt = create_const_tensor("w", [8, 1, 1, 8], DataType.int8, np.ones([8, 1, 1, 8], np.int8), quantization=wq)
bq = QuantizationParameters(); bq.scale_f32 = np.full(8, 0.0005, np.float32); bq.zero_point = np.zeros(8, np.int64); bq.quant_dim = 0
bias = create_const_tensor("b", [8], DataType.int32, np.arange(8, dtype=np.int32), quantization=bq)
o = fm("o", [1, 4, 4, 8], 0.07)
op = Operation(Op.Conv2DBias, "conv"); op.add_input_tensor(a); op.add_input_tensor(wt); op.add_input_tensor(bias); op.set_output_tensor(o)
op.attrs = {"padding": Padding.VALID, "stride_w": 4, "stride_h": 4, "dilation_w_factor": 1, "dilation_h_factor": 1, "fused_activation_function": None}
data = make_model([op], [a], [o])
for extra in ((), ("--force-symmetric-int-weights",)):
    rc, g = compile_and_read(data, extra)
    for sg in g.subgraphs:
        for t in sg.tensors:
            if t.name.startswith("w"):
                print("(a)", extra, "rc", rc, "weights zero points written:", list(np.atleast_1d(t.quantization.zero_point)))
# (b) avg pool batch 2
a = fm("a", [2, 8, 8, 8], 0.05); o = fm("o", [2, 1, 1, 8], 0.05)
op = Operation(Op.AvgPool, "pool"); op.add_input_tensor(a); op.set_output_tensor(o)
op.attrs = {"padding": Padding.SAME, "stride_w": 8, "stride_h": 8, "filter_width": 8, "filter_height": 8, "fused_activation_function": None}
rc, g = compile_and_read(make_model([op], [a], [o]))
for sg in g.subgraphs:
    for t in sg.tensors:
        for p in t.ops:
            if p.type == Op.AvgPool: print("(b) rc", rc, "written options:", {k: p.attrs[k] for k in ("padding", "stride_w", "stride_h", "filter_width", "filter_height")}, "run on npu?", p.run_on_npu)

"""C16 observation 9 (unmodified tree): SPACE_TO_BATCH_ND -> CONV_2D -> BATCH_TO_SPACE_ND (operators that the report does not
list; 'any other TFLite operator not listed will be left untouched and scheduled on the CPU').

replace_dilated_convolution removes the two unlisted operators whenever the merged dilated convolution is supported; it
does not look at the other consumers of the tensors it disconnects:
(a) if the convolution output has a second consumer (here a RELU that is also a network output) the graph is left
    inconsistent and verify_graph_health asserts: compilation aborts although every operator is either unlisted (must be
    left untouched on the CPU) or a CONV_2D / RELU that can stay where the checks put them.
(b) for reference, the chain alone compiles to one Ethos-U operator, i.e. the unlisted operators are not 'left untouched'.
Exits 1 if (a) reproduces.
"""
import contextlib
import io
import os
import re
import sys
import tempfile

sys.path.insert(0, os.getcwd())

import numpy as np  # noqa: E402

from ethosu.vela import vela  # noqa: E402
from ethosu.vela.data_type import DataType  # noqa: E402
from ethosu.vela.nn_graph import Graph, Pass, PassPlacement, Subgraph  # noqa: E402
from ethosu.vela.operation import NpuBlockType, Op, Operation, Padding  # noqa: E402
from ethosu.vela.tensor import QuantizationParameters, Tensor  # noqa: E402
from ethosu.vela.tflite.Model import Model  # noqa: E402
from ethosu.vela.tflite_mapping import builtin_operator_name_map  # noqa: E402
from ethosu.vela.tflite_writer import write_tflite  # noqa: E402


def fm(name, shape, dtype, scale=None, zp=0):
    t = Tensor(list(shape), dtype, name)
    if scale is not None:
        q = QuantizationParameters()
        q.scale_f32 = np.float32(scale)
        q.zero_point = zp
        t.quantization = q
    return t


def mkop(op_type, name, inputs, outputs, attrs=None):
    op = Operation(op_type, name)
    for t in inputs:
        op.add_input_tensor(t)
    for t in outputs:
        op.add_output_tensor(t)
    op.attrs.update(attrs or {})
    op.run_on_npu = False  # plain TFLite operator of the input model
    return op


def build_graph(inputs, outputs, ops):
    sg = Subgraph("main", PassPlacement.Cpu)
    for t in inputs:
        Operation(Op.Placeholder, t.name + "_ph").set_output_tensor(t)
        sg.input_tensors.append(t)
    sg.original_inputs = list(inputs)
    sg.output_tensors = list(outputs)
    ps = Pass("all", PassPlacement.Cpu, False, NpuBlockType.Default)
    ps.ops = list(ops)
    sg.passes = [ps]
    nng = Graph("net")
    nng.subgraphs.append(sg)
    return nng


@contextlib.contextmanager
def quiet():
    """silence everything Vela prints (some of it is written to the sys.stdout object captured at import time)"""
    sys.stdout.flush()
    saved = os.dup(1)
    devnull = os.open(os.devnull, os.O_WRONLY)
    os.dup2(devnull, 1)
    try:
        with contextlib.redirect_stdout(io.StringIO()):
            yield
    finally:
        sys.stdout.flush()
        os.dup2(saved, 1)
        os.close(saved)
        os.close(devnull)


def const(name, shape, dtype, values, scale=None, zp=0):
    t = fm(name, shape, dtype, scale, zp)
    np_type = {DataType.int8: np.int8, DataType.uint8: np.uint8, DataType.int16: np.int16, DataType.int32: np.int32}[dtype]
    t.values = np.broadcast_to(np.array(values, dtype=np_type), tuple(shape)).copy()
    Operation(Op.Const, name + "_const").set_output_tensor(t)
    return t


CONV_ATTRS = {"padding": Padding.SAME, "stride_h": 1, "stride_w": 1, "dilation_h_factor": 1, "dilation_w_factor": 1}
CONV_ATTRS["fused_activation_function"] = None


def try_compile(nng, accelerator="ethos-u55-128", extra_args=()):
    """-> (operator list of the output model or None, exception text or None)"""
    try:
        return compiled_operators(nng, accelerator, extra_args), None
    except BaseException as e:  # noqa: B902
        import traceback

        where = " <- ".join(f"{f.name}:{f.lineno}" for f in reversed(traceback.extract_tb(e.__traceback__)[-3:]))
        return None, f"{type(e).__name__}: {e} (at {where})"


def compiled_operators(nng, accelerator, extra_args=()):
    """-> list of (builtin operator name, input tensor names, output tensor names) of the output model"""
    tmp = tempfile.mkdtemp(prefix="c16_obs_")
    src = os.path.join(tmp, "net.tflite")
    write_tflite(nng, src)
    with quiet():
        vela.main([src, "--output-dir", tmp, "--accelerator-config", accelerator, *extra_args])
    with open(os.path.join(tmp, "net_vela.tflite"), "rb") as f:
        model = Model.GetRootAsModel(bytearray(f.read()), 0)
    sg = model.Subgraphs(0)
    res = []
    for i in range(sg.OperatorsLength()):
        o = sg.Operators(i)
        code = model.OperatorCodes(o.OpcodeIndex())
        name = builtin_operator_name_map[max(code.BuiltinCode(), code.DeprecatedBuiltinCode())]
        ins = [sg.Tensors(o.Inputs(j)).Name().decode() for j in range(o.InputsLength()) if o.Inputs(j) >= 0]
        outs = [sg.Tensors(o.Outputs(j)).Name().decode() for j in range(o.OutputsLength())]
        res.append((name, ins, outs))
    return res


def generated_report():
    cwd = os.getcwd()
    tmp = tempfile.mkdtemp(prefix="c16_report_")
    os.chdir(tmp)
    try:
        with quiet():
            vela.main(["--supported-ops-report"])
        with open(os.path.join(tmp, "SUPPORTED_OPS.md")) as f:
            return f.read()
    finally:
        os.chdir(cwd)

def network(extra_consumer):
    i8 = DataType.int8
    a = fm("a", (1, 8, 8, 4), i8, 1.0)
    s = fm("s2b", (4, 6, 6, 4), i8, 1.0)
    c = fm("conv_out", (4, 4, 4, 8), i8, 1.0)
    o = fm("ofm", (1, 8, 8, 8), i8, 1.0)
    block = const("block", (2,), DataType.int32, [2, 2])
    pads = const("pads", (2, 2), DataType.int32, [[2, 2], [2, 2]])
    crops = const("crops", (2, 2), DataType.int32, [[0, 0], [0, 0]])
    w = const("w", (8, 3, 3, 4), i8, 1, 1.0)
    b = const("b", (8,), DataType.int32, 0, 1.0)
    ops = [
        mkop(Op.SpaceToBatchND, "s2b", [a, block, pads], [s]),
        mkop(Op.Conv2DBias, "conv", [s, w, b], [c], dict(CONV_ATTRS, padding=Padding.VALID)),
        mkop(Op.BatchToSpaceND, "b2s", [c, block, crops], [o]),
    ]
    outs = [o]
    if extra_consumer:
        r = fm("relu_out", (4, 4, 4, 8), i8, 1.0)
        ops.append(mkop(Op.Relu, "relu", [c], [r]))
        outs.append(r)
    return build_graph([a], outs, ops)


def main():
    ops, err = try_compile(network(False))
    print("(b) chain alone ->", err or [n for n, _, _ in ops])
    ops, err = try_compile(network(True))
    print("(a) convolution output also feeds a RELU ->", err or [n for n, _, _ in ops])
    bad = err is not None
    print("REPRODUCED" if bad else "not reproduced")
    return 1 if bad else 0


if __name__ == "__main__":
    sys.exit(main())

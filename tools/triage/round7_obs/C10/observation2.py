import contextlib
import io
import os
import sys
import tempfile
from types import SimpleNamespace

sys.path.insert(0, os.getcwd())

import numpy as np  # noqa: E402

from ethosu.vela import compiler_driver  # noqa: E402
from ethosu.vela import high_level_command_to_npu_op as hl2npu  # noqa: E402
from ethosu.vela import vela  # noqa: E402
from ethosu.vela.api import NpuResamplingMode  # noqa: E402
from ethosu.vela.data_type import DataType  # noqa: E402
from ethosu.vela.high_level_command_stream import NpuStripe  # noqa: E402
from ethosu.vela.nn_graph import Graph  # noqa: E402
from ethosu.vela.nn_graph import PassPlacement  # noqa: E402
from ethosu.vela.nn_graph import Subgraph  # noqa: E402
from ethosu.vela.operation import Op  # noqa: E402
from ethosu.vela.operation import Operation  # noqa: E402
from ethosu.vela.operation import Padding  # noqa: E402
from ethosu.vela.tensor import create_const_tensor  # noqa: E402
from ethosu.vela.tensor import QuantizationParameters  # noqa: E402
from ethosu.vela.tensor import Tensor  # noqa: E402
from ethosu.vela.tensor import TensorSubPurpose  # noqa: E402
from ethosu.vela.tflite_writer import write_tflite_buffer  # noqa: E402


# ----------------------------------------------------------------------------------------------------------------------
# A tiny in-memory TFLite model builder (int8, NHWC). Every layer is recorded in self.layers, keyed by the name of its
# output tensor, with the geometry the TensorFlow Lite operator has - this is what the oracle below works from.
# ----------------------------------------------------------------------------------------------------------------------
def _qp(scale=0.05, zp=0):
    q = QuantizationParameters()
    q.scale_f32 = np.float32(scale)
    q.zero_point = zp
    q.quant_min = -128
    q.quant_max = 127
    return q


class Net:
    def __init__(self, ifm_shape, seed=0):
        self.rng = np.random.RandomState(seed)
        self.ops = []
        self.layers = {}
        self.n = 0
        self.input = Tensor(list(ifm_shape), DataType.int8, "input")
        self.input.quantization = _qp()

    def _name(self, base):
        self.n += 1
        return f"{base}{self.n}"

    def _fm(self, shape, name):
        t = Tensor(list(shape), DataType.int8, name)
        t.quantization = _qp()
        return t

    @staticmethod
    def _const(name, shape, dtype, values, quant=None):
        return create_const_tensor(name, list(shape), dtype, values, quantization=quant)

    def _finish(self, op, inputs, ofm, attrs):
        op.inputs = list(inputs)
        for t in inputs:
            t.consumer_list.append(op)
        op.set_output_tensor(ofm)
        op.attrs = attrs
        self.ops.append(op)
        return ofm

    @staticmethod
    def _out_size(i, k, s, d, padding):
        kd = (k - 1) * d + 1
        return (i + s - 1) // s if padding == "SAME" else (i - kd) // s + 1

    def conv(self, x, oc, k=(3, 3), stride=(1, 1), dilation=(1, 1), padding="SAME", depthwise=False):
        n, h, w, c = x.shape
        name = self._name("dw" if depthwise else "conv")
        oh = self._out_size(h, k[0], stride[0], dilation[0], padding)
        ow = self._out_size(w, k[1], stride[1], dilation[1], padding)
        if depthwise:
            oc = c
            wshape = [1, k[0], k[1], c]
            op = Operation(Op.DepthwiseConv2DBias, name)
        else:
            wshape = [oc, k[0], k[1], c]
            op = Operation(Op.Conv2DBias, name)
        wt = self._const(name + "_w", wshape, DataType.int8, self.rng.randint(-100, 100, wshape), _qp(0.01))
        bt = self._const(name + "_b", [oc], DataType.int32, self.rng.randint(-100, 100, [oc]), _qp(0.0005))
        ofm = self._fm([n, oh, ow, oc], name + "_out")
        attrs = {
            "padding": Padding.SAME if padding == "SAME" else Padding.VALID,
            "stride_h": stride[0],
            "stride_w": stride[1],
            "dilation_h_factor": dilation[0],
            "dilation_w_factor": dilation[1],
            "fused_activation_function": None,
        }
        if depthwise:
            attrs["depth_multiplier"] = 1
        self.layers[ofm.name] = dict(
            kind="kernel", k=k, stride=stride, dilation=dilation, padding=padding, ifm_hw=(h, w), ofm_hw=(oh, ow), 
        )
        return self._finish(op, [x, wt, bt], ofm, attrs)

    def pool(self, x, k=(2, 2), stride=(2, 2), padding="VALID", kind="max"):
        n, h, w, c = x.shape
        name = self._name(kind + "pool")
        oh = self._out_size(h, k[0], stride[0], 1, padding)
        ow = self._out_size(w, k[1], stride[1], 1, padding)
        op = Operation(Op.MaxPool if kind == "max" else Op.AvgPool, name)
        ofm = self._fm([n, oh, ow, c], name + "_out")
        attrs = {
            "padding": Padding.SAME if padding == "SAME" else Padding.VALID,
            "stride_h": stride[0],
            "stride_w": stride[1],
            "filter_height": k[0],
            "filter_width": k[1],
            "fused_activation_function": None,
        }
        self.layers[ofm.name] = dict(
            kind="kernel", k=k, stride=stride, dilation=(1, 1), padding=padding, ifm_hw=(h, w), ofm_hw=(oh, ow), 
        )
        return self._finish(op, [x], ofm, attrs)

    def resize(self, x, factor, bilinear=False, align_corners=False):
        """RESIZE_NEAREST_NEIGHBOR / RESIZE_BILINEAR by an integer factor (Vela lowers it to one NPU operator per 2x)"""
        n, h, w, c = x.shape
        name = self._name("resize")
        oh = h * factor - (factor - 1 if align_corners else 0)
        ow = w * factor - (factor - 1 if align_corners else 0)
        op = Operation(Op.ResizeBilinear if bilinear else Op.ResizeNearestNeighbor, name)
        size = self._const(name + "_size", [2], DataType.int32, [oh, ow])
        ofm = self._fm([n, oh, ow, c], name + "_out")
        self.layers[ofm.name] = dict(kind="other", ofm_hw=(oh, ow))
        return self._finish(op, [x, size], ofm, {"align_corners": align_corners, "half_pixel_centers": False})

    def add_const(self, x, const_shape=None):
        """x + constant; the constant is broadcast along every axis in which its extent is 1"""
        n, h, w, c = x.shape
        name = self._name("add")
        shape = list(const_shape) if const_shape is not None else [1, 1, 1, c]
        op = Operation(Op.Add, name)
        k = self._const(name + "_k", shape, DataType.int8, self.rng.randint(-100, 100, shape), _qp())
        ofm = self._fm(x.shape, name + "_out")
        attrs = {"fused_activation_function": None, "pot_scale_int16": False}
        self.layers[ofm.name] = dict(kind="elementwise", const_name=k.name, const_shape=shape, ofm_hw=(h, w))
        return self._finish(op, [x, k], ofm, attrs)

    def to_tflite(self, outputs):
        sg = Subgraph("main", PassPlacement.Cpu)
        sg.passes = [SimpleNamespace(ops=list(self.ops))]
        sg.original_inputs = [self.input]
        sg.input_tensors = [self.input]
        sg.output_tensors = list(outputs)
        sg.virtual_outputs = []
        nng = Graph("net", 1)
        nng.subgraphs = [sg]
        nng.metadata = []
        for op in self.ops:
            op.run_on_npu = False
        return bytes(write_tflite_buffer(nng))


# ----------------------------------------------------------------------------------------------------------------------
# Compile with Vela and capture, per NPU subgraph, the list of NpuOperation objects that is handed to the register
# command stream generator (i.e. what the hardware is told) together with the high-level command of each.
# ----------------------------------------------------------------------------------------------------------------------
def compile_model(buf, extra_args=()):
    captured = []
    orig_gen = hl2npu.generate_command_stream
    orig_sg = compiler_driver.high_level_command_to_npu_op.generate_register_command_stream_for_sg

    def hooked(npu_op_list, arch, verbose, mem_limits, add_to_debug_db=None, npu_op_to_cmd=None):
        captured.append(SimpleNamespace(arch=arch, npu_ops=list(npu_op_list), op_to_cmd=dict(npu_op_to_cmd or {})))
        return orig_gen(npu_op_list, arch, verbose, mem_limits, add_to_debug_db, npu_op_to_cmd)

    def hooked_sg(nng, sg, arch, verbose=False):
        n0 = len(captured)
        r = orig_sg(nng, sg, arch, verbose)
        for e in captured[n0:]:
            e.sg = sg
        return r

    hl2npu.generate_command_stream = hooked
    compiler_driver.high_level_command_to_npu_op.generate_register_command_stream_for_sg = hooked_sg
    try:
        with tempfile.TemporaryDirectory() as td:
            path = os.path.join(td, "m.tflite")
            with open(path, "wb") as f:
                f.write(buf)
            # Vela prints its network summary to the stdout it saw at import time: silence it at descriptor level
            sys.stdout.flush()
            saved_fd = os.dup(1)
            devnull = os.open(os.devnull, os.O_WRONLY)
            try:
                os.dup2(devnull, 1)
                with contextlib.redirect_stdout(io.StringIO()):
                    vela.main([path, "--output-dir", td] + list(extra_args))
            finally:
                sys.stdout.flush()
                os.dup2(saved_fd, 1)
                os.close(saved_fd)
                os.close(devnull)
    finally:
        hl2npu.generate_command_stream = orig_gen
        compiler_driver.high_level_command_to_npu_op.generate_register_command_stream_for_sg = orig_sg
    return captured


# ----------------------------------------------------------------------------------------------------------------------
# Oracle. Works from the TensorFlow Lite geometry recorded by the builder and from what is handed to the hardware
# (NpuOperation: feature map base addresses / tile heights / strides, OFM extent, padding, kernel).
# ----------------------------------------------------------------------------------------------------------------------
def tflite_padding(in_size, k, s, d, padding):
    """(pad_before, pad_after) of a TensorFlow Lite convolution / pooling"""
    if padding != "SAME":
        return 0, 0
    kd = (k - 1) * d + 1
    out = (in_size + s - 1) // s
    total = max((out - 1) * s + kd - in_size, 0)
    return total // 2, total - total // 2


def hw_rows(fm, tens, nrows):
    """Decodes which rows of the tensor's buffer (slot numbers) the hardware addresses for rows 0..nrows-1 of a feature
    map, from its tile base addresses, tile height and row stride; the column / channel offset must be zero"""
    sy = fm.strides.height
    rows = []
    for r in range(nrows):
        if r < fm.tiles.height_0:
            addr = fm.tiles.addresses[0] + r * sy
        else:
            addr = fm.tiles.addresses[2] + (r - fm.tiles.height_0) * sy
        off = addr - tens.address
        if off < 0 or off % sy != 0:
            return None
        rows.append(off // sy)
    return rows


def _layer_of(layers, tens):
    # tensors on the boundary of the NPU subgraph are clones named <name>_cpu / <name>_npu
    name = tens.name
    for suffix in ("_cpu", "_npu"):
        if name.endswith(suffix):
            name = name[: -len(suffix)]
    return name, layers.get(name)


def hw_ifm_row_count(npu_op):
    """Number of IFM rows the hardware reads for an operator, from the registers it is given"""
    k = npu_op.kernel
    up = 1 if npu_op.ifm_upscale == NpuResamplingMode.NONE else 2
    n_up = (npu_op.ofm.shape.height - 1) * k.stride_y + (k.height - 1) * k.dilation_y + 1
    n_up -= npu_op.padding.top + npu_op.padding.bottom
    return max(-(-n_up // up), 1)


def check(captured, layers):
    """Returns (violations, statistics)"""
    errs = []
    stats = {"stripes": 0, "striped_ops": 0, "rolling_reads": 0}
    for e in captured:
        cmds = [c for c in e.sg.high_level_command_stream if isinstance(c, NpuStripe)]
        cmd_to_npu = {id(c): o for o, c in e.op_to_cmd.items()}
        per_ofm = {}
        for c in cmds:
            per_ofm.setdefault(c.ofm_tensor.name, []).append(c)

        # ---- rolling buffer contents: slot -> logical row, updated / checked in execution order
        slots = {}

        def read_rolling(tag, tens, need):
            B = tens.storage_shape[1]
            st = slots.setdefault(tens.name, {})
            for r in need:
                stats["rolling_reads"] += 1
                if st.get(r % B) != r:
                    errs.append(
                        f"{tag}: reads row {r} of rolling buffer {tens.name} (height {B}) but that slot holds"
                        f" row {st.get(r % B)}"
                    )
                    return

        for c in cmds:
            npu_op = cmd_to_npu[id(c)]
            lay = _layer_of(layers, c.ofm_tensor)[1]
            stats["stripes"] += 1
            oy0, oy1 = int(c.ofm_box.start_coord[1]), int(c.ofm_box.end_coord[1])
            tag = f"{c.ofm_tensor.name} stripe (OFM rows {oy0}..{oy1})"
            whole_depth = int(c.ofm_box.start_coord[3]) == 0 and int(c.ofm_box.start_coord[2]) == 0
            # -- OFM rows as addressed by the hardware
            ofm_t = c.ofm_tensor
            ofm_rolling = ofm_t.sub_purpose == TensorSubPurpose.RollingBufferY
            ofm_B = ofm_t.storage_shape[1] if ofm_rolling else None
            if npu_op.ofm.shape.height != oy1 - oy0:
                errs.append(f"{tag}: hardware OFM height {npu_op.ofm.shape.height}")
            if whole_depth:
                rows = hw_rows(npu_op.ofm, ofm_t, oy1 - oy0)
                exp_rows = [(r % ofm_B) if ofm_rolling else r for r in range(oy0, oy1)]
                if rows != exp_rows:
                    errs.append(f"{tag}: hardware writes buffer rows {rows}, expected {exp_rows}")

            if lay is not None and lay["kind"] == "kernel":
                kh, kw = lay["k"]
                sy, sx = lay["stride"]
                dy, dx = lay["dilation"]
                ih, iw = lay["ifm_hw"]
                if "explicit" in lay:
                    ptop, pbot, pleft, pright = lay["explicit"]
                else:
                    ptop, pbot = tflite_padding(ih, kh, sy, dy, lay["padding"])
                    pleft, pright = tflite_padding(iw, kw, sx, dx, lay["padding"])
                kdh, kdw = (kh - 1) * dy + 1, (kw - 1) * dx + 1
                # the kernel given to the hardware
                hk = npu_op.kernel
                if (hk.height, hk.width, hk.stride_y, hk.stride_x, hk.dilation_y, hk.dilation_x) != (
                    kh,
                    kw,
                    sy,
                    sx,
                    dy,
                    dx,
                ):
                    errs.append(f"{tag}: hardware kernel {hk}")
                # receptive field of OFM rows oy0..oy1 in the IFM
                lo = oy0 * sy - ptop
                hi = (oy1 - 1) * sy - ptop + kdh
                exp_top = max(0, -lo)
                exp_bottom = max(0, hi - ih)
                first_row = max(lo, 0)
                last_row = min(hi, ih) - 1
                pad = npu_op.padding
                if (pad.top, pad.bottom) != (exp_top, exp_bottom):
                    errs.append(
                        f"{tag}: hardware padding top/bottom = {pad.top}/{pad.bottom}, the receptive field needs"
                        f" {exp_top}/{exp_bottom}"
                    )
                exp_left = pleft
                exp_right = max(0, (lay["ofm_hw"][1] - 1) * sx - pleft + kdw - iw)
                if (pad.left, pad.right) != (exp_left, exp_right):
                    errs.append(
                        f"{tag}: hardware padding left/right = {pad.left}/{pad.right}, expected {exp_left}/{exp_right}"
                    )
                # which buffer rows the hardware reads: rows first_row..last_row of the IFM
                ifm_t = c.ifm_tensor
                rolling = ifm_t.sub_purpose == TensorSubPurpose.RollingBufferY
                B = ifm_t.storage_shape[1] if rolling else None
                need = list(range(first_row, last_row + 1))
                if int(c.ifm_box.start_coord[3]) == 0:
                    rows = hw_rows(npu_op.ifm, ifm_t, len(need))
                    exp_rows = [(r % B) if rolling else r for r in need]
                    if rows != exp_rows:
                        errs.append(
                            f"{tag}: hardware reads IFM buffer rows {rows} (tile 0 holds {npu_op.ifm.tiles.height_0}"
                            f" rows), the receptive field is rows {need}"
                        )
                    elif rolling:
                        read_rolling(tag, ifm_t, need)
            elif lay is not None and lay["kind"] == "elementwise":
                # operand that is the feature map: rows oy0..oy1; the constant: rows oy0..oy1, or row 0 where broadcast
                for fm, tens in ((npu_op.ifm, c.ifm_tensor), (npu_op.ifm2, c.ifm2_tensor)):
                    if fm is None or tens is None or len(tens.shape) != 4:
                        continue
                    is_const = tens.name.startswith(lay["const_name"])
                    th = lay["const_shape"][1] if is_const else lay["ofm_hw"][0]
                    need = [0] if th == 1 else list(range(oy0, oy1))
                    rolling = tens.sub_purpose == TensorSubPurpose.RollingBufferY
                    B = tens.storage_shape[1] if rolling else None
                    rows = hw_rows(fm, tens, len(need))
                    exp_rows = [(r % B) if rolling else r for r in need]
                    if rows != exp_rows:
                        errs.append(
                            f"{tag}: hardware reads buffer rows {rows} of operand {tens.name}"
                            f" (shape {list(tens.shape)}), expected rows {need}"
                        )
                    elif rolling:
                        read_rolling(tag, tens, need)
            else:
                # an operator the builder did not describe (the pieces a RESIZE is lowered to, copies, ...): its IFM
                # rows are taken from its IFM box and the number of rows the hardware reads; what the rolling buffer
                # holds at that moment is still checked
                ifm_t = c.ifm_tensor
                if (
                    ifm_t is not None
                    and ifm_t.sub_purpose == TensorSubPurpose.RollingBufferY
                    and npu_op.padding is not None
                    and int(c.ifm_box.start_coord[3]) == 0
                ):
                    B = ifm_t.storage_shape[1]
                    i0 = int(c.ifm_box.start_coord[1])
                    need = list(range(i0, i0 + hw_ifm_row_count(npu_op)))
                    rows = hw_rows(npu_op.ifm, ifm_t, len(need))
                    if rows != [r % B for r in need]:
                        errs.append(f"{tag}: hardware reads IFM buffer rows {rows}, IFM box rows {need}")
                    else:
                        read_rolling(tag, ifm_t, need)
            # -- this stripe's output is now in its buffer
            if ofm_rolling:
                st = slots.setdefault(ofm_t.name, {})
                for r in range(oy0, oy1):
                    st[r % ofm_B] = r

        # ---- the stripes of every operator partition its output
        for name, lst in per_ofm.items():
            lay = _layer_of(layers, lst[0].ofm_tensor)[1]
            if len(set((int(c.ofm_box.start_coord[1]), int(c.ofm_box.start_coord[3])) for c in lst)) > 1:
                stats["striped_ops"] += 1
            if any(c.ps.primary_op.ofm_stride_multiplier not in (None, [1, 1, 1]) for c in lst):
                continue
            shape = [int(v) for v in lst[0].ps.ofm_shapes[0].as_list()]
            cnt = np.zeros(shape, dtype=np.int32)
            for c in lst:
                s, t = [int(v) for v in c.ofm_box.start_coord], [int(v) for v in c.ofm_box.end_coord]
                cnt[s[0] : t[0], s[1] : t[1], s[2] : t[2], s[3] : t[3]] += 1
            if (lay is not None and shape[1:3] != list(lay["ofm_hw"])) or not np.all(cnt == 1):
                errs.append(
                    f"{name}: the stripes do not partition the OFM {shape}: {int((cnt == 0).sum())} elements are not"
                    f" written, {int((cnt > 1).sum())} more than once"
                )
    return errs, stats


def finish(errs, stats, need_striped=1):
    if stats["striped_ops"] < need_striped:
        print(f"FAIL: the demonstration needs striped operators but the scheduler produced {stats}")
        sys.exit(1)
    if errs:
        print(f"FAIL: {len(errs)} violation(s); {stats}")
        for e in errs[:10]:
            print("   ", e)
        sys.exit(1)
    print(f"PASS ({stats})")
    sys.exit(0)


# ----------------------------------------------------------------------------------------------------------------------
# Observation 2 (UNMODIFIED tree): in a cascade the producers are only run as far as the consumer's IFM boxes ask for.
# A VALID, strided consumer whose last kernel position stops short of the end of its IFM therefore leaves the trailing
# stripe(s) of its producers un-issued: the producers' stripes do not cover their whole OFM (a gap). Here:
# conv3x3 (9 rows) -> RESIZE_NEAREST 2x (18 rows, produced in 4-row stripes) -> conv 4x3 stride 3 VALID (5 rows, needs
# IFM rows 0..15 only): the resize never produces rows 16..17 and the first convolution never produces its row 8.
# The rows are not read by anything (the tensors are rolling buffers private to the cascade), so the final result is
# not affected - but the "stripes partition the operator's output" half of the property does not hold literally.
# ----------------------------------------------------------------------------------------------------------------------
def main():
    net = Net((1, 9, 8, 16))
    x = net.conv(net.input, 64, k=(3, 3))
    x = net.resize(x, 2)
    x = net.conv(x, 64, k=(4, 3), stride=(3, 1), padding="VALID")
    x = net.conv(x, 8, k=(1, 1))
    captured = compile_model(net.to_tflite([x]), ["--accelerator-config", "ethos-u55-128", "--optimise", "Size"])
    for e in captured:
        for c in e.sg.high_level_command_stream:
            if isinstance(c, NpuStripe) and c.ofm_tensor.name in ("conv1_out", "resize2_out"):
                print(f"{c.ofm_tensor.name}: stripe OFM rows {c.ofm_box.start_coord[1]}..{c.ofm_box.end_coord[1]}"
                      f" of {c.ps.ofm_shapes[0].height}")
    errs, stats = check(captured, net.layers)
    for e in errs:
        print("   ", e)
    print("VIOLATION (gap, functionally benign) on the unmodified tree" if errs else "no violation")
    sys.exit(1 if errs else 0)


if __name__ == "__main__":
    main()

"""Observation 3 (UNMODIFIED tree, direct call only): nearest-neighbour 2x upscaling combined with an odd top skirt.

Box.transform_with_strides_and_skirt handles an odd top padding of an operator that reads a 2x upscaled IFM with
'skirt_top_remainder' (skirt[0] % upscaling_factor): the remainder is added to the start row *and* to pad_top of every
stripe. That is right for the first stripe (its top row really is padding) but for an interior stripe the row above the
stripe is real data: for a 3x3 SAME kernel over an 8-row IFM upscaled to 16 rows, OFM rows 4..6 cover upscaled rows
3..6 = IFM rows 1..3 with no padding; the function returns IFM rows 2..4 with pad_top 1, i.e. IFM row 1 is replaced by
padding.

Not reachable through the TensorFlow Lite front end in this tree: the only operators with NEAREST resampling are the
pieces of RESIZE_NEAREST_NEIGHBOR / RESIZE_BILINEAR, whose top padding is always 0 (1x1 kernels, or explicit padding
[0, 0, k-1, k-1], or VALID); the quantifier of the property (nearest upscaling x SAME padding) does include it."""
import os
import sys

sys.path.insert(0, os.getcwd())

from ethosu.vela.high_level_command_stream import Box  # noqa: E402
from ethosu.vela.operation import NpuBlockType  # noqa: E402
from ethosu.vela.shape4d import Shape4D  # noqa: E402

H, W, C, UP = 8, 8, 16, 2
K, TOP, BOTTOM = 3, 1, 1  # 3x3 kernel, SAME padding over the 16 upscaled rows; skirt == padding for stride 1
bad = False
for y0, y1 in ((0, 2), (4, 6), (6, 8), (14, 16)):
    box, pad_top, pad_bottom = Box([0, y0, 0, 0], [1, y1, 2 * W, C]).transform_with_strides_and_skirt(
        [1, 1, 1, 1], [TOP, 1, BOTTOM, 1], Shape4D(1, H, W, C), NpuBlockType.Pooling, [0, 0, 0, 0], K, None, None, UP
    )
    lo, hi = y0 - TOP, (y1 - 1) - TOP + K  # rows of the upscaled IFM under the kernel
    exp_top, exp_bottom = max(0, -lo), max(0, hi - UP * H)
    exp_rows = (max(lo, 0) // UP, -(-min(hi, UP * H) // UP))
    got_rows = (int(box.start_coord[1]), int(box.end_coord[1]))
    ok = (pad_top, pad_bottom) == (exp_top, exp_bottom) and got_rows[0] == exp_rows[0] and got_rows[1] >= exp_rows[1]
    bad = bad or not ok
    print(
        f"OFM rows {y0}..{y1}: IFM rows {got_rows[0]}..{got_rows[1]} pad top/bottom {pad_top}/{pad_bottom};"
        f" receptive field: IFM rows {exp_rows[0]}..{exp_rows[1]} pad {exp_top}/{exp_bottom}  {'ok' if ok else 'WRONG'}"
    )
print("VIOLATION on the unmodified tree (direct call)" if bad else "no violation")
sys.exit(1 if bad else 0)

"""Observation 2 (unmodified tree): OFM_SCALE of an average pool that also rescales (IFM scale != OFM scale, the
non-fused, non-explicit branch of generate_ofm_scaling_for_pooling) is not accurate to 2^-31.

The pair is round(quantise_pooling_scale(n, rescale_bits) * rescale). quantise_pooling_scale adds a +2^k rounding bias to
a 2^(N+k) numerator with N = 31 - rescale_bits, so the bias, 2^-31 for a plain divisor, becomes 2^-(31 - rescale_bits)
relative: 2^-28 for any rescale in (1, 4), 2^-20 for a rescale of about 500. With int16 data the bias is large enough
to move reachable values over a rounding boundary.

Reproducer: 1x1 average pool ("NOP" requantisation), int16, ifm scale 0.051276285, ofm scale 0.018536184."""
import os
import sys
from fractions import Fraction

sys.path.insert(0, os.getcwd())

import numpy as np  # noqa: E402

from ethosu.vela import scaling  # noqa: E402
from ethosu.vela.api import NpuDataType  # noqa: E402
from ethosu.vela.api import NpuFeatureMap  # noqa: E402
from ethosu.vela.api import NpuKernel  # noqa: E402
from ethosu.vela.api import NpuPadding  # noqa: E402
from ethosu.vela.api import NpuPoolingOp  # noqa: E402
from ethosu.vela.api import NpuPoolingOperation  # noqa: E402
from ethosu.vela.api import NpuQuantization  # noqa: E402
from ethosu.vela.api import NpuShape3D  # noqa: E402
from ethosu.vela.register_command_stream_generator import CommandStreamEmitter  # noqa: E402
from ethosu.vela.register_command_stream_generator import generate_ofm_scaling_for_pooling  # noqa: E402


def fm(scale):
    f = NpuFeatureMap()
    f.data_type = NpuDataType.INT16
    f.shape = NpuShape3D(1, 1, 16)
    f.quantization = NpuQuantization(scale_f32=scale, zero_point=0)
    return f


def round_away(v):
    r = int(abs(v) + Fraction(1, 2))
    return r if v >= 0 else -r


def mismatches(ratio, scale, shift):
    res = []
    for x in range(-32768, 32768):
        v = ratio * x
        if abs(v) > 32767:
            continue
        hw = (x * scale + (1 << (shift - 1))) >> shift
        if hw != round_away(v):
            res.append((x, float(v), hw))
    return res


def main():
    s_in, s_out = np.float32(0.05127628520131111), np.float32(0.01853618398308754)
    op = NpuPoolingOperation(NpuPoolingOp.AVERAGE)
    op.ifm, op.ofm = fm(s_in), fm(s_out)
    op.kernel = NpuKernel(1, 1, 1, 1)
    op.padding = NpuPadding(0, 0, 0, 0)
    emit = CommandStreamEmitter()
    generate_ofm_scaling_for_pooling(emit, op)
    ((cmd, payload),) = emit.cmd_stream
    scale, shift = int(payload), (cmd >> 16) & 0x3F
    ratio = Fraction(float(s_in)) / Fraction(float(s_out))
    rel = float(abs(Fraction(scale, 1 << shift) - ratio) / ratio)
    print(f"OFM_SCALE = ({scale}, {shift}) for rescale {float(ratio):.9f}: relative error {rel:.3g} (2^-31 = {2.0**-31:.3g})")
    bad = mismatches(ratio, scale, shift)
    for x, v, hw in bad:
        print(f"  input {x}: exact {v:.6f} -> hardware {hw}, correctly rounded {round_away(Fraction(v))}")
    m, s = scaling.quantise_scale(float(ratio))
    print(f"quantise_scale gives ({m}, {s}): {len(mismatches(ratio, m, s))} mismatches with that pair")
    return 0


if __name__ == "__main__":
    sys.exit(main())

"""Observation 1 (unmodified tree): for large int16 average-pool windows the divisor pair of
scaling.quantise_pooling_scale no longer reproduces the rounded division for every reachable accumulator.

The pair is scale = ceil-ish(2^(31+k) / n) with a +2^k bias (relative bias about 2^-31) so that exact halves round away
from zero. For |acc / n| above roughly 2^30 / n the bias itself pushes values that lie just below a half over it. With
int16 data |acc| <= 32768 * n, so windows with more than about 32768 elements (allowed: VALID average pool, kernel
height <= 256 and height * width <= 65536) are affected; 8-bit data are never affected.

Prints the smallest kernel (h, w <= 256) that has a mismatch and an explicit accumulator."""
import os
import sys

sys.path.insert(0, os.getcwd())

from ethosu.vela import scaling  # noqa: E402


def hw_result(acc, scale, shift):
    return (acc * scale + (1 << (shift - 1))) >> shift


def rounded_division(acc, n):
    q = (2 * abs(acc) + n) // (2 * n)  # round to nearest, halves away from zero (reference kernel)
    return q if acc >= 0 else -q


def first_bad_quotient(n, qmax):
    scale, shift = scaling.quantise_pooling_scale(n)
    r = (n + 1) // 2 - 1  # largest remainder that must still round down

    def bad(q):
        acc = q * n + r
        return hw_result(acc, scale, shift) != rounded_division(acc, n)

    if not bad(qmax - 1):
        return None
    lo, hi = 0, qmax - 1
    while lo < hi:
        mid = (lo + hi) // 2
        if bad(mid):
            hi = mid
        else:
            lo = mid + 1
    return lo


def main():
    products = sorted({h * w for h in range(1, 257) for w in range(1, 257)})
    found = 0
    for n in products:
        q = first_bad_quotient(n, 32767)
        if q is None:
            continue
        h = max(d for d in range(1, 257) if n % d == 0 and n // d <= 256)
        scale, shift = scaling.quantise_pooling_scale(n)
        acc = q * n + (n + 1) // 2 - 1
        print(
            f"kernel {h}x{n // h} (n={n}): scale={scale} shift={shift}; accumulator {acc} (= {q} * n + {acc - q * n}, "
            f"all inputs about {acc / n:.4f}) -> hardware {hw_result(acc, scale, shift)}, "
            f"rounded division {rounded_division(acc, n)}"
        )
        found += 1
        if found == 3:
            break
    affected = [n for n in products if first_bad_quotient(n, 32767) is not None]
    print(f"{len(affected)} of {len(products)} possible window sizes are affected (smallest {affected[0]})")
    # 8-bit data: never
    assert all(first_bad_quotient(n, 255) is None for n in products)
    print("8-bit accumulators: no mismatch for any window")
    return 0


if __name__ == "__main__":
    sys.exit(main())

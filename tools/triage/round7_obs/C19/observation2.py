"""Observation 2 (unmodified tree): HardSwish table when the output multiplier ifm_scale / 128 / ofm_scale is >= 1
(output scale more than 128 times finer than the input scale). convert_hardswish_to_lut only applies the output shift
when it is a right shift (shift = -shift if shift < 0 else 0), a positive output exponent is silently dropped, so the
non saturated table entries are too small by a factor 2**exponent (TFLite's HardSwishPrepare DCHECKs exponent <= 0)."""
import os
import sys

sys.path.insert(0, os.getcwd())
import math

import numpy as np

from ethosu.vela import tflite_graph_optimiser as tgo
from ethosu.vela.data_type import DataType
from ethosu.vela.operation import Op, Operation
from ethosu.vela.tensor import QuantizationParameters, Tensor


def qp(s, z):
    q = QuantizationParameters()
    q.scale_f32 = np.float32(s)
    q.zero_point = np.int64(z)
    return q


s_in, s_out = 0.1, 0.0005
ifm = Tensor([1, 4, 4, 8], DataType.int8, "in")
ifm.quantization = qp(s_in, 0)
ofm = Tensor([1, 4, 4, 8], DataType.int8, "out")
ofm.quantization = qp(s_out, 0)
op = Operation(Op.HardSwish, "hswish")
op.add_input_tensor(ifm)
op.set_output_tensor(ofm)
op.set_ifm_ofm_shapes()
res = tgo.convert_hardswish_to_lut(op, None, None)
table = [int(v) for v in res.activation_lut.values.flatten()]


def rnd(x):
    return int(math.floor(abs(x) + 0.5)) * (1 if x >= 0 else -1)


def hs(x):
    return x * min(6.0, max(0.0, x + 3.0)) / 6.0


bad = []
for i, x in enumerate(range(-128, 128)):
    ref = min(127, max(-128, rnd(hs(float(np.float32(s_in)) * x) / float(np.float32(s_out)))))
    if abs(table[i] - ref) > 1:
        bad.append((x, table[i], ref))
print("codes where the HardSwish table is off by more than one (code, vela, real function):", bad)
sys.exit(1 if bad else 0)

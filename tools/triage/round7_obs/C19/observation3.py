"""Observation 3 (unmodified tree): convert_mul_max_to_abs_or_lrelu decides on the RAW quantised code of the Mul
constant (val = const.outputs[0].values; val >= 0 -> LeakyRelu, val == -1 -> Abs) and stores that code as 'alpha':
 (a) real alpha > 1: MAXIMUM(x, alpha * x) is alpha * x for x > 0 and x for x < 0, the generated LeakyRelu table has
     the two branches the other way round (253 of 256 entries wrong);
 (b) code -1 with scale / zero point that do not make it the real value -1 (e.g. -0.5 or +2.0) still becomes ABS;
 (c) code 0 with a non zero zero point (real alpha 0.256) gives attrs['alpha'] == 0 and convert_lrelu turns the
     operator into a plain RELU."""
import os
import sys

sys.path.insert(0, os.getcwd())
import math

import numpy as np

from ethosu.vela import tflite_graph_optimiser as tgo
from ethosu.vela.data_type import DataType
from ethosu.vela.operation import Op, Operation
from ethosu.vela.tensor import QuantizationParameters, Tensor, create_const_tensor


def qp(s, z):
    q = QuantizationParameters()
    q.scale_f32 = np.float32(s)
    q.zero_point = np.int64(z)
    return q


def build(dtype, s, zp, c_val, c_scale, c_zp):
    npd = np.uint8 if dtype == DataType.uint8 else np.int8
    src = Tensor([1, 4, 4, 8], dtype, "src")
    src.quantization = qp(s, zp)
    ifm = Tensor([1, 4, 4, 8], dtype, "in")
    ifm.quantization = qp(s, zp)
    prod = Operation(Op.Relu, "producer")
    prod.add_input_tensor(src)
    prod.set_output_tensor(ifm)
    prod.set_ifm_ofm_shapes()
    c = create_const_tensor("alpha", [], dtype, np.array(c_val, npd), quantization=qp(c_scale, c_zp))
    mul = Operation(Op.Mul, "mul")
    mul.add_input_tensor(ifm)
    mul.add_input_tensor(c)
    mo = Tensor([1, 4, 4, 8], dtype, "mul_out")
    mo.quantization = qp(s, zp)
    mul.set_output_tensor(mo)
    mul.set_ifm_ofm_shapes()
    mul.run_on_npu = True
    mx = Operation(Op.Maximum, "Maximum")
    mx.add_input_tensor(ifm)
    mx.add_input_tensor(mo)
    ofm = Tensor([1, 4, 4, 8], dtype, "out")
    ofm.quantization = qp(s, zp)
    mx.set_output_tensor(ofm)
    mx.set_ifm_ofm_shapes()
    mx.run_on_npu = True
    return mx


def rnd(x):
    return int(math.floor(abs(x) + 0.5)) * (1 if x >= 0 else -1)


bad = False
# (a) alpha = 20 * 0.1 = 2.0
mx = build(DataType.int8, 0.1, 0, 20, 0.1, 0)
r = tgo.convert_lrelu(tgo.convert_mul_max_to_abs_or_lrelu(mx, None, None), None, None)
table = [int(v) for v in r.activation_lut.values.flatten()]
ref = [max(x, min(127, max(-128, rnd(2.0 * x)))) for x in range(-128, 128)]  # MAXIMUM(x, MUL(x, 2.0)), same quantisation
diff = [(x, g, e) for x, g, e in zip(range(-128, 128), table, ref) if g != e]
print(f"(a) alpha 2.0: rewritten to {r.type}, {len(diff)} of 256 table entries differ from max(x, 2x), first: {diff[:4]}")
bad |= bool(diff)
# (b) code -1, scale 0.5 -> alpha = -0.5 ; code -1, scale 1.0, zero point -3 -> alpha = +2.0
for c_scale, c_zp in ((0.5, 0), (1.0, -3)):
    mx = build(DataType.int8, 0.1, -5, -1, c_scale, c_zp)
    r = tgo.convert_mul_max_to_abs_or_lrelu(mx, None, None)
    print(f"(b) constant code -1, scale {c_scale}, zero point {c_zp} (real alpha {(-1 - c_zp) * c_scale}): rewritten to {r.type}")
    bad |= r.type == Op.Abs
# (c) code 0, zero point -128, scale 0.002 -> alpha = 0.256
mx = build(DataType.int8, 0.1, 0, 0, 0.002, -128)
r = tgo.convert_lrelu(tgo.convert_mul_max_to_abs_or_lrelu(mx, None, None), None, None)
print(f"(c) constant code 0, zero point -128, scale 0.002 (real alpha 0.256): rewritten to {r.type}")
bad |= r.type == Op.Relu
sys.exit(1 if bad else 0)

"""Observation 4 (unmodified tree): constant folding of QUANTIZE of a FLOAT constant iterates over the first axis of the
constant (for val in input_values) instead of over its elements, so a constant of rank >= 2 with more than one element
per row ends in 'ValueError: The truth value of an array with more than one element is ambiguous' (round_away_zero gets
a row). Rank 1 and 0 work."""
import os
import sys

sys.path.insert(0, os.getcwd())
import numpy as np

from ethosu.vela import tflite_graph_optimiser as tgo
from ethosu.vela.data_type import DataType
from ethosu.vela.operation import Op, Operation
from ethosu.vela.tensor import QuantizationParameters, Tensor, create_const_tensor

q = QuantizationParameters()
q.scale_f32 = np.float32(0.1)
q.zero_point = np.int64(-3)
q.quant_min, q.quant_max = -128, 127
arr = np.array([[0.3, -1.26], [2.5, 100.0]], np.float32)
ifm = create_const_tensor("c", list(arr.shape), DataType.float32, arr)
ofm = Tensor(list(arr.shape), DataType.int8, "out")
ofm.quantization = q
op = Operation(Op.Quantize, "quantize")
op.add_input_tensor(ifm)
op.set_output_tensor(ofm)
op.run_on_npu = True
try:
    tgo.optimise_quantize(op, None, None)
except ValueError as e:
    print("optimise_quantize raised ValueError:", e)
    sys.exit(1)
print("folded:", ofm.values.tolist(), "(reference [[0, -16], [22, 127]])")
sys.exit(0)

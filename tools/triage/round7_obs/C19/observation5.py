"""Observation 5 (unmodified tree): QuantizationParameters.zero_point is documented as int, and Vela's own helpers /
tests build graphs with Python int zero points. With NumPy 2 'np.int8 value - Python int' stays int8 and wraps, so
optimise_quantize (val - ifm.quantization.zero_point), convert_prelu (alpha.values.min() - alpha_zp) and
convert_mul_max_to_abs_or_lrelu (const_tens.values - zero_point) only work because the TFLite reader happens to deliver
np.int64 zero points. Same graph, zero point given as int -> wrong folded constants (only a RuntimeWarning)."""
import os
import sys
import warnings

sys.path.insert(0, os.getcwd())
warnings.simplefilter("ignore")
import numpy as np

from ethosu.vela import tflite_graph_optimiser as tgo
from ethosu.vela.data_type import DataType
from ethosu.vela.operation import Op, Operation
from ethosu.vela.tensor import QuantizationParameters, Tensor, create_const_tensor


def fold(zp_type):
    def qp(s, z):
        q = QuantizationParameters()
        q.scale_f32 = np.float32(s)
        q.zero_point = zp_type(z)
        q.quant_min, q.quant_max = -128, 127
        return q

    vals = np.array([-128, -1, 0, 27, 28, 100, 127], np.int8)
    c = create_const_tensor("c", [7], DataType.int8, vals, quantization=qp(0.05, -100))
    out = Tensor([7], DataType.int8, "out")
    out.quantization = qp(0.1, -128)
    q = Operation(Op.Quantize, "quantize")
    q.add_input_tensor(c)
    q.set_output_tensor(out)
    q.run_on_npu = True
    tgo.optimise_quantize(q, None, None)
    return out.values.tolist()


a = fold(np.int64)
b = fold(int)
print("zero points as np.int64:", a)
print("zero points as int     :", b)
sys.exit(1 if a != b else 0)

"""Observation 1 (unmodified tree): the int8/uint8 SIGMOID / TANH table generator rounds AFTER adding the output zero
point (round_away_zero(zp_out + y / scale)), the reference kernel (and lut.create_lut_8bit_op) round first and add the
zero point afterwards. With a negative zp_out + y/scale that lands exactly on .5 the two differ by one:
sigmoid(0) = 0.5, output scale 1.0, output zero point < 0."""
import os
import sys

sys.path.insert(0, os.getcwd())
import math

import numpy as np

from ethosu.vela import tflite_graph_optimiser as tgo
from ethosu.vela.data_type import DataType
from ethosu.vela.operation import Op, Operation
from ethosu.vela.tensor import QuantizationParameters, Tensor


def qp(s, z):
    q = QuantizationParameters()
    q.scale_f32 = np.float32(s)
    q.zero_point = np.int64(z)
    return q


s_in, zp_in, s_out, zp_out = 0.1, 27, 1.0, -81
ifm = Tensor([1, 4, 4, 8], DataType.int8, "in")
ifm.quantization = qp(s_in, zp_in)
ofm = Tensor([1, 4, 4, 8], DataType.int8, "out")
ofm.quantization = qp(s_out, zp_out)
op = Operation(Op.Sigmoid, "sigmoid")
op.add_input_tensor(ifm)
op.set_output_tensor(ofm)
op.set_ifm_ofm_shapes()
res = tgo.convert_tanh_sigmoid_to_lut(op, None, None)
table = [int(v) for v in res.activation_lut.values.flatten()]


def rnd(x):
    return int(math.floor(abs(x) + 0.5)) * (1 if x >= 0 else -1)


bad = []
for i, x in enumerate(range(-128, 128)):
    y = 1 / (1 + math.exp(-float(np.float32(s_in)) * (x - zp_in)))
    ref = min(127, max(-128, rnd(y / float(np.float32(s_out))) + zp_out))  # TFLite: TfLiteRound(y * inv_scale) + zp
    if table[i] != ref:
        bad.append((x, table[i], ref))
print("codes where the table differs from round(y / scale) + zp (code, vela, reference):", bad)
sys.exit(1 if bad else 0)

"""Observation 3 (unmodified tree): option names of the configuration file are matched case-insensitively.

OPTIONS.md (Configuration File): "All sections and key/value pairs are case-sensitive."  ConfigParser's default
optionxform lower-cases option names (both when reading and in has_option/get), so CORE_CLOCK, axi1_PORT,
dram_clock_scale ... are silently accepted as core_clock, axi1_port, Dram_clock_scale.  (Section names ARE
case-sensitive.)  A misspelt-case key therefore takes effect instead of leaving the documented default of 1.
"""
import io
import os
import sys
import tempfile
from contextlib import redirect_stdout

sys.path.insert(0, os.getcwd())
from ethosu.vela.architecture_features import ArchitectureFeatures  # noqa: E402
from ethosu.vela.tensor import MemArea  # noqa: E402

INI = """
[System_Config.S]
CORE_CLOCK=7e6
axi1_PORT=Dram
dram_clock_scale=0.5
DRAM_BURST_LENGTH=64
[Memory_Mode.M]
Const_Mem_Area=Axi1
ARENA_CACHE_SIZE=4096
"""
with tempfile.TemporaryDirectory() as td:
    path = os.path.join(td, "c.ini")
    open(path, "w").write(INI)
    with redirect_stdout(io.StringIO()):
        arch = ArchitectureFeatures([path], "ethos-u65-256", "S", "M", 3, False, None)
got = (float(arch.core_clock), arch.axi1_port.name, float(arch.memory_clock_scales[MemArea.Dram]),
       int(arch.memory_burst_length[MemArea.Dram]), arch.const_mem_area.name, arch.arena_cache_size)
print("resolved:", got)
# case-sensitive reading: none of the keys above is a known option -> all defaults (and then the all-Sram mode)
if got[0] != 1.0:
    print("VIOLATION: wrongly-cased option names were used (core_clock=%s, arena_cache_size=%s)" % (got[0], got[5]))
    sys.exit(1)
print("ok")

"""Observation 2 (unmodified tree): what `internal-default` means depends on whether --config is present, and for
Ethos-U55 accelerators it is not the documented default.

OPTIONS.md (System Config): internal-default maps to Ethos_U65_Client_Server (DRAM 12 GB/s, Dram_clock_scale 0.75) for
Ethos-U65 and to Ethos_U55_High_End_Embedded (500 MHz, SRAM + OffChipFlash) for Ethos-U55.  main() without --config uses
Imx93ArchitectureFeatures whose _set_default_sys_config unconditionally installs 1 GHz / Dram / 0.234375 - also for
--accelerator-config ethos-u55-*.  Adding an (otherwise unused) --config Arm/vela.ini switches to the base class and
changes the internal-default values.
"""
import os
import sys

sys.path.insert(0, os.path.join(os.getcwd(), "out"))
from _obs_common import run_main  # noqa: E402


def desc(arch):
    return (
        type(arch).__name__,
        float(arch.core_clock),
        arch.axi1_port.name,
        float(arch.memory_clock_scales[arch.axi1_port]),
        arch.permanent_storage_mem_area.name,
    )


bad = []
for accel, documented in (
    ("ethos-u55-128", (500e6, "OffChipFlash", 0.125)),
    ("ethos-u65-256", (1e9, "Dram", 0.75)),
):
    _, a1, _ = run_main(["n.tflite", "--accelerator-config", accel])
    _, a2, _ = run_main(["n.tflite", "--accelerator-config", accel, "--config", "Arm/vela.ini"])
    print(accel, "no --config  :", desc(a1))
    print(accel, "with --config:", desc(a2), "(no --system-config / --memory-mode in either run)")
    if desc(a1)[1:4] != documented:
        bad.append(f"{accel}: internal-default without --config is {desc(a1)[1:4]}, documented {documented}")
    if desc(a1)[1:] != desc(a2)[1:]:
        bad.append(f"{accel}: internal-default differs with / without --config")
print("VIOLATION: " + "; ".join(bad) if bad else "ok")
sys.exit(1 if bad else 0)

"""Observation 4 (unmodified tree): malformed configuration files are not rejected with a Vela error / exit status 1;
the ConfigParser exception escapes from vela.main() (and from ArchitectureFeatures) as an uncaught Python exception.

main() only converts VelaError into "Error: ..." + return 1.  A duplicated section or option, a line before the first
section header, or a '%' in a value (ConfigParser interpolation) give a traceback instead.
"""
import os
import sys
import tempfile

sys.path.insert(0, os.path.join(os.getcwd(), "out"))
from _obs_common import run_main  # noqa: E402

CASES = {
    "duplicate section": "[System_Config.S]\ncore_clock=1e6\n[System_Config.S]\naxi1_port=Dram\n[Memory_Mode.M]\nconst_mem_area=Axi1\n",
    "duplicate option": "[System_Config.S]\ncore_clock=1e6\ncore_clock=2e6\naxi1_port=Dram\n[Memory_Mode.M]\nconst_mem_area=Axi1\n",
    "no section header": "core_clock=1e6\n[System_Config.S]\naxi1_port=Dram\n[Memory_Mode.M]\nconst_mem_area=Axi1\n",
    "percent sign": "[System_Config.S]\ncore_clock=50%\naxi1_port=Dram\n[Memory_Mode.M]\nconst_mem_area=Axi1\n",
}
bad = []
with tempfile.TemporaryDirectory() as td:
    for name, text in CASES.items():
        path = os.path.join(td, "c.ini")
        open(path, "w").write(text)
        status, arch, out = run_main(["n.tflite", "--config", path, "--system-config", "S", "--memory-mode", "M"])
        print(f"{name}: {status!r}"[:150])
        if status != 1:
            bad.append(f"{name}: {type(status).__name__}")
print("VIOLATION (uncaught exception instead of 'Error: ...' and status 1): " + ", ".join(bad) if bad else "ok")
sys.exit(1 if bad else 0)

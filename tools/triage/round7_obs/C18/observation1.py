"""Observation 1 (unmodified tree): through vela.main() the arena_cache_size of the configuration file is never used.

--arena-cache-size has the argparse default 384*1024 (not None), main() always forwards it, and _get_vela_config treats
every non-None value as a command line override.  Documented (OPTIONS.md, Arena Cache Size): "If specified, this option
overrides the memory mode attribute ... If neither this nor the memory mode attribute are specified then a size equal
to the maximum address supported by the Ethos-U is used."
"""
import os
import sys

sys.path.insert(0, os.path.join(os.getcwd(), "out"))
from _obs_common import run_main  # noqa: E402

bad = []
# 1. the file says 524288, nothing on the command line
st, arch, out = run_main(
    ["n.tflite", "--config", "Arm/vela.ini", "--system-config", "Ethos_U65_High_End", "--memory-mode", "Dedicated_Sram_512KB"]
    + ["--verbose-config"]
)
line = [ln.strip() for ln in out.splitlines() if "arena_cache_size" in ln]
print("Dedicated_Sram_512KB, no --arena-cache-size:", arch.arena_cache_size, line)
if arch.arena_cache_size != 524288:
    bad.append("file value 524288 replaced by %d" % arch.arena_cache_size)
# 2. neither the file (Shared_Sram has no size) nor the command line specify a size: documented = maximum address
st, arch, out = run_main(
    ["n.tflite", "--accelerator-config", "ethos-u55-128", "--config", "Arm/vela.ini"]
    + ["--system-config", "Ethos_U55_High_End_Embedded", "--memory-mode", "Shared_Sram"]
)
print("Shared_Sram on U55, no size anywhere:", arch.arena_cache_size, "max address", arch.max_address_offset)
if arch.arena_cache_size != arch.max_address_offset:
    bad.append("unspecified size is %d, documented default is the maximum address" % arch.arena_cache_size)
print("VIOLATION: " + "; ".join(bad) if bad else "ok")
sys.exit(1 if bad else 0)

"""Observation 7 (unmodified tree): apart from arena_cache_size no numeric option of a configuration file is range
checked.  OPTIONS.md gives `<Mem>_clock_scale ??? = {float 0.0 to 1.0}`, burst lengths in Bytes, latencies in Cycles and
core_clock in Hz; negative, zero, > 1 and NaN / inf values are all accepted silently and end up in the bandwidth tables
(NaN / 0 bandwidths lead to divisions by zero / NaN cycle counts later in npu_performance).
"""
import io
import os
import sys
import tempfile
from contextlib import redirect_stdout

sys.path.insert(0, os.getcwd())
from ethosu.vela.architecture_features import ArchitectureFeatures  # noqa: E402
from ethosu.vela.errors import VelaError  # noqa: E402
from ethosu.vela.tensor import MemArea  # noqa: E402

INI = """
[System_Config.S]
core_clock=-5
axi1_port=Dram
Sram_clock_scale=0
Sram_burst_length=0
Sram_read_latency=-7
Dram_clock_scale=nan
Dram_burst_length=-128
[Memory_Mode.M]
const_mem_area=Axi1
"""
with tempfile.TemporaryDirectory() as td:
    path = os.path.join(td, "c.ini")
    open(path, "w").write(INI)
    try:
        with redirect_stdout(io.StringIO()):
            arch = ArchitectureFeatures([path], "ethos-u65-256", "S", "M", 3, False, None)
    except VelaError as e:
        print("ok, rejected:", e)
        sys.exit(0)
print("accepted: core_clock", arch.core_clock, "clock scales", arch.memory_clock_scales[1:3], "burst", arch.memory_burst_length[1:3],
      "Sram read latency", arch.memory_latency[MemArea.Sram][0], "bandwidth/s", arch.memory_bandwidths_per_second[1:3])
print("VIOLATION: out-of-range numeric options are accepted silently")
sys.exit(1)

"""Observation 6 (unmodified tree): an unknown accelerator configuration handed to ArchitectureFeatures raises
AttributeError instead of the intended CliOptionError (the error message is built from self.accelerator_config before
that attribute exists).  Only reachable through the Python classes - argparse `choices` guards the command line.
"""
import os
import sys

sys.path.insert(0, os.getcwd())
from ethosu.vela.architecture_features import ArchitectureFeatures  # noqa: E402
from ethosu.vela.errors import VelaError  # noqa: E402

try:
    ArchitectureFeatures(None, "ethos-u99-1", "internal-default", "internal-default", 3, False, None)
except VelaError as e:
    print("ok:", e)
except Exception as e:  # noqa
    print("VIOLATION:", type(e).__name__, e)
    sys.exit(1)

"""Observation 5 (unmodified tree): a [DEFAULT] section of the .ini file beats an explicitly inherited value.

Documented: a section takes the options it does not specify from the parent named by `inherit`.  ConfigParser's
has_option()/get() also report options of the special [DEFAULT] section for EVERY section, so in _read_config the child
"has" the option (through [DEFAULT]) and that value overrides what the parent section explicitly specifies.
"""
import io
import os
import sys
import tempfile
from contextlib import redirect_stdout

sys.path.insert(0, os.getcwd())
from ethosu.vela.architecture_features import ArchitectureFeatures  # noqa: E402

INI = """
[DEFAULT]
arena_cache_size=4096
[System_Config.S]
axi1_port=Dram
[Memory_Mode.Parent]
const_mem_area=Axi1
arena_mem_area=Axi1
cache_mem_area=Axi0
arena_cache_size=262144
[Memory_Mode.Child]
inherit=Memory_Mode.Parent
"""
with tempfile.TemporaryDirectory() as td:
    path = os.path.join(td, "c.ini")
    open(path, "w").write(INI)
    with redirect_stdout(io.StringIO()):
        parent = ArchitectureFeatures([path], "ethos-u65-256", "S", "Parent", 3, False, None)
        child = ArchitectureFeatures([path], "ethos-u65-256", "S", "Child", 3, False, None)
print("Parent:", parent.arena_cache_size, " Child (inherits everything from Parent):", child.arena_cache_size)
if child.arena_cache_size != parent.arena_cache_size:
    print("VIOLATION: the child does not get the value its parent specifies")
    sys.exit(1)
print("ok")

"""Observation 1 (unmodified tree): live ranges around a WHILE operator.

The model: main graph  x, counter -> WHILE(cond: counter < 3; body: counter', conv(x) -> FLOOR) -> conv -> output.
Vela marks the inputs of the WHILE operator at the time slot before the called subgraphs and its outputs only at the slot
after them, so the outputs are not live while cond / body run and not live together with the operator's own inputs.
What the output file shows (Ethos-U55, Shared_Sram):
 - Greedy allocator: the WHILE output 'while_cnt' gets the same arena bytes as the WHILE input 't001_input' (an input
   and an output of one CPU operator), and the same bytes as the body subgraph's input 'body_counter_in';
 - HillClimb (default): the WHILE input 'counter_in' shares its first byte with the cond subgraph's result,
   and the WHILE output 'while_cnt' lies inside the body's convolution output.
TFLM's WHILE kernel (micro/kernels/while.cc) copies the operator inputs to the cond inputs, runs cond, THEN copies the
operator inputs to the body inputs and to the operator outputs, and afterwards keeps the loop state in the operator
OUTPUTS while body and cond are invoked again and again. So both overlaps corrupt data (cond's result clobbers the
counter before it is copied; the body's convolution clobbers the loop state).
Exit code 1 = overlaps found.
"""
import csv
import glob
import os
import re
import shutil
import struct
import subprocess
import sys
import tempfile

sys.path.insert(0, os.getcwd())

import numpy as np  # noqa: E402

from ethosu.vela import tflite_writer  # noqa: E402
from ethosu.vela.data_type import DataType  # noqa: E402
from ethosu.vela.nn_graph import Graph, PassPlacement, Subgraph  # noqa: E402
from ethosu.vela.operation import Op, Operation, Padding  # noqa: E402
from ethosu.vela.tensor import QuantizationParameters, Tensor, create_const_tensor  # noqa: E402
from ethosu.vela.tflite import Model  # noqa: E402  (generated flatbuffers accessors)


# ---------------------------------------------------------------------------------------------------- input model
class _Pass:
    def __init__(self, ops):
        self.ops = ops


def _qp(scale):
    q = QuantizationParameters()
    q.scale_f32 = np.float32(scale)
    q.zero_point = 0
    return q


class Net:
    def __init__(self):
        self.ops, self.inputs, self.outputs, self.n = [], [], [], 0

    def name(self, base):
        self.n += 1
        return "t%03d_%s" % (self.n, base)

    def tensor(self, shape, base):
        t = Tensor(list(shape), DataType.int8, self.name(base))
        t.quantization = _qp(0.05)
        return t

    def input(self, shape):
        t = self.tensor(shape, "input")
        Operation(Op.Placeholder, t.name).set_output_tensor(t)
        self.inputs.append(t)
        return t

    def conv(self, ifm, out_c, k):
        n, h, w, in_c = ifm.shape
        rng = np.random.RandomState(self.n)
        wt = create_const_tensor(
            self.name("w"), [out_c, k, k, in_c], DataType.int8, rng.randint(-20, 20, (out_c, k, k, in_c)), quantization=_qp(0.02)
        )
        bt = create_const_tensor(self.name("b"), [out_c], DataType.int32, rng.randint(-50, 50, (out_c,)), quantization=_qp(0.001))
        op = Operation(Op.Conv2DBias, self.name("conv"))
        op.inputs = [ifm, wt, bt]
        for t in op.inputs:
            t.consumer_list.append(op)
        op.attrs = {
            "padding": Padding.SAME,
            "stride_h": 1,
            "stride_w": 1,
            "strides": (1, 1, 1, 1),
            "dilation_h_factor": 1,
            "dilation_w_factor": 1,
            "dilation": (1, 1, 1, 1),
            "fused_activation_function": None,
        }
        ofm = self.tensor([n, h, w, out_c], "conv_out")
        op.set_output_tensor(ofm)
        self.ops.append(op)
        return ofm

    def to_bytes(self):
        nng = Graph("net")
        sg = Subgraph("main", PassPlacement.Cpu)
        sg.input_tensors = list(self.inputs)
        sg.original_inputs = list(self.inputs)
        sg.output_tensors = list(self.outputs)
        sg.passes = [_Pass([t.ops[0] for t in self.inputs] + self.ops)]
        nng.subgraphs.append(sg)
        nng.metadata = []
        return bytes(tflite_writer.write_tflite_buffer(nng))


# ---------------------------------------------------------------------------------------------------- compile
def run_vela(model, args):
    d = tempfile.mkdtemp(prefix="c12demo_")
    try:
        path = os.path.join(d, "net.tflite")
        with open(path, "wb") as f:
            f.write(model)
        code = "import sys; sys.path.insert(0, %r); from ethosu.vela.vela import main; sys.exit(main(sys.argv[1:]))" % os.getcwd()
        p = subprocess.run(
            [sys.executable, "-c", code, path, "--output-dir", os.path.join(d, "out")] + args,
            stdout=subprocess.PIPE,
            stderr=subprocess.STDOUT,
            universal_newlines=True,
        )
        if p.returncode != 0:
            print(p.stdout)
            raise SystemExit("FAIL: vela exited with %r" % p.returncode)
        with open(glob.glob(os.path.join(d, "out", "*_vela.tflite"))[0], "rb") as f:
            out = f.read()
        with open(glob.glob(os.path.join(d, "out", "*_summary_*.csv"))[0]) as f:
            rows = list(csv.reader(f))
        return out, dict(zip(rows[0], rows[1])), p.stdout
    finally:
        shutil.rmtree(d, ignore_errors=True)




def build():
    hw, c = 24, 4
    main = Net()
    x = main.input([1, hw, hw, c])
    cnt = Tensor([1], DataType.int32, "counter_in")
    Operation(Op.Placeholder, cnt.name).set_output_tensor(cnt)
    main.inputs.append(cnt)
    op = Operation(Op.While, "while")
    op.inputs = [cnt, x]
    cnt.consumer_list.append(op)
    x.consumer_list.append(op)
    op.attrs = {"cond_subgraph_index": 1, "body_subgraph_index": 2}
    o_cnt = Tensor([1], DataType.int32, "while_cnt")
    o_a = main.tensor([1, hw, hw, c], "while_out")
    op.outputs = [o_cnt, o_a]
    o_cnt.ops = [op]
    o_a.ops = [op]
    main.ops.append(op)
    out = main.conv(o_a, c, 3)
    main.outputs = [out, o_cnt]

    cond = Net()
    cond.n = 100
    c_cnt = Tensor([1], DataType.int32, "cond_counter_in")
    Operation(Op.Placeholder, c_cnt.name).set_output_tensor(c_cnt)
    cond.inputs.append(c_cnt)
    cond.input([1, hw, hw, c])
    lim = create_const_tensor("limit", [1], DataType.int32, np.array([3]))
    op = Operation(Op.Less, "less")
    op.inputs = [c_cnt, lim]
    c_cnt.consumer_list.append(op)
    lim.consumer_list.append(op)
    op.attrs = {}
    res = Tensor([1], DataType.bool, "cond_result")
    op.set_output_tensor(res)
    cond.ops.append(op)
    cond.outputs = [res]

    body = Net()
    body.n = 200
    b_cnt = Tensor([1], DataType.int32, "body_counter_in")
    Operation(Op.Placeholder, b_cnt.name).set_output_tensor(b_cnt)
    body.inputs.append(b_cnt)
    b_a = body.input([1, hw, hw, c])
    one = create_const_tensor("one", [1], DataType.int32, np.array([1]))
    op = Operation(Op.Pow, "inc")  # a CPU operator standing in for the counter update
    op.inputs = [b_cnt, one]
    b_cnt.consumer_list.append(op)
    one.consumer_list.append(op)
    op.attrs = {}
    n_cnt = Tensor([1], DataType.int32, "body_cnt_out")
    op.set_output_tensor(n_cnt)
    body.ops.append(op)
    t = body.conv(b_a, c, 3)
    fl = Operation(Op.Floor, "floor")
    fl.inputs = [t]
    t.consumer_list.append(fl)
    fl.attrs = {}
    t2 = body.tensor([1, hw, hw, c], "cpu_out")
    fl.set_output_tensor(t2)
    body.ops.append(fl)
    body.outputs = [n_cnt, t2]

    nng = Graph("wnet")
    for name, net in (("main", main), ("cond", cond), ("body", body)):
        sg = Subgraph(name, PassPlacement.Cpu)
        sg.input_tensors = list(net.inputs)
        sg.original_inputs = list(net.inputs)
        sg.output_tensors = list(net.outputs)
        sg.passes = [_Pass([t.ops[0] for t in net.inputs] + net.ops)]
        nng.subgraphs.append(sg)
    nng.metadata = []
    return bytes(tflite_writer.write_tflite_buffer(nng))


SIZE = {0: 4, 2: 4, 3: 1, 6: 1, 7: 2, 9: 1}


def plan(out):
    m = Model.Model.GetRootAsModel(bytearray(out), 0)
    meta = None
    for i in range(m.MetadataLength()):
        if m.Metadata(i).Name() == b"OfflineMemoryAllocation":
            meta = m.Buffers(m.Metadata(i).Buffer()).DataAsNumpy().tobytes()
    offsets = list(struct.unpack("<%di" % (len(meta) // 4), meta)[3:])
    res = []
    for si in range(m.SubgraphsLength()):
        sg = m.Subgraphs(si)
        tens = {}
        for ti in range(sg.TensorsLength()):
            t = sg.Tensors(ti)
            off = offsets.pop(0)
            n = SIZE[t.Type()]
            for k in range(t.ShapeLength()):
                n *= t.Shape(k)
            name = t.Name().decode()
            if off >= 0 and m.Buffers(t.Buffer()).DataLength() == 0 and not name.endswith(("_scratch", "_scratch_fast")):
                tens[ti] = (name, off, off + n)
        ops = []
        for oi in range(sg.OperatorsLength()):
            op = sg.Operators(oi)
            ops.append((m.OperatorCodes(op.OpcodeIndex()).BuiltinCode(), [op.Inputs(k) for k in range(op.InputsLength())], [op.Outputs(k) for k in range(op.OutputsLength())]))
        res.append((tens, ops))
    return res


def main():
    model = build()
    base = ["--config", "Arm/vela.ini", "--system-config", "Ethos_U55_High_End_Embedded", "--memory-mode", "Shared_Sram", "--accelerator-config", "ethos-u55-128"]
    found = 0
    for alloc in ("HillClimb", "Greedy"):
        out, summary, console = run_vela(model, base + ["--tensor-allocator", alloc])
        sgs = plan(out)
        main_t, main_ops = sgs[0]
        print("allocator %s" % alloc)
        for si, (tens, ops) in enumerate(sgs):
            for name, lo, hi in sorted(tens.values(), key=lambda v: v[1]):
                print("    subgraph %d  %-16s [%6d, %6d)" % (si, name, lo, hi))
        for code, ins, outs in main_ops:
            if code != 119:  # WHILE
                continue
            w_in = [main_t[i] for i in ins if i in main_t]
            w_out = [main_t[i] for i in outs if i in main_t]
            for a in w_in:
                for b in w_out:
                    if max(a[1], b[1]) < min(a[2], b[2]):
                        found += 1
                        print("  OVERLAP: WHILE input %s [%d,%d) and WHILE output %s [%d,%d)" % (a + b))
            for which, (tens, _) in (("cond", sgs[1]), ("body", sgs[2])):
                for u in tens.values():
                    for a in w_out:
                        if max(a[1], u[1]) < min(a[2], u[2]):
                            found += 1
                            print("  OVERLAP: WHILE output %s [%d,%d) and %s subgraph tensor %s [%d,%d)" % (a + (which,) + u))
                    if which == "cond":
                        for a in w_in:
                            if max(a[1], u[1]) < min(a[2], u[2]):
                                found += 1
                                print("  OVERLAP: WHILE input %s [%d,%d) and cond subgraph tensor %s [%d,%d)" % (a + u))
    print("%d overlaps" % found)
    return 1 if found else 0


if __name__ == "__main__":
    sys.exit(main())

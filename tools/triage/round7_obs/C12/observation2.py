"""Observation 2 (unmodified tree): a graph input that no operator reads is left out of the offline plan, and the
reported arena size does not cover it.

Model: inputs x [1,16,16,8] and u [1,32,32,8] (u is not used), conv(x) on the NPU, FLOOR on the CPU -> output.
In the output file u keeps offset -1 in the OfflineMemoryAllocation metadata (TFLM then plans it online, on top of the
offline plan; as a subgraph input it has to exist for the whole inference), while Vela reports only the 8192 bytes of its own
plan as 'Total SRAM used' / sram_memory_used. The 8192 bytes of u are nowhere accounted for, so an arena sized from the
report is too small. (The same happens to the unused inputs of cond / body subgraphs of a WHILE.)
Exit code 1 = the situation described above was found.
"""
import csv
import glob
import os
import re
import shutil
import struct
import subprocess
import sys
import tempfile

sys.path.insert(0, os.getcwd())

import numpy as np  # noqa: E402

from ethosu.vela import tflite_writer  # noqa: E402
from ethosu.vela.data_type import DataType  # noqa: E402
from ethosu.vela.nn_graph import Graph, PassPlacement, Subgraph  # noqa: E402
from ethosu.vela.operation import Op, Operation, Padding  # noqa: E402
from ethosu.vela.tensor import QuantizationParameters, Tensor, create_const_tensor  # noqa: E402
from ethosu.vela.tflite import Model  # noqa: E402  (generated flatbuffers accessors)


# ---------------------------------------------------------------------------------------------------- input model
class _Pass:
    def __init__(self, ops):
        self.ops = ops


def _qp(scale):
    q = QuantizationParameters()
    q.scale_f32 = np.float32(scale)
    q.zero_point = 0
    return q


class Net:
    def __init__(self):
        self.ops, self.inputs, self.outputs, self.n = [], [], [], 0

    def name(self, base):
        self.n += 1
        return "t%03d_%s" % (self.n, base)

    def tensor(self, shape, base):
        t = Tensor(list(shape), DataType.int8, self.name(base))
        t.quantization = _qp(0.05)
        return t

    def input(self, shape):
        t = self.tensor(shape, "input")
        Operation(Op.Placeholder, t.name).set_output_tensor(t)
        self.inputs.append(t)
        return t

    def conv(self, ifm, out_c, k):
        n, h, w, in_c = ifm.shape
        rng = np.random.RandomState(self.n)
        wt = create_const_tensor(
            self.name("w"), [out_c, k, k, in_c], DataType.int8, rng.randint(-20, 20, (out_c, k, k, in_c)), quantization=_qp(0.02)
        )
        bt = create_const_tensor(self.name("b"), [out_c], DataType.int32, rng.randint(-50, 50, (out_c,)), quantization=_qp(0.001))
        op = Operation(Op.Conv2DBias, self.name("conv"))
        op.inputs = [ifm, wt, bt]
        for t in op.inputs:
            t.consumer_list.append(op)
        op.attrs = {
            "padding": Padding.SAME,
            "stride_h": 1,
            "stride_w": 1,
            "strides": (1, 1, 1, 1),
            "dilation_h_factor": 1,
            "dilation_w_factor": 1,
            "dilation": (1, 1, 1, 1),
            "fused_activation_function": None,
        }
        ofm = self.tensor([n, h, w, out_c], "conv_out")
        op.set_output_tensor(ofm)
        self.ops.append(op)
        return ofm

    def to_bytes(self):
        nng = Graph("net")
        sg = Subgraph("main", PassPlacement.Cpu)
        sg.input_tensors = list(self.inputs)
        sg.original_inputs = list(self.inputs)
        sg.output_tensors = list(self.outputs)
        sg.passes = [_Pass([t.ops[0] for t in self.inputs] + self.ops)]
        nng.subgraphs.append(sg)
        nng.metadata = []
        return bytes(tflite_writer.write_tflite_buffer(nng))


# ---------------------------------------------------------------------------------------------------- compile
def run_vela(model, args):
    d = tempfile.mkdtemp(prefix="c12demo_")
    try:
        path = os.path.join(d, "net.tflite")
        with open(path, "wb") as f:
            f.write(model)
        code = "import sys; sys.path.insert(0, %r); from ethosu.vela.vela import main; sys.exit(main(sys.argv[1:]))" % os.getcwd()
        p = subprocess.run(
            [sys.executable, "-c", code, path, "--output-dir", os.path.join(d, "out")] + args,
            stdout=subprocess.PIPE,
            stderr=subprocess.STDOUT,
            universal_newlines=True,
        )
        if p.returncode != 0:
            print(p.stdout)
            raise SystemExit("FAIL: vela exited with %r" % p.returncode)
        with open(glob.glob(os.path.join(d, "out", "*_vela.tflite"))[0], "rb") as f:
            out = f.read()
        with open(glob.glob(os.path.join(d, "out", "*_summary_*.csv"))[0]) as f:
            rows = list(csv.reader(f))
        return out, dict(zip(rows[0], rows[1])), p.stdout
    finally:
        shutil.rmtree(d, ignore_errors=True)




def main():
    net = Net()
    x = net.input([1, 16, 16, 8])
    u = net.input([1, 32, 32, 8])
    a = net.conv(x, 16, 3)
    fl = Operation(Op.Floor, "floor")
    fl.inputs = [a]
    a.consumer_list.append(fl)
    fl.attrs = {}
    b = net.tensor([1, 16, 16, 16], "cpu_out")
    fl.set_output_tensor(b)
    net.ops.append(fl)
    net.outputs = [b]
    args = ["--config", "Arm/vela.ini", "--system-config", "Ethos_U55_High_End_Embedded", "--memory-mode", "Shared_Sram", "--accelerator-config", "ethos-u55-128"]
    out, summary, console = run_vela(net.to_bytes(), args)
    m = Model.Model.GetRootAsModel(bytearray(out), 0)
    meta = None
    for i in range(m.MetadataLength()):
        if m.Metadata(i).Name() == b"OfflineMemoryAllocation":
            meta = m.Buffers(m.Metadata(i).Buffer()).DataAsNumpy().tobytes()
    offsets = struct.unpack("<%di" % (len(meta) // 4), meta)[3:]
    sg = m.Subgraphs(0)
    planned = 0
    online = 0
    for ti in range(sg.TensorsLength()):
        t = sg.Tensors(ti)
        n = 1
        for k in range(t.ShapeLength()):
            n *= t.Shape(k)
        has_data = m.Buffers(t.Buffer()).DataLength() > 0
        print("  %-28s %-18s bytes=%6d offset=%d%s" % (t.Name().decode(), [t.Shape(k) for k in range(t.ShapeLength())], n, offsets[ti], " (constant)" if has_data else ""))
        if not has_data and offsets[ti] >= 0:
            planned = max(planned, offsets[ti] + n)
        if not has_data and offsets[ti] < 0:
            online += n
    print("graph inputs:", [sg.Tensors(sg.Inputs(k)).Name().decode() for k in range(sg.InputsLength())])
    reported = float(summary["sram_memory_used"]) * 1024
    print("offline plan needs %d bytes, tensors left to the online planner: %d bytes, reported SRAM: %d bytes" % (planned, online, reported))
    if online and reported < planned + online:
        print("the reported size does not cover the tensors that are left out of the plan")
        return 1
    return 0


if __name__ == "__main__":
    sys.exit(main())

"""Observation 3 (unmodified tree): the console summary can understate the arena / SRAM size or not show it at all.

(a) 'Total <area> used' is printed with two decimals of a KiB (10.24 bytes): a size like 6320 bytes is printed as 6.17 KiB
    = 6318.08 bytes, i.e. less than what is needed (the CSV has the exact value). Up to 5 bytes can be lost.
(b) The line is only printed for memory areas with NPU traffic (bandwidth > 0). For a network whose operators all stay
    on the CPU the tensor arena is planned offline all the same (here 8192 bytes), but the console shows no
    'Total SRAM used' line at all; only the CSV has the number.
Exit code 1 = at least one of the two was seen.
"""
import csv
import glob
import os
import re
import shutil
import struct
import subprocess
import sys
import tempfile

sys.path.insert(0, os.getcwd())

import numpy as np  # noqa: E402

from ethosu.vela import tflite_writer  # noqa: E402
from ethosu.vela.data_type import DataType  # noqa: E402
from ethosu.vela.nn_graph import Graph, PassPlacement, Subgraph  # noqa: E402
from ethosu.vela.operation import Op, Operation, Padding  # noqa: E402
from ethosu.vela.tensor import QuantizationParameters, Tensor, create_const_tensor  # noqa: E402
from ethosu.vela.tflite import Model  # noqa: E402  (generated flatbuffers accessors)


# ---------------------------------------------------------------------------------------------------- input model
class _Pass:
    def __init__(self, ops):
        self.ops = ops


def _qp(scale):
    q = QuantizationParameters()
    q.scale_f32 = np.float32(scale)
    q.zero_point = 0
    return q


class Net:
    def __init__(self):
        self.ops, self.inputs, self.outputs, self.n = [], [], [], 0

    def name(self, base):
        self.n += 1
        return "t%03d_%s" % (self.n, base)

    def tensor(self, shape, base):
        t = Tensor(list(shape), DataType.int8, self.name(base))
        t.quantization = _qp(0.05)
        return t

    def input(self, shape):
        t = self.tensor(shape, "input")
        Operation(Op.Placeholder, t.name).set_output_tensor(t)
        self.inputs.append(t)
        return t

    def conv(self, ifm, out_c, k):
        n, h, w, in_c = ifm.shape
        rng = np.random.RandomState(self.n)
        wt = create_const_tensor(
            self.name("w"), [out_c, k, k, in_c], DataType.int8, rng.randint(-20, 20, (out_c, k, k, in_c)), quantization=_qp(0.02)
        )
        bt = create_const_tensor(self.name("b"), [out_c], DataType.int32, rng.randint(-50, 50, (out_c,)), quantization=_qp(0.001))
        op = Operation(Op.Conv2DBias, self.name("conv"))
        op.inputs = [ifm, wt, bt]
        for t in op.inputs:
            t.consumer_list.append(op)
        op.attrs = {
            "padding": Padding.SAME,
            "stride_h": 1,
            "stride_w": 1,
            "strides": (1, 1, 1, 1),
            "dilation_h_factor": 1,
            "dilation_w_factor": 1,
            "dilation": (1, 1, 1, 1),
            "fused_activation_function": None,
        }
        ofm = self.tensor([n, h, w, out_c], "conv_out")
        op.set_output_tensor(ofm)
        self.ops.append(op)
        return ofm

    def to_bytes(self):
        nng = Graph("net")
        sg = Subgraph("main", PassPlacement.Cpu)
        sg.input_tensors = list(self.inputs)
        sg.original_inputs = list(self.inputs)
        sg.output_tensors = list(self.outputs)
        sg.passes = [_Pass([t.ops[0] for t in self.inputs] + self.ops)]
        nng.subgraphs.append(sg)
        nng.metadata = []
        return bytes(tflite_writer.write_tflite_buffer(nng))


# ---------------------------------------------------------------------------------------------------- compile
def run_vela(model, args):
    d = tempfile.mkdtemp(prefix="c12demo_")
    try:
        path = os.path.join(d, "net.tflite")
        with open(path, "wb") as f:
            f.write(model)
        code = "import sys; sys.path.insert(0, %r); from ethosu.vela.vela import main; sys.exit(main(sys.argv[1:]))" % os.getcwd()
        p = subprocess.run(
            [sys.executable, "-c", code, path, "--output-dir", os.path.join(d, "out")] + args,
            stdout=subprocess.PIPE,
            stderr=subprocess.STDOUT,
            universal_newlines=True,
        )
        if p.returncode != 0:
            print(p.stdout)
            raise SystemExit("FAIL: vela exited with %r" % p.returncode)
        with open(glob.glob(os.path.join(d, "out", "*_vela.tflite"))[0], "rb") as f:
            out = f.read()
        with open(glob.glob(os.path.join(d, "out", "*_summary_*.csv"))[0]) as f:
            rows = list(csv.reader(f))
        return out, dict(zip(rows[0], rows[1])), p.stdout
    finally:
        shutil.rmtree(d, ignore_errors=True)




def cpu_op(net, ifm, kind, name):
    op = Operation(kind, name)
    op.inputs = [ifm]
    ifm.consumer_list.append(op)
    op.attrs = {}
    ofm = net.tensor(list(ifm.shape), name + "_out")
    op.set_output_tensor(ofm)
    net.ops.append(op)
    return ofm


def main():
    seen = 0
    # (a) default configuration (i.MX93: arena in DRAM, dedicated SRAM); a few channel counts, the first hit is reported
    for c2 in (16, 8, 24, 32, 12):
        net = Net()
        x = net.input([1, 16, 16, 8])
        a = net.conv(x, c2, 3)
        b = cpu_op(net, a, Op.Floor, "floor")
        c = net.conv(b, c2, 3)
        net.outputs = [c]
        out, summary, console = run_vela(net.to_bytes(), [])
        exact = float(summary["sram_memory_used"]) * 1024
        mt = re.search(r"^Total SRAM used\s+([0-9.]+) KiB", console, re.M)
        shown = float(mt.group(1)) * 1024
        print("(a) %d channels: CSV: %.2f bytes of SRAM, console: %s KiB = %.2f bytes" % (c2, exact, mt.group(1), shown))
        if shown < exact:
            print("    the console value is smaller than the size that is needed")
            seen += 1
            break
    # (b) all operators on the CPU
    net = Net()
    x = net.input([1, 16, 16, 16])
    a = cpu_op(net, x, Op.Floor, "floor")
    b = cpu_op(net, a, Op.Ceil, "ceil")
    net.outputs = [b]
    args = ["--config", "Arm/vela.ini", "--system-config", "Ethos_U55_High_End_Embedded", "--memory-mode", "Shared_Sram", "--accelerator-config", "ethos-u55-128"]
    out, summary, console = run_vela(net.to_bytes(), args)
    exact = float(summary["sram_memory_used"]) * 1024
    lines = [ln for ln in console.splitlines() if ln.startswith("Total ") and " used" in ln]
    print("(b) CSV: %.0f bytes of SRAM, console lines: %r" % (exact, lines))
    if exact > 0 and not any("SRAM" in ln for ln in lines):
        print("    the console does not report the SRAM / arena size")
        seen += 1
    return 1 if seen else 0


if __name__ == "__main__":
    sys.exit(main())

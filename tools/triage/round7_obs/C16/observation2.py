"""C16 observation 2 (unmodified tree): RESIZE_NEAREST_NEIGHBOR with align_corners=True and more than one channel satisfies
all listed constraints (OFM W-1 and H-1 are 2x/4x/8x IFM W-1 and H-1, size tensor matches, ...) and passes both checks,
but tflite_graph_optimiser.convert_resizenn_ac_to_depthwise_conv then builds upscale*upscale weight values and reshapes
them to [upscale, upscale, depth, depth]: ValueError for every depth > 1 (depth 1 compiles).  All accelerators.
Exits 1 if the problem reproduces.
"""
import contextlib
import io
import os
import re
import sys
import tempfile

sys.path.insert(0, os.getcwd())

import numpy as np  # noqa: E402

from ethosu.vela import vela  # noqa: E402
from ethosu.vela.data_type import DataType  # noqa: E402
from ethosu.vela.nn_graph import Graph, Pass, PassPlacement, Subgraph  # noqa: E402
from ethosu.vela.operation import NpuBlockType, Op, Operation, Padding  # noqa: E402
from ethosu.vela.tensor import QuantizationParameters, Tensor  # noqa: E402
from ethosu.vela.tflite.Model import Model  # noqa: E402
from ethosu.vela.tflite_mapping import builtin_operator_name_map  # noqa: E402
from ethosu.vela.tflite_writer import write_tflite  # noqa: E402


def fm(name, shape, dtype, scale=None, zp=0):
    t = Tensor(list(shape), dtype, name)
    if scale is not None:
        q = QuantizationParameters()
        q.scale_f32 = np.float32(scale)
        q.zero_point = zp
        t.quantization = q
    return t


def mkop(op_type, name, inputs, outputs, attrs=None):
    op = Operation(op_type, name)
    for t in inputs:
        op.add_input_tensor(t)
    for t in outputs:
        op.add_output_tensor(t)
    op.attrs.update(attrs or {})
    op.run_on_npu = False  # plain TFLite operator of the input model
    return op


def build_graph(inputs, outputs, ops):
    sg = Subgraph("main", PassPlacement.Cpu)
    for t in inputs:
        Operation(Op.Placeholder, t.name + "_ph").set_output_tensor(t)
        sg.input_tensors.append(t)
    sg.original_inputs = list(inputs)
    sg.output_tensors = list(outputs)
    ps = Pass("all", PassPlacement.Cpu, False, NpuBlockType.Default)
    ps.ops = list(ops)
    sg.passes = [ps]
    nng = Graph("net")
    nng.subgraphs.append(sg)
    return nng


@contextlib.contextmanager
def quiet():
    """silence everything Vela prints (some of it is written to the sys.stdout object captured at import time)"""
    sys.stdout.flush()
    saved = os.dup(1)
    devnull = os.open(os.devnull, os.O_WRONLY)
    os.dup2(devnull, 1)
    try:
        with contextlib.redirect_stdout(io.StringIO()):
            yield
    finally:
        sys.stdout.flush()
        os.dup2(saved, 1)
        os.close(saved)
        os.close(devnull)


def const(name, shape, dtype, values, scale=None, zp=0):
    t = fm(name, shape, dtype, scale, zp)
    np_type = {DataType.int8: np.int8, DataType.uint8: np.uint8, DataType.int16: np.int16, DataType.int32: np.int32}[dtype]
    t.values = np.broadcast_to(np.array(values, dtype=np_type), tuple(shape)).copy()
    Operation(Op.Const, name + "_const").set_output_tensor(t)
    return t


CONV_ATTRS = {"padding": Padding.SAME, "stride_h": 1, "stride_w": 1, "dilation_h_factor": 1, "dilation_w_factor": 1}
CONV_ATTRS["fused_activation_function"] = None


def try_compile(nng, accelerator="ethos-u55-128", extra_args=()):
    """-> (operator list of the output model or None, exception text or None)"""
    try:
        return compiled_operators(nng, accelerator, extra_args), None
    except BaseException as e:  # noqa: B902
        import traceback

        where = " <- ".join(f"{f.name}:{f.lineno}" for f in reversed(traceback.extract_tb(e.__traceback__)[-3:]))
        return None, f"{type(e).__name__}: {e} (at {where})"


def compiled_operators(nng, accelerator, extra_args=()):
    """-> list of (builtin operator name, input tensor names, output tensor names) of the output model"""
    tmp = tempfile.mkdtemp(prefix="c16_obs_")
    src = os.path.join(tmp, "net.tflite")
    write_tflite(nng, src)
    with quiet():
        vela.main([src, "--output-dir", tmp, "--accelerator-config", accelerator, *extra_args])
    with open(os.path.join(tmp, "net_vela.tflite"), "rb") as f:
        model = Model.GetRootAsModel(bytearray(f.read()), 0)
    sg = model.Subgraphs(0)
    res = []
    for i in range(sg.OperatorsLength()):
        o = sg.Operators(i)
        code = model.OperatorCodes(o.OpcodeIndex())
        name = builtin_operator_name_map[max(code.BuiltinCode(), code.DeprecatedBuiltinCode())]
        ins = [sg.Tensors(o.Inputs(j)).Name().decode() for j in range(o.InputsLength()) if o.Inputs(j) >= 0]
        outs = [sg.Tensors(o.Outputs(j)).Name().decode() for j in range(o.OutputsLength())]
        res.append((name, ins, outs))
    return res


def generated_report():
    cwd = os.getcwd()
    tmp = tempfile.mkdtemp(prefix="c16_report_")
    os.chdir(tmp)
    try:
        with quiet():
            vela.main(["--supported-ops-report"])
        with open(os.path.join(tmp, "SUPPORTED_OPS.md")) as f:
            return f.read()
    finally:
        os.chdir(cwd)

def network(depth, ihw, ohw):
    a = fm("a", (1, ihw, ihw, depth), DataType.int8, 1.0)
    size = const("size", (2,), DataType.int32, [ohw, ohw])
    o = fm("ofm", (1, ohw, ohw, depth), DataType.int8, 1.0)
    op = mkop(Op.ResizeNearestNeighbor, "resize", [a, size], [o], {"align_corners": True, "half_pixel_centers": False})
    return build_graph([a], [o], [op])


def main():
    bad = 0
    for accelerator in ("ethos-u55-128", "ethos-u65-256"):
        for depth, ihw, ohw in ((1, 3, 5), (2, 3, 5), (8, 3, 9), (8, 2, 9)):
            ops, err = try_compile(network(depth, ihw, ohw), accelerator)
            print(accelerator, f"depth {depth}, {ihw}x{ihw} -> {ohw}x{ohw}:", err or [n for n, _, _ in ops])
            bad += err is not None
    print("REPRODUCED" if bad else "not reproduced")
    return 1 if bad else 0


if __name__ == "__main__":
    sys.exit(main())

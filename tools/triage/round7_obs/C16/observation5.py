"""C16 observation 5 (unmodified tree): fixup_pool_strides runs BEFORE the supported-operator check.

(a) MAX_POOL_2D / AVERAGE_POOL_2D with kernel == stride == IFM height/width (e.g. 4x4 on a 4x4 IFM, stride 4x4) violates the
    listed 'Stride values for both width and height must be in the range [1, 3]' (MAX_POOL_2D) but is accelerated, because
    the strides have been rewritten to 1x1 before the check.  The report does not mention this exception.
(b) If such a pooling operator is rejected for another reason (here IFM batch 2), it stays on the CPU but is NOT written
    back unchanged: stride 4x4 / padding SAME of the input model become stride 1x1 / padding VALID in the output model.
Exits 1 if the problem reproduces.
"""
import contextlib
import io
import os
import re
import sys
import tempfile

sys.path.insert(0, os.getcwd())

import numpy as np  # noqa: E402

from ethosu.vela import vela  # noqa: E402
from ethosu.vela.data_type import DataType  # noqa: E402
from ethosu.vela.nn_graph import Graph, Pass, PassPlacement, Subgraph  # noqa: E402
from ethosu.vela.operation import NpuBlockType, Op, Operation, Padding  # noqa: E402
from ethosu.vela.tensor import QuantizationParameters, Tensor  # noqa: E402
from ethosu.vela.tflite.Model import Model  # noqa: E402
from ethosu.vela.tflite_mapping import builtin_operator_name_map  # noqa: E402
from ethosu.vela.tflite_writer import write_tflite  # noqa: E402


def fm(name, shape, dtype, scale=None, zp=0):
    t = Tensor(list(shape), dtype, name)
    if scale is not None:
        q = QuantizationParameters()
        q.scale_f32 = np.float32(scale)
        q.zero_point = zp
        t.quantization = q
    return t


def mkop(op_type, name, inputs, outputs, attrs=None):
    op = Operation(op_type, name)
    for t in inputs:
        op.add_input_tensor(t)
    for t in outputs:
        op.add_output_tensor(t)
    op.attrs.update(attrs or {})
    op.run_on_npu = False  # plain TFLite operator of the input model
    return op


def build_graph(inputs, outputs, ops):
    sg = Subgraph("main", PassPlacement.Cpu)
    for t in inputs:
        Operation(Op.Placeholder, t.name + "_ph").set_output_tensor(t)
        sg.input_tensors.append(t)
    sg.original_inputs = list(inputs)
    sg.output_tensors = list(outputs)
    ps = Pass("all", PassPlacement.Cpu, False, NpuBlockType.Default)
    ps.ops = list(ops)
    sg.passes = [ps]
    nng = Graph("net")
    nng.subgraphs.append(sg)
    return nng


@contextlib.contextmanager
def quiet():
    """silence everything Vela prints (some of it is written to the sys.stdout object captured at import time)"""
    sys.stdout.flush()
    saved = os.dup(1)
    devnull = os.open(os.devnull, os.O_WRONLY)
    os.dup2(devnull, 1)
    try:
        with contextlib.redirect_stdout(io.StringIO()):
            yield
    finally:
        sys.stdout.flush()
        os.dup2(saved, 1)
        os.close(saved)
        os.close(devnull)


def const(name, shape, dtype, values, scale=None, zp=0):
    t = fm(name, shape, dtype, scale, zp)
    np_type = {DataType.int8: np.int8, DataType.uint8: np.uint8, DataType.int16: np.int16, DataType.int32: np.int32}[dtype]
    t.values = np.broadcast_to(np.array(values, dtype=np_type), tuple(shape)).copy()
    Operation(Op.Const, name + "_const").set_output_tensor(t)
    return t


CONV_ATTRS = {"padding": Padding.SAME, "stride_h": 1, "stride_w": 1, "dilation_h_factor": 1, "dilation_w_factor": 1}
CONV_ATTRS["fused_activation_function"] = None


def try_compile(nng, accelerator="ethos-u55-128", extra_args=()):
    """-> (operator list of the output model or None, exception text or None)"""
    try:
        return compiled_operators(nng, accelerator, extra_args), None
    except BaseException as e:  # noqa: B902
        import traceback

        where = " <- ".join(f"{f.name}:{f.lineno}" for f in reversed(traceback.extract_tb(e.__traceback__)[-3:]))
        return None, f"{type(e).__name__}: {e} (at {where})"


def compiled_operators(nng, accelerator, extra_args=()):
    """-> list of (builtin operator name, input tensor names, output tensor names) of the output model"""
    tmp = tempfile.mkdtemp(prefix="c16_obs_")
    src = os.path.join(tmp, "net.tflite")
    write_tflite(nng, src)
    with quiet():
        vela.main([src, "--output-dir", tmp, "--accelerator-config", accelerator, *extra_args])
    with open(os.path.join(tmp, "net_vela.tflite"), "rb") as f:
        model = Model.GetRootAsModel(bytearray(f.read()), 0)
    sg = model.Subgraphs(0)
    res = []
    for i in range(sg.OperatorsLength()):
        o = sg.Operators(i)
        code = model.OperatorCodes(o.OpcodeIndex())
        name = builtin_operator_name_map[max(code.BuiltinCode(), code.DeprecatedBuiltinCode())]
        ins = [sg.Tensors(o.Inputs(j)).Name().decode() for j in range(o.InputsLength()) if o.Inputs(j) >= 0]
        outs = [sg.Tensors(o.Outputs(j)).Name().decode() for j in range(o.OutputsLength())]
        res.append((name, ins, outs))
    return res


def generated_report():
    cwd = os.getcwd()
    tmp = tempfile.mkdtemp(prefix="c16_report_")
    os.chdir(tmp)
    try:
        with quiet():
            vela.main(["--supported-ops-report"])
        with open(os.path.join(tmp, "SUPPORTED_OPS.md")) as f:
            return f.read()
    finally:
        os.chdir(cwd)

from ethosu.vela.tflite.Pool2DOptions import Pool2DOptions  # noqa: E402


def network(batch):
    a = fm("a", (batch, 4, 4, 8), DataType.int8, 1.0)
    o = fm("ofm", (batch, 1, 1, 8), DataType.int8, 1.0)
    attrs = {"padding": Padding.SAME, "stride_h": 4, "stride_w": 4, "filter_height": 4, "filter_width": 4}
    attrs["fused_activation_function"] = None
    op = mkop(Op.MaxPool, "pool", [a], [o], attrs)
    return build_graph([a], [o], [op])


def pool_options(path):
    with open(path, "rb") as f:
        model = Model.GetRootAsModel(bytearray(f.read()), 0)
    sg = model.Subgraphs(0)
    for i in range(sg.OperatorsLength()):
        o = sg.Operators(i)
        code = model.OperatorCodes(o.OpcodeIndex())
        if builtin_operator_name_map[max(code.BuiltinCode(), code.DeprecatedBuiltinCode())] == "MAX_POOL_2D":
            opt = Pool2DOptions()
            opt.Init(o.BuiltinOptions().Bytes, o.BuiltinOptions().Pos)
            return {"stride_h": opt.StrideH(), "stride_w": opt.StrideW(), "padding": "SAME" if opt.Padding() == 0 else "VALID"}
    return None


def main():
    bad = 0
    ops, err = try_compile(network(1))
    names = err or [n for n, _, _ in ops]
    print("(a) MAX_POOL_2D 4x4, stride 4x4, IFM 1x4x4x8 (stride outside the listed range [1, 3]):", names)
    bad += names == ["CUSTOM"]

    tmp = tempfile.mkdtemp(prefix="c16_obs5_")
    src = os.path.join(tmp, "net.tflite")
    write_tflite(network(2), src)
    with quiet():
        vela.main([src, "--output-dir", tmp])
    before, after = pool_options(src), pool_options(os.path.join(tmp, "net_vela.tflite"))
    print("(b) same operator with IFM batch 2 (stays on the CPU): options in the input model ", before)
    print("                                                      options in the output model", after)
    bad += before != after
    print("REPRODUCED" if bad else "not reproduced")
    return 1 if bad else 0


if __name__ == "__main__":
    sys.exit(main())

"""C16 observation 8 (unmodified tree): a batch-major (time_major = False) UNIDIRECTIONAL_SEQUENCE_LSTM that satisfies all
listed constraints (no CIFG / peephole / projection / normalisation, 2-D recurrent weights, 24 inputs, 5 intermediates,
variable state tensors, int8 in and out) compiles for Ethos-U65 but aborts on Ethos-U55 (default and Arm vela.ini configs):
  AssertionError 'Tensors assigned to the same LiveRange need to fit the size of the LiveRange' (batch 1) or the
  scheduler assertion non_local_mem_usage >= 0 (batch 2).  The time-major variant compiles everywhere.
(hand-built model; treat with some care.)  Exits 1 if the problem reproduces.
"""
import contextlib
import io
import os
import re
import sys
import tempfile

sys.path.insert(0, os.getcwd())

import numpy as np  # noqa: E402

from ethosu.vela import vela  # noqa: E402
from ethosu.vela.data_type import DataType  # noqa: E402
from ethosu.vela.nn_graph import Graph, Pass, PassPlacement, Subgraph  # noqa: E402
from ethosu.vela.operation import NpuBlockType, Op, Operation, Padding  # noqa: E402
from ethosu.vela.tensor import QuantizationParameters, Tensor  # noqa: E402
from ethosu.vela.tflite.Model import Model  # noqa: E402
from ethosu.vela.tflite_mapping import builtin_operator_name_map  # noqa: E402
from ethosu.vela.tflite_writer import write_tflite  # noqa: E402


def fm(name, shape, dtype, scale=None, zp=0):
    t = Tensor(list(shape), dtype, name)
    if scale is not None:
        q = QuantizationParameters()
        q.scale_f32 = np.float32(scale)
        q.zero_point = zp
        t.quantization = q
    return t


def mkop(op_type, name, inputs, outputs, attrs=None):
    op = Operation(op_type, name)
    for t in inputs:
        op.add_input_tensor(t)
    for t in outputs:
        op.add_output_tensor(t)
    op.attrs.update(attrs or {})
    op.run_on_npu = False  # plain TFLite operator of the input model
    return op


def build_graph(inputs, outputs, ops):
    sg = Subgraph("main", PassPlacement.Cpu)
    for t in inputs:
        Operation(Op.Placeholder, t.name + "_ph").set_output_tensor(t)
        sg.input_tensors.append(t)
    sg.original_inputs = list(inputs)
    sg.output_tensors = list(outputs)
    ps = Pass("all", PassPlacement.Cpu, False, NpuBlockType.Default)
    ps.ops = list(ops)
    sg.passes = [ps]
    nng = Graph("net")
    nng.subgraphs.append(sg)
    return nng


@contextlib.contextmanager
def quiet():
    """silence everything Vela prints (some of it is written to the sys.stdout object captured at import time)"""
    sys.stdout.flush()
    saved = os.dup(1)
    devnull = os.open(os.devnull, os.O_WRONLY)
    os.dup2(devnull, 1)
    try:
        with contextlib.redirect_stdout(io.StringIO()):
            yield
    finally:
        sys.stdout.flush()
        os.dup2(saved, 1)
        os.close(saved)
        os.close(devnull)


def const(name, shape, dtype, values, scale=None, zp=0):
    t = fm(name, shape, dtype, scale, zp)
    np_type = {DataType.int8: np.int8, DataType.uint8: np.uint8, DataType.int16: np.int16, DataType.int32: np.int32}[dtype]
    t.values = np.broadcast_to(np.array(values, dtype=np_type), tuple(shape)).copy()
    Operation(Op.Const, name + "_const").set_output_tensor(t)
    return t


CONV_ATTRS = {"padding": Padding.SAME, "stride_h": 1, "stride_w": 1, "dilation_h_factor": 1, "dilation_w_factor": 1}
CONV_ATTRS["fused_activation_function"] = None


def try_compile(nng, accelerator="ethos-u55-128", extra_args=()):
    """-> (operator list of the output model or None, exception text or None)"""
    try:
        return compiled_operators(nng, accelerator, extra_args), None
    except BaseException as e:  # noqa: B902
        import traceback

        where = " <- ".join(f"{f.name}:{f.lineno}" for f in reversed(traceback.extract_tb(e.__traceback__)[-3:]))
        return None, f"{type(e).__name__}: {e} (at {where})"


def compiled_operators(nng, accelerator, extra_args=()):
    """-> list of (builtin operator name, input tensor names, output tensor names) of the output model"""
    tmp = tempfile.mkdtemp(prefix="c16_obs_")
    src = os.path.join(tmp, "net.tflite")
    write_tflite(nng, src)
    with quiet():
        vela.main([src, "--output-dir", tmp, "--accelerator-config", accelerator, *extra_args])
    with open(os.path.join(tmp, "net_vela.tflite"), "rb") as f:
        model = Model.GetRootAsModel(bytearray(f.read()), 0)
    sg = model.Subgraphs(0)
    res = []
    for i in range(sg.OperatorsLength()):
        o = sg.Operators(i)
        code = model.OperatorCodes(o.OpcodeIndex())
        name = builtin_operator_name_map[max(code.BuiltinCode(), code.DeprecatedBuiltinCode())]
        ins = [sg.Tensors(o.Inputs(j)).Name().decode() for j in range(o.InputsLength()) if o.Inputs(j) >= 0]
        outs = [sg.Tensors(o.Outputs(j)).Name().decode() for j in range(o.OutputsLength())]
        res.append((name, ins, outs))
    return res


def generated_report():
    cwd = os.getcwd()
    tmp = tempfile.mkdtemp(prefix="c16_report_")
    os.chdir(tmp)
    try:
        with quiet():
            vela.main(["--supported-ops-report"])
        with open(os.path.join(tmp, "SUPPORTED_OPS.md")) as f:
            return f.read()
    finally:
        os.chdir(cwd)

def network(batches, time_major, times=4, features=8, outputs=8):
    i8, i16 = DataType.int8, DataType.int16
    ishape = [times, batches, features] if time_major else [batches, times, features]
    oshape = [times, batches, outputs] if time_major else [batches, times, outputs]
    ifm = fm("ifm", ishape, i8, 1 / 128)
    ofm = fm("ofm", oshape, i8, 1 / 128)
    iw = [const(f"iw{i}", (outputs, features), i8, 1, 0.01) for i in range(4)]
    rw = [const(f"rw{i}", (outputs, outputs), i8, 1, 0.01) for i in range(4)]
    bs = [const(f"b{i}", (outputs,), DataType.int32, 0, 0.0001) for i in range(4)]
    out_state = fm("output_state", (batches, outputs), i8, 1 / 128)
    cell_state = fm("cell_state", (batches, outputs), i16, 1 / 2048)
    out_state.is_variable = cell_state.is_variable = True
    inputs = [ifm] + iw + rw + [None] * 3 + bs + [None] * 2 + [out_state, cell_state] + [None] * 4
    op = Operation(Op.UnidirectionalSequenceLstm, "lstm")
    for t in inputs:
        if t is None:
            op.inputs.append(None)
        else:
            op.add_input_tensor(t)
    op.add_output_tensor(ofm)
    op.intermediates = [fm(f"inter{i}", (), i16, 1 / 4096) for i in range(4)] + [fm("hidden", (), i8, 1 / 4096)]
    op.attrs.update({"asymmetric_quantize_inputs": False, "cell_clip": 10.0, "diagonal_recurrent_tensors": False,
                     "fused_activation_function": Op.Tanh, "proj_clip": 0.0, "time_major": time_major})
    op.run_on_npu = False
    return build_graph([ifm], [ofm], [op])


def main():
    bad = 0
    cfg = os.path.join(os.getcwd(), "ethosu", "config_files", "Arm", "vela.ini")
    arm_u55 = ("--config", cfg, "--system-config", "Ethos_U55_High_End_Embedded", "--memory-mode", "Shared_Sram")
    for accelerator, extra in (("ethos-u55-128", ()), ("ethos-u55-128", arm_u55), ("ethos-u65-256", ())):
        for batches, time_major in ((1, False), (2, False), (1, True)):
            ops, err = try_compile(network(batches, time_major), accelerator, extra)
            print(accelerator, "(Arm U55 config)" if extra else "", f"batch {batches}, time_major {time_major} ->",
                  err or [n for n, _, _ in ops])
            bad += err is not None
    print("REPRODUCED" if bad else "not reproduced")
    return 1 if bad else 0


if __name__ == "__main__":
    sys.exit(main())

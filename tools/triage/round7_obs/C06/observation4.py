"""Observation (unmodified tree, api.npu_find_block_configs - not the generator): the test
'ifm_resampling_mode != NpuResamplingMode.NONE' compares a register enum (ethos_u55_regs.resampling_mode) with the API
enum, so it is always true and the minimum block is 2x2 even without upscaling. On Ethos-U55-64 this INT16 7x7
convolution with a LUT only fits blocks of height 1 (1x1x8, 1x2x8, 1x1x24 are accepted by the generator and decode
correctly), so npu_find_block_configs fails its 'len(valid_block_configs) > 0' assertion for a compilable operation."""
import os
import sys

sys.path.insert(0, os.getcwd())
from ethosu.vela.api import *  # noqa: E402,F401,F403


def fm(shape, dt, addr, q, layout=NpuLayout.NHWC):
    f = NpuFeatureMap()
    f.data_type = dt
    f.shape = NpuShape3D(*shape)
    f.region = 1
    f.tiles = NpuTileBox(shape[0], shape[0], shape[1], [addr, 0, 0, 0])
    f.quantization = q
    f.layout = layout
    return f


op = NpuConv2DOperation()
op.ifm = fm((37, 4, 40), NpuDataType.INT16, 0x20000, NpuQuantization(0.0078125, 0), NpuLayout.NHCWB16)
op.ofm = fm((18, 2, 24), NpuDataType.UINT8, 0x40000, NpuQuantization(0.01, 55))
op.kernel = NpuKernel(7, 7, 2, 2)
op.padding = NpuPadding(3, 3, 1, 2)
op.weights = [NpuAddressRange(2, 0x1000, 5312)]
op.biases = [NpuAddressRange(2, 0x8000, 3904)]
op.block_traversal = NpuBlockTraversal.DEPTH_FIRST
op.activation = NpuActivation(NpuActivationOp.TABLE_LOOKUP)
acc = NpuAccelerator.Ethos_U55_64
rc = 0
try:
    print(npu_find_block_configs(op, acc))
except AssertionError:
    print("npu_find_block_configs: AssertionError (no valid block config)")
    rc = 1
for blk in [(1, 1, 8), (1, 2, 8), (1, 1, 24)]:
    op.block_config = NpuShape3D(*blk)
    print(blk, "-> generator emits", len(npu_generate_register_command_stream([op], acc)), "words")
sys.exit(rc)

"""Observation (unmodified tree): NpuFeatureMap.quantization is Optional (get_zero_point / quantise / elementwise
scaling all accept None), but an AVERAGE or REDUCE_SUM pooling without padding (global scale) whose IFM or OFM has
quantization None crashes with AttributeError in generate_ofm_scaling_for_pooling instead of using unit scaling;
NpuQuantization(scale_f32=None, ...) works. Exits 1 when the crash happens."""
import os
import sys

sys.path.insert(0, os.getcwd())
from ethosu.vela.api import *  # noqa: E402,F401,F403


def fm(shape, addr, q):
    f = NpuFeatureMap()
    f.data_type = NpuDataType.INT8
    f.shape = NpuShape3D(*shape)
    f.region = 1
    f.tiles = NpuTileBox(shape[0], shape[0], shape[1], [addr, 0, 0, 0])
    f.quantization = q
    return f


rc = 0
for q in (NpuQuantization(None, 0), None):
    op = NpuPoolingOperation(NpuPoolingOp.AVERAGE)
    op.ifm, op.ofm = fm((8, 8, 8), 0, q), fm((4, 4, 8), 0x1000, q)
    op.kernel = NpuKernel(2, 2, 2, 2)
    op.padding = NpuPadding(0, 0, 0, 0)
    acc = NpuAccelerator.Ethos_U55_128
    op.block_config = npu_find_block_configs(op, acc)[0]
    try:
        words = npu_generate_register_command_stream([op], acc)
        print(f"quantization={q}: {len(words)} words")
    except AttributeError as e:
        print(f"quantization={q}: AttributeError {e}")
        rc = 1
sys.exit(rc)

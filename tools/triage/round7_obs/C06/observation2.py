"""Observation (unmodified tree): an INT32 elementwise operation with a scalar second operand whose quantised value
does not fit 16 bits is accepted and IFM2_SCALAR silently receives the low 16 bits (generate_elementwise_op only
asserts that the value fits the IFM2 data type; the register parameter is 16 bits wide)."""
import os
import sys

sys.path.insert(0, os.getcwd())
from ethosu.vela.api import *  # noqa: E402,F401,F403


def fm(shape, addr):
    f = NpuFeatureMap()
    f.data_type = NpuDataType.INT32
    f.shape = NpuShape3D(*shape)
    f.region = 1
    f.tiles = NpuTileBox(shape[0], shape[0], shape[1], [addr, 0, 0, 0])
    f.quantization = NpuQuantization(1.0, 0)
    return f


op = NpuElementWiseOperation(NpuElementWiseOp.ADD)
op.ifm, op.ofm, op.ifm2 = fm((4, 4, 8), 0), fm((4, 4, 8), 0x1000), fm((1, 1, 1), 0)
op.ifm2_scalar = 98304.0  # 0x18000
acc = NpuAccelerator.Ethos_U55_128
op.block_config = npu_find_block_configs(op, acc)[0]
words = npu_generate_register_command_stream([op], acc)
got = [w >> 16 for w in words if (w & 0xC3FF) == 0x181]
print("IFM2_SCALAR written:", got, "for scalar 98304 (no error raised)")
sys.exit(1 if got != [98304] else 0)

"""Observation (unmodified tree): elementwise MUL - OFM_SCALE is computed in float32 when the scales are np.float32.

scaling.elementwise_mul_scale does (input_scale * input2_scale) / output_scale without widening; with np.float32
scales (what Vela's own pipeline puts into NpuQuantization.scale_f32) the quotient has a 24-bit significand, so the
low ~7 bits of the Q31 OFM_SCALE multiplier are zero / differ from the double-precision value the reference kernels
use (real_multiplier = double(s1) * s2 / so). ADD/SUB (simplified_elementwise_add_sub_scale) and the pooling scale
were widened, MUL was not. Exits 1 and prints the mismatches.
"""
import math
import os
import sys

sys.path.insert(0, os.getcwd())
import numpy as np  # noqa: E402

from ethosu.vela.api import *  # noqa: E402,F401,F403


def fm(addr, scale):
    f = NpuFeatureMap()
    f.data_type = NpuDataType.INT8
    f.shape = NpuShape3D(4, 4, 8)
    f.region = 1
    f.tiles = NpuTileBox(4, 4, 4, [addr, 0, 0, 0])
    f.quantization = NpuQuantization(scale, 0)
    return f


def q31(x):
    m, e = math.frexp(x)
    q = int(math.floor(m * (1 << 31) + 0.5))
    if q == 1 << 31:
        q //= 2
        e += 1
    return q, 31 - e


bad = 0
for s1, s2, so in [(0.027738485, 0.16963932, 0.22936861), (0.051758736, 0.09959158, 0.13539782), (0.02, 0.003921, 0.11)]:
    s1, s2, so = np.float32(s1), np.float32(s2), np.float32(so)
    op = NpuElementWiseOperation(NpuElementWiseOp.MUL)
    op.ifm, op.ifm2, op.ofm = fm(0, s1), fm(0x100, s2), fm(0x200, so)
    acc = NpuAccelerator.Ethos_U55_128
    op.block_config = npu_find_block_configs(op, acc)[0]
    words = npu_generate_register_command_stream([op], acc)
    i = 0
    got = None
    while i < len(words):
        w = words[i]
        if (w & 0xC000) == 0x4000:
            if (w & 0x3FF) == 0x024:  # NPU_SET_OFM_SCALE
                got = (words[i + 1], w >> 16)
            i += 2
        else:
            i += 1
    want = q31(float(s1) * float(s2) / float(so))
    print(f"scales {s1} * {s2} / {so}: OFM_SCALE (multiplier, shift) = {got}, double-precision value {want}")
    bad += got != want
print("FAIL" if bad else "PASS")
sys.exit(1 if bad else 0)

"""Observation (unmodified tree): api.NpuTileBox documents height_1 as 'the height of tile 1, 0 if unused'. With
height_1 = 0 generate_tiles writes height_1 - 1 = -1, which cmd0_with_param masks to 0xFFFF, i.e. the stream says
tile 1 is 65536 rows high (the same for the default NpuTileBox(0, 0, 0, ...)). Harmless while width_0 covers the whole
width, but the decoded value is not the operation's and the field is silently wrapped."""
import os
import sys

sys.path.insert(0, os.getcwd())
from ethosu.vela.api import *  # noqa: E402,F401,F403


def fm(shape, addr, h1):
    f = NpuFeatureMap()
    f.data_type = NpuDataType.INT8
    f.shape = NpuShape3D(*shape)
    f.region = 1
    f.tiles = NpuTileBox(shape[0], h1, shape[1], [addr, 0, 0, 0])
    f.quantization = NpuQuantization(0.5, 0)
    return f


op = NpuPoolingOperation(NpuPoolingOp.MAX)
op.ifm, op.ofm = fm((8, 8, 8), 0, 0), fm((8, 8, 8), 0x1000, 0)
op.kernel = NpuKernel(1, 1)
op.padding = NpuPadding(0, 0, 0, 0)
acc = NpuAccelerator.Ethos_U55_128
op.block_config = npu_find_block_configs(op, acc)[0]
words = npu_generate_register_command_stream([op], acc)
got = {hex(w & 0x3FF): w >> 16 for w in words if (w & 0xC3FF) in (0x10C, 0x11C)}
print("IFM/OFM HEIGHT1_M1:", got)
sys.exit(1 if any(v == 0xFFFF for v in got.values()) else 0)

"""Observation 1 (unmodified tree): a zero-sized live range corrupts the Greedy allocator's gap search.

GreedyAllocator.alloc walks current_allocs in (address, LiveRange) order and takes "end of the previous allocation" as
current_offset = start_addr + lr.size.  A zero-sized range placed at the same address as a real one sorts behind it
(LiveRange.__lt__ compares the start time first), so current_offset falls back to the START of the real allocation and
the next range is put on top of it.  HillClimb and LinearAlloc handle the same set correctly.
(Tensor.storage_size() never returns 0, so this needs a LiveRange whose size was set to 0 by hand / set_buffer_size(0).)
"""
import os
import sys

sys.path.insert(0, os.getcwd())

from ethosu.vela import greedy_allocation  # noqa: E402
from ethosu.vela.data_type import DataType  # noqa: E402
from ethosu.vela.live_range import LiveRangeGraph  # noqa: E402
from ethosu.vela.tensor import MemArea, MemType, Tensor, TensorAddressMap  # noqa: E402

ranges = [(32, 34, 256, 32), (10, 38, 1, 128), (2, 32, 32, 128), (25, 34, 0, 16), (8, 20, 64, 128)]
TensorAddressMap.clear_address_map()
graph = LiveRangeGraph()
for idx, (start, end, size, alignment) in enumerate(ranges):
    tens = Tensor([16], DataType.int8, "t%d" % idx)
    tens.mem_area, tens.mem_type = MemArea.Sram, MemType.Scratch
    lr = graph.get_or_create_range(tens, alignment)
    lr.start_time, lr.end_time, lr.size = start, end, size
greedy_allocation.allocate_live_ranges(graph, 16)
addrs = [lr.tensors[0].address for lr in graph.lrs]
bad = False
for i in range(len(ranges)):
    for j in range(i + 1, len(ranges)):
        a, b = ranges[i], ranges[j]
        if a[0] <= b[1] and b[0] <= a[1] and addrs[i] < addrs[j] + b[2] and addrs[j] < addrs[i] + a[2]:
            print("ranges %s@%d and %s@%d are live together and overlap" % (a, addrs[i], b, addrs[j]))
            bad = True
print("VIOLATION" if bad else "ok")
sys.exit(1 if bad else 0)

"""Observation 4 (unmodified tree): the HillClimb search does not stop at max_iterations.

HillClimbAllocator.search loops while
    (best_size > memory_limit and i < max_iterations) or (i - last_improvement_iteration < MIN_ITERATIONS_IMPROVE)
so it always performs at least MIN_ITERATIONS_IMPROVE (500) trial allocations after the last improvement, whatever
max_iterations says (--hillclimb-max-iterations 1 still costs 501 trials) - unless the target size is reached, which
is impossible whenever a size is not a multiple of the alignment of its upper neighbour.
"""
import contextlib
import io
import os
import sys

sys.path.insert(0, os.getcwd())

from ethosu.vela import hillclimb_allocation  # noqa: E402
from ethosu.vela.live_range import LiveRange  # noqa: E402

count = [0]
original = hillclimb_allocation.HillClimbAllocator.allocate_indices


def counting(self, indices):
    count[0] += 1
    return original(self, indices)


hillclimb_allocation.HillClimbAllocator.allocate_indices = counting


def live_range(start, end, size):
    lr = LiveRange(None, 16)
    lr.start_time, lr.end_time, lr.size = start, end, size
    return lr


bad = False
for max_iterations in (0, 1, 10):
    count[0] = 0
    with contextlib.redirect_stdout(io.StringIO()):
        hillclimb_allocation.allocate_live_ranges([live_range(0, 1, 24), live_range(0, 1, 24), live_range(1, 2, 40)], max_iterations, 1 << 32)
    print("max_iterations=%d: %d trial allocations (1 initial + %d search iterations)" % (max_iterations, count[0], count[0] - 1))
    bad |= count[0] - 1 > max_iterations
print("VIOLATION" if bad else "ok")
sys.exit(1 if bad else 0)

"""Observation 2 (unmodified tree): Greedy and LinearAlloc report more than the highest end address.

GreedyAllocator.alloc accounts best_offset + round_up(size, alignment) and linear_allocate_live_ranges pads every size
to the allocation granularity, so the returned total exceeds max(address + size) as soon as the topmost range's size is
not a multiple of its alignment / the granularity (e.g. any --cpu-tensor-alignment above 16: LinearAlloc on the
Permanent_CPU constants then always reports up to alignment-16 bytes too much).  HillClimb reports the exact value.
The total is never too small, so nothing is overwritten; it only disagrees with "total == highest end address".
"""
import os
import sys

sys.path.insert(0, os.getcwd())

from ethosu.vela import greedy_allocation, tensor_allocation  # noqa: E402
from ethosu.vela.data_type import DataType  # noqa: E402
from ethosu.vela.live_range import LiveRangeGraph  # noqa: E402
from ethosu.vela.tensor import MemArea, MemType, Tensor, TensorAddressMap  # noqa: E402


def build():
    TensorAddressMap.clear_address_map()
    graph = LiveRangeGraph()
    tens = Tensor([1008], DataType.int8, "t0")       # storage size 1008 = 63 * 16
    tens.mem_area, tens.mem_type = MemArea.Sram, MemType.Scratch
    graph.get_or_create_range(tens, 64).mark_usage(0, 3)
    return graph, tens


bad = False
for name, fn in (
    ("Greedy", lambda g: greedy_allocation.allocate_live_ranges(g, 64)),
    ("LinearAlloc", lambda g: tensor_allocation.linear_allocate_live_ranges(g, 64)),
    ("HillClimb", lambda g: tensor_allocation.hillclimb_allocate_live_ranges(g, 64, None, 1 << 32)),
):
    graph, tens = build()
    total = fn(graph)
    top = tens.address + graph.lrs[0].size
    print("%-11s total %d, highest end address %d" % (name, total, top))
    bad |= total != top
print("VIOLATION" if bad else "ok")
sys.exit(1 if bad else 0)

"""Observation 3 (unmodified tree): an equivalent tensor of another memory type gets no address at all.

LiveRangeGraph.get_or_create_range() merges every tensor that is equivalent() to an already known one into the existing
range without adding it to LiveRange.tensors; the clone is expected to see the address through TensorAddressMap, which
is keyed by (equivalence_id, mem_type).  When the two equivalent tensors differ in mem_type (Scratch / Scratch_fast are
allocated together by the default, non-spilling configuration: mem_type_set = {Scratch, Scratch_fast}) the clone's key
is never written and its address stays None, although "equivalent tensors share one address".
(the scheduler moves single tensors to Scratch_fast, e.g. use_fast_storage_for_feature_maps; LSTM state / ofm pairs
share an equivalence_id - I did not construct an end-to-end model for it.)
"""
import os
import sys

sys.path.insert(0, os.getcwd())

from ethosu.vela import tensor_allocation  # noqa: E402
from ethosu.vela.data_type import DataType  # noqa: E402
from ethosu.vela.live_range import LiveRangeGraph  # noqa: E402
from ethosu.vela.tensor import MemArea, MemType, Tensor, TensorAddressMap  # noqa: E402

TensorAddressMap.clear_address_map()
graph = LiveRangeGraph()
t1 = Tensor([64], DataType.int8, "state")
t1.mem_area, t1.mem_type = MemArea.Sram, MemType.Scratch
t2 = t1.clone("_ofm")              # same equivalence_id
t2.mem_type = MemType.Scratch_fast
t3 = Tensor([64], DataType.int8, "other")
t3.mem_area, t3.mem_type = MemArea.Sram, MemType.Scratch
graph.get_or_create_range(t1).mark_usage(0)
graph.get_or_create_range(t2).mark_usage(2)
graph.get_or_create_range(t3).mark_usage(2)
tensor_allocation.hillclimb_allocate_live_ranges(graph, 16, None, 1 << 32)
print("state:", t1.address, " equivalent clone:", t2.address, " other:", t3.address)
bad = t2.address != t1.address
print("VIOLATION" if bad else "ok")
sys.exit(1 if bad else 0)

# Observation on the UNMODIFIED tree (not a violation of the C17 framing, but no output model is produced):
# a partially compiled network - one that already contains an ethos-u operator (with its command-stream, flash and
# scratch tensors) followed by an operator that the NPU can run - cannot be compiled: the existing scratch tensor
# and the new one are both marked TensorPurpose.Scratch and TFLiteSerialiser.serialise_subgraph stops with
# "AssertionError: Multiple scratch tensors" (an uncaught assert, not a VelaError).
# Re-compiling a fully compiled network (no new NPU operators) works and passes the existing command-stream tensors
# through byte for byte.
# run: cd /tmp/seed7/C17 && /venv/bin/python out/observation2.py   (exit code 1 when the crash is present)
import contextlib
import io
import os
import shutil
import sys
import tempfile
import traceback

sys.path.insert(0, os.getcwd())

import numpy as np  # noqa: E402


def qp():
    from ethosu.vela.tensor import QuantizationParameters

    q = QuantizationParameters()
    q.scale_f32 = np.float32(0.05)
    q.zero_point = 0
    return q


def add_op(name, ifm, value):
    from ethosu.vela.data_type import DataType
    from ethosu.vela.operation import Op, Operation
    from ethosu.vela.tensor import Tensor, create_const_tensor

    shape = list(ifm.shape)
    ofm = Tensor(shape, DataType.int8, name + "_out")
    ofm.quantization = qp()
    op = Operation(Op.Add, name)
    op.add_input_tensor(ifm)
    const = create_const_tensor(name + "_c", shape, DataType.int8, np.full(shape, value, np.int8), quantization=qp())
    op.add_input_tensor(const)
    op.attrs = {"fused_activation_function": None}
    op.set_output_tensor(ofm)
    return op, ofm


def write(nng, sg, ops):
    from ethosu.vela import tflite_writer
    from ethosu.vela.nn_graph import Pass, PassPlacement
    from ethosu.vela.operation import NpuBlockType

    for op in ops:
        ps = Pass(op.name, PassPlacement.Cpu, False, NpuBlockType.Default)
        ps.ops = [op]
        sg.passes.append(ps)
    with contextlib.redirect_stdout(io.StringIO()):
        return bytes(tflite_writer.write_tflite_buffer(nng))


def compile_file(model, d, name):
    from ethosu.vela import vela

    path = os.path.join(d, name + ".tflite")
    with open(path, "wb") as f:
        f.write(model)
    devnull = os.open(os.devnull, os.O_WRONLY)
    saved = os.dup(1)
    sys.stdout.flush()
    os.dup2(devnull, 1)
    try:
        rc = vela.main([path, "--output-dir", d, "--accelerator-config", "ethos-u55-128"])
    finally:
        sys.stdout.flush()
        os.dup2(saved, 1)
        os.close(devnull)
        os.close(saved)
    assert rc == 0
    with open(os.path.join(d, name + "_vela.tflite"), "rb") as f:
        return f.read()


def main():
    from ethosu.vela import model_reader
    from ethosu.vela.data_type import DataType
    from ethosu.vela.nn_graph import Graph, PassPlacement, Subgraph
    from ethosu.vela.operation import Op, Operation
    from ethosu.vela.tensor import Tensor

    d = tempfile.mkdtemp(prefix="c17_obs2_")
    try:
        # step 1: input -> ADD(const), compiled for the NPU
        sg = Subgraph("main", PassPlacement.Cpu)
        ifm = Tensor([1, 8, 8, 8], DataType.int8, "input")
        ifm.quantization = qp()
        Operation(Op.Placeholder, "input_op").set_output_tensor(ifm)
        sg.input_tensors = [ifm]
        sg.original_inputs = [ifm]
        op, ofm = add_op("add0", ifm, 1)
        sg.output_tensors = [ofm]
        nng = Graph("m")
        nng.subgraphs.append(sg)
        compiled = compile_file(write(nng, sg, [op]), d, "first")
        # step 2: append another ADD to the compiled network (read and written with Vela's own reader / writer)
        with contextlib.redirect_stdout(io.StringIO()):
            nng2, _ = model_reader.read_tflite_model(bytearray(compiled), model_reader.ModelReaderOptions())
        sg2 = nng2.subgraphs[0]
        op2, ofm2 = add_op("extra_add", sg2.output_tensors[0], 3)
        sg2.output_tensors = [ofm2]
        partially_compiled = write(nng2, sg2, sg2.get_all_ops())
        # step 3: compile the partially compiled network
        try:
            compile_file(partially_compiled, d, "second")
        except AssertionError:
            print("compiling a partially compiled network fails:")
            print(traceback.format_exc().strip().splitlines()[-3])
            print(traceback.format_exc().strip().splitlines()[-1], "(tflite_writer.serialise_subgraph)")
            return 1
        print("partially compiled network was compiled")
        return 0
    finally:
        shutil.rmtree(d, ignore_errors=True)


if __name__ == "__main__":
    sys.exit(main())

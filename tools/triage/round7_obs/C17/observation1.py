# Observation on the UNMODIFIED tree (adjacent to C17, not a violation of the framing itself):
# with --enable-debug-db and a network that is split into two NPU subgraphs, the "cmdstream" table of the debug
# database (<name>_debug.xml) gives every command stream the file offset of the OTHER command-stream tensor.
# vela.process() pairs  enumerate(sorted(file_offsets))  with the stream ids (order of generation), but the
# TFLite writer emits the buffers back to front, so the first NPU subgraph's payload has the HIGHEST file offset.
# run: cd /tmp/seed7/C17 && /venv/bin/python out/observation1.py   (prints the mismatch; exit code 1 when it is present)
import contextlib
import io
import os
import re
import shutil
import sys
import tempfile

sys.path.insert(0, os.getcwd())

import numpy as np  # noqa: E402


def build_model():
    """input -> ADD(const) -> COS -> ADD(const) -> ADD(const); COS is not supported by the NPU: two NPU subgraphs"""
    from ethosu.vela import tflite_writer
    from ethosu.vela.data_type import DataType
    from ethosu.vela.nn_graph import Graph, Pass, PassPlacement, Subgraph
    from ethosu.vela.operation import NpuBlockType, Op, Operation
    from ethosu.vela.tensor import QuantizationParameters, Tensor, create_const_tensor

    def qp(scale):
        q = QuantizationParameters()
        q.scale_f32 = np.float32(scale)
        q.zero_point = 0
        return q

    shape = [1, 8, 8, 8]
    sg = Subgraph("main", PassPlacement.Cpu)
    ifm = Tensor(shape, DataType.int8, "input")
    ifm.quantization = qp(0.05)
    Operation(Op.Placeholder, "input_op").set_output_tensor(ifm)
    sg.input_tensors = [ifm]
    sg.original_inputs = [ifm]
    cur = ifm
    for i, kind in enumerate(["add", "cos", "add", "add"]):
        ofm = Tensor(shape, DataType.int8, f"t{i}")
        ofm.quantization = qp(0.05 + 0.01 * i)
        if kind == "add":
            op = Operation(Op.Add, f"add{i}")
            op.add_input_tensor(cur)
            const = create_const_tensor(
                f"c{i}", shape, DataType.int8, np.full(shape, i + 1, np.int8), quantization=qp(0.02 + 0.01 * i)
            )
            op.add_input_tensor(const)
            op.attrs = {"fused_activation_function": None}
        else:
            op = Operation(Op.Cos, f"cos{i}")
            op.add_input_tensor(cur)
            op.attrs = {}
        op.set_output_tensor(ofm)
        ps = Pass(op.name, PassPlacement.Cpu, False, NpuBlockType.Default)
        ps.ops = [op]
        sg.passes.append(ps)
        cur = ofm
    sg.output_tensors = [cur]
    nng = Graph("m")
    nng.subgraphs.append(sg)
    return bytes(tflite_writer.write_tflite_buffer(nng))


def main():
    from ethosu.vela import vela
    from ethosu.vela.nn_graph import PassPlacement
    from ethosu.vela.tflite.Model import Model

    kept = []
    orig_process = vela.process

    def process(*args, **kwargs):
        nng = orig_process(*args, **kwargs)
        kept.append(nng)
        return nng

    vela.process = process
    with contextlib.redirect_stdout(io.StringIO()):
        model = build_model()
    d = tempfile.mkdtemp(prefix="c17_obs1_")
    try:
        path = os.path.join(d, "m.tflite")
        with open(path, "wb") as f:
            f.write(model)
        devnull = os.open(os.devnull, os.O_WRONLY)
        saved = os.dup(1)
        sys.stdout.flush()
        os.dup2(devnull, 1)
        try:
            rc = vela.main([path, "--output-dir", d, "--enable-debug-db", "--accelerator-config", "ethos-u55-128"])
        finally:
            sys.stdout.flush()
            os.dup2(saved, 1)
            os.close(devnull)
            os.close(saved)
        assert rc == 0
        with open(os.path.join(d, "m_vela.tflite"), "rb") as f:
            buf = bytearray(f.read())
        with open(os.path.join(d, "m_debug.xml")) as f:
            xml = f.read()
    finally:
        shutil.rmtree(d, ignore_errors=True)

    # where each NPU subgraph's payload really is: look its bytes up in the file
    import struct

    actual = {}
    for sg in kept[0].subgraphs:
        if sg.placement == PassPlacement.Npu:
            words = sg.register_command_stream
            tail = struct.pack(f"<{len(words)}I", *words)
            pos = bytes(buf).find(tail)
            assert pos >= 32 and bytes(buf).find(tail, pos + 1) < 0, "payloads must be distinguishable"
            actual[sg.generated_stream_id] = (sg.name, pos - 32, len(words))
    m = Model.GetRootAsModel(buf, 0)
    g = m.Subgraphs(0)
    print("ethos-u operators of the output file:")
    for oi in range(g.OperatorsLength()):
        op = g.Operators(oi)
        if m.OperatorCodes(op.OpcodeIndex()).CustomCode() is not None:
            t = g.Tensors(op.Inputs(0))
            b = m.Buffers(t.Buffer())
            print(f"  operator {oi}: {t.Name().decode()} at file offset {b._tab.Vector(b._tab.Offset(4))}")
    table = re.search(r'<table name="cmdstream"><!\[CDATA\[(.*?)\]\]>', xml, re.S).group(1).strip().splitlines()[1:]
    recorded = {int(line.split(",")[0]): int(line.split(",")[1]) for line in table}
    bad = 0
    for sid, (name, offset, nwords) in sorted(actual.items()):
        flag = "" if recorded.get(sid) == offset else "   <-- MISMATCH"
        bad += recorded.get(sid) != offset
        print(f"stream {sid} ({name}, {nwords} words): payload at file offset {offset}, debug database says {recorded.get(sid)}{flag}")
    return 1 if bad else 0


if __name__ == "__main__":
    sys.exit(main())

import contextlib
import io
import math
import os
import sys
import tempfile

sys.path.insert(0, os.getcwd())

import numpy as np  # noqa: E402

from ethosu import mlw_codec  # noqa: E402
from ethosu.vela import high_level_command_to_npu_op as hl2npu  # noqa: E402
from ethosu.vela import tflite_writer  # noqa: E402
from ethosu.vela import vela  # noqa: E402
from ethosu.vela.api import NpuBlockTraversal  # noqa: E402
from ethosu.vela.data_type import DataType  # noqa: E402
from ethosu.vela.high_level_command_stream import DMA  # noqa: E402
from ethosu.vela.high_level_command_stream import NpuStripe  # noqa: E402
from ethosu.vela.nn_graph import Graph  # noqa: E402
from ethosu.vela.nn_graph import Pass  # noqa: E402
from ethosu.vela.nn_graph import PassPlacement  # noqa: E402
from ethosu.vela.nn_graph import Subgraph  # noqa: E402
from ethosu.vela.operation import NpuBlockType  # noqa: E402
from ethosu.vela.operation import Op  # noqa: E402
from ethosu.vela.operation import Operation  # noqa: E402
from ethosu.vela.operation import Padding  # noqa: E402
from ethosu.vela.tensor import create_const_tensor  # noqa: E402
from ethosu.vela.tensor import MemType  # noqa: E402
from ethosu.vela.tensor import QuantizationParameters  # noqa: E402
from ethosu.vela.tensor import Tensor  # noqa: E402

# (IFM micro-block depth, OFM micro-block depth) of the accelerators, from the Ethos-U hardware description
UBLOCK = {"ethos-u55-32": (8, 4), "ethos-u55-64": (8, 8), "ethos-u55-128": (8, 8), "ethos-u55-256": (8, 8),
          "ethos-u65-256": (8, 8), "ethos-u65-512": (8, 8)}
NCORES = {"ethos-u65-512": 2}


# ---------------------------------------------------------------------------------------------------------------------
# Independent reference model of what the hardware expects
# ---------------------------------------------------------------------------------------------------------------------
def ref_quantise_scale(scale):
    """TensorFlow Lite QuantizeMultiplier: scale -> (31 bit multiplier, right shift)"""
    q, e = math.frexp(float(scale))
    q_fixed = int(math.floor(q * (1 << 31) + 0.5))
    if q_fixed == (1 << 31):
        q_fixed //= 2
        e += 1
    shift = 31 - e
    if not (0 <= shift < 64):
        return 0, 16
    return q_fixed, shift


def ref_reorder(ohwi, ifm_ublock, ofm_ublock, ofm_block_depth, is_depthwise, is_partkernel, ifm_bitdepth, decomp_h, decomp_w):
    """The order in which the weight decoder of the NPU delivers the weights of one (core, slice) stream"""
    ofm_depth, kh, kw, ifm_depth = ohwi.shape
    out = []
    ifm_block_depth = 16 if (is_partkernel or ifm_bitdepth == 16) else 32
    for ofm_block_z in range(0, ofm_depth, ofm_block_depth):
        clipped_ofm = min(ofm_block_depth, ofm_depth - ofm_block_z)
        for ifm_block_z in range(0, 1 if is_depthwise else ifm_depth, ifm_block_depth):
            if is_depthwise:
                clipped_ifm = ifm_ublock
            else:
                clipped_ifm = min(ifm_block_depth, ifm_depth - ifm_block_z) if is_partkernel else ifm_block_depth
            for sky in range(0, kh, decomp_h):
                sub_h = min(kh - sky, decomp_h)
                for skx in range(0, kw, decomp_w):
                    sub_w = min(kw - skx, decomp_w)
                    n_el = sub_w * sub_h
                    if is_partkernel:
                        q = 2 if ifm_bitdepth == 16 else 4
                        n_el = -(-n_el // q) * q
                    elif is_depthwise:
                        n_el = -(-n_el // 4) * 4
                    outer = clipped_ifm if is_partkernel else 1
                    inner = 1 if is_partkernel else clipped_ifm
                    for iu_o in range(0, outer, ifm_ublock):
                        for ou in range(0, clipped_ofm, ofm_ublock):
                            for el in range(n_el):
                                kx = el % sub_w
                                ky = el // sub_w
                                for iu_i in range(0, inner, ifm_ublock):
                                    for oz in range(ofm_ublock):
                                        for iz in range(1 if is_depthwise else ifm_ublock):
                                            ifm_z = ifm_block_z + iu_i + iu_o + iz
                                            ofm_z = ofm_block_z + ou + oz
                                            if ifm_z < ifm_depth and ofm_z < ofm_depth and ky < sub_h:
                                                out.append(int(ohwi[ofm_z, sky + ky, skx + kx, ifm_z]))
                                            else:
                                                out.append(0)
    return out


# ---------------------------------------------------------------------------------------------------------------------
# A tiny TensorFlow Lite model builder on top of Vela's own graph classes and flatbuffer writer
# ---------------------------------------------------------------------------------------------------------------------
def qp(scale, zp=0):
    q = QuantizationParameters()
    q.scale_f32 = np.atleast_1d(np.asarray(scale, dtype=np.float32))
    q.zero_point = np.atleast_1d(np.asarray(zp, dtype=np.int64))
    return q


class Builder:
    def __init__(self):
        self.ops = []
        self.n = 0
        self.specs = {}  # name of the OFM (= name of the operator after reading) -> what the operator computes

    def input(self, shape, scale=0.5, zp=0):
        t = Tensor(shape, DataType.int8, "input")
        t.quantization = qp(scale, zp)
        Operation(Op.Placeholder, "input").set_output_tensor(t)
        self.inp = t
        return t

    def fm(self, shape, scale, zp=0):
        self.n += 1
        t = Tensor(shape, DataType.int8, f"fm{self.n}")
        t.quantization = qp(scale, zp)
        return t

    def conv(self, ifm, w, bias, w_scale, ofm_scale, kind="conv", w_tensor=None):
        """w: OHWI for kind 'conv', 1HWC for kind 'dw' (TensorFlow Lite layouts). bias None -> operator without bias"""
        self.n += 1
        name = f"{kind}{self.n}"
        w = np.asarray(w)
        oc = w.shape[3] if kind == "dw" else w.shape[0]
        if w_tensor is None:
            w_tensor = create_const_tensor(name + "_w", list(w.shape), DataType.int8, w, quantization=qp(w_scale, 0))
            w_tensor.quantization.quant_dim = 3 if kind == "dw" else 0
        ofm = self.fm([ifm.shape[0], ifm.shape[1], ifm.shape[2], oc], ofm_scale)
        op = Operation(Op.DepthwiseConv2DBias if kind == "dw" else Op.Conv2DBias, name)
        op.attrs = {"padding": Padding.SAME, "stride_w": 1, "stride_h": 1, "dilation_w_factor": 1, "dilation_h_factor": 1,
                    "fused_activation_function": None, "strides": (1, 1, 1, 1), "dilation": (1, 1, 1, 1)}
        if kind == "dw":
            op.attrs["depth_multiplier"] = 1
        op.add_input_tensor(ifm)
        op.add_input_tensor(w_tensor)
        if bias is not None:
            ws = np.atleast_1d(np.asarray(w_scale, dtype=np.float32))
            b_tensor = create_const_tensor(name + "_b", [oc], DataType.int32, np.asarray(bias),
                                           quantization=qp(ws * np.float32(ifm.quantization.scale_f32[0]), 0))
            op.add_input_tensor(b_tensor)
        op.set_output_tensor(ofm)
        self.ops.append(op)
        self.specs[ofm.name] = dict(
            kind=kind, w=w.astype(np.int64), bias=np.zeros(oc, np.int64) if bias is None else np.asarray(bias).astype(np.int64),
            w_scale=np.atleast_1d(np.asarray(w_scale, dtype=np.float32)), ifm_scale=np.float32(ifm.quantization.scale_f32[0]),
            ofm_scale=np.float32(ofm_scale))
        return ofm, op

    def resize_bilinear(self, ifm, out_hw, half_pixel_centers=True):
        self.n += 1
        size = create_const_tensor(f"size{self.n}", [2], DataType.int32, np.asarray(out_hw))
        ofm = self.fm([ifm.shape[0], out_hw[0], out_hw[1], ifm.shape[3]], ifm.quantization.scale_f32[0], ifm.quantization.zero_point[0])
        op = Operation(Op.ResizeBilinear, f"resize{self.n}")
        op.attrs = {"align_corners": False, "half_pixel_centers": half_pixel_centers}
        op.add_input_tensor(ifm)
        op.add_input_tensor(size)
        op.set_output_tensor(ofm)
        self.ops.append(op)
        return ofm, op

    def build(self, outputs):
        sg = Subgraph("main", PassPlacement.Cpu)
        sg.input_tensors = [self.inp]
        sg.original_inputs = [self.inp]
        sg.output_tensors = list(outputs)
        ps = Pass("p", PassPlacement.Cpu, False, NpuBlockType.Default)
        ps.ops = list(self.ops)
        sg.passes = [ps]
        nng = Graph("net")
        nng.subgraphs.append(sg)
        nng.metadata = []
        return tflite_writer.write_tflite_buffer(nng)


_captured = {}
_orig_process = vela.process


def _process(*a, **k):
    nng = _orig_process(*a, **k)
    _captured["nng"] = nng
    _captured["arch"] = a[2]
    return nng


vela.process = _process


def compile_buf(buf, accel, extra=()):
    """Runs the Vela command line driver on the model and returns the compiled graph"""
    d = tempfile.mkdtemp(prefix="c08_demo_")
    path = os.path.join(d, "m.tflite")
    with open(path, "wb") as f:
        f.write(bytes(buf))
    # keep the compiler's report off the terminal (part of it is written to the original stdout object)
    sys.stdout.flush()
    saved_fd = os.dup(1)
    devnull = os.open(os.devnull, os.O_WRONLY)
    os.dup2(devnull, 1)
    out = io.StringIO()
    try:
        with contextlib.redirect_stdout(out):
            rc = vela.main([path, "--accelerator-config", accel, "--output-dir", os.path.join(d, "out")] + list(extra))
    finally:
        sys.stdout.flush()
        os.dup2(saved_fd, 1)
        os.close(saved_fd)
        os.close(devnull)
    if rc != 0:
        raise RuntimeError("vela failed:\n" + out.getvalue())
    return _captured["nng"], _captured["arch"]


def npu_weight_reads(nng, arch):
    """Replays the high level command stream of every NPU subgraph: performs the weight DMAs on a model of the memories
    and yields, for every stripe that uses weights, the bytes that the weight / scale address ranges given to the
    register command stream generator point at"""
    for sg in nng.subgraphs:
        if sg.placement != PassPlacement.Npu:
            continue
        flash = bytes(np.asarray(sg.flash_tensor.values, dtype=np.uint8).tobytes())
        flash_region = hl2npu.get_region(MemType.Permanent_NPU, arch)
        mem = {}

        def read(region, addr, length):
            if region == flash_region:
                return flash[addr : addr + length]
            return bytes(mem.setdefault(region, bytearray(1 << 22))[addr : addr + length])

        for cmd in sg.high_level_command_stream:
            if isinstance(cmd, DMA):
                if cmd.in_tensor.purpose.name == "Weights":
                    dma = hl2npu.create_dma_op(cmd, arch)
                    data = read(dma.src.region, dma.src.address, dma.src.length)
                    img = mem.setdefault(dma.dest.region, bytearray(1 << 22))
                    img[dma.dest.address : dma.dest.address + len(data)] = data
                continue
            if not isinstance(cmd, NpuStripe) or cmd.weight_tensor is None:
                continue
            weights, biases = hl2npu.create_weights(cmd.weight_tensor, cmd.weight_box, cmd.scale_tensor, arch)
            src = cmd.weight_tensor.src_tensor if cmd.weight_tensor.src_tensor else cmd.weight_tensor
            yield dict(
                op=cmd.ps.primary_op,
                d0=cmd.weight_box.start_coord[-1],
                d1=cmd.weight_box.end_coord[-1],
                block_depth=cmd.ps.block_config[3],
                part_kernel=getattr(src, "hw_traversal", None) == NpuBlockTraversal.PART_KERNEL_FIRST,
                weights=[(r.address, r.length, read(r.region, r.address, r.length)) for r in weights],
                scales=[(r.address, r.length, read(r.region, r.address, r.length)) for r in biases],
            )


def decode_scale_records(data, n):
    recs = []
    for j in range(n):
        rec = data[10 * j : 10 * j + 10]
        if len(rec) < 10:
            recs.append(None)
        else:
            recs.append((int.from_bytes(rec[0:5], "little", signed=True), int.from_bytes(rec[5:9], "little"), rec[9] & 0x3F))
    return recs


def check_stripe(rd, spec, accel, bump=0):
    """Checks one stripe against the operator it belongs to. Returns a list of problems"""
    problems = []
    ncores = NCORES.get(accel, 1)
    iu, ou = UBLOCK[accel]
    op = rd["op"]
    d0, d1 = rd["d0"], rd["d1"]
    where = f"{op.name} channels [{d0},{d1})"
    kind = spec["kind"]
    w = spec["w"]
    ohwi = np.transpose(w, (3, 1, 2, 0)) if kind == "dw" else w
    qs = [ref_quantise_scale(np.double(spec["ifm_scale"]) * np.double(s) / np.double(spec["ofm_scale"])) for s in spec["w_scale"]]
    if len(qs) == 1:
        qs = qs * ohwi.shape[0]
    active = 0
    for core in range(ncores):
        chans = list(range(d0 + core, d1, ncores))
        if not chans:
            continue
        if active >= len(rd["weights"]) or active >= len(rd["scales"]):
            problems.append(f"{where} core {core}: no weight / scale address range")
            continue
        w_addr, w_len, w_bytes = rd["weights"][active]
        s_addr, s_len, s_bytes = rd["scales"][active]
        active += 1
        if w_addr % 16 or s_addr % 16:
            problems.append(f"{where} core {core}: address range not 16-byte aligned (weights @{w_addr}, scales @{s_addr})")
        if s_len < 10 * len(chans):
            problems.append(f"{where} core {core}: scale range is {s_len} bytes, but {len(chans)} channels need {10 * len(chans)}")
        recs = decode_scale_records(s_bytes, len(chans))
        for ch, rec in zip(chans, recs):
            exp = (int(spec["bias"][ch]), qs[ch][0] + bump, qs[ch][1])
            if rec != exp:
                problems.append(f"{where} core {core}: scale record of channel {ch} is {rec}, expected (bias, multiplier, shift) = {exp}")
                break
        cbd = (rd["block_depth"] + ncores - 1 - core) // ncores
        dec = [int(x) for x in mlw_codec.decode(bytearray(w_bytes))]
        exp = ref_reorder(ohwi[chans], iu, ou, cbd, kind == "dw", rd["part_kernel"] and kind == "conv", 8, 8, 8)
        if dec[: len(exp)] != exp or any(dec[len(exp) :]):
            problems.append(f"{where} core {core}: the weight stream does not decode to the operator's weights")
    return problems


# Observation on the UNMODIFIED tree: an int8 CONV_2D and an int16 (16x8) CONV_2D that share one int8 weight tensor.
# The weight stream depends on the IFM bit depth (IFM block depth 32 vs 16 for depth-first traversal, kernel element padding
# 4 vs 2 for part-kernel-first), but the bit depth is not part of the WeightCompressionConfig key, so the operator that is
# encoded second is handed the other one's stream from the CompressedWeightCache.
def run(shared, ic, accel):
    rng = np.random.default_rng(5)
    oc = 16
    b = Builder()
    x8 = b.input([1, 8, 8, ic])
    w = rng.integers(-127, 128, size=(oc, 1, 1, ic))
    s = rng.uniform(0.005, 0.05, size=oc)
    y8, op8 = b.conv(x8, w, rng.integers(-5000, 5000, size=oc), s, 0.25)
    # the int16 branch, built by hand
    x16 = Tensor([1, 8, 8, ic], DataType.int16, "input16")
    x16.quantization = qp(0.01, 0)
    Operation(Op.Placeholder, "input16").set_output_tensor(x16)
    if shared:
        w16, wt16 = w, op8.inputs[1]
    else:
        w16 = rng.integers(-127, 128, size=(oc, 1, 1, ic))
        wt16 = create_const_tensor("other_w", list(w16.shape), DataType.int8, w16, quantization=qp(s, 0))
        wt16.quantization.quant_dim = 0
    bias16 = rng.integers(-5000, 5000, size=oc)
    bt16 = create_const_tensor("bias16", [oc], DataType.int32, bias16, quantization=qp(np.float32(s) * np.float32(0.01), 0))
    y16 = Tensor([1, 8, 8, oc], DataType.int16, "fm16")
    y16.quantization = qp(0.02, 0)
    op16 = Operation(Op.Conv2DBias, "conv16")
    op16.attrs = dict(op8.attrs)
    for t in (x16, wt16, bt16):
        op16.add_input_tensor(t)
    op16.set_output_tensor(y16)
    b.ops.append(op16)
    spec16 = dict(kind="conv", w=w16.astype(np.int64), bias=bias16.astype(np.int64), w_scale=np.float32(s),
                  ifm_scale=np.float32(0.01), ofm_scale=np.float32(0.02))
    # two subgraph inputs
    sg = Subgraph("main", PassPlacement.Cpu)
    sg.input_tensors = [x8, x16]
    sg.original_inputs = [x8, x16]
    sg.output_tensors = [y8, y16]
    ps = Pass("p", PassPlacement.Cpu, False, NpuBlockType.Default)
    ps.ops = list(b.ops)
    sg.passes = [ps]
    nng = Graph("net")
    nng.subgraphs.append(sg)
    nng.metadata = []
    buf = tflite_writer.write_tflite_buffer(nng)
    nng, arch = compile_buf(buf, accel)
    problems = []
    iu, ou = UBLOCK[accel]
    ncores = NCORES.get(accel, 1)
    for rd in npu_weight_reads(nng, arch):
        name = rd["op"].name
        if name == "fm16":
            # weights only (an int16 IFM with an int32 bias uses the full precision scaling, not checked here)
            active = 0
            for core in range(ncores):
                chans = list(range(rd["d0"] + core, rd["d1"], ncores))
                if not chans:
                    continue
                _, _, w_bytes = rd["weights"][active]
                active += 1
                cbd = (rd["block_depth"] + ncores - 1 - core) // ncores
                dec = [int(v) for v in mlw_codec.decode(bytearray(w_bytes))]
                exp = ref_reorder(spec16["w"][chans], iu, ou, cbd, False, rd["part_kernel"], 16, 8, 8)
                if dec[: len(exp)] != exp or any(dec[len(exp) :]):
                    problems.append(f"{name} (int16 IFM) core {core}: the weight stream does not decode to the operator's weights")
        else:
            problems += check_stripe(rd, b.specs[name], accel)
    return problems


def main():
    bad = 0
    for accel in ("ethos-u55-128", "ethos-u65-512"):
        for ic in (40, 8):
            for shared in (False, True):
                problems = run(shared, ic, accel)
                print(f"{accel} {ic} input channels, {'shared weight tensor' if shared else 'separate weight tensors'}: "
                      + ("ok" if not problems else "VIOLATION"))
                for p in problems[:4]:
                    print("    " + p)
                bad += bool(problems)
    print("VIOLATION OBSERVED" if bad else "no violation")
    return 1 if bad else 0


if __name__ == "__main__":
    sys.exit(main())

"""C07 observation 1 (UNMODIFIED tree): two convolutions that share one constant weight tensor but have different
IFM precision (int8 and int16) get the SAME compressed weight stream.

The compression cache key (weight_compressor.WeightCompressionConfig: block type, block depth, depth slices,
dilation, value_id of the weights) does not contain the IFM bit depth, although encode_weights() lays the weights
out differently for 8-bit and 16-bit IFMs (IFM block depth 32 vs 16, element padding 4 vs 2) and the block
traversal is chosen from the IFM bit depth as well.  tflite_reader gives every use of a shared constant a clone
with the same value_id, so the second operator hits the cache entry of the first one: its command stream
programs its own IFM precision, but its weight stream (and hw_traversal) are those of the other precision.

Run: cd <worktree> && /venv/bin/python out/observation1.py   (exit code 1 = violation observed)
"""
import os
import sys
import tempfile

ROOT = os.getcwd()
sys.path.insert(0, ROOT)

import numpy as np  # noqa: E402

from ethosu.vela import tflite_writer  # noqa: E402
from ethosu.vela import vela  # noqa: E402
from ethosu.vela import weight_compressor  # noqa: E402
from ethosu.vela.api import NpuBlockTraversal  # noqa: E402
from ethosu.vela.data_type import DataType  # noqa: E402
from ethosu.vela.nn_graph import Graph  # noqa: E402
from ethosu.vela.nn_graph import Pass  # noqa: E402
from ethosu.vela.nn_graph import PassPlacement  # noqa: E402
from ethosu.vela.nn_graph import Subgraph  # noqa: E402
from ethosu.vela.operation import Op  # noqa: E402
from ethosu.vela.operation import Operation  # noqa: E402
from ethosu.vela.operation import Padding  # noqa: E402
from ethosu.vela.tensor import create_const_tensor  # noqa: E402
from ethosu.vela.tensor import QuantizationParameters  # noqa: E402
from ethosu.vela.tensor import Tensor  # noqa: E402

ACCELERATOR = "ethos-u55-128"
IFM_UBLOCK, OFM_UBLOCK = 8, 8  # micro-block depths of Ethos-U55-128


def rup(a, b):
    return (a + b - 1) // b * b


def ref_reorder(vol, ifm_ub, ofm_ub, ofm_block_depth, is_depthwise, is_partkernel, ifm_bitdepth, decomp_h, decomp_w):
    """Hardware weight order for an OHWI volume (zero padded)."""
    ofm_depth, kh, kw, ifm_depth = vol.shape
    out = []
    ifm_block_depth = 16 if (is_partkernel or ifm_bitdepth == 16) else 32
    for ofm_block_z in range(0, ofm_depth, ofm_block_depth):
        clipped_ofm = min(ofm_block_depth, ofm_depth - ofm_block_z)
        for ifm_block_z in range(0, 1 if is_depthwise else ifm_depth, ifm_block_depth):
            if is_depthwise:
                clipped_ifm = ifm_ub
            elif is_partkernel:
                clipped_ifm = min(ifm_block_depth, ifm_depth - ifm_block_z)
            else:
                clipped_ifm = ifm_block_depth
            for sky in range(0, kh, decomp_h):
                sub_h = min(kh - sky, decomp_h)
                for skx in range(0, kw, decomp_w):
                    sub_w = min(kw - skx, decomp_w)
                    elems = sub_w * sub_h
                    if is_partkernel:
                        elems = rup(elems, 2 if ifm_bitdepth == 16 else 4)
                    elif is_depthwise:
                        elems = rup(elems, 4)
                    outer = clipped_ifm if is_partkernel else 1
                    inner = 1 if is_partkernel else clipped_ifm
                    for ifm_ublk_outer in range(0, outer, ifm_ub):
                        for ofm_ublk in range(0, clipped_ofm, ofm_ub):
                            for element in range(elems):
                                kx = element % sub_w
                                ky = element // sub_w
                                for ifm_ublk_inner in range(0, inner, ifm_ub):
                                    for oz in range(ofm_ub):
                                        for iz in range(1 if is_depthwise else ifm_ub):
                                            ifm_z = ifm_block_z + ifm_ublk_inner + ifm_ublk_outer + iz
                                            ofm_z = ofm_block_z + ofm_ublk + oz
                                            if ifm_z < ifm_depth and ofm_z < ofm_depth and ky < sub_h:
                                                out.append(int(vol[ofm_z, sky + ky, skx + kx, ifm_z]))
                                            else:
                                                out.append(0)
    return out


class StreamError(Exception):
    pass


class Bits:
    def __init__(self, data):
        self.d = bytes(data)
        self.pos = 0

    def get(self, n):
        v = 0
        for i in range(n):
            byte = self.pos >> 3
            if byte >= len(self.d):
                raise StreamError("bitstream underrun at bit %d" % self.pos)
            v |= ((self.d[byte] >> (self.pos & 7)) & 1) << i
            self.pos += 1
        return v


def strict_decode(data):
    """Independent decoder of the MLW weight stream format (all format constraints checked)."""
    if len(data) % 16:
        raise StreamError("stream length %d is not a multiple of 16" % len(data))
    bb = Bits(data)
    n = len(data)
    out = []
    first = True
    palsize = palbits = direct_offset = 0
    palette = [0] * 32
    prev_zdiv = 0
    while True:
        zdiv = bb.get(3)
        done = False
        while zdiv == 7:
            bb.get((8 - (bb.pos & 7)) & 7)
            first = True
            if bb.pos // 8 == n:
                done = True
                break
            zdiv = bb.get(3)
        if done or bb.pos // 8 == n:
            break
        if not (zdiv < 4 or zdiv == 6):
            raise StreamError("invalid ZDIV %d" % zdiv)
        use_zero_run = zdiv != 6
        nvalues = bb.get(15) + 1
        wdiv = bb.get(3)
        wtrunc = bb.get(1)
        newpal = bb.get(1)
        if first:
            if not newpal:
                raise StreamError("first slice without palette")
            first = False
        if not newpal and use_zero_run != (prev_zdiv != 6):
            raise StreamError("alternating mode changed without new palette")
        prev_zdiv = zdiv
        if newpal:
            direct_offset = bb.get(5)
            palsize = bb.get(5)
            if palsize > 0:
                palsize += 1
            palbits = bb.get(3) + 2
            for i in range(palsize):
                palette[i] = bb.get(palbits)
        if wdiv == 7:
            w_unc = True
            if palsize > 0:
                ub = 0
                while (1 << ub) < palsize:
                    ub += 1
            else:
                ub = palbits
            wdiv = ub
        else:
            w_unc = False
            if wdiv >= 6:
                raise StreamError("invalid WDIV %d" % wdiv)
        z_nvalues = nvalues + (1 if newpal else 0)
        w_value = [0] * nvalues
        z_value = [0] * z_nvalues
        w_pos = z_pos = 0
        w_prev_pos = z_prev_pos = 0
        w_carry = z_carry = 0
        w_q = []
        z_q = []
        w_prev_enable = z_prev_enable = False
        w_prev_q = []
        z_prev_q = []
        z_unary_len = 12 if zdiv < 3 else 8
        while True:
            balance = (w_pos - z_pos) if use_zero_run else 0
            w_enable = (balance < 8 or not use_zero_run) and w_pos < nvalues
            z_enable = balance >= 0 and use_zero_run and z_pos < z_nvalues
            w_unary0 = 0
            if w_enable:
                w_unary0 = 0 if w_unc else bb.get(12)
            if z_enable:
                z_unary = bb.get(z_unary_len)
                z_q = []
                cnt = z_carry
                for i in range(z_unary_len):
                    if z_unary & (1 << i):
                        cnt += 1
                    else:
                        z_q.append(cnt)
                        cnt = 0
                z_carry = cnt
                z_pos += len(z_q)
            if w_enable:
                max_symbols = 8 if (w_unc and wdiv > 5) else 12
                l1 = bin(w_unary0 & ((1 << max_symbols) - 1)).count("1")
                w_unary1 = bb.get(l1)
                w_q = []
                cnt = w_carry
                for i in range(max_symbols):
                    code = 0
                    if w_unary0 & (1 << i):
                        code += 1
                        if w_unary1 & 1:
                            code += 1
                        w_unary1 >>= 1
                    cnt += code
                    if code < 2 or wtrunc:
                        w_q.append(cnt)
                        cnt = 0
                w_carry = cnt
                w_pos += len(w_q)
            if w_prev_enable:
                for q in w_prev_q:
                    if w_prev_pos >= nvalues:
                        break
                    w_value[w_prev_pos] = (q << wdiv) + bb.get(wdiv)
                    w_prev_pos += 1
            if z_prev_enable:
                for q in z_prev_q:
                    if z_prev_pos >= z_nvalues:
                        break
                    z_value[z_prev_pos] = (q << zdiv) + bb.get(zdiv)
                    z_prev_pos += 1
            w_prev_enable, w_prev_q = w_enable, list(w_q)
            z_prev_enable, z_prev_q = z_enable, list(z_q)
            if not (w_prev_enable or z_prev_enable):
                break
        if newpal and use_zero_run:
            out.extend([0] * z_value[0])
        for i in range(nvalues):
            wv = w_value[i]
            if wv >= 512:
                raise StreamError("weight index %d >= 512" % wv)
            if wv < palsize:
                val = palette[wv]
            else:
                val = wv - palsize + direct_offset
                if val >= 512:
                    raise StreamError("direct value %d >= 512" % val)
            mag = val >> 1
            out.append(-mag if val & 1 else mag)
            if use_zero_run:
                out.extend([0] * z_value[i + (1 if newpal else 0)])
    return out




def q(scale, zp=0):
    return QuantizationParameters(scale_f32=np.float32(scale), zero_point=np.int64(zp))


def expected_streams(op, w, npu_tensor, block_depth, depth_offsets, ncores):
    """(core, depth offset) -> weights of this operator in hardware order, computed from the graph tensor."""
    vals = w.values.astype(np.int64) - np.asarray(w.quantization.zero_point).astype(np.int64)
    if vals.ndim == 2:
        vals = vals.reshape((1, 1) + vals.shape)
    if op.type == Op.Conv2DBackpropInputSwitchedBias:
        vals = vals[::-1, ::-1, :, :]  # a transposed convolution runs as a convolution with the kernel rotated by 180 degrees
    ohwi = np.transpose(vals, (3, 0, 1, 2))
    is_pk = npu_tensor.hw_traversal == NpuBlockTraversal.PART_KERNEL_FIRST  # what the command stream programs
    bits = op.inputs[0].dtype.size_in_bits()  # IFM precision the command stream programs
    dx, dy = op.kernel.dilation
    res = {}
    for i, off in enumerate(depth_offsets[:-1]):
        brick = ohwi[off : depth_offsets[i + 1]]
        for core in range(ncores):
            cbd = (block_depth + ncores - 1 - core) // ncores
            sub = brick[core::ncores]
            if cbd and sub.shape[0]:
                res[(core, off)] = ref_reorder(sub, IFM_UBLOCK, OFM_UBLOCK, cbd, False, is_pk, bits, 8 // dy, 8 // dx)
    return res


def compile_and_check(model_bytes):
    """Compiles the model with the real driver and checks every weight tensor the scheduler obtained."""
    records = []
    orig = weight_compressor.encode_weight_and_scale_tensor

    def hook(arch, op, weight_tens, scale_tens, kernel, block_config, depth_offsets):
        wt, st = orig(arch, op, weight_tens, scale_tens, kernel, block_config, depth_offsets)
        records.append((arch, op, weight_tens, wt, block_config.ofm_block.depth, [int(d) for d in depth_offsets]))
        return wt, st

    weight_compressor.encode_weight_and_scale_tensor = hook
    tmp = tempfile.mkdtemp(prefix="c07_obs_")
    path = os.path.join(tmp, "model.tflite")
    with open(path, "wb") as f:
        f.write(model_bytes)
    devnull = open(os.devnull, "w")
    old = sys.stdout
    sys.stdout = devnull
    try:
        vela.main([path, "--accelerator-config", ACCELERATOR, "--output-dir", os.path.join(tmp, "out")])
    finally:
        sys.stdout = old
        weight_compressor.encode_weight_and_scale_tensor = orig
    violations = []
    final = {}
    for arch, op, w, wt, bd, offs in records:
        final[op.name] = (arch, op, w, wt, bd, offs)  # the last call per operator is the one the schedule keeps
    for name, (arch, op, w, wt, bd, offs) in sorted(final.items()):
        exp = expected_streams(op, w, wt, bd, offs, arch.ncores)
        buf = bytes(wt.buffer)
        for key, rng in wt.encoded_ranges.items():
            k = (key.core, key.depth)
            if k not in exp:
                continue
            start = rng.offset + rng.weight_offset
            dec = strict_decode(buf[start : start + rng.weight_bytes])
            ok = dec == exp[k]
            print(
                "%-8s %-32s IFM %-5s traversal %-18s block depth %d: %s"
                % (name, op.type.name, op.inputs[0].dtype, wt.hw_traversal.name, bd,
                   "ok" if ok else "decoded stream (%d values) is NOT this operator's weights in hardware order (%d values)"
                   % (len(dec), len(exp[k])))
            )  # fmt: skip
            if not ok:
                violations.append(name)
    return violations


def build_model():
    rng = np.random.default_rng(0)
    wv = rng.integers(-127, 128, (16, 3, 3, 16)).astype(np.int8)  # OHWI as in the TFLite file
    nng = Graph("model")
    sg = Subgraph("main", PassPlacement.Cpu)
    w = create_const_tensor("W", list(wv.shape), DataType.int8, wv, quantization=q(0.02))
    for name, dt in (("conv8", DataType.int8), ("conv16", DataType.int16)):
        ifm = Tensor([1, 8, 8, 16], dt, name + "_in")
        ifm.quantization = q(0.05)
        ofm = Tensor([1, 8, 8, 16], dt, name)
        ofm.quantization = q(0.1)
        bias_dt = DataType.int64 if dt == DataType.int16 else DataType.int32
        b = create_const_tensor(name + "_b", [16], bias_dt, list(range(16)), quantization=q(0.001))
        op = Operation(Op.Conv2DBias, name)
        op.add_input_tensor(ifm)
        op.add_input_tensor(w)  # the same weight tensor for both operators
        op.add_input_tensor(b)
        op.set_output_tensor(ofm)
        op.attrs = {
            "padding": Padding.SAME, "stride_w": 1, "stride_h": 1, "dilation_w_factor": 1, "dilation_h_factor": 1,
            "strides": (1, 1, 1, 1), "fused_activation_function": None,
        }  # fmt: skip
        ps = Pass(name, PassPlacement.Cpu, False, None)
        ps.ops = [op]
        ps.primary_op = op
        sg.passes.append(ps)
        sg.input_tensors.append(ifm)
        sg.original_inputs.append(ifm)
        sg.output_tensors.append(ofm)
    nng.subgraphs.append(sg)
    return tflite_writer.write_tflite_buffer(nng)


if __name__ == "__main__":
    bad = compile_and_check(build_model())
    if bad:
        print("VIOLATION: wrong weight stream for operator(s) %s" % ", ".join(sorted(set(bad))))
        sys.exit(1)
    print("no violation observed")
    sys.exit(0)

"""Checks the property: every block configuration Vela offers / emits is valid for the hardware (micro-block multiple,
within the maximum, shared buffer partitions ordered, inside SHRAM and large enough for the double buffered blocks).
Run as: cd <worktree> && /venv/bin/python out/demoN.py   (exit 0 = PASS, exit 1 = FAIL)"""
import os
import sys

sys.path.insert(0, os.getcwd())

# ======================================================================================================================
# Independent oracle: Ethos-U shared buffer (SHRAM) rules written down from the hardware documentation, not taken from
# ethosu.vela.architecture_allocator / architecture_features.
# ======================================================================================================================
import math

# accelerator: OFM micro-block (w, h, d), SHRAM banks, bank granules per element kind
HW = {
    "Ethos_U55_32": dict(ub=(1, 1, 4), banks=16, g=dict(i8=2, i16=2, e8=2, e16=2, i32=4, a32=4, a40=4)),
    "Ethos_U55_64": dict(ub=(1, 1, 8), banks=16, g=dict(i8=2, i16=2, e8=2, e16=2, i32=4, a32=4, a40=8)),
    "Ethos_U55_128": dict(ub=(2, 1, 8), banks=24, g=dict(i8=4, i16=4, e8=4, e16=4, i32=8, a32=8, a40=12)),
    "Ethos_U55_256": dict(ub=(2, 2, 8), banks=48, g=dict(i8=8, i16=8, e8=8, e16=8, i32=16, a32=16, a40=20)),
    "Ethos_U65_256": dict(ub=(2, 2, 8), banks=48, g=dict(i8=8, i16=8, e8=8, e16=8, i32=16, a32=16, a40=20)),
    "Ethos_U65_512": dict(ub=(2, 2, 8), banks=48, g=dict(i8=8, i16=8, e8=8, e16=8, i32=16, a32=16, a40=20)),
}
MAX_BLK = (32, 64, 128)  # height, width, depth
BANK_BYTES = 1024
CMD0 = {0x116: "BLK_H_M1", 0x115: "BLK_W_M1", 0x117: "BLK_D_M1", 0x10D: "IB_END", 0x18D: "IB2_START", 0x12D: "AB_START",
        0x124: "ACC_FORMAT"}
NPU_OPS = (0x002, 0x003, 0x005, 0x006)  # CONV, DEPTHWISE, POOL, ELEMENTWISE


def rup(a, b):
    return ((a + b - 1) // b) * b


def cdiv(a, b):
    return (a + b - 1) // b


def emitted_ops(cmds):
    """Replays a register command stream; returns the SHRAM related register state seen by every NPU_OP_*"""
    res, state, i = [], {}, 0
    while i < len(cmds):
        w = int(cmds[i])
        code, has_payload = w & 0x3FF, (w >> 14) & 0x3
        if has_payload:
            i += 2
            continue
        if code in CMD0:
            state[CMD0[code]] = (w >> 16) & 0xFFFF
        elif code in NPU_OPS:
            res.append(dict(state))
        i += 1
    return res


class OpDesc:
    """What the hardware is asked to do: kind in conv/dw/pool/rsum/ew, shapes are (h, w, d), kernel (w,h,sx,sy,dx,dy)"""

    def __init__(self, kind, ifm, ofm, ifm2=None, scalar=False, kernel=(1, 1, 1, 1, 1, 1), bits=8, partkernel=False,
                 lut=False, upscale="NONE", scaled=True):
        self.kind, self.ifm, self.ofm, self.ifm2, self.scalar = kind, ifm, ofm, ifm2, scalar
        self.kernel, self.bits, self.partkernel, self.lut, self.upscale, self.scaled = (
            kernel, bits, partkernel, lut, upscale, scaled)

    def __repr__(self):
        return (f"{self.kind} ifm={self.ifm} ifm2={self.ifm2} scalar={self.scalar} ofm={self.ofm} kernel={self.kernel} "
                f"bits={self.bits} part_kernel={self.partkernel} lut={self.lut} upscale={self.upscale}")


def check_block(acc_name, d, regs):
    """Returns the list of rule violations of one emitted operation (empty list = valid)"""
    hw = HW[acc_name]
    ubw, ubh, ubd = hw["ub"]
    g = hw["g"]
    bh, bw, bd = regs["BLK_H_M1"] + 1, regs["BLK_W_M1"] + 1, regs["BLK_D_M1"] + 1
    ib_end, ib2, ab = regs.get("IB_END"), regs.get("IB2_START"), regs.get("AB_START")
    probs = []
    for v, u, m, n in ((bh, ubh, MAX_BLK[0], "height"), (bw, ubw, MAX_BLK[1], "width"), (bd, ubd, MAX_BLK[2], "depth")):
        if v <= 0 or v % u:
            probs.append(f"OFM block {n} {v} is not a positive multiple of the micro-block {n} {u}")
        if v > m:
            probs.append(f"OFM block {n} {v} exceeds the maximum {m}")
    total = hw["banks"]
    usable_end = total - 2 if (total > 16 or d.lut) else total  # last two banks: lookup table / reserved
    kw, kh, sx, sy, dx, dy = d.kernel
    akw, akh = (kw - 1) * dx + 1, (kh - 1) * dy + 1
    up = 1 if d.upscale == "NONE" else 2
    nearest = 1 if d.upscale == "NEAREST" else 0
    ifm_h = rup(int(math.ceil(((bh - 1) * sy + min(akh, 8) + nearest) / up)), ubh)
    ifm_w = rup(int(math.ceil(((bw - 1) * sx + min(akw, 8) + nearest) / up)), ubw)
    is_ew = d.kind == "ew"
    if is_ew or d.kind in ("pool", "dw"):
        ifm_d = bd
    elif d.bits == 16:
        ifm_d = rup(min(d.ifm[2], 16), 4)
    else:
        ifm_d = rup(min(d.ifm[2], 16 if d.partkernel else 32), 8)
    ifm_bytes = ifm_h * ifm_w * rup(ifm_d * d.bits // 8, 8)
    ifm_g = {8: g["e8"], 16: g["e16"], 32: g["i32"]}[d.bits] if is_ew else {8: g["i8"], 16: g["i16"], 32: g["i32"]}[d.bits]
    ifm_need = rup(cdiv(ifm_bytes, BANK_BYTES) * 2, ifm_g)
    acc40 = d.bits == 16 and d.scaled and d.kind != "pool"
    if regs.get("ACC_FORMAT") != (1 if acc40 else 0):
        probs.append(f"ACC_FORMAT {regs.get('ACC_FORMAT')} but the operation needs {'40' if acc40 else '32'}-bit")
    if not is_ew:
        acc_h = 1 if (d.ofm[0] == 1 and kh == 1 and ubh == 2) else bh  # 1-D convolution mode of the 2-row micro-block
        acc_bytes = acc_h * bw * rup(bd, 8) * (40 if acc40 else 32) // 8
        acc_need = rup(cdiv(acc_bytes, BANK_BYTES) * 2, g["a40"] if acc40 else g["a32"])
        if not (2 <= ib_end <= ab <= usable_end):
            probs.append(f"partitions out of order: need 2 <= IB_END {ib_end} <= AB_START {ab} <= {usable_end}")
        if ib_end - 2 < ifm_need:
            probs.append(f"IFM partition [2,{ib_end}) is smaller than the {ifm_need} banks a double buffered "
                         f"{ifm_h}x{ifm_w}x{ifm_d} IFM block needs")
        if usable_end - ab < acc_need:
            probs.append(f"accumulator partition [{ab},{usable_end}) is smaller than the {acc_need} banks a double "
                         f"buffered {acc_h}x{bw}x{bd} accumulator block needs")
    else:
        if not (2 <= ib_end <= usable_end) or ab > usable_end:
            probs.append(f"IB_END {ib_end} / AB_START {ab} outside [2,{usable_end}]")
        if d.ifm2 is not None and not d.scalar:
            if ib2 is None or not (2 <= ib2 <= ib_end):
                probs.append(f"IFM2_IB_START {ib2} is not inside [2, IB_END {ib_end}]")
            else:
                if ib2 - 2 < ifm_need:
                    probs.append(f"IFM partition [2,{ib2}) is smaller than the {ifm_need} banks needed")
                if ib_end - ib2 < ifm_need:
                    probs.append(f"IFM2 partition [{ib2},{ib_end}) is smaller than the {ifm_need} banks needed")
        elif ib_end - 2 < ifm_need:
            probs.append(f"IFM partition [2,{ib_end}) is smaller than the {ifm_need} banks needed")
    return (bh, bw, bd), probs

# ======================================================================================================================
# Helpers building public API (ethosu.vela.api) operations from an OpDesc
# ======================================================================================================================
from ethosu.vela.api import npu_find_block_configs  # noqa: E402
from ethosu.vela.api import npu_generate_register_command_stream  # noqa: E402
from ethosu.vela.api import NpuAccelerator  # noqa: E402
from ethosu.vela.api import NpuActivation  # noqa: E402
from ethosu.vela.api import NpuActivationOp  # noqa: E402
from ethosu.vela.api import NpuAddressRange  # noqa: E402
from ethosu.vela.api import NpuBlockTraversal  # noqa: E402
from ethosu.vela.api import NpuConv2DOperation  # noqa: E402
from ethosu.vela.api import NpuConvDepthWiseOperation  # noqa: E402
from ethosu.vela.api import NpuDataType  # noqa: E402
from ethosu.vela.api import NpuElementWiseOp  # noqa: E402
from ethosu.vela.api import NpuElementWiseOperation  # noqa: E402
from ethosu.vela.api import NpuFeatureMap  # noqa: E402
from ethosu.vela.api import NpuKernel  # noqa: E402
from ethosu.vela.api import NpuLayout  # noqa: E402
from ethosu.vela.api import NpuPadding  # noqa: E402
from ethosu.vela.api import NpuPoolingOp  # noqa: E402
from ethosu.vela.api import NpuPoolingOperation  # noqa: E402
from ethosu.vela.api import NpuQuantization  # noqa: E402
from ethosu.vela.api import NpuResamplingMode  # noqa: E402
from ethosu.vela.api import NpuShape3D  # noqa: E402
from ethosu.vela.api import NpuTileBox  # noqa: E402

_DT = {8: NpuDataType.INT8, 16: NpuDataType.INT16, 32: NpuDataType.INT32}


def _fm(shape, addr, bits, quant=True):
    fm = NpuFeatureMap()
    fm.data_type = _DT[bits]
    fm.shape = NpuShape3D(height=shape[0], width=shape[1], depth=shape[2])
    fm.tiles = NpuTileBox(width_0=shape[1], height_0=shape[0], height_1=shape[0], addresses=[addr, 0, 0, 0])
    fm.region = 1
    fm.layout = NpuLayout.NHWC
    fm.quantization = NpuQuantization(scale_f32=0.5, zero_point=0) if quant else None
    return fm


def make_npu_op(d, pool_op=NpuPoolingOp.MAX):
    kw, kh, sx, sy, dx, dy = d.kernel
    if d.kind == "conv":
        op = NpuConv2DOperation()
        op.block_traversal = NpuBlockTraversal.PART_KERNEL_FIRST if d.partkernel else NpuBlockTraversal.DEPTH_FIRST
    elif d.kind == "dw":
        op = NpuConvDepthWiseOperation()
    elif d.kind == "pool":
        op = NpuPoolingOperation(pool_op)
    elif d.kind == "rsum":
        op = NpuPoolingOperation(NpuPoolingOp.REDUCE_SUM)
    else:
        binary = d.ifm2 is not None or d.scalar
        op = NpuElementWiseOperation(NpuElementWiseOp.ADD if binary else NpuElementWiseOp.ABS)
    if d.kind in ("conv", "dw"):
        op.weights = [NpuAddressRange(region=0, address=0, length=1024)]
        op.biases = [NpuAddressRange(region=0, address=32000, length=160)]
    op.ifm = _fm(d.ifm, 0x1000, d.bits, d.scaled)
    op.ofm = _fm(d.ofm, 0x200000, 32 if d.kind == "rsum" else d.bits, d.scaled)
    if d.kind == "ew":
        if d.scalar:
            op.ifm2 = _fm((1, 1, 1), 0x100000, d.bits, d.scaled)
            op.ifm2_scalar = 3
        elif d.ifm2 is not None:
            op.ifm2 = _fm(d.ifm2, 0x100000, d.bits, d.scaled)
    else:
        op.kernel = NpuKernel(kw, kh, sx, sy, dx, dy)
        op.padding = NpuPadding(top=0, left=0, bottom=0, right=0)
    if d.lut:
        op.activation = NpuActivation(NpuActivationOp.TABLE_LOOKUP)
        op.activation.lookup_table_index = 0
    op.ifm_upscale = getattr(NpuResamplingMode, d.upscale)
    return op


def check_query_and_generator(acc_name, d, pool_op=NpuPoolingOp.MAX, limit=None):
    """Every block config the public query offers must be accepted by the command stream generator and must come out of
    it with a valid shared buffer layout.  Returns (number of configs checked, list of failure strings)"""
    acc = getattr(NpuAccelerator, acc_name)
    op = make_npu_op(d, pool_op)
    failures = []
    try:
        configs = npu_find_block_configs(op, acc)
    except BaseException as e:  # noqa: B902
        return 0, [f"{acc_name}: npu_find_block_configs raised {type(e).__name__}: {e} for {d}"]
    if limit is not None and len(configs) > limit:
        step = len(configs) / float(limit)
        configs = [configs[int(i * step)] for i in range(limit)] + [configs[-1]]
    for cfg in configs:
        op.block_config = cfg
        try:
            cmds = npu_generate_register_command_stream([op], acc)
        except BaseException as e:  # noqa: B902
            failures.append(f"{acc_name}: offered block {tuple(cfg)} rejected by the generator: {type(e).__name__}: {e}")
            continue
        ops = emitted_ops(cmds)
        if len(ops) != 1:
            failures.append(f"{acc_name}: expected one NPU operation in the stream, found {len(ops)}")
            continue
        blk, probs = check_block(acc_name, d, ops[0])
        if blk != (cfg.height, cfg.width, cfg.depth):
            probs.append(f"emitted OFM block {blk} differs from the requested {tuple(cfg)}")
        for p in probs:
            failures.append(f"{acc_name}: {d}: block (h,w,d)={tuple(cfg)} registers {ops[0]}: {p}")
    return len(configs), failures

# ======================================================================================================================
# Observation 2 (unmodified tree, possible violation - depends on what the hardware really does):
# architecture_allocator.fit_block_for_ofm() halves the accumulator requirement ("256/512 Conv1D optimisation") for
# EVERY non-elementwise operation whose OFM is one row high and whose kernel is one row high on the 2-row micro-block
# accelerators (U55-256, U65-256, U65-512).  npu_performance._estimate_conv_cycles(), which models the same hardware
# mode, applies it only to ConvolutionMxN / ConvolutionDepthWise / VectorProduct and only when the OFM width is even
# ("Optimisation only applies for even width tensors").  If the performance model states the hardware condition, then
# for pooling / REDUCE_SUM operations and for odd OFM widths the query offers - and the scheduler selects - block
# configurations whose accumulator partition holds only half of the (2 rows high) OFM block that is programmed.
# ======================================================================================================================


def acc_banks_needed_for_programmed_block(acc_name, d, regs):
    g = HW[acc_name]["g"]
    bh, bw, bd = regs["BLK_H_M1"] + 1, regs["BLK_W_M1"] + 1, regs["BLK_D_M1"] + 1
    acc40 = d.bits == 16 and d.scaled and d.kind != "pool"
    acc_bytes = bh * bw * rup(bd, 8) * (40 if acc40 else 32) // 8
    return rup(cdiv(acc_bytes, BANK_BYTES) * 2, g["a40"] if acc40 else g["a32"])


def main():
    cases = [
        ("max pool (not a convolution), even width", OpDesc("pool", ifm=(1, 65, 128), ofm=(1, 64, 128), kernel=(2, 1, 1, 1, 1, 1))),
        ("REDUCE_SUM", OpDesc("rsum", ifm=(1, 64, 32), ofm=(1, 64, 1), bits=8)),
        ("1x1 convolution, odd OFM width", OpDesc("conv", ifm=(1, 33, 32), ofm=(1, 33, 128), kernel=(1, 1, 1, 1, 1, 1))),
        ("1x1 convolution, even OFM width (uncontroversial)", OpDesc("conv", ifm=(1, 32, 32), ofm=(1, 32, 128), kernel=(1, 1, 1, 1, 1, 1))),
    ]
    for acc_name in ("Ethos_U55_256", "Ethos_U65_512"):
        acc = getattr(NpuAccelerator, acc_name)
        for title, d in cases:
            op = make_npu_op(d)
            cfgs = npu_find_block_configs(op, acc)
            half = []
            for cfg in cfgs:
                op.block_config = cfg
                regs = emitted_ops(npu_generate_register_command_stream([op], acc))[0]
                need = acc_banks_needed_for_programmed_block(acc_name, d, regs)
                have = 46 - regs["AB_START"]
                if have < need:
                    half.append((tuple(cfg), regs["AB_START"], have, need))
            print(f"{acc_name}: {title}: {len(half)} of {len(cfgs)} offered configs have an accumulator partition smaller "
                  f"than the programmed block needs; e.g. (block, AB_START, banks, banks needed) {half[-1] if half else None}")
    return 0


if __name__ == "__main__":
    sys.exit(main())

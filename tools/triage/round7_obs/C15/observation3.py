"""Checks the property: every block configuration Vela offers / emits is valid for the hardware (micro-block multiple,
within the maximum, shared buffer partitions ordered, inside SHRAM and large enough for the double buffered blocks).
Run as: cd <worktree> && /venv/bin/python out/demoN.py   (exit 0 = PASS, exit 1 = FAIL)"""
import os
import sys

sys.path.insert(0, os.getcwd())

# ======================================================================================================================
# Independent oracle: Ethos-U shared buffer (SHRAM) rules written down from the hardware documentation, not taken from
# ethosu.vela.architecture_allocator / architecture_features.
# ======================================================================================================================
import math

# accelerator: OFM micro-block (w, h, d), SHRAM banks, bank granules per element kind
HW = {
    "Ethos_U55_32": dict(ub=(1, 1, 4), banks=16, g=dict(i8=2, i16=2, e8=2, e16=2, i32=4, a32=4, a40=4)),
    "Ethos_U55_64": dict(ub=(1, 1, 8), banks=16, g=dict(i8=2, i16=2, e8=2, e16=2, i32=4, a32=4, a40=8)),
    "Ethos_U55_128": dict(ub=(2, 1, 8), banks=24, g=dict(i8=4, i16=4, e8=4, e16=4, i32=8, a32=8, a40=12)),
    "Ethos_U55_256": dict(ub=(2, 2, 8), banks=48, g=dict(i8=8, i16=8, e8=8, e16=8, i32=16, a32=16, a40=20)),
    "Ethos_U65_256": dict(ub=(2, 2, 8), banks=48, g=dict(i8=8, i16=8, e8=8, e16=8, i32=16, a32=16, a40=20)),
    "Ethos_U65_512": dict(ub=(2, 2, 8), banks=48, g=dict(i8=8, i16=8, e8=8, e16=8, i32=16, a32=16, a40=20)),
}
MAX_BLK = (32, 64, 128)  # height, width, depth
BANK_BYTES = 1024
CMD0 = {0x116: "BLK_H_M1", 0x115: "BLK_W_M1", 0x117: "BLK_D_M1", 0x10D: "IB_END", 0x18D: "IB2_START", 0x12D: "AB_START",
        0x124: "ACC_FORMAT"}
NPU_OPS = (0x002, 0x003, 0x005, 0x006)  # CONV, DEPTHWISE, POOL, ELEMENTWISE


def rup(a, b):
    return ((a + b - 1) // b) * b


def cdiv(a, b):
    return (a + b - 1) // b


def emitted_ops(cmds):
    """Replays a register command stream; returns the SHRAM related register state seen by every NPU_OP_*"""
    res, state, i = [], {}, 0
    while i < len(cmds):
        w = int(cmds[i])
        code, has_payload = w & 0x3FF, (w >> 14) & 0x3
        if has_payload:
            i += 2
            continue
        if code in CMD0:
            state[CMD0[code]] = (w >> 16) & 0xFFFF
        elif code in NPU_OPS:
            res.append(dict(state))
        i += 1
    return res


class OpDesc:
    """What the hardware is asked to do: kind in conv/dw/pool/rsum/ew, shapes are (h, w, d), kernel (w,h,sx,sy,dx,dy)"""

    def __init__(self, kind, ifm, ofm, ifm2=None, scalar=False, kernel=(1, 1, 1, 1, 1, 1), bits=8, partkernel=False,
                 lut=False, upscale="NONE", scaled=True):
        self.kind, self.ifm, self.ofm, self.ifm2, self.scalar = kind, ifm, ofm, ifm2, scalar
        self.kernel, self.bits, self.partkernel, self.lut, self.upscale, self.scaled = (
            kernel, bits, partkernel, lut, upscale, scaled)

    def __repr__(self):
        return (f"{self.kind} ifm={self.ifm} ifm2={self.ifm2} scalar={self.scalar} ofm={self.ofm} kernel={self.kernel} "
                f"bits={self.bits} part_kernel={self.partkernel} lut={self.lut} upscale={self.upscale}")


def check_block(acc_name, d, regs):
    """Returns the list of rule violations of one emitted operation (empty list = valid)"""
    hw = HW[acc_name]
    ubw, ubh, ubd = hw["ub"]
    g = hw["g"]
    bh, bw, bd = regs["BLK_H_M1"] + 1, regs["BLK_W_M1"] + 1, regs["BLK_D_M1"] + 1
    ib_end, ib2, ab = regs.get("IB_END"), regs.get("IB2_START"), regs.get("AB_START")
    probs = []
    for v, u, m, n in ((bh, ubh, MAX_BLK[0], "height"), (bw, ubw, MAX_BLK[1], "width"), (bd, ubd, MAX_BLK[2], "depth")):
        if v <= 0 or v % u:
            probs.append(f"OFM block {n} {v} is not a positive multiple of the micro-block {n} {u}")
        if v > m:
            probs.append(f"OFM block {n} {v} exceeds the maximum {m}")
    total = hw["banks"]
    usable_end = total - 2 if (total > 16 or d.lut) else total  # last two banks: lookup table / reserved
    kw, kh, sx, sy, dx, dy = d.kernel
    akw, akh = (kw - 1) * dx + 1, (kh - 1) * dy + 1
    up = 1 if d.upscale == "NONE" else 2
    nearest = 1 if d.upscale == "NEAREST" else 0
    ifm_h = rup(int(math.ceil(((bh - 1) * sy + min(akh, 8) + nearest) / up)), ubh)
    ifm_w = rup(int(math.ceil(((bw - 1) * sx + min(akw, 8) + nearest) / up)), ubw)
    is_ew = d.kind == "ew"
    if is_ew or d.kind in ("pool", "dw"):
        ifm_d = bd
    elif d.bits == 16:
        ifm_d = rup(min(d.ifm[2], 16), 4)
    else:
        ifm_d = rup(min(d.ifm[2], 16 if d.partkernel else 32), 8)
    ifm_bytes = ifm_h * ifm_w * rup(ifm_d * d.bits // 8, 8)
    ifm_g = {8: g["e8"], 16: g["e16"], 32: g["i32"]}[d.bits] if is_ew else {8: g["i8"], 16: g["i16"], 32: g["i32"]}[d.bits]
    ifm_need = rup(cdiv(ifm_bytes, BANK_BYTES) * 2, ifm_g)
    acc40 = d.bits == 16 and d.scaled and d.kind != "pool"
    if regs.get("ACC_FORMAT") != (1 if acc40 else 0):
        probs.append(f"ACC_FORMAT {regs.get('ACC_FORMAT')} but the operation needs {'40' if acc40 else '32'}-bit")
    if not is_ew:
        acc_h = 1 if (d.ofm[0] == 1 and kh == 1 and ubh == 2) else bh  # 1-D convolution mode of the 2-row micro-block
        acc_bytes = acc_h * bw * rup(bd, 8) * (40 if acc40 else 32) // 8
        acc_need = rup(cdiv(acc_bytes, BANK_BYTES) * 2, g["a40"] if acc40 else g["a32"])
        if not (2 <= ib_end <= ab <= usable_end):
            probs.append(f"partitions out of order: need 2 <= IB_END {ib_end} <= AB_START {ab} <= {usable_end}")
        if ib_end - 2 < ifm_need:
            probs.append(f"IFM partition [2,{ib_end}) is smaller than the {ifm_need} banks a double buffered "
                         f"{ifm_h}x{ifm_w}x{ifm_d} IFM block needs")
        if usable_end - ab < acc_need:
            probs.append(f"accumulator partition [{ab},{usable_end}) is smaller than the {acc_need} banks a double "
                         f"buffered {acc_h}x{bw}x{bd} accumulator block needs")
    else:
        if not (2 <= ib_end <= usable_end) or ab > usable_end:
            probs.append(f"IB_END {ib_end} / AB_START {ab} outside [2,{usable_end}]")
        if d.ifm2 is not None and not d.scalar:
            if ib2 is None or not (2 <= ib2 <= ib_end):
                probs.append(f"IFM2_IB_START {ib2} is not inside [2, IB_END {ib_end}]")
            else:
                if ib2 - 2 < ifm_need:
                    probs.append(f"IFM partition [2,{ib2}) is smaller than the {ifm_need} banks needed")
                if ib_end - ib2 < ifm_need:
                    probs.append(f"IFM2 partition [{ib2},{ib_end}) is smaller than the {ifm_need} banks needed")
        elif ib_end - 2 < ifm_need:
            probs.append(f"IFM partition [2,{ib_end}) is smaller than the {ifm_need} banks needed")
    return (bh, bw, bd), probs

# ======================================================================================================================
# Helpers building public API (ethosu.vela.api) operations from an OpDesc
# ======================================================================================================================
from ethosu.vela.api import npu_find_block_configs  # noqa: E402
from ethosu.vela.api import npu_generate_register_command_stream  # noqa: E402
from ethosu.vela.api import NpuAccelerator  # noqa: E402
from ethosu.vela.api import NpuActivation  # noqa: E402
from ethosu.vela.api import NpuActivationOp  # noqa: E402
from ethosu.vela.api import NpuAddressRange  # noqa: E402
from ethosu.vela.api import NpuBlockTraversal  # noqa: E402
from ethosu.vela.api import NpuConv2DOperation  # noqa: E402
from ethosu.vela.api import NpuConvDepthWiseOperation  # noqa: E402
from ethosu.vela.api import NpuDataType  # noqa: E402
from ethosu.vela.api import NpuElementWiseOp  # noqa: E402
from ethosu.vela.api import NpuElementWiseOperation  # noqa: E402
from ethosu.vela.api import NpuFeatureMap  # noqa: E402
from ethosu.vela.api import NpuKernel  # noqa: E402
from ethosu.vela.api import NpuLayout  # noqa: E402
from ethosu.vela.api import NpuPadding  # noqa: E402
from ethosu.vela.api import NpuPoolingOp  # noqa: E402
from ethosu.vela.api import NpuPoolingOperation  # noqa: E402
from ethosu.vela.api import NpuQuantization  # noqa: E402
from ethosu.vela.api import NpuResamplingMode  # noqa: E402
from ethosu.vela.api import NpuShape3D  # noqa: E402
from ethosu.vela.api import NpuTileBox  # noqa: E402

_DT = {8: NpuDataType.INT8, 16: NpuDataType.INT16, 32: NpuDataType.INT32}


def _fm(shape, addr, bits, quant=True):
    fm = NpuFeatureMap()
    fm.data_type = _DT[bits]
    fm.shape = NpuShape3D(height=shape[0], width=shape[1], depth=shape[2])
    fm.tiles = NpuTileBox(width_0=shape[1], height_0=shape[0], height_1=shape[0], addresses=[addr, 0, 0, 0])
    fm.region = 1
    fm.layout = NpuLayout.NHWC
    fm.quantization = NpuQuantization(scale_f32=0.5, zero_point=0) if quant else None
    return fm


def make_npu_op(d, pool_op=NpuPoolingOp.MAX):
    kw, kh, sx, sy, dx, dy = d.kernel
    if d.kind == "conv":
        op = NpuConv2DOperation()
        op.block_traversal = NpuBlockTraversal.PART_KERNEL_FIRST if d.partkernel else NpuBlockTraversal.DEPTH_FIRST
    elif d.kind == "dw":
        op = NpuConvDepthWiseOperation()
    elif d.kind == "pool":
        op = NpuPoolingOperation(pool_op)
    elif d.kind == "rsum":
        op = NpuPoolingOperation(NpuPoolingOp.REDUCE_SUM)
    else:
        binary = d.ifm2 is not None or d.scalar
        op = NpuElementWiseOperation(NpuElementWiseOp.ADD if binary else NpuElementWiseOp.ABS)
    if d.kind in ("conv", "dw"):
        op.weights = [NpuAddressRange(region=0, address=0, length=1024)]
        op.biases = [NpuAddressRange(region=0, address=32000, length=160)]
    op.ifm = _fm(d.ifm, 0x1000, d.bits, d.scaled)
    op.ofm = _fm(d.ofm, 0x200000, 32 if d.kind == "rsum" else d.bits, d.scaled)
    if d.kind == "ew":
        if d.scalar:
            op.ifm2 = _fm((1, 1, 1), 0x100000, d.bits, d.scaled)
            op.ifm2_scalar = 3
        elif d.ifm2 is not None:
            op.ifm2 = _fm(d.ifm2, 0x100000, d.bits, d.scaled)
    else:
        op.kernel = NpuKernel(kw, kh, sx, sy, dx, dy)
        op.padding = NpuPadding(top=0, left=0, bottom=0, right=0)
    if d.lut:
        op.activation = NpuActivation(NpuActivationOp.TABLE_LOOKUP)
        op.activation.lookup_table_index = 0
    op.ifm_upscale = getattr(NpuResamplingMode, d.upscale)
    return op


def check_query_and_generator(acc_name, d, pool_op=NpuPoolingOp.MAX, limit=None):
    """Every block config the public query offers must be accepted by the command stream generator and must come out of
    it with a valid shared buffer layout.  Returns (number of configs checked, list of failure strings)"""
    acc = getattr(NpuAccelerator, acc_name)
    op = make_npu_op(d, pool_op)
    failures = []
    try:
        configs = npu_find_block_configs(op, acc)
    except BaseException as e:  # noqa: B902
        return 0, [f"{acc_name}: npu_find_block_configs raised {type(e).__name__}: {e} for {d}"]
    if limit is not None and len(configs) > limit:
        step = len(configs) / float(limit)
        configs = [configs[int(i * step)] for i in range(limit)] + [configs[-1]]
    for cfg in configs:
        op.block_config = cfg
        try:
            cmds = npu_generate_register_command_stream([op], acc)
        except BaseException as e:  # noqa: B902
            failures.append(f"{acc_name}: offered block {tuple(cfg)} rejected by the generator: {type(e).__name__}: {e}")
            continue
        ops = emitted_ops(cmds)
        if len(ops) != 1:
            failures.append(f"{acc_name}: expected one NPU operation in the stream, found {len(ops)}")
            continue
        blk, probs = check_block(acc_name, d, ops[0])
        if blk != (cfg.height, cfg.width, cfg.depth):
            probs.append(f"emitted OFM block {blk} differs from the requested {tuple(cfg)}")
        for p in probs:
            failures.append(f"{acc_name}: {d}: block (h,w,d)={tuple(cfg)} registers {ops[0]}: {p}")
    return len(configs), failures

# ======================================================================================================================
# End-to-end helper: a one-operator TFLite model is built in memory with Vela's own classes, compiled, and every NPU
# operation that reaches the register command stream generator is checked together with the registers emitted for it
# ======================================================================================================================
import contextlib  # noqa: E402
import io  # noqa: E402

import numpy as np  # noqa: E402

from ethosu.vela import compiler_driver  # noqa: E402
from ethosu.vela import high_level_command_to_npu_op as _hl  # noqa: E402
from ethosu.vela import model_reader  # noqa: E402
from ethosu.vela import scheduler  # noqa: E402
from ethosu.vela import tflite_writer  # noqa: E402
from ethosu.vela.architecture_features import ArchitectureFeatures  # noqa: E402
from ethosu.vela.data_type import DataType  # noqa: E402
from ethosu.vela.nn_graph import Graph  # noqa: E402
from ethosu.vela.nn_graph import Pass  # noqa: E402
from ethosu.vela.nn_graph import PassPlacement  # noqa: E402
from ethosu.vela.nn_graph import Subgraph  # noqa: E402
from ethosu.vela.nn_graph import TensorAllocator  # noqa: E402
from ethosu.vela.operation import NpuBlockType  # noqa: E402
from ethosu.vela.operation import Op  # noqa: E402
from ethosu.vela.operation import Operation  # noqa: E402
from ethosu.vela.operation import Padding  # noqa: E402
from ethosu.vela.tensor import create_const_tensor  # noqa: E402
from ethosu.vela.tensor import QuantizationParameters  # noqa: E402
from ethosu.vela.tensor import Tensor  # noqa: E402


def _qp(scale):
    q = QuantizationParameters()
    q.scale_f32 = np.float32(scale)
    q.zero_point = 0
    return q


def build_conv_chain(ifm_shape, layers):
    """int8 model made of stride-1 CONV_2D operators, layers = [(ofm_depth, (kh, kw), "SAME" | "VALID"), ...];
    returns the TFLite flatbuffer"""
    ifm = Tensor(list(ifm_shape), DataType.int8, "input")
    ifm.quantization = _qp(0.5)
    Operation(Op.Placeholder, "input_ph").set_output_tensor(ifm)
    nng = Graph("model")
    sg = Subgraph("main", PassPlacement.Cpu)
    sg.input_tensors = [ifm]
    sg.original_inputs = [ifm]
    cur = ifm
    for idx, (ofm_depth, (kh, kw), padding) in enumerate(layers):
        n, ih, iw, ic = cur.shape
        oh, ow = (ih, iw) if padding == "SAME" else (ih - kh + 1, iw - kw + 1)
        weights = create_const_tensor(f"weights{idx}", [ofm_depth, kh, kw, ic], DataType.int8,
                                      np.ones([ofm_depth, kh, kw, ic], dtype=np.int8), quantization=_qp(0.01))
        bias = create_const_tensor(f"bias{idx}", [ofm_depth], DataType.int32, np.zeros([ofm_depth], dtype=np.int32),
                                   quantization=_qp(0.005))
        ofm = Tensor([n, oh, ow, ofm_depth], DataType.int8, f"fm{idx}")
        ofm.quantization = _qp(0.5)
        op = Operation(Op.Conv2DBias, f"conv{idx}")
        for t in (cur, weights, bias):
            op.add_input_tensor(t)
        op.set_output_tensor(ofm)
        op.attrs = {"padding": Padding.SAME if padding == "SAME" else Padding.VALID, "stride_w": 1, "stride_h": 1,
                    "dilation_w_factor": 1, "dilation_h_factor": 1, "fused_activation_function": None}
        op.run_on_npu = False
        ps = Pass(op.name, PassPlacement.Cpu, False, NpuBlockType.Default)
        ps.ops = [op]
        ps.primary_op = op
        sg.passes.append(ps)
        cur = ofm
    sg.output_tensors = [cur]
    nng.subgraphs.append(sg)
    return bytearray(tflite_writer.write_tflite_buffer(nng))


def build_conv_model(ifm_shape, ofm_depth, k_hw, padding):
    return build_conv_chain(ifm_shape, [(ofm_depth, k_hw, padding)])


def banks_needed(acc_name, d, blk):
    """(IFM banks, accumulator banks, usable banks after the two OFM banks) for a non-elementwise operation"""
    hw = HW[acc_name]
    ubw, ubh, ubd = hw["ub"]
    g = hw["g"]
    bh, bw, bd = blk
    kw, kh, sx, sy, dx, dy = d.kernel
    akw, akh = (kw - 1) * dx + 1, (kh - 1) * dy + 1
    ifm_h = rup((bh - 1) * sy + min(akh, 8), ubh)
    ifm_w = rup((bw - 1) * sx + min(akw, 8), ubw)
    ifm_d = rup(min(d.ifm[2], 16), 4) if d.bits == 16 else rup(min(d.ifm[2], 16 if d.partkernel else 32), 8)
    ifm_need = rup(cdiv(ifm_h * ifm_w * rup(ifm_d * d.bits // 8, 8), BANK_BYTES) * 2, g["i16"] if d.bits == 16 else g["i8"])
    acc40 = d.bits == 16 and d.scaled
    acc_h = 1 if (d.ofm[0] == 1 and kh == 1 and ubh == 2) else bh
    acc_need = rup(cdiv(acc_h * bw * rup(bd, 8) * (40 if acc40 else 32) // 8, BANK_BYTES) * 2, g["a40"] if acc40 else g["a32"])
    usable = (hw["banks"] - 2 if hw["banks"] > 16 or d.lut else hw["banks"]) - 2
    return ifm_need, acc_need, usable


def compile_and_check(model, accel_cli_name, acc_name, arena_cache_size=None, strategy="Performance"):
    """Compiles the flatbuffer for the accelerator; returns (number of emitted NPU ops, list of failure strings)"""
    from ethosu.vela.debug_database import DebugDatabase
    from ethosu.vela.tensor import TensorAddressMap
    from ethosu.vela.weight_compressor import CompressedWeightCache

    captured = []
    selected_misfits = []
    original = _hl.generate_command_stream

    def conv_desc(op):
        k = op.kernel
        s3 = lambda fm: (fm.shape.height, fm.shape.width, fm.shape.depth)  # noqa: E731
        return OpDesc("conv", s3(op.ifm), s3(op.ofm), kernel=(k.width, k.height, k.stride_x, k.stride_y, k.dilation_x,
                                                               k.dilation_y),
                      bits=op.ifm.data_type.size_in_bits(),
                      partkernel=op.block_traversal == NpuBlockTraversal.PART_KERNEL_FIRST)

    def capture(npu_op_list, arch, verbose, mem_limits, add_to_debug_db=None, npu_op_to_cmd=None):
        # the block configuration the scheduler selected for every operation, before any register is generated
        for op in npu_op_list:
            if isinstance(op, NpuConv2DOperation):
                blk = (int(op.block_config.height), int(op.block_config.width), int(op.block_config.depth))
                ifm_need, acc_need, usable = banks_needed(acc_name, conv_desc(op), blk)
                if ifm_need + acc_need > usable:
                    selected_misfits.append(
                        f"{acc_name}: selected block (h,w,d)={blk} for {conv_desc(op)} needs {ifm_need} IFM + {acc_need} "
                        f"accumulator banks but only {usable} banks are available")
        res = original(npu_op_list, arch, verbose, mem_limits, add_to_debug_db, npu_op_to_cmd)
        captured.append((list(npu_op_list), list(res)))
        return res

    DebugDatabase.clean_db()
    TensorAddressMap.clear_address_map()
    CompressedWeightCache.clear()
    arch = ArchitectureFeatures(
        vela_config_files=None, system_config=ArchitectureFeatures.DEFAULT_CONFIG,
        memory_mode=ArchitectureFeatures.DEFAULT_CONFIG, accelerator_config=accel_cli_name,
        max_blockdep=ArchitectureFeatures.MAX_BLOCKDEP, verbose_config=False, arena_cache_size=arena_cache_size)
    out_dir = os.path.join(os.getcwd(), "out", "tmp")
    os.makedirs(out_dir, exist_ok=True)
    options = compiler_driver.CompilerOptions(tensor_allocator=TensorAllocator.HillClimb, output_dir=out_dir)
    sched_options = scheduler.SchedulerOptions(
        optimization_strategy=getattr(scheduler.OptimizationStrategy, strategy), sram_target=arch.arena_cache_size,
        verbose_schedule=False)
    _hl.generate_command_stream = capture
    failures = []
    try:
        with contextlib.redirect_stdout(io.StringIO()):
            nng, network_type = model_reader.read_tflite_model(bytearray(model), model_reader.ModelReaderOptions())
            compiler_driver.compiler_driver(nng, arch, options, sched_options, network_type, os.path.join(out_dir, "m"))
    except BaseException as e:  # noqa: B902
        failures.append(f"{acc_name}: compilation failed: {type(e).__name__}: {e}")
    finally:
        _hl.generate_command_stream = original
    failures += sorted(set(selected_misfits))
    nops = 0
    for npu_ops, cmds in captured:
        block_ops = [op for op in npu_ops if isinstance(op, (NpuConv2DOperation, NpuConvDepthWiseOperation,
                                                             NpuPoolingOperation, NpuElementWiseOperation))]
        emitted = emitted_ops(cmds)
        if len(block_ops) != len(emitted):
            failures.append(f"{acc_name}: {len(block_ops)} operations but {len(emitted)} NPU_OP commands")
            continue
        for op, regs in zip(block_ops, emitted):
            nops += 1
            if not isinstance(op, NpuConv2DOperation):
                continue
            d = conv_desc(op)
            blk, probs = check_block(acc_name, d, regs)
            for p in probs:
                failures.append(f"{acc_name}: compiled {d}: block (h,w,d)={blk} registers {regs}: {p}")
    return nops, failures

# ======================================================================================================================
# Observation 3 (unmodified tree): with an upscaled IFM (RESIZE_NEAREST_NEIGHBOR x2 -> NpuResamplingMode.NEAREST) the
# compiler emits OFM blocks with odd height / width on the accelerators with a 1x1 micro-block (U55-32, U55-64), e.g.
# 9x9x16 for a 5x5 -> 10x10 resize.  The public query api.npu_find_block_configs() deliberately never offers such a
# block: it uses "min_block_height/width = max(ublock, 2 if upscaling else 1)" as the step (the legacy allocator had the
# same rule), i.e. it treats even block sizes as a hardware requirement whenever the IFM is upscaled.
# scheduler -> architecture_allocator.find_block_config() has no such rule, so the block configuration selected for the
# emitted operation is one that the query would not consider valid.
# ======================================================================================================================


def build_resize_model(ifm_shape):
    n, ih, iw, ic = ifm_shape
    ifm = Tensor(list(ifm_shape), DataType.int8, "input")
    ifm.quantization = _qp(0.5)
    Operation(Op.Placeholder, "input_ph").set_output_tensor(ifm)
    size = create_const_tensor("size", [2], DataType.int32, np.array([ih * 2, iw * 2], dtype=np.int32))
    ofm = Tensor([n, ih * 2, iw * 2, ic], DataType.int8, "output")
    ofm.quantization = _qp(0.5)
    op = Operation(Op.ResizeNearestNeighbor, "resize")
    op.add_input_tensor(ifm)
    op.add_input_tensor(size)
    op.set_output_tensor(ofm)
    op.attrs = {"align_corners": False, "half_pixel_centers": False}
    op.run_on_npu = False
    nng = Graph("model")
    sg = Subgraph("main", PassPlacement.Cpu)
    sg.input_tensors = [ifm]
    sg.original_inputs = [ifm]
    sg.output_tensors = [ofm]
    ps = Pass(op.name, PassPlacement.Cpu, False, NpuBlockType.Default)
    ps.ops = [op]
    ps.primary_op = op
    sg.passes.append(ps)
    nng.subgraphs.append(sg)
    return bytearray(tflite_writer.write_tflite_buffer(nng))


def emitted_blocks(model, cli_name):
    """[(NpuPoolingOperation / ..., registers)] for the compiled model"""
    captured = []
    original = _hl.generate_command_stream

    def capture(npu_op_list, arch, verbose, mem_limits, add_to_debug_db=None, npu_op_to_cmd=None):
        res = original(npu_op_list, arch, verbose, mem_limits, add_to_debug_db, npu_op_to_cmd)
        captured.append((list(npu_op_list), list(res)))
        return res

    from ethosu.vela.debug_database import DebugDatabase
    from ethosu.vela.tensor import TensorAddressMap
    from ethosu.vela.weight_compressor import CompressedWeightCache

    DebugDatabase.clean_db()
    TensorAddressMap.clear_address_map()
    CompressedWeightCache.clear()
    arch = ArchitectureFeatures(
        vela_config_files=None, system_config=ArchitectureFeatures.DEFAULT_CONFIG,
        memory_mode=ArchitectureFeatures.DEFAULT_CONFIG, accelerator_config=cli_name,
        max_blockdep=ArchitectureFeatures.MAX_BLOCKDEP, verbose_config=False, arena_cache_size=None)
    out_dir = os.path.join(os.getcwd(), "out", "tmp")
    os.makedirs(out_dir, exist_ok=True)
    options = compiler_driver.CompilerOptions(tensor_allocator=TensorAllocator.HillClimb, output_dir=out_dir)
    sched_options = scheduler.SchedulerOptions(
        optimization_strategy=scheduler.OptimizationStrategy.Performance, sram_target=arch.arena_cache_size,
        verbose_schedule=False)
    _hl.generate_command_stream = capture
    try:
        with contextlib.redirect_stdout(io.StringIO()):
            nng, network_type = model_reader.read_tflite_model(bytearray(model), model_reader.ModelReaderOptions())
            compiler_driver.compiler_driver(nng, arch, options, sched_options, network_type, os.path.join(out_dir, "m"))
    finally:
        _hl.generate_command_stream = original
    res = []
    for npu_ops, cmds in captured:
        block_ops = [op for op in npu_ops if isinstance(op, (NpuConv2DOperation, NpuConvDepthWiseOperation,
                                                             NpuPoolingOperation, NpuElementWiseOperation))]
        res += list(zip(block_ops, emitted_ops(cmds)))
    return res


def main():
    seen = 0
    for shape in ([1, 5, 5, 16], [1, 7, 9, 8], [1, 9, 9, 64]):
        model = build_resize_model(shape)
        for cli_name, api_acc in (("ethos-u55-32", NpuAccelerator.Ethos_U55_32), ("ethos-u55-64", NpuAccelerator.Ethos_U55_64)):
            for op, regs in emitted_blocks(model, cli_name):
                if op.ifm_upscale == NpuResamplingMode.NONE:
                    continue
                blk = (regs["BLK_H_M1"] + 1, regs["BLK_W_M1"] + 1, regs["BLK_D_M1"] + 1)
                offered = [tuple(c) for c in npu_find_block_configs(op, api_acc)]
                odd = blk[0] % 2 == 1 or blk[1] % 2 == 1
                print(f"{cli_name}: resize {shape[1]}x{shape[2]} -> {op.ofm.shape.height}x{op.ofm.shape.width}, {op.ifm_upscale.name}: "
                      f"emitted block {blk}; odd size: {odd}; offered by npu_find_block_configs: {blk in offered}")
                seen += odd and blk not in offered
    print("OBSERVED" if seen else "not observed")
    return 0


if __name__ == "__main__":
    sys.exit(main())

#!/usr/bin/env python
"""C03 observation 2 (UNMODIFIED tree): a re-used lookup table larger than 256 bytes gets a slot index in units of its own size.

Run as:  cd /tmp/seed7/C03 && /venv/bin/python out/observation2.py
Exits 0 and prints PASS when every byte that the NPU operations consume is defined for them, exits 1 and prints FAIL
(with what went wrong) otherwise.

The first part of this file is a generic harness (in-memory TFLite model builder, compile wrapper that records the
list of NPU operations that Vela hands to its register command stream generator, and a simulator that executes that
list in program order with a tag per byte: which tensor wrote it, which logical row it holds, and - for data that
originates in the constant (flash) image - the byte value). The scenario is at the bottom.
"""

import os
import sys
import types

import numpy as np

sys.path.insert(0, os.getcwd())

from ethosu.vela import architecture_features  # noqa: E402
from ethosu.vela import compiler_driver  # noqa: E402
from ethosu.vela import high_level_command_to_npu_op as hl2npu  # noqa: E402
from ethosu.vela import model_reader  # noqa: E402
from ethosu.vela import scheduler  # noqa: E402
from ethosu.vela import tflite_writer  # noqa: E402
from ethosu.vela.api import NpuActivationOp  # noqa: E402
from ethosu.vela.api import NpuBlockOperation  # noqa: E402
from ethosu.vela.api import NpuDmaOperation  # noqa: E402
from ethosu.vela.api import NpuLayout  # noqa: E402
from ethosu.vela.data_type import DataType  # noqa: E402
from ethosu.vela.debug_database import DebugDatabase  # noqa: E402
from ethosu.vela.high_level_command_stream import DMA  # noqa: E402
from ethosu.vela.high_level_command_stream import NOP  # noqa: E402
from ethosu.vela.high_level_command_stream import NpuStripe  # noqa: E402
from ethosu.vela.nn_graph import Graph  # noqa: E402
from ethosu.vela.nn_graph import NetworkType  # noqa: E402
from ethosu.vela.nn_graph import PassPlacement  # noqa: E402
from ethosu.vela.nn_graph import Subgraph  # noqa: E402
from ethosu.vela.nn_graph import TensorAllocator  # noqa: E402
from ethosu.vela.operation import NpuBlockType  # noqa: E402
from ethosu.vela.operation import Op  # noqa: E402
from ethosu.vela.operation import Operation  # noqa: E402
from ethosu.vela.tensor import create_const_tensor  # noqa: E402
from ethosu.vela.tensor import MemType  # noqa: E402
from ethosu.vela.tensor import QuantizationParameters  # noqa: E402
from ethosu.vela.tensor import Tensor  # noqa: E402
from ethosu.vela.tensor import TensorAddressMap  # noqa: E402
from ethosu.vela.tensor import TensorPurpose  # noqa: E402
from ethosu.vela.weight_compressor import CompressedWeightCache  # noqa: E402
from ethosu.vela.weight_compressor import WeightKey  # noqa: E402

CONFIG = os.path.join(os.getcwd(), "ethosu", "config_files", "Arm", "vela.ini")


# ----------------------------------------------------------------------------------------------------------------------
# Model builder
# ----------------------------------------------------------------------------------------------------------------------
def quant(scale=1.0, zp=0):
    qp = QuantizationParameters()
    qp.scale_f32 = np.float32(scale)
    qp.zero_point = zp
    return qp


class Builder:
    def __init__(self, name="net", seed=0):
        self.ops = []
        self.inputs = []
        self.rng = np.random.RandomState(seed)
        self.n = 0
        self.name = name

    def _nm(self, base):
        self.n += 1
        return f"{base}{self.n}"

    def fm(self, shape, dtype=DataType.int8, name=None, scale=0.05, zp=0):
        t = Tensor(list(shape), dtype, name or self._nm("t"))
        t.quantization = quant(scale, zp)
        return t

    def input(self, shape, dtype=DataType.int8, name=None, scale=0.05, zp=0):
        t = self.fm(shape, dtype, name or self._nm("input"), scale, zp)
        op = Operation(Op.Placeholder, t.name)
        op.set_output_tensor(t)
        self.inputs.append(t)
        return t

    def const(self, shape, dtype=DataType.int8, values=None, scale=0.05, zp=0, name=None):
        np_t = {DataType.int8: np.int8, DataType.uint8: np.uint8, DataType.int16: np.int16, DataType.int32: np.int32}[
            dtype
        ]
        if values is None:
            values = self.rng.randint(-5, 6, size=shape)
        values = np.array(values).astype(np_t).reshape(shape)
        return create_const_tensor(name or self._nm("const"), list(shape), dtype, values, quantization=quant(scale, zp))

    def _add(self, op_type, inputs, out, attrs, version=1):
        op = Operation(op_type, out.name)
        op.version = version
        for t in inputs:
            if t is None:
                op.inputs.append(None)
            else:
                op.add_input_tensor(t)
        op.set_output_tensor(out)
        op.attrs = dict(attrs)
        self.ops.append(op)
        return out

    @staticmethod
    def _out_hw(h, w, kh, kw, sh, sw, padding, dh=1, dw=1):
        kh = (kh - 1) * dh + 1
        kw = (kw - 1) * dw + 1
        if padding == "SAME":
            return (h + sh - 1) // sh, (w + sw - 1) // sw
        return (h - kh) // sh + 1, (w - kw) // sw + 1

    def conv(self, x, ofm_depth, k=(3, 3), stride=(1, 1), padding="SAME", dilation=(1, 1), act=None, name=None,
             dtype=None, out_scale=0.05):
        from ethosu.vela.operation import Padding

        n, h, w, c = x.shape
        kh, kw = k
        oh, ow = self._out_hw(h, w, kh, kw, stride[0], stride[1], padding, dilation[0], dilation[1])
        wt = self.const([ofm_depth, kh, kw, c], DataType.int8, scale=0.02)
        wt.quantization.zero_point = np.zeros(ofm_depth, dtype=np.int64)
        wt.quantization.scale_f32 = np.full(ofm_depth, 0.02, dtype=np.float32)
        bias_dtype = DataType.int32
        b = self.const([ofm_depth], bias_dtype, values=self.rng.randint(-100, 100, size=[ofm_depth]), scale=0.001)
        out = self.fm([n, oh, ow, ofm_depth], dtype or x.dtype, name or self._nm("conv"), scale=out_scale)
        attrs = {
            "padding": Padding.SAME if padding == "SAME" else Padding.VALID,
            "stride_w": stride[1],
            "stride_h": stride[0],
            "dilation_w_factor": dilation[1],
            "dilation_h_factor": dilation[0],
            "fused_activation_function": act,
        }
        return self._add(Op.Conv2DBias, [x, wt, b], out, attrs)

    def dwconv(self, x, k=(3, 3), stride=(1, 1), padding="SAME", dilation=(1, 1), act=None, name=None):
        from ethosu.vela.operation import Padding

        n, h, w, c = x.shape
        kh, kw = k
        oh, ow = self._out_hw(h, w, kh, kw, stride[0], stride[1], padding, dilation[0], dilation[1])
        wt = self.const([1, kh, kw, c], DataType.int8, scale=0.02)
        wt.quantization.zero_point = np.zeros(c, dtype=np.int64)
        wt.quantization.scale_f32 = np.full(c, 0.02, dtype=np.float32)
        b = self.const([c], DataType.int32, values=self.rng.randint(-100, 100, size=[c]), scale=0.001)
        out = self.fm([n, oh, ow, c], x.dtype, name or self._nm("dw"))
        attrs = {
            "padding": Padding.SAME if padding == "SAME" else Padding.VALID,
            "stride_w": stride[1],
            "stride_h": stride[0],
            "dilation_w_factor": dilation[1],
            "dilation_h_factor": dilation[0],
            "depth_multiplier": 1,
            "fused_activation_function": act,
        }
        return self._add(Op.DepthwiseConv2DBias, [x, wt, b], out, attrs)

    def pool(self, x, kind="max", k=(2, 2), stride=(2, 2), padding="VALID", act=None, name=None):
        from ethosu.vela.operation import Padding

        n, h, w, c = x.shape
        oh, ow = self._out_hw(h, w, k[0], k[1], stride[0], stride[1], padding)
        out = self.fm([n, oh, ow, c], x.dtype, name or self._nm("pool"), scale=float(x.quantization.scale_f32))
        attrs = {
            "padding": Padding.SAME if padding == "SAME" else Padding.VALID,
            "stride_w": stride[1],
            "stride_h": stride[0],
            "filter_width": k[1],
            "filter_height": k[0],
            "fused_activation_function": act,
        }
        return self._add(Op.MaxPool if kind == "max" else Op.AvgPool, [x], out, attrs)

    def binary(self, kind, a, b, act=None, name=None, out_scale=0.1, dtype=None):
        shape = list(a.shape) if len(a.shape) >= len(b.shape) else list(b.shape)
        if a.shape and b.shape and len(a.shape) == len(b.shape):
            shape = [max(x, y) for x, y in zip(a.shape, b.shape)]
        out = self.fm(shape, dtype or a.dtype, name or self._nm(kind), scale=out_scale)
        attrs = {"fused_activation_function": act}
        if kind in ("add", "sub"):
            attrs["pot_scale_int16"] = False
        op_type = {"add": Op.Add, "sub": Op.Sub, "mul": Op.Mul, "min": Op.Minimum, "max": Op.Maximum}[kind]
        if kind in ("min", "max"):
            attrs = {}
        return self._add(op_type, [a, b], out, attrs)

    def unary(self, kind, x, name=None, out_scale=None, **kw):
        op_type = {
            "tanh": Op.Tanh,
            "sigmoid": Op.Sigmoid,
            "relu": Op.Relu,
            "relu6": Op.Relu6,
            "abs": Op.Abs,
            "leaky": Op.LeakyRelu,
            "hardswish": Op.HardSwish,
            "exp": Op.Exp,
            "log": Op.Log,
            "sqrt": Op.Sqrt,
            "rsqrt": Op.Rsqrt,
        }[kind]
        if out_scale is None:
            out_scale = {"tanh": 1 / 128, "sigmoid": 1 / 256}.get(kind, float(x.quantization.scale_f32))
        zp = -128 if kind == "sigmoid" and x.dtype == DataType.int8 else 0
        zp = kw.get("out_zp", zp)
        out = self.fm(list(x.shape), x.dtype, name or self._nm(kind), scale=out_scale, zp=zp)
        attrs = {}
        if kind == "leaky":
            attrs["alpha"] = np.float32(kw.get("alpha", 0.1))
        return self._add(op_type, [x], out, attrs)

    def reshape(self, x, new_shape, name=None):
        out = self.fm(list(new_shape), x.dtype, name or self._nm("reshape"), scale=float(x.quantization.scale_f32),
                      zp=int(x.quantization.zero_point))
        shp = self.const([len(new_shape)], DataType.int32, values=new_shape)
        return self._add(Op.Reshape, [x, shp], out, {"new_shape": list(new_shape)})

    def concat(self, xs, axis=3, name=None):
        shape = list(xs[0].shape)
        shape[axis] = sum(x.shape[axis] for x in xs)
        out = self.fm(shape, xs[0].dtype, name or self._nm("concat"), scale=float(xs[0].quantization.scale_f32))
        return self._add(Op.ConcatTFLite, list(xs), out, {"axis": axis, "fused_activation_function": None})

    def fc(self, x, ofm_depth, act=None, name=None):
        n, c = x.shape
        wt = self.const([ofm_depth, c], DataType.int8, scale=0.02)
        b = self.const([ofm_depth], DataType.int32, values=self.rng.randint(-100, 100, size=[ofm_depth]), scale=0.001)
        out = self.fm([n, ofm_depth], x.dtype, name or self._nm("fc"))
        attrs = {"fused_activation_function": act, "weights_format": 0, "keep_num_dims": False,
                 "asymmetric_quantize_inputs": False}
        return self._add(Op.FullyConnected, [x, wt, b], out, attrs)

    def cpu_op(self, x, name=None):
        """An operator that Vela has to leave on the CPU (float Cast is not supported on the NPU)"""
        out = Tensor(list(x.shape), DataType.float32, name or self._nm("cpu"))
        return self._add(Op.Cast, [x], out, {"in_data_type": x.dtype, "out_data_type": DataType.float32})

    def pad(self, x, top, bottom, left, right, name=None):
        n, h, w, c = x.shape
        out = self.fm([n, h + top + bottom, w + left + right, c], x.dtype, name or self._nm("pad"),
                      scale=float(x.quantization.scale_f32), zp=int(x.quantization.zero_point))
        p = self.const([4, 2], DataType.int32, values=[[0, 0], [top, bottom], [left, right], [0, 0]])
        return self._add(Op.Pad, [x, p], out, {})

    def softmax(self, x, beta=1.0, name=None):
        out = self.fm(list(x.shape), x.dtype, name or self._nm("softmax"),
                      scale=1 / 256 if x.dtype == DataType.int8 else 1 / 32768, zp=-128 if x.dtype == DataType.int8 else 0)
        return self._add(Op.Softmax, [x], out, {"beta": np.float32(beta)})

    def resize(self, x, oh, ow, kind="bilinear", align_corners=False, half_pixel_centers=False, name=None):
        n, h, w, c = x.shape
        out = self.fm([n, oh, ow, c], x.dtype, name or self._nm("resize"), scale=float(x.quantization.scale_f32),
                      zp=int(x.quantization.zero_point))
        size = self.const([2], DataType.int32, values=[oh, ow])
        op_type = Op.ResizeBilinear if kind == "bilinear" else Op.ResizeNearestNeighbor
        return self._add(op_type, [x, size], out, {"align_corners": align_corners, "half_pixel_centers": half_pixel_centers})

    def mean(self, x, axes=(1, 2), keep_dims=True, name=None):
        shape = [1 if i in axes else d for i, d in enumerate(x.shape)]
        if not keep_dims:
            shape = [d for i, d in enumerate(x.shape) if i not in axes]
        out = self.fm(shape, x.dtype, name or self._nm("mean"), scale=float(x.quantization.scale_f32),
                      zp=int(x.quantization.zero_point))
        ax = self.const([len(axes)], DataType.int32, values=list(axes))
        return self._add(Op.Mean, [x, ax], out, {"keep_dims": keep_dims})

    def split(self, x, num, axis=3):
        shape = list(x.shape)
        assert shape[axis] % num == 0
        shape[axis] //= num
        outs = [self.fm(shape, x.dtype, self._nm("split"), scale=float(x.quantization.scale_f32),
                        zp=int(x.quantization.zero_point)) for _ in range(num)]
        ax = self.const([], DataType.int32, values=[axis])
        op = Operation(Op.Split, outs[0].name)
        op.version = 1
        op.add_input_tensor(ax)
        op.add_input_tensor(x)
        op.outputs = list(outs)
        for o in outs:
            o.ops = [op]
        op.attrs = {"num_splits": num}
        self.ops.append(op)
        return outs

    def strided_slice(self, x, begin, end, name=None):
        shape = [e - b for b, e in zip(begin, end)]
        out = self.fm(shape, x.dtype, name or self._nm("slice"), scale=float(x.quantization.scale_f32),
                      zp=int(x.quantization.zero_point))
        bt = self.const([4], DataType.int32, values=list(begin))
        et = self.const([4], DataType.int32, values=list(end))
        st = self.const([4], DataType.int32, values=[1, 1, 1, 1])
        attrs = {"begin_mask": 0, "ellipsis_mask": 0, "end_mask": 0, "new_axis_mask": 0, "shrink_axis_mask": 0,
                 "offset": False}
        return self._add(Op.StridedSlice, [x, bt, et, st], out, attrs)

    def tconv(self, x, ofm_depth, k=(3, 3), stride=(2, 2), padding="SAME", name=None):
        from ethosu.vela.operation import Padding

        n, h, w, c = x.shape
        if padding == "SAME":
            oh, ow = h * stride[0], w * stride[1]
        else:
            oh, ow = (h - 1) * stride[0] + k[0], (w - 1) * stride[1] + k[1]
        wt = self.const([ofm_depth, k[0], k[1], c], DataType.int8, scale=0.02)
        wt.quantization.zero_point = np.zeros(ofm_depth, dtype=np.int64)
        wt.quantization.scale_f32 = np.full(ofm_depth, 0.02, dtype=np.float32)
        b = self.const([ofm_depth], DataType.int32, values=self.rng.randint(-100, 100, size=[ofm_depth]), scale=0.001)
        oshape = self.const([4], DataType.int32, values=[n, oh, ow, ofm_depth])
        out = self.fm([n, oh, ow, ofm_depth], x.dtype, name or self._nm("tconv"))
        attrs = {"padding": Padding.SAME if padding == "SAME" else Padding.VALID, "stride_w": stride[1],
                 "stride_h": stride[0]}
        return self._add(Op.Conv2DBackpropInput, [oshape, wt, x, b], out, attrs, version=3)

    def custom(self, inputs, out_shapes, dtype=DataType.int8, code="my_custom_op"):
        """A third party custom operator (always left on the CPU) with any number of outputs"""
        outs = [self.fm(list(shp), dtype, self._nm("custom")) for shp in out_shapes]
        op = Operation(Op.Custom, outs[0].name)
        op.version = 1
        for t in inputs:
            op.add_input_tensor(t)
        op.outputs = list(outs)
        for o in outs:
            o.ops = [op]
        op.attrs = {"custom_code": code, "custom_options": [], "custom_options_format": 0}
        self.ops.append(op)
        return outs

    def build(self, outputs):
        nng = Graph(self.name)
        sg = Subgraph(self.name, PassPlacement.Cpu)
        sg.original_inputs = list(self.inputs)
        sg.input_tensors = list(self.inputs)
        sg.output_tensors = list(outputs)
        ops = [t.ops[0] for t in self.inputs] + self.ops
        # the writer wants to see the weights in TFLite order and unaligned inputs; undo nothing, just wrap in passes
        sg.passes = [types.SimpleNamespace(ops=[op]) for op in ops]
        nng.subgraphs.append(sg)
        buf = tflite_writer.write_tflite_buffer(nng)
        return bytearray(bytes(buf))


# ----------------------------------------------------------------------------------------------------------------------
# Compile
# ----------------------------------------------------------------------------------------------------------------------
class Captured:
    def __init__(self):
        self.sgs = []  # (sg, npu_op_list, npu_op_to_cmd)


def compile_model(
    data,
    accel="ethos-u55-128",
    system_config="Ethos_U55_High_End_Embedded",
    memory_mode="Shared_Sram",
    arena_cache_size=None,
    optimise="Performance",
    allocator=TensorAllocator.HillClimb,
    verbose_schedule=False,
    verbose_hlcs=False,
    verbose_alloc=False,
    cpu_tensor_alignment=16,
):
    DebugDatabase.clean_db()
    TensorAddressMap.clear_address_map()
    CompressedWeightCache.clear()
    sys.setrecursionlimit(4000)
    arch = architecture_features.ArchitectureFeatures(
        vela_config_files=[CONFIG],
        system_config=system_config,
        memory_mode=memory_mode,
        accelerator_config=accel,
        max_blockdep=architecture_features.ArchitectureFeatures.MAX_BLOCKDEP,
        verbose_config=False,
        arena_cache_size=arena_cache_size,
    )
    options = compiler_driver.CompilerOptions(
        tensor_allocator=allocator,
        output_dir="/tmp/seed7/C03/out/tmp",
        verbose_high_level_command_stream=verbose_hlcs,
        verbose_allocation=verbose_alloc,
        cpu_tensor_alignment=cpu_tensor_alignment,
    )
    sched_options = scheduler.SchedulerOptions(
        optimization_strategy=getattr(scheduler.OptimizationStrategy, optimise),
        sram_target=arch.arena_cache_size,
        verbose_schedule=verbose_schedule,
    )
    nng, network_type = model_reader.read_tflite_model(data, model_reader.ModelReaderOptions())
    cap = Captured()
    orig = hl2npu.generate_command_stream

    def wrapper(npu_op_list, arch_, verbose, mem_limits, add_to_debug_db=None, npu_op_to_cmd=None):
        cap.sgs.append((list(npu_op_list), dict(npu_op_to_cmd or {})))
        return orig(npu_op_list, arch_, verbose, mem_limits, add_to_debug_db, npu_op_to_cmd)

    hl2npu.generate_command_stream = wrapper
    try:
        compiler_driver.compiler_driver(nng, arch, options, sched_options, network_type, "/tmp/seed7/C03/out/tmp/m")
    finally:
        hl2npu.generate_command_stream = orig
    return nng, arch, cap


# ----------------------------------------------------------------------------------------------------------------------
# Simulator
# ----------------------------------------------------------------------------------------------------------------------
UNDEF = -1
LUT_REGION = (1 << 8) | 3  # BASE_PTR_INDEX_MEM2MEM


class Violation(Exception):
    pass


class Sim:
    def __init__(self, nng, arch, cap, verbose=False):
        self.nng = nng
        self.arch = arch
        self.cap = cap
        self.verbose = verbose
        self.mem = {}  # region -> int32 array of tags
        self.val = {}  # region -> uint8 values (only meaningful where copied from constants)
        self.row = {}  # region -> logical row (y coordinate in the whole tensor) of the element stored in the byte
        self.shp = {}  # region -> id of the 4D shape the writer used for the tensor
        self.shape_ids = {}
        self.tens_ids = {}  # tensor -> id
        self.tens_list = []
        self.violations = []
        self.log = []

    # -- helpers
    def tid(self, tens):
        if tens not in self.tens_ids:
            self.tens_ids[tens] = len(self.tens_list)
            self.tens_list.append(tens)
        return self.tens_ids[tens]

    def region_of(self, tens):
        return hl2npu.get_region(tens.mem_type, self.arch)

    def ensure(self, region, size):
        size = int(size)
        if region not in self.mem:
            self.mem[region] = np.full(max(size, 16), UNDEF, dtype=np.int32)
            self.val[region] = np.zeros(max(size, 16), dtype=np.uint8)
            self.row[region] = np.full(max(size, 16), -1, dtype=np.int32)
            self.shp[region] = np.full(max(size, 16), -1, dtype=np.int32)
        elif len(self.mem[region]) < size:
            extra = size - len(self.mem[region])
            self.mem[region] = np.concatenate([self.mem[region], np.full(extra, UNDEF, dtype=np.int32)])
            self.val[region] = np.concatenate([self.val[region], np.zeros(extra, dtype=np.uint8)])
            self.row[region] = np.concatenate([self.row[region], np.full(extra, -1, dtype=np.int32)])
            self.shp[region] = np.concatenate([self.shp[region], np.full(extra, -1, dtype=np.int32)])

    def report(self, msg):
        self.violations.append(msg)
        if self.verbose:
            print("VIOLATION:", msg)

    def fm_addresses(self, fm):
        """Byte addresses of all elements of the feature map box, as seen by the hardware"""
        h, w, c = fm.shape.height, fm.shape.width, fm.shape.depth
        if h == 0 or w == 0 or c == 0:
            return np.zeros(0, dtype=np.int64), np.zeros(0, dtype=np.int32)
        esz = fm.data_type.size_in_bytes()
        tiles = fm.tiles
        ys = np.arange(h)
        xs = np.arange(w)
        cs = np.arange(c)
        Y, X = np.meshgrid(ys, xs, indexing="ij")
        base = np.zeros((h, w), dtype=np.int64)
        ty = np.zeros((h, w), dtype=np.int64)
        tx = np.zeros((h, w), dtype=np.int64)
        left = X < tiles.width_0
        top0 = Y < tiles.height_0
        top1 = Y < tiles.height_1
        m0 = left & top0
        m1 = (~left) & top1
        m2 = left & (~top0)
        m3 = (~left) & (~top1)
        for m, idx, yo, xo in (
            (m0, 0, 0, 0),
            (m1, 1, 0, tiles.width_0),
            (m2, 2, tiles.height_0, 0),
            (m3, 3, tiles.height_1, tiles.width_0),
        ):
            base[m] = tiles.addresses[idx]
            ty[m] = Y[m] - yo
            tx[m] = X[m] - xo
        sy, sx, sc = fm.strides.height, fm.strides.width, fm.strides.depth
        hw = base + ty * sy + tx * sx
        if fm.layout == NpuLayout.NHWC:
            coff = cs * sc
        else:
            coff = (cs // 16) * sc + (cs % 16) * esz
        addr = hw[:, :, None] + coff[None, None, :]
        rows = np.broadcast_to(Y[:, :, None], addr.shape).reshape(-1).astype(np.int32)
        addr = addr.reshape(-1)
        if esz > 1:
            addr = (addr[:, None] + np.arange(esz)[None, :]).reshape(-1)
            rows = np.repeat(rows, esz)
        return addr, rows

    def shape_id(self, shape4d):
        key = tuple(int(v) for v in shape4d.as_list())
        if key not in self.shape_ids:
            self.shape_ids[key] = len(self.shape_ids)
        return self.shape_ids[key]

    @staticmethod
    def box_y0(box):
        return int(box.start_coord[-3]) if len(box.start_coord) >= 3 else 0

    def check_read(self, what, op_desc, region, addrs, expect_tens, rows=None, shape_id=None):
        if isinstance(addrs, tuple):
            addrs, local_rows = addrs
            if rows is not None:
                rows = local_rows + rows
        if len(addrs) == 0:
            return
        self.ensure(region, addrs.max() + 1)
        tags = self.mem[region][addrs]
        if region == 0:
            # constant in permanent storage: must be inside the serialised flash image and hold the tensor's values
            if (tags == UNDEF).any():
                self.report(f"{op_desc}: {what} '{expect_tens.name}' reads constant bytes outside the flash image")
            elif expect_tens.values is not None and expect_tens.address is not None:
                want = np.frombuffer(np.ascontiguousarray(expect_tens.values).tobytes(), dtype=np.uint8)
                have = self.val[0][expect_tens.address : expect_tens.address + len(want)]
                if len(have) != len(want) or not np.array_equal(have, want):
                    self.report(
                        f"{op_desc}: {what} '{expect_tens.name}' is a constant whose bytes in the flash image "
                        f"differ from its values ({int((have != want).sum()) if len(have) == len(want) else '?'} bytes)"
                    )
            return
        exp = self.accepted_ids(expect_tens)
        bad_undef = tags == UNDEF
        bad_foreign = ~np.isin(tags, list(exp)) & ~bad_undef
        if bad_undef.any():
            a = addrs[bad_undef]
            self.report(
                f"{op_desc}: {what} '{expect_tens.name}' reads {bad_undef.sum()} undefined bytes "
                f"(region {region}, {a.min():#x}..{a.max():#x})"
            )
        if bad_foreign.any():
            a = addrs[bad_foreign]
            owners = sorted(set(self.tens_list[t].name for t in np.unique(tags[bad_foreign])))
            self.report(
                f"{op_desc}: {what} '{expect_tens.name}' reads {bad_foreign.sum()} bytes last written for {owners} "
                f"(region {region}, {a.min():#x}..{a.max():#x})"
            )
        if rows is not None and shape_id is not None:
            ok = ~bad_undef & ~bad_foreign & (self.shp[region][addrs] == shape_id)
            stale = ok & (self.row[region][addrs] != rows)
            if stale.any():
                want = np.unique(rows[stale])
                have = np.unique(self.row[region][addrs][stale])
                self.report(
                    f"{op_desc}: {what} '{expect_tens.name}' expects rows {want.tolist()[:6]} but the bytes hold rows "
                    f"{have.tolist()[:6]} of the tensor ({int(stale.sum())} bytes; overwritten or stale)"
                )

    def add_alias(self, dst, src):
        """dst is another name for the bytes of src (elided copy, in-place reshape, DMA copy of a feature map)"""
        self.alias_eq.setdefault(dst.equivalence_id, set()).add(src.equivalence_id)

    def accepted_ids(self, tens):
        # the tensor itself, clones with the same equivalence id (CPU/NPU boundary) and, transitively, the tensors it
        # was renamed from
        self.tid(tens)
        eqs = {tens.equivalence_id}
        todo = [tens.equivalence_id]
        while todo:
            e = todo.pop()
            for src in self.alias_eq.get(e, ()):
                if src not in eqs:
                    eqs.add(src)
                    todo.append(src)
        return {i for t, i in self.tens_ids.items() if t.equivalence_id in eqs}

    # -- execution
    def define_tensor(self, tens):
        if tens.address is None:
            return
        region = self.region_of(tens)
        size = tens.storage_size()
        self.ensure(region, tens.address + size)
        self.mem[region][tens.address : tens.address + size] = self.tid(tens)
        self.row[region][tens.address : tens.address + size] = -1
        self.shp[region][tens.address : tens.address + size] = -1

    def run(self):
        nng = self.nng
        root = nng.get_root_subgraph()
        self.alias_eq = {}
        # flash image
        flash = None
        for sg in nng.subgraphs:
            if sg.placement == PassPlacement.Npu and sg.flash_tensor is not None:
                flash = sg.flash_tensor
        if flash is not None and flash.values is not None:
            self.ensure(0, len(flash.values))
            self.mem[0][: len(flash.values)] = 1 << 30
            self.val[0][: len(flash.values)] = flash.values
        # network inputs and variables
        for tens in root.input_tensors:
            self.define_tensor(tens)
        npu_sgs = [sg for sg in nng.subgraphs if sg.placement == PassPlacement.Npu]
        caps = dict(zip(npu_sgs, self.cap.sgs))
        for cps in root.cascaded_passes:
            for ps in cps.passes:
                for op in ps.ops:
                    if op.type == Op.CustomNpuOp:
                        callee = op.attrs["subgraph"]
                        self.run_npu_sg(callee, *caps[callee])
                    elif op.type in (Op.Const, Op.Placeholder, Op.SubgraphInput):
                        for t in op.outputs:
                            if t.mem_type in (MemType.Scratch, MemType.Scratch_fast):
                                self.define_tensor(t)
                    elif (
                        op.type in (Op.Reshape, Op.QuantizedReshape, Op.Squeeze, Op.ExpandDims)
                        and op.outputs[0].address is not None
                        and op.inputs[0].address == op.outputs[0].address
                        and self.region_of(op.inputs[0]) == self.region_of(op.outputs[0])
                    ):
                        # in-place reshape on the CPU: the output is another name for the input's bytes
                        src, dst = op.inputs[0], op.outputs[0]
                        self.add_alias(dst, src)
                    else:
                        # CPU operator: reads inputs, defines outputs
                        for t in op.inputs:
                            if t is not None and t.mem_type in (MemType.Scratch, MemType.Scratch_fast):
                                if t.address is None:
                                    continue
                                region = self.region_of(t)
                                n = t.storage_size()
                                addrs = np.arange(t.address, t.address + max(1, t.elements() * t.element_size()))
                                self.check_read("input", f"CPU op {op.name}", region, addrs, t)
                        for t in op.outputs:
                            if t.mem_type in (MemType.Scratch, MemType.Scratch_fast):
                                self.define_tensor(t)
        return self.violations

    def run_npu_sg(self, sg, npu_ops, npu_op_to_cmd):
        cmds = list(sg.high_level_command_stream)
        op_iter = iter(npu_ops)
        idx = 0
        for cmd in cmds:
            if isinstance(cmd, NOP):
                self.do_nop(cmd)
                continue
            if isinstance(cmd, NpuStripe) and cmd.ps.npu_block_type == NpuBlockType.Default:
                continue
            npu_op = next(op_iter)
            assert npu_op_to_cmd[npu_op] is cmd
            desc = f"[{sg.name} #{idx}] {type(npu_op).__name__} {getattr(npu_op, 'name', '')}"
            idx += 1
            if isinstance(npu_op, NpuDmaOperation):
                self.do_dma(desc, npu_op, cmd)
            else:
                self.do_block(desc, npu_op, cmd, sg)

    def do_nop(self, cmd):
        src, dst = cmd.in_tensor, cmd.out_tensor
        # an elided copy: the destination must already hold the source's bytes
        region = self.region_of(dst)
        n = max(1, dst.elements() * dst.element_size())
        addrs = np.arange(dst.address, dst.address + n)
        self.check_read("elided copy source", f"NOP {dst.name}", region, addrs, src)
        self.add_alias(dst, src)

    def do_dma(self, desc, npu_op, cmd):
        src, dest = npu_op.src, npu_op.dest
        self.ensure(src.region, src.address + src.length)
        self.ensure(dest.region, dest.address + dest.length)
        stags = self.mem[src.region][src.address : src.address + src.length]
        if src.region == 0:
            if (stags == UNDEF).any():
                self.report(f"{desc}: DMA source outside the flash image")
        else:
            addrs = np.arange(src.address, src.address + src.length)
            # 16 byte rounding of the length may touch bytes behind the tensor; check the real extent only
            real = max(1, cmd.in_tensor.elements() * cmd.in_tensor.element_size())
            self.check_read("DMA source", desc, src.region, addrs[:real], cmd.in_tensor)
        self.mem[dest.region][dest.address : dest.address + dest.length] = self.tid(cmd.out_tensor)
        self.val[dest.region][dest.address : dest.address + dest.length] = self.val[src.region][
            src.address : src.address + src.length
        ]
        self.row[dest.region][dest.address : dest.address + dest.length] = -1
        self.shp[dest.region][dest.address : dest.address + dest.length] = -1
        if src.region != 0:
            self.add_alias(cmd.out_tensor, cmd.in_tensor)

    def do_block(self, desc, npu_op, cmd, sg):
        # reads: IFM, IFM2
        ps = cmd.ps
        if npu_op.ifm is not None:
            from ethosu.vela.operation import Padding

            # with TILE padding the tile base addresses are redirected on purpose (edge rows / columns are read twice)
            tile_padding = ps.primary_op.attrs.get("padding", None) == Padding.TILE
            self.check_read(
                "IFM", desc, npu_op.ifm.region, self.fm_addresses(npu_op.ifm), cmd.ifm_tensor,
                rows=None if tile_padding else self.box_y0(cmd.ifm_box), shape_id=self.shape_id(ps.ifm_shapes[0]),
            )
        if getattr(npu_op, "ifm2", None) is not None and npu_op.ifm2_scalar is None:
            self.check_read(
                "IFM2", desc, npu_op.ifm2.region, self.fm_addresses(npu_op.ifm2), cmd.ifm2_tensor,
                rows=self.box_y0(cmd.ifm2_box), shape_id=self.shape_id(ps.ifm_shapes[1]),
            )
        # weights and scales: compare the bytes the operation sees with the encoded stream of this depth slice
        if cmd.weight_tensor is not None and not npu_op.weights:
            self.report(f"{desc}: the operation has a weight tensor but no weight address range was generated")
        if cmd.weight_tensor is not None and npu_op.weights:
            wt = cmd.weight_tensor
            src = wt.src_tensor if wt.src_tensor is not None else wt
            core = 0
            for c in range(self.arch.ncores):
                key = WeightKey(c, cmd.weight_box.start_coord[-1])
                if key not in src.encoded_ranges:
                    continue
                rng = src.encoded_ranges[key]
                w_addr = npu_op.weights[core]
                expected = np.frombuffer(
                    bytes(src.buffer[rng.offset + rng.weight_offset : rng.offset + rng.weight_offset + rng.weight_bytes]),
                    dtype=np.uint8,
                )
                self.ensure(w_addr.region, w_addr.address + len(expected))
                tags = self.mem[w_addr.region][w_addr.address : w_addr.address + len(expected)]
                got = self.val[w_addr.region][w_addr.address : w_addr.address + len(expected)]
                if (tags == UNDEF).any():
                    self.report(f"{desc}: weights (core {c}) read {int((tags == UNDEF).sum())} undefined bytes")
                elif w_addr.region != 0 and (tags != self.tid(wt)).any():
                    owners = sorted(set(self.tens_list[t].name for t in np.unique(tags[tags != self.tid(wt)])))
                    self.report(f"{desc}: weight buffer '{wt.name}' holds bytes written for {owners}")
                elif not np.array_equal(got, expected):
                    nbad = int((got != expected).sum())
                    self.report(
                        f"{desc}: weights of depth slice {key.depth} (core {c}) differ from the encoded stream in "
                        f"{nbad} of {len(expected)} bytes"
                    )
                if npu_op.biases:
                    b_addr = npu_op.biases[core]
                    if cmd.scale_tensor is not None:
                        st = cmd.scale_tensor
                        srng = st.encoded_ranges[key]
                        exp_b = np.frombuffer(
                            bytes(st.buffer[srng.offset : srng.offset + srng.scale_bytes]), dtype=np.uint8
                        )
                    else:
                        exp_b = np.frombuffer(bytes(src.buffer[rng.offset : rng.offset + rng.scale_bytes]), dtype=np.uint8)
                    self.ensure(b_addr.region, b_addr.address + len(exp_b))
                    tags = self.mem[b_addr.region][b_addr.address : b_addr.address + len(exp_b)]
                    got = self.val[b_addr.region][b_addr.address : b_addr.address + len(exp_b)]
                    if (tags == UNDEF).any():
                        self.report(f"{desc}: scales (core {c}) read undefined bytes")
                    elif not np.array_equal(got, exp_b):
                        self.report(f"{desc}: scales of depth slice {key.depth} (core {c}) differ from the encoded stream")
                core += 1
        # LUT
        act = npu_op.activation
        if act is not None and act.op_type == NpuActivationOp.TABLE_LOOKUP:
            lut_tens = [t for t in ps.primary_op.inputs if t is not None and t.purpose == TensorPurpose.LUT][0]
            expected = np.frombuffer(lut_tens.values.tobytes(), dtype=np.uint8)
            slot_size = len(expected)
            a = self.arch.shram_lut_address + act.lookup_table_index * 256
            self.ensure(LUT_REGION, a + slot_size)
            tags = self.mem[LUT_REGION][a : a + slot_size]
            got = self.val[LUT_REGION][a : a + slot_size]
            if (tags == UNDEF).any():
                self.report(f"{desc}: lookup table slot {act.lookup_table_index} has never been loaded")
            elif not np.array_equal(got, expected):
                self.report(f"{desc}: lookup table slot {act.lookup_table_index} does not hold the table of this operator")
        else:
            if self.arch.shram_reserved_unused_banks == 0 and LUT_REGION in self.mem:
                # without spare SHRAM banks an operation that does not use a LUT uses the LUT banks for accumulators
                self.mem[LUT_REGION][:] = UNDEF
        # write OFM
        addrs, rows = self.fm_addresses(npu_op.ofm)
        if len(addrs):
            r = npu_op.ofm.region
            self.ensure(r, addrs.max() + 1)
            self.mem[r][addrs] = self.tid(cmd.ofm_tensor)
            po = ps.primary_op
            if list(po.ofm_stride_multiplier) != [1, 1, 1] or any(po.tile_base_offsets_ofm):
                # interleaved writes (e.g. 2x bilinear resize): the box rows are not the rows of the tensor
                self.row[r][addrs] = -1
                self.shp[r][addrs] = -1
            else:
                self.row[r][addrs] = rows + self.box_y0(cmd.ofm_box)
                self.shp[r][addrs] = self.shape_id(ps.ofm_shapes[0])


def simulate(nng, arch, cap, verbose=False):
    sim = Sim(nng, arch, cap, verbose)
    return sim.run()


# ----------------------------------------------------------------------------------------------------------------------
# Scenario
# ----------------------------------------------------------------------------------------------------------------------

# An int8 TANH (256 byte table, SHRAM slot 0) followed by two SOFTMAX operators on the same tensor. The exp table of an
# int8 softmax has 256 uint32 entries = 1 KiB; lut.optimize_high_level_cmd_stream() places it at the 1 KiB aligned
# address with the fewest resident tables, i.e. at lut_start + 1024, and gives the first softmax the index
# (address - lut_start) // 256 = 4 (the unit of NPU_SET_ACTIVATION's TABLE_n is 256 bytes). The second softmax needs an
# equal table; it is found in the LUT state, its DMA is dropped and the index is taken from lut.get_lut_index(), which
# divides by the table's own size: (address - lut_start) // 1024 = 1. The second softmax therefore looks its values up
# in slot 1 (lut_start + 256), where no table (or another operator's table) has been loaded.
KWARGS = dict(accel="ethos-u55-128")


def build_model():
    b = Builder()
    x = b.input([1, 4, 4, 16])
    t = b.unary("tanh", x)
    s1 = b.softmax(t)
    s2 = b.softmax(t)
    return b.build([s1, s2])


def describe(nng, arch, cap):
    print("LUT area starts at SHRAM address", arch.shram_lut_address)
    for sg in nng.subgraphs[1:]:
        for i, c in enumerate(sg.high_level_command_stream):
            if isinstance(c, DMA) and c.out_tensor.purpose == TensorPurpose.LUT:
                print(f"  cmd {i}: DMA of table {c.out_tensor.name} to SHRAM {c.out_tensor.address} ({c.out_tensor.storage_size()} bytes)")
            elif isinstance(c, NpuStripe) and c.ps.primary_op.activation_lut is not None:
                po = c.ps.primary_op
                print(f"  cmd {i}: {po.name} uses TABLE_{po.activation.lut_index}")


def main():
    import contextlib
    import io

    buf = io.StringIO()
    with contextlib.redirect_stdout(buf):
        nng, arch, cap = compile_model(build_model(), **KWARGS)
    describe(nng, arch, cap)
    violations = simulate(nng, arch, cap)
    print(f"{sum(len(s[0]) for s in cap.sgs)} NPU operations simulated, {len(violations)} violation(s)")
    for v in violations[:8]:
        print("  " + v)
    print("VIOLATION REPRODUCED (unmodified tree)" if violations else "no violation")
    return 1 if violations else 0


if __name__ == "__main__":
    sys.exit(main())

# Observation 1 (unchanged tree): npu_find_block_configs offers a block configuration that
# npu_generate_register_command_stream rejects ("block_config ... does not fit").
#
# The query decides "the operation is scaled" with  tensor.quantization is not None  (api.npu_find_block_configs),
# the generator with  quantization is not None and quantization.scale_f32 is not None  (get_arch_block_config).
# For a 16-bit convolution whose feature maps carry NpuQuantization(scale_f32=None, zero_point=0) - legal, scale_f32 is
# Optional - the query therefore sizes 40-bit accumulators and the generator 32-bit ones.  On Ethos-U55-128 the bank
# granule is 12 for 40-bit and 8 for 32-bit accumulators, so a 32-bit buffer can need MORE banks than the 40-bit one:
# block 12x6x16: 32-bit 4608 B -> 5 banks x2 = 10 -> 16 ; 40-bit 5760 B -> 6 banks x2 = 12 -> 12.
# With the IFM buffer of 8 banks the block fits only in the query's view (2 + 8 + 12 <= 22 but 2 + 8 + 16 > 22).
import os
import sys

sys.path.insert(0, os.path.dirname(os.path.abspath(__file__)))
sys.path.insert(0, os.path.dirname(os.path.dirname(os.path.abspath(__file__))))

import c15ref  # noqa: E402
from ethosu.vela.api import npu_find_block_configs  # noqa: E402
from ethosu.vela.api import npu_generate_register_command_stream  # noqa: E402
from ethosu.vela.api import NpuAccelerator  # noqa: E402
from ethosu.vela.api import NpuAddressRange  # noqa: E402
from ethosu.vela.api import NpuBlockTraversal  # noqa: E402
from ethosu.vela.api import NpuConv2DOperation  # noqa: E402
from ethosu.vela.api import NpuDataType  # noqa: E402
from ethosu.vela.api import NpuKernel  # noqa: E402
from ethosu.vela.api import NpuPadding  # noqa: E402
from ethosu.vela.api import NpuQuantization  # noqa: E402

accel = NpuAccelerator.Ethos_U55_128
quant = NpuQuantization(scale_f32=None, zero_point=0)
op = NpuConv2DOperation()
op.ifm = c15ref.feature_map((24, 24, 16), 0x0, NpuDataType.INT16, quant)
op.ofm = c15ref.feature_map((24, 24, 16), 0x40000, NpuDataType.INT16, quant)
op.kernel = NpuKernel(1, 1)
op.padding = NpuPadding(top=0, left=0, right=0, bottom=0)
op.block_traversal = NpuBlockTraversal.DEPTH_FIRST
op.weights = [NpuAddressRange(region=0, address=0, length=1024)]
op.biases = [NpuAddressRange(region=0, address=0x2000, length=160)]

rejected = []
configs = npu_find_block_configs(op, accel)
for cfg in configs:
    op.block_config = cfg
    try:
        npu_generate_register_command_stream([op], accel)
    except AssertionError as e:
        rejected.append((cfg, str(e)))

if rejected:
    print(f"{len(rejected)} of {len(configs)} offered block configurations are rejected by the generator, e.g.")
    for cfg, msg in rejected[:5]:
        print(f"  {cfg}: {msg}")
    sys.exit(1)
print("ok")

# Observation on the UNMODIFIED tree: two chained split/slice reads are not composed.
#
# input[1,32,8,16] -> SLICE(begin row 3, 26 rows) -> SPLIT(axis H, 2 x 13 rows) -> MAX_POOL 1x1 on each half -> outputs
#
# Both SLICE and SPLIT are turned into "read offsets" of their consumer.  The half that the second MAX_POOL reads starts
# at input row 3 + 13 = 16, but the NPU operation that Vela generates reads the rows 3..15 (the offset of the SPLIT is
# overwritten by the offset of the SLICE in graph_optimiser_util.move_splitsliceread_to_consumer), so the second output
# is computed from the wrong half of the input (it is identical to the first output).
import os
import sys

sys.path.insert(0, os.getcwd())
sys.path.insert(0, os.path.dirname(os.path.abspath(__file__)))
import c10lib as L  # noqa: E402


def build(first):
    net = L.Net(32, 8, 16, "obs1_" + first)
    if first == "slice":
        net.slice_([0, 3, 0, 0], [1, 26, 8, 16])
    else:
        net.strided_slice([0, 3, 0, 0], [1, 29, 8, 16])
    outs = net.split(2, 1)
    net.cur = outs[0]
    a = net.pool("max", 1, 1, "VALID")
    net.cur = outs[1]
    b = net.pool("max", 1, 1, "VALID")
    return net, [a, b]


def slice_slice():
    """input -> SLICE(rows 2.., cols 0..) -> SLICE(rows 0.., cols 1..) -> MAX_POOL 1x1: the second offset is lost"""
    net = L.Net(47, 16, 4, "obs1_slice_slice")
    net.slice_([0, 2, 0, 0], [1, 45, 16, 4])
    net.slice_([0, 0, 1, 0], [1, 40, 13, 4])
    out = net.pool("max", 1, 1, "VALID")
    res = L.compile_net(net, L.CONFIGS["size55"], outputs=[out])
    assert res.rc == 0, res.stdout
    bad = 0
    for stream in res.streams:
        for npu_op, cmd in stream:
            if isinstance(cmd, L.NpuStripe):
                got = [int(v) for v in cmd.ifm_box.start_coord], [int(v) for v in cmd.ifm_box.end_coord]
                want = [0, 2, 1, 0], [1, 42, 14, 4]
                status = "ok" if got == want else "WRONG"
                bad += got != want
                print(f"slice_slice    {cmd.ps.primary_op.name}: reads box {got} of {cmd.ifm_tensor.name}, the network reads {want}: {status}")
    return bad


def main():
    bad = slice_slice()
    for first in ("slice", "strided_slice"):
        net, outs = build(first)
        res = L.compile_net(net, L.CONFIGS["size55"], outputs=outs)
        assert res.rc == 0, res.stdout
        expected = {outs[0].name: (3, 16), outs[1].name: (16, 29)}
        for stream in res.streams:
            for npu_op, cmd in stream:
                if not isinstance(cmd, L.NpuStripe):
                    continue
                name = cmd.ofm_tensor.name
                for key, rows in expected.items():
                    if name.startswith(key):
                        got = (int(cmd.ifm_box.start_coord[1]), int(cmd.ifm_box.end_coord[1]))
                        status = "ok" if got == rows else "WRONG"
                        bad += got != rows
                        print(
                            f"{first:14s} {cmd.ps.primary_op.name}: reads rows {got} of {cmd.ifm_tensor.name}, "
                            f"the network reads rows {rows}: {status}"
                        )
    print("VIOLATION (unmodified tree)" if bad else "no violation")
    return 1 if bad else 0


if __name__ == "__main__":
    sys.exit(main())

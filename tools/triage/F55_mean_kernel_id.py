"""C08 observation 1 (UNMODIFIED tree): two MEAN operators whose reduction windows have the same number of elements
but a different shape (3x3 and 1x9), on the same number of channels, share ONE cached encoded weight tensor.

convert_mean_to_depthwise_conv (tflite_graph_optimiser.py) gives the all-ones depthwise kernel a value-based id:
    weight_tensor.equivalence_id = create_equivalence_id(tuple(weights_1D)); weight_tensor.value_id = ...equivalence_id
weights_1D only depends on the NUMBER of kernel elements (h*w*c), not on the kernel shape, so the 3x3 and the 1x9
kernel get the same value_id.  The CompressedWeightCache key (block type, block depth, depth slices, dilation,
value_id) is then identical and the second operator reuses the stream encoded for the other kernel shape.  For a
depthwise kernel the stream pads every 8x8 sub-kernel to a multiple of 4 elements, so the position of the zero
padding depends on the kernel shape (1x9 = sub-kernels 1x8 + 1x1, 3x3 = one sub-kernel of 9 -> 12 elements):
the reused stream is NOT what a fresh encoding would produce and the hardware would sum the wrong elements for
channels 8..15.

Exits 1 (prints FAIL) when the violation is present, 0 otherwise.
"""
import os
import sys
import tempfile
import types

sys.path.insert(0, os.getcwd())

import numpy as np  # noqa: E402

from ethosu import mlw_codec  # noqa: E402
from ethosu.vela import compiler_driver  # noqa: E402
from ethosu.vela import high_level_command_to_npu_op as h2n  # noqa: E402
from ethosu.vela import model_reader  # noqa: E402
from ethosu.vela import scheduler  # noqa: E402
from ethosu.vela import tflite_writer  # noqa: E402
from ethosu.vela import weight_compressor as wc  # noqa: E402
from ethosu.vela.api import NpuBlockTraversal  # noqa: E402
from ethosu.vela.api import NpuConv2DOperation  # noqa: E402
from ethosu.vela.api import NpuConvDepthWiseOperation  # noqa: E402
from ethosu.vela.architecture_features import ArchitectureFeatures  # noqa: E402
from ethosu.vela.data_type import DataType  # noqa: E402
from ethosu.vela.debug_database import DebugDatabase  # noqa: E402
from ethosu.vela.high_level_command_stream import DMA  # noqa: E402
from ethosu.vela.nn_graph import Graph  # noqa: E402
from ethosu.vela.nn_graph import PassPlacement  # noqa: E402
from ethosu.vela.nn_graph import Subgraph  # noqa: E402
from ethosu.vela.operation import Op  # noqa: E402
from ethosu.vela.operation import Operation  # noqa: E402
from ethosu.vela.operation import Padding  # noqa: E402
from ethosu.vela.tensor import create_const_tensor  # noqa: E402
from ethosu.vela.tensor import QuantizationParameters  # noqa: E402
from ethosu.vela.tensor import Tensor  # noqa: E402
from ethosu.vela.tensor import TensorAddressMap  # noqa: E402
from ethosu.vela.tensor import TensorPurpose  # noqa: E402
from ethosu.vela.tensor_allocation import TensorAllocator  # noqa: E402


def round_up(a, b):
    return ((a + b - 1) // b) * b


def hw_stream_order(ohwi, ifm_ublock, ofm_ublock, ofm_block_depth, is_depthwise, is_partkernel):
    """Order in which the hardware consumes 8-bit weights of one core (undilated kernels, 8x8 sub-kernels)."""
    ofm_depth, kh, kw, ifm_depth = ohwi.shape
    out = []
    ifm_block_depth = 16 if is_partkernel else 32
    for ofm_block_z in range(0, ofm_depth, ofm_block_depth):
        clipped_ofm = min(ofm_block_depth, ofm_depth - ofm_block_z)
        for ifm_block_z in range(0, 1 if is_depthwise else ifm_depth, ifm_block_depth):
            if is_depthwise:
                clipped_ifm = ifm_ublock
            elif is_partkernel:
                clipped_ifm = min(ifm_block_depth, ifm_depth - ifm_block_z)
            else:
                clipped_ifm = ifm_block_depth
            for sky in range(0, kh, 8):
                sub_h = min(kh - sky, 8)
                for skx in range(0, kw, 8):
                    sub_w = min(kw - skx, 8)
                    n_el = sub_w * sub_h
                    if is_partkernel or is_depthwise:
                        n_el = round_up(n_el, 4)
                    outer = clipped_ifm if is_partkernel else 1
                    inner = 1 if is_partkernel else clipped_ifm
                    for ifm_outer in range(0, outer, ifm_ublock):
                        for ofm_ublk in range(0, clipped_ofm, ofm_ublock):
                            for element in range(n_el):
                                kx, ky = element % sub_w, element // sub_w
                                for ifm_inner in range(0, inner, ifm_ublock):
                                    for oz in range(ofm_ublock):
                                        for iz in range(1 if is_depthwise else ifm_ublock):
                                            ifm_z = ifm_block_z + ifm_inner + ifm_outer + iz
                                            ofm_z = ofm_block_z + ofm_ublk + oz
                                            if ifm_z < ifm_depth and ofm_z < ofm_depth and ky < sub_h:
                                                out.append(int(ohwi[ofm_z, sky + ky, skx + kx, ifm_z]))
                                            else:
                                                out.append(0)
    return out


def qp(scale, zp):
    q = QuantizationParameters()
    q.scale_f32 = scale
    q.zero_point = zp
    return q


def compile_model(data, accelerator):
    DebugDatabase.clean_db()
    TensorAddressMap.clear_address_map()
    wc.CompressedWeightCache.clear()
    arch = ArchitectureFeatures(
        vela_config_files=None,
        system_config=ArchitectureFeatures.DEFAULT_CONFIG,
        memory_mode=ArchitectureFeatures.DEFAULT_CONFIG,
        accelerator_config=accelerator,
        max_blockdep=ArchitectureFeatures.MAX_BLOCKDEP,
        verbose_config=False,
        arena_cache_size=None,
    )
    with tempfile.TemporaryDirectory(prefix="c08_") as outdir:
        options = compiler_driver.CompilerOptions(tensor_allocator=TensorAllocator.HillClimb, output_dir=outdir)
        sched_options = scheduler.SchedulerOptions(
            optimization_strategy=scheduler.OptimizationStrategy.Performance,
            sram_target=arch.arena_cache_size,
            verbose_schedule=False,
        )
        nng, network_type = model_reader.read_tflite_model(bytearray(data), model_reader.ModelReaderOptions())
        compiler_driver.compiler_driver(nng, arch, options, sched_options, network_type, os.path.join(outdir, "m"))
    return nng, arch


def weights_seen_by_npu(nng, arch):
    """Replays the weight DMAs and yields (cmd, npu_op, core, channels, decoded weight stream, encoded tensor name)
    for every convolution / depthwise stripe of the compiled network."""
    for sg in nng.subgraphs:
        if sg.placement != PassPlacement.Npu:
            continue
        flash = bytearray(sg.flash_tensor.values.astype(np.uint8).tobytes())
        mem = {}

        def region(idx, need, mem=mem):
            m = mem.setdefault(idx, bytearray())
            if len(m) < need:
                m.extend(b"\xa5" * (need - len(m)))
            return m

        for cmd in sg.high_level_command_stream:
            npu_op = h2n.convert_command_to_npu_op(cmd, arch)
            if isinstance(cmd, DMA):
                if cmd.in_tensor.purpose != TensorPurpose.Weights:
                    continue
                src, dst = npu_op.src, npu_op.dest
                if src.region not in mem:
                    mem[src.region] = bytearray(flash)
                data = region(src.region, src.address + src.length)[src.address : src.address + src.length]
                region(dst.region, dst.address + dst.length)[dst.address : dst.address + dst.length] = data
                continue
            if not isinstance(npu_op, (NpuConv2DOperation, NpuConvDepthWiseOperation)):
                continue
            if cmd.weight_tensor.src_tensor is None and npu_op.weights[0].region not in mem:
                mem[npu_op.weights[0].region] = bytearray(flash)
            start, end = int(cmd.ofm_box.start_coord[-1]), int(cmd.ofm_box.end_coord[-1])
            encoded = cmd.weight_tensor.src_tensor or cmd.weight_tensor
            for core in range(len(npu_op.weights)):
                chans = list(range(start + core, end, arch.ncores))
                wr = npu_op.weights[core]
                wm = region(wr.region, wr.address + wr.length)
                decoded = list(mlw_codec.decode(bytearray(wm[wr.address : wr.address + wr.length])))
                yield cmd, npu_op, core, chans, decoded, encoded.name



def build_two_means(shape_a, axis_a, shape_b, axis_b):
    sg = Subgraph()
    nng = Graph()
    ops, ins, outs = [], [], []
    for nm, shp, axis in (("A", shape_a, axis_a), ("B", shape_b, axis_b)):
        ifm = Tensor(list(shp), DataType.int8, "in" + nm)
        ifm.quantization = qp(np.float32(0.05), 0)
        ph = Operation(Op.Placeholder, "ph" + nm)
        ph.set_output_tensor(ifm)
        ax = create_const_tensor("axis" + nm, [len(axis)], DataType.int32, list(axis))
        ofm = Tensor([1 if i in axis else s for i, s in enumerate(shp)], DataType.int8, "mean" + nm + "_out")
        ofm.quantization = qp(np.float32(0.05), 0)
        op = Operation(Op.Mean, "mean" + nm)
        op.add_input_tensor(ifm)
        op.add_input_tensor(ax)
        op.set_output_tensor(ofm)
        op.attrs = {"keep_dims": True}
        ops += [ph, op]
        ins.append(ifm)
        outs.append(ofm)
    sg.input_tensors = ins
    sg.original_inputs = ins
    sg.output_tensors = outs
    sg.passes = [types.SimpleNamespace(ops=ops)]
    nng.subgraphs.append(sg)
    return bytes(tflite_writer.write_tflite_buffer(nng))


def main():
    # MEAN over H,W of a 1x3x3x16 tensor and MEAN over W of a 1x1x9x16 tensor
    data = build_two_means((1, 3, 3, 16), (1, 2), (1, 1, 9, 16), (2,))
    bad = 0
    for accelerator in ("ethos-u55-128", "ethos-u65-256"):
        nng, arch = compile_model(data, accelerator)
        cfg = ArchitectureFeatures.accelerator_configs[arch.accelerator_config]
        for cmd, npu_op, core, chans, decoded, encoded_name in weights_seen_by_npu(nng, arch):
            if not isinstance(npu_op, NpuConvDepthWiseOperation):
                continue
            kh, kw = npu_op.kernel.height, npu_op.kernel.width
            ohwi = np.ones((len(chans), kh, kw, 1), dtype=np.int64)  # a mean kernel is all ones
            expected = hw_stream_order(
                ohwi, cfg.ifm_ublock.depth, cfg.ofm_ublock.depth, npu_op.block_config.depth, True, False
            )
            ok = decoded[: len(expected)] == expected and not any(decoded[len(expected) :])
            bad += not ok
            print(
                f"{accelerator}: {cmd.ps.primary_op.name} kernel {kh}x{kw} channels {chans[0]}..{chans[-1]} "
                f"uses '{encoded_name}': {'ok' if ok else 'WRONG weight stream for this kernel shape'}"
            )
    if bad:
        print("FAIL: %d depthwise stripes read a weight stream encoded for a different kernel shape" % bad)
        return 1
    print("PASS")
    return 0


if __name__ == "__main__":
    sys.exit(main())

"""C16 observation 3 (unmodified tree): SPLIT_V whose size_splits operand is not constant.  No listed constraint asks for a
constant size_splits tensor (the only SPLIT_V specific one is 'Only one size is allowed to be inferred'), so the operator
passes the semantic and the supported-operator check; rewrite_split_ops -> Operation.get_split_inputs_axis then fails its
'assert len(size_tens.ops) == 1 and size_tens.ops[0].type == Op.Const'.  Exits 1 if the problem reproduces.
"""
import contextlib
import io
import os
import re
import sys
import tempfile

sys.path.insert(0, os.getcwd())

import numpy as np  # noqa: E402

from ethosu.vela import vela  # noqa: E402
from ethosu.vela.data_type import DataType  # noqa: E402
from ethosu.vela.nn_graph import Graph, Pass, PassPlacement, Subgraph  # noqa: E402
from ethosu.vela.operation import NpuBlockType, Op, Operation, Padding  # noqa: E402
from ethosu.vela.tensor import QuantizationParameters, Tensor  # noqa: E402
from ethosu.vela.tflite.Model import Model  # noqa: E402
from ethosu.vela.tflite_mapping import builtin_operator_name_map  # noqa: E402
from ethosu.vela.tflite_writer import write_tflite  # noqa: E402


def fm(name, shape, dtype, scale=None, zp=0):
    t = Tensor(list(shape), dtype, name)
    if scale is not None:
        q = QuantizationParameters()
        q.scale_f32 = np.float32(scale)
        q.zero_point = zp
        t.quantization = q
    return t


def mkop(op_type, name, inputs, outputs, attrs=None):
    op = Operation(op_type, name)
    for t in inputs:
        op.add_input_tensor(t)
    for t in outputs:
        op.add_output_tensor(t)
    op.attrs.update(attrs or {})
    op.run_on_npu = False  # plain TFLite operator of the input model
    return op


def build_graph(inputs, outputs, ops):
    sg = Subgraph("main", PassPlacement.Cpu)
    for t in inputs:
        Operation(Op.Placeholder, t.name + "_ph").set_output_tensor(t)
        sg.input_tensors.append(t)
    sg.original_inputs = list(inputs)
    sg.output_tensors = list(outputs)
    ps = Pass("all", PassPlacement.Cpu, False, NpuBlockType.Default)
    ps.ops = list(ops)
    sg.passes = [ps]
    nng = Graph("net")
    nng.subgraphs.append(sg)
    return nng


@contextlib.contextmanager
def quiet():
    """silence everything Vela prints (some of it is written to the sys.stdout object captured at import time)"""
    sys.stdout.flush()
    saved = os.dup(1)
    devnull = os.open(os.devnull, os.O_WRONLY)
    os.dup2(devnull, 1)
    try:
        with contextlib.redirect_stdout(io.StringIO()):
            yield
    finally:
        sys.stdout.flush()
        os.dup2(saved, 1)
        os.close(saved)
        os.close(devnull)


def const(name, shape, dtype, values, scale=None, zp=0):
    t = fm(name, shape, dtype, scale, zp)
    np_type = {DataType.int8: np.int8, DataType.uint8: np.uint8, DataType.int16: np.int16, DataType.int32: np.int32}[dtype]
    t.values = np.broadcast_to(np.array(values, dtype=np_type), tuple(shape)).copy()
    Operation(Op.Const, name + "_const").set_output_tensor(t)
    return t


CONV_ATTRS = {"padding": Padding.SAME, "stride_h": 1, "stride_w": 1, "dilation_h_factor": 1, "dilation_w_factor": 1}
CONV_ATTRS["fused_activation_function"] = None


def try_compile(nng, accelerator="ethos-u55-128", extra_args=()):
    """-> (operator list of the output model or None, exception text or None)"""
    try:
        return compiled_operators(nng, accelerator, extra_args), None
    except BaseException as e:  # noqa: B902
        import traceback

        where = " <- ".join(f"{f.name}:{f.lineno}" for f in reversed(traceback.extract_tb(e.__traceback__)[-3:]))
        return None, f"{type(e).__name__}: {e} (at {where})"


def compiled_operators(nng, accelerator, extra_args=()):
    """-> list of (builtin operator name, input tensor names, output tensor names) of the output model"""
    tmp = tempfile.mkdtemp(prefix="c16_obs_")
    src = os.path.join(tmp, "net.tflite")
    write_tflite(nng, src)
    with quiet():
        vela.main([src, "--output-dir", tmp, "--accelerator-config", accelerator, *extra_args])
    with open(os.path.join(tmp, "net_vela.tflite"), "rb") as f:
        model = Model.GetRootAsModel(bytearray(f.read()), 0)
    sg = model.Subgraphs(0)
    res = []
    for i in range(sg.OperatorsLength()):
        o = sg.Operators(i)
        code = model.OperatorCodes(o.OpcodeIndex())
        name = builtin_operator_name_map[max(code.BuiltinCode(), code.DeprecatedBuiltinCode())]
        ins = [sg.Tensors(o.Inputs(j)).Name().decode() for j in range(o.InputsLength()) if o.Inputs(j) >= 0]
        outs = [sg.Tensors(o.Outputs(j)).Name().decode() for j in range(o.OutputsLength())]
        res.append((name, ins, outs))
    return res


def generated_report():
    cwd = os.getcwd()
    tmp = tempfile.mkdtemp(prefix="c16_report_")
    os.chdir(tmp)
    try:
        with quiet():
            vela.main(["--supported-ops-report"])
        with open(os.path.join(tmp, "SUPPORTED_OPS.md")) as f:
            return f.read()
    finally:
        os.chdir(cwd)

def network(const_sizes):
    a = fm("a", (1, 4, 4, 8), DataType.int8, 1.0)
    inputs = [a]
    if const_sizes:
        sizes = const("sizes", (2,), DataType.int32, [3, 5])
    else:
        sizes = fm("sizes_in", (2,), DataType.int32)
        inputs.append(sizes)
    axis = const("axis", (), DataType.int32, 3)
    outs = [fm("o0", (1, 4, 4, 3), DataType.int8, 1.0), fm("o1", (1, 4, 4, 5), DataType.int8, 1.0)]
    op = mkop(Op.SplitV, "splitv", [a, sizes, axis], outs, {"num_splits": 2})
    return build_graph(inputs, outs, [op])


def main():
    bad = 0
    for const_sizes in (True, False):
        ops, err = try_compile(network(const_sizes))
        print("size_splits constant" if const_sizes else "size_splits is a graph input", "->", err or [n for n, _, _ in ops])
        bad += err is not None
    print("REPRODUCED" if bad else "not reproduced")
    return 1 if bad else 0


if __name__ == "__main__":
    sys.exit(main())

#!/usr/bin/env python3
"""C13 observation 13 (UNMODIFIED tree).

STRIDED_SLICE with a begin value below -dim (TFLite clamps it to 0) kills the compiler with an AssertionError in
tensor.Tensor.address_for_coordinate() (assert _coord >= 0): tflite_model_semantic._get_slice_offsets() adds the dimension
once and keeps the still negative offset. begin = -6 for a dimension of 8 works.

Run as: cd /tmp/seed7/C13 && /venv/bin/python out/observation13.py   (UNMODIFIED tree)
Exit status 1 = the violation of C13 was reproduced (internal exception / no diagnosis), 0 = not reproduced.
"""
import contextlib
import os
import sys
import tempfile
import traceback

sys.path.insert(0, os.getcwd())

import numpy as np  # noqa: E402

from ethosu.vela import vela  # noqa: E402
from ethosu.vela.data_type import DataType  # noqa: E402
from ethosu.vela.nn_graph import Graph, Pass, PassPlacement, Subgraph  # noqa: E402
from ethosu.vela.operation import Op, Operation, Padding  # noqa: E402
from ethosu.vela.tensor import QuantizationParameters, Tensor  # noqa: E402
from ethosu.vela.tflite_writer import write_tflite_buffer  # noqa: E402

RNG = np.random.default_rng(7)


def quant(scale, zero_point):
    qp = QuantizationParameters()
    qp.scale_f32 = np.float32(scale) if np.isscalar(scale) else np.asarray(scale, np.float32)
    qp.zero_point = np.int64(zero_point) if np.isscalar(zero_point) else np.asarray(zero_point, np.int64)
    qp.quant_dim = 0
    return qp


def tensor(name, shape, dtype=DataType.int8, scale=0.05, zero_point=-3, values=None, np_type=None):
    tens = Tensor(list(shape), dtype, name)
    tens.quantization = None if scale is None else quant(scale, zero_point)
    if values is not None:
        tens.values = np.asarray(values, np_type or dtype.as_numpy_type()).reshape(shape)
    return tens


def make_op(op_type, inputs, outputs, attrs=None, version=1):
    op = Operation(op_type, outputs[0].name if outputs else "op")
    op.inputs = list(inputs)
    op.outputs = list(outputs)
    for tens in outputs:
        tens.ops = [op]
    op.attrs = dict(attrs or {})
    op.version = version
    op.run_on_npu = False
    return op


def build_model(ops, inputs, outputs):
    nng = Graph("obs")
    sg = Subgraph("main", PassPlacement.Cpu)
    ps = Pass("all", PassPlacement.Cpu, False, None)
    ps.ops = list(ops)
    sg.passes = [ps]
    sg.original_inputs = list(inputs)
    sg.input_tensors = list(inputs)
    sg.output_tensors = list(outputs)
    nng.subgraphs.append(sg)
    return bytes(write_tflite_buffer(nng))


def conv2d(name, ifm, out_channels, kernel=3, bias=True, weight_zero_point=0):
    n, h, w, c = ifm.shape
    weights = tensor(name + "_w", [out_channels, kernel, kernel, c], DataType.int8, [0.01] * out_channels,
                     [weight_zero_point] * out_channels, RNG.integers(-127, 128, [out_channels, kernel, kernel, c]))
    ins = [ifm, weights]
    if bias:
        ins.append(tensor(name + "_b", [out_channels], DataType.int32, [0.0005] * out_channels, [0] * out_channels,
                          RNG.integers(-100, 100, [out_channels])))
    ofm = tensor(name, [n, h, w, out_channels])
    attrs = dict(dilation_h_factor=1, dilation_w_factor=1, fused_activation_function=None, padding=Padding.SAME,
                 stride_h=1, stride_w=1)
    return make_op(Op.Conv2DBias, ins, [ofm], attrs, version=3), ofm


@contextlib.contextmanager
def captured_console(log_path):
    sys.stdout.flush()
    sys.stderr.flush()
    saved = os.dup(1), os.dup(2)
    with open(log_path, "w+") as log:
        os.dup2(log.fileno(), 1)
        os.dup2(log.fileno(), 2)
        try:
            with contextlib.redirect_stdout(log), contextlib.redirect_stderr(log):
                yield lambda: open(log_path).read()
                log.flush()
        finally:
            sys.stdout.flush()
            sys.stderr.flush()
            os.dup2(saved[0], 1)
            os.dup2(saved[1], 2)
            os.close(saved[0])
            os.close(saved[1])


def run_cli(model_bytes, extra_args=(), name="net", work=None):
    """vela.main() on the model; returns (status, console, traceback or None, path of the output model)"""
    work = work or tempfile.mkdtemp(prefix="c13_obs_")
    path = os.path.join(work, name + ".tflite")
    with open(path, "wb") as f:
        f.write(model_bytes)
    out_dir = os.path.join(work, "out")
    status, tb = None, None
    with captured_console(os.path.join(work, name + "_console.txt")) as console:
        try:
            status = vela.main([path, "--output-dir", out_dir] + list(extra_args))
        except SystemExit as e:
            status = e.code
        except BaseException:
            tb = traceback.format_exc()
    return status, console(), tb, os.path.join(out_dir, name + "_vela.tflite")


def report(label, result):
    """prints the outcome; returns True if C13 is violated"""
    status, console, tb, out_path = result
    if tb is not None:
        print(f"{label}: INTERNAL EXCEPTION")
        print("    " + "\n    ".join(tb.strip().splitlines()[-6:]))
        return True
    if status == 0 and not os.path.exists(out_path):
        print(f"{label}: status 0 but no output model")
        return True
    if status != 0 and "Error" not in console:
        print(f"{label}: status {status} without a Vela error message")
        return True
    print(f"{label}: ok (status {status})")
    return False

def model(begin_h, out_h):
    ifm = tensor("input", [1, 8, 8, 4])
    b = tensor("begin", [4], DataType.int32, None, values=[0, begin_h, 0, 0])
    e = tensor("end", [4], DataType.int32, None, values=[1, 8, 8, 4])
    s = tensor("strides", [4], DataType.int32, None, values=[1, 1, 1, 1])
    ofm = tensor("output", [1, out_h, 8, 4])
    attrs = dict(begin_mask=0, ellipsis_mask=0, end_mask=0, new_axis_mask=0, shrink_axis_mask=0, offset=False)
    return build_model([make_op(Op.StridedSlice, [ifm, b, e, s], [ofm], attrs)], [ifm], [ofm])


def main():
    report("control: begin -6", run_cli(model(-6, 6)))
    return report("begin -100", run_cli(model(-100, 8)))


if __name__ == "__main__":
    violated = main()
    print("VIOLATION REPRODUCED" if violated else "not reproduced")
    sys.exit(1 if violated else 0)

import math
import os
import sys

sys.path.insert(0, os.getcwd())

import numpy as np  # noqa: E402

from ethosu.vela import tflite_graph_optimiser as tgo  # noqa: E402
from ethosu.vela.data_type import DataType  # noqa: E402
from ethosu.vela.nn_graph import Graph, PassPlacement, Subgraph  # noqa: E402
from ethosu.vela.operation import Op, Operation  # noqa: E402
from ethosu.vela.tensor import QuantizationParameters, Tensor, create_const_tensor  # noqa: E402
from ethosu.vela.test import testutil  # noqa: E402

ARCH = testutil.create_arch()
SHAPE = [1, 4, 4, 8]


def quant(scale, zp, dtype=DataType.int8):
    q = QuantizationParameters()
    q.scale_f32 = np.float32(scale)
    q.zero_point = zp
    info = np.iinfo(dtype.as_numpy_type())
    q.quant_min = int(info.min)
    q.quant_max = int(info.max)
    return q


def unary_op(op_type, si, zi, so, zo, attrs=None, dtype=DataType.int8):
    ifm = Tensor(SHAPE, dtype, "in")
    ifm.quantization = quant(si, np.int64(zi), dtype)
    ofm = Tensor(SHAPE, dtype, "out")
    ofm.quantization = quant(so, np.int64(zo), dtype)
    op = Operation(op_type, "op")
    op.add_input_tensor(ifm)
    op.set_output_tensor(ofm)
    if attrs:
        op.attrs.update(attrs)
    op.set_ifm_ofm_shapes()
    op.run_on_npu = True
    return op


def lut_of(op):
    return [int(v) for v in op.activation_lut.values.flatten()]


def round_away(v):
    return int(math.floor(abs(v) + 0.5)) * (1 if v >= 0 else -1)

# C09 observation 1 (UNMODIFIED tree): int16 AVERAGE_POOL_2D with stride_w > 3 is lowered to a unit-weight Conv2D with
# "away from zero" rounding (tflite_graph_optimiser.convert_avg_pool_to_conv2d).  The zero bias that fixup_bias_tensors
# adds for an int16 IFM is int64, so weight_compressor._prepare_scale_and_bias selects the REDUCED (15 bit) multiplier -
# and then adds the "+1 next after" nudge meant for a 31 bit multiplier to it.  The packed scale record becomes
# (16385, 17) for a 2x4 window: it denotes 0.1250076 instead of 1/8 (relative error 2^-14) and the average of a window
# of equal values x comes out as x + 1 for every x >= 8192 (x - 1 for x <= -8193).
# Run: cd /tmp/seed9/C09 && /venv/bin/python out/observation1.py   (exit 1 = violation reproduced)
import os
import sys
from fractions import Fraction

sys.path.insert(0, os.getcwd())
sys.path.insert(0, os.path.dirname(os.path.abspath(__file__)))

from c09_e2e import build_tflite  # noqa: E402
from c09_e2e import compile_tflite  # noqa: E402
from c09_e2e import DataType  # noqa: E402
from c09_e2e import fm  # noqa: E402
from c09_e2e import make_op  # noqa: E402
from c09_e2e import Op  # noqa: E402
from c09_e2e import read_vela_output  # noqa: E402
from c09_e2e import scale_streams  # noqa: E402
from c09_ref import apply_scale_half_up  # noqa: E402
from c09_ref import decode_scale_records  # noqa: E402
from c09_ref import pair_value  # noqa: E402

from ethosu.vela.operation import Padding  # noqa: E402


def main():
    kh, kw, stride_w = 2, 4, 4
    n = kh * kw
    ifm = fm("in", (1, 2, 16, 8), DataType.int16, 0.05, 0)
    ofm = fm("out", (1, 1, 4, 8), DataType.int16, 0.05, 0)
    attrs = {
        "padding": Padding.VALID,
        "stride_w": stride_w,
        "stride_h": 1,
        "filter_width": kw,
        "filter_height": kh,
        "fused_activation_function": None,
    }
    op = make_op(Op.AvgPool, "avgpool", [ifm], [ofm], attrs)
    out, _ = compile_tflite(build_tflite([op], [ifm], [ofm]))
    (custom_op,) = read_vela_output(out)
    ((state, streams),) = scale_streams(custom_op[0], custom_op[1])
    records = {r[1:] for s in streams for r in decode_scale_records(s)}
    print("packed (multiplier, shift) records of the lowered average pool:", sorted(records))
    (mult, shift), = records
    value = pair_value(mult, shift)
    rel = abs(value - Fraction(1, n)) * n
    print(f"denotes {float(value)!r}, real scale 1/{n} = {1 / n!r}, relative error {float(rel):.3e} (2^-14 = {2.0**-14:.3e})")
    wrong = []
    for x in range(-32768, 32768):
        acc = n * x  # window of n equal values
        got = apply_scale_half_up(acc, mult, shift)  # NATURAL rounding is what OFM_PRECISION selects
        if got != x:
            wrong.append((x, got))
    print(f"average of a window of {n} equal int16 values is wrong for {len(wrong)} of 65536 values, e.g. {wrong[:3]} ... {wrong[-2:]}")
    if wrong or rel > Fraction(1, 1 << 15):
        print("VIOLATION reproduced")
        return 1
    print("no violation")
    return 0


if __name__ == "__main__":
    sys.exit(main())

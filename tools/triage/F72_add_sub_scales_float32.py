"""Observation 1 (UNMODIFIED tree, NumPy 2.x): int8 ADD / SUB with different input scales.

scaling.simplified_/advanced_elementwise_add_sub_scale receive the np.float32 scales read from the model.
Under NumPy >= 2 (NEP 50) `np.float32 * (1 << k)` and `2 * np.float32` stay float32, so the input and output
rescale factors are computed in float32, whereas the TFLite reference kernel (add.cc / sub.cc) computes
    twice_max = 2 * max(s1, s2);  real_in = s_min / twice_max;  real_out = twice_max / ((1 << 20) * s_out)
in double.  The emitted OPA_SCALE / OFM_SCALE multipliers therefore carry only 24 significant bits: they differ
from the reference derivation and miss the real scale by about 2^-25 instead of 2^-31.
(With NumPy 1.x value-based promotion made these expressions float64.)
"""
import math
import sys
from fractions import Fraction

from _model_util import compile_model, model_bytes, np, qp, scale_registers
from ethosu.vela.data_type import DataType
from ethosu.vela.operation import Op, Operation
from ethosu.vela.tensor import Tensor


def quantize_multiplier(real):
    q, e = math.frexp(real)
    q = int(Fraction(q) * (1 << 31) + Fraction(1, 2))
    if q == 1 << 31:
        q //= 2
        e += 1
    return q, e


def build(optype, s1, s2, so):
    ifm = Tensor([1, 8, 8, 16], DataType.int8, "ifm")
    ifm.quantization = qp(s1, 3)
    ifm2 = Tensor([1, 8, 8, 16], DataType.int8, "ifm2")
    ifm2.quantization = qp(s2, -2)
    ofm = Tensor([1, 8, 8, 16], DataType.int8, "ofm")
    ofm.quantization = qp(so, 1)
    op = Operation(optype, "op")
    op.add_input_tensor(ifm)
    op.add_input_tensor(ifm2)
    op.set_output_tensor(ofm)
    op.attrs = {"fused_activation_function": None}
    return model_bytes(op, [ifm, ifm2], [ofm])


def main():
    print("numpy", np.__version__)
    violations = 0
    for optype in (Op.Add, Op.Sub):
        for s1, s2, so in [(0.0123, 0.0456, 0.0789), (0.05, 0.003, 0.04), (0.02, 0.02, 0.03)]:
            regs = dict((n, (m, s)) for n, m, s in scale_registers(compile_model(build(optype, s1, s2, so))))
            f1, f2, fo = (float(np.float32(x)) for x in (s1, s2, so))
            twice_max = 2 * max(f1, f2)
            ref_in = quantize_multiplier(min(f1, f2) / twice_max)
            ref_out = quantize_multiplier(twice_max / ((1 << 20) * fo))
            # Vela folds the left shift of 20 into the operand scale: shift_vela = 31 - e - 20
            ref_opa = (ref_in[0], 31 - ref_in[1] - 20)
            ref_ofm = (ref_out[0], 31 - ref_out[1])
            for name, ref, real in (
                ("OPA_SCALE", ref_opa, Fraction(min(f1, f2)) / Fraction(twice_max) * (1 << 20)),
                ("OFM_SCALE", ref_ofm, Fraction(twice_max) / ((1 << 20) * Fraction(fo))),
            ):
                got = regs[name]
                rel = abs(Fraction(got[0], 1 << got[1]) - real) / real
                bad = Fraction(got[0], 1 << got[1]) != Fraction(ref[0], 1 << ref[1])
                violations += bad
                print(
                    f"{optype.name} scales ({s1}, {s2}) -> {so}: {name} emitted {got}, TFLite reference {ref}, "
                    f"relative error {'0' if not rel else '2^%.1f' % math.log2(float(rel))}  {'VIOLATION' if bad else 'ok'}"
                )
    return 1 if violations else 0


if __name__ == "__main__":
    sys.exit(main())

# Observation 3 (UNMODIFIED tree): a PAD operator that pads the depth (channel) axis AND the height / width.
# convert_pad_to_concat() turns every PAD with a non-zero depth (or batch) padding into a concatenation along that axis
# and builds the two constant border tensors from the *input* shape; the height / width padding of the same operator is
# dropped.  The concatenation therefore only writes an [H, W] corner of the [H + pads, W + pads] output tensor; the
# rest of the tensor is never written and is then read by the following operators.
# Exit status 1 (prints the undefined reads) when the violation is present.
import contextlib
import io
import os
import sys

sys.path.insert(0, os.getcwd())
sys.path.insert(0, os.path.dirname(os.path.abspath(__file__)))
import c03lib as L  # noqa: E402


def main():
    net = L.Net()
    x = net.input([1, 8, 8, 16])
    a = net.conv2d(x, 16)
    p = net.pad(a, [[0, 0], [1, 1], [1, 1], [4, 4]])  # -> [1, 10, 10, 24]
    out = net.conv2d(p, 8)
    data = net.serialise([out])
    with contextlib.redirect_stdout(io.StringIO()):
        compiled = L.compile_model(data, accelerator="ethos-u55-128")
    violations, stats = L.check_compiled(compiled)
    for sg, pairs in compiled.streams:
        for cmd, op in pairs:
            if hasattr(op, "ofm") and op.ofm is not None and cmd.ofm_tensor.name.startswith("pad"):
                print(f"   {op.name}: writes {cmd.ofm_box} of '{cmd.ofm_tensor.name}' {list(map(int, cmd.ofm_tensor.shape))}")
    print(stats)
    if violations:
        print(L.describe(violations))
        print("VIOLATION: bytes consumed by an NPU operation were never defined")
        return 1
    print("no violation")
    return 0


if __name__ == "__main__":
    sys.exit(main())

"""Helpers shared by the observation reproducers (plain decoding of the emitted words)."""
import os
import sys

sys.path.insert(0, os.getcwd())

from ethosu.vela.api import NpuDataType  # noqa: E402
from ethosu.vela.api import NpuFeatureMap  # noqa: E402
from ethosu.vela.api import NpuLayout  # noqa: E402
from ethosu.vela.api import NpuQuantization  # noqa: E402
from ethosu.vela.api import NpuShape3D  # noqa: E402
from ethosu.vela.api import NpuTileBox  # noqa: E402

NAMES = {0x2: "CONV", 0x3: "DEPTHWISE", 0x5: "POOL", 0x6: "ELEMENTWISE"}


def fm(shape, addr, dtype=NpuDataType.INT8, layout=NpuLayout.NHWC, region=1):
    f = NpuFeatureMap()
    f.data_type = dtype
    f.shape = NpuShape3D(*shape)
    f.region = region
    f.layout = layout
    f.quantization = NpuQuantization(scale_f32=1.0, zero_point=0)
    f.tiles = NpuTileBox(height_0=shape[0], height_1=shape[0], width_0=shape[1], addresses=[addr, 0, 0, 0])
    return f


def events(stream):
    """[('POOL', blockdep), ('DMA_START', param), ('DMA_WAIT', param), ('KERNEL_WAIT', param), ...]"""
    res = []
    blockdep = None
    i = 0
    while i < len(stream):
        w = stream[i]
        if w & 0xC000 == 0x4000:
            i += 2
            continue
        i += 1
        code, param = w & 0x3FF, (w >> 16) & 0xFFFF
        if code in NAMES:
            res.append((NAMES[code], blockdep))
        elif code == 0x10:
            res.append(("DMA_START", param))
        elif code == 0x11:
            res.append(("DMA_WAIT", param))
        elif code == 0x12:
            res.append(("KERNEL_WAIT", param))
        elif code == 0x12F:
            blockdep = param
    return res

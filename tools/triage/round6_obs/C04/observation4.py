"""Observation 4 (unmodified tree, depends on how strictly the execution model is read): BLOCKDEP is only computed
against the directly preceding kernel.

A writes T (4x4x16) in four block jobs (block config 2x2x16), B is an unrelated kernel with ONE block job,
C reads T (block config 4x4x16, one job that reads all of T).
Emitted: BLOCKDEP 3 for B (independent of A) and BLOCKDEP 3 for C (independent of B).  If BLOCKDEP counts block
jobs in the pipeline (B contributes a single job), the job of C may be in flight together with the job of B and
the last two jobs of A, which write the lower half of T that C reads.  calc_blockdep() simply stops looking when
the previous operation has fewer than 3 blocks (get_offset_block_coords even returns coordinates for a negative
block index, at y < 0).
"""
import sys

from _obs_common import events
from _obs_common import fm

from ethosu.vela.api import NpuAccelerator
from ethosu.vela.api import NpuElementWiseOp
from ethosu.vela.api import NpuElementWiseOperation
from ethosu.vela.api import NpuShape3D
from ethosu.vela.api import npu_find_block_configs
from ethosu.vela.api import npu_generate_register_command_stream

accel = NpuAccelerator.Ethos_U55_256


def ew(shape, ifm_addr, ofm_addr, block):
    op = NpuElementWiseOperation(NpuElementWiseOp.ABS)
    op.ifm = fm(shape, ifm_addr)
    op.ofm = fm(shape, ofm_addr)
    op.block_config = NpuShape3D(*block)
    assert op.block_config in npu_find_block_configs(op, accel), npu_find_block_configs(op, accel)
    return op


T = 0x1000
a = ew((4, 4, 16), 0x0000, T, (2, 2, 16))
b = ew((2, 2, 16), 0x4000, 0x5000, (2, 2, 16))
c = ew((4, 4, 16), T, 0x2000, (4, 4, 16))
ev = events(npu_generate_register_command_stream([a, b, c], accel))
print(ev)
if ev[1][1] + ev[2][1] > 1 + 0 and ev[2][1] >= 2:
    print(f"POSSIBLE VIOLATION: C (reads T) has BLOCKDEP {ev[2][1]} and only one job of B lies between A and C")
    sys.exit(1)

"""Observation 3 (unmodified tree): two ways in which a DMA accepted by npu_generate_register_command_stream is
tracked differently from what is programmed.

a) NpuDmaOperation(src, dest) with dest.length < src.length: NPU_SET_DMA0_LEN is programmed with src.length, but
   get_dma_memory_accesses() records [dest.address, dest.address + dest.length) as written.  A kernel that reads
   bytes behind dest.length gets no DMA_WAIT.
b) NpuDmaOperation.channel = 1: NPU_OP_DMA_START is emitted for channel 1 (param 16), but the DMA_WAIT that
   protects the consumer is always emitted for channel 0 (generate_cmd_waits passes channel 0), so it does not
   wait for the transfer.
"""
import sys

from _obs_common import events
from _obs_common import fm

from ethosu.vela.api import NpuAccelerator
from ethosu.vela.api import NpuAddressRange
from ethosu.vela.api import NpuDmaOperation
from ethosu.vela.api import NpuElementWiseOp
from ethosu.vela.api import NpuElementWiseOperation
from ethosu.vela.api import NpuShape3D
from ethosu.vela.api import npu_generate_register_command_stream

accel = NpuAccelerator.Ethos_U55_128


def ew(ifm_addr, ofm_addr):
    op = NpuElementWiseOperation(NpuElementWiseOp.ABS)
    op.ifm = fm((8, 8, 16), ifm_addr)
    op.ofm = fm((8, 8, 16), ofm_addr)
    op.block_config = NpuShape3D(height=8, width=8, depth=16)
    return op


bad = 0
# a) the DMA really writes [0x1000, 0x1400) (LEN = 1024), the kernel reads [0x1200, 0x1600)
dma = NpuDmaOperation(NpuAddressRange(0, 0x100, 1024), NpuAddressRange(1, 0x1000, 16))
stream = npu_generate_register_command_stream([dma, ew(0x1200, 0x4000)], accel)
ev = events(stream)
length = [stream[i + 1] for i in range(len(stream) - 1) if stream[i] & 0xFFFF == (0x4000 | 0x32)][0]
print("a)", ev, "programmed DMA0_LEN =", length)
if ("DMA_WAIT", 0) not in ev:
    print("VIOLATION a): no DMA_WAIT although the kernel reads 0x1200.. which the DMA (LEN 1024 from 0x1000) writes")
    bad = 1
# b) channel 1
dma = NpuDmaOperation(NpuAddressRange(0, 0x100, 1024), NpuAddressRange(1, 0x1000, 1024))
dma.channel = 1
ev = events(npu_generate_register_command_stream([dma, ew(0x1000, 0x4000)], accel))
print("b)", ev)
start = [p for n, p in ev if n == "DMA_START"][0]
wait = [p for n, p in ev if n == "DMA_WAIT"][0]
if start >> 4 != wait >> 4:
    print(f"VIOLATION b): DMA_START on channel {start >> 4}, but the DMA_WAIT is for channel {wait >> 4}")
    bad = 1
sys.exit(bad)

"""Observation 2 (unmodified tree): write-after-read / write-after-write between consecutive kernels is never
considered by calc_blockdep; it only looks at IFM/IFM2 of the second kernel against the OFM of the first.

  WAR: A reads X (8x8x16) and writes Y, B reads Z and writes X     -> BLOCKDEP 3 is emitted for B
  WAW: A writes Y,                    B (independent input) writes Y -> BLOCKDEP 3 is emitted for B
Both kernels consist of a single block job (block config 8x8x16), so with BLOCKDEP 3 the job of B is allowed to
be in flight together with the job of A although B overwrites what A still reads (WAR) / writes (WAW).
Under the letter of the property (no WAR / WAW conflict between operations in flight together) this is a
violation; no KERNEL_WAIT can help because both are kernel operations.
"""
import sys

from _obs_common import events
from _obs_common import fm

from ethosu.vela.api import NpuAccelerator
from ethosu.vela.api import NpuElementWiseOp
from ethosu.vela.api import NpuElementWiseOperation
from ethosu.vela.api import NpuShape3D
from ethosu.vela.api import npu_find_block_configs
from ethosu.vela.api import npu_generate_register_command_stream

accel = NpuAccelerator.Ethos_U55_256
X, Y, Z = 0x0000, 0x1000, 0x2000


def ew(ifm_addr, ofm_addr):
    op = NpuElementWiseOperation(NpuElementWiseOp.ABS)
    op.ifm = fm((8, 8, 16), ifm_addr)
    op.ofm = fm((8, 8, 16), ofm_addr)
    op.block_config = NpuShape3D(height=8, width=8, depth=16)
    assert op.block_config in npu_find_block_configs(op, accel)
    return op


bad = 0
for name, ops in (("WAR", [ew(X, Y), ew(Z, X)]), ("WAW", [ew(X, Y), ew(Z, Y)])):
    ev = events(npu_generate_register_command_stream(ops, accel))
    print(name, ev)
    if ev[1][1] != 0:
        print(f"VIOLATION ({name}): BLOCKDEP {ev[1][1]} between two single-job kernels with a {name} conflict")
        bad = 1
sys.exit(bad)

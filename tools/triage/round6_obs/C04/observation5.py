"""Observation 5 (unmodified tree, contrived input): a feature map whose tiles alias each other in memory.

T is 2x6x32 int8 NHWC with tiles height_0=1, height_1=2, width_0=3 and addresses tile0=0x10d0, tile1=0x13d0,
tile2=0x1400: tile 1 (columns 3..5, row stride 192) covers 0x13d0..0x14f0, tile 2 (row 1, columns 0..2) starts at
0x1400, i.e. inside tile 1.  A writes T, B reads T (same NpuFeatureMap object) with block config 2x2x16.
intersects() takes the coordinate fast path (identical feature maps), finds that the first jobs of B (columns 0..1)
do not share coordinates with the last blocks of A (columns 4..5, 2..3) and emits BLOCKDEP 3, but job 0 of B reads
row 1 / column 0..1 from tile 2 = the bytes that the last job of A writes as row 0 / column 4..5 of tile 1.
"""
import sys

from _obs_common import events
from _obs_common import fm

from ethosu.vela.api import NpuAccelerator
from ethosu.vela.api import NpuElementWiseOp
from ethosu.vela.api import NpuElementWiseOperation
from ethosu.vela.api import NpuShape3D
from ethosu.vela.api import NpuTileBox
from ethosu.vela.api import npu_generate_register_command_stream

accel = NpuAccelerator.Ethos_U55_256
t = fm((2, 6, 32), 0)
t.tiles = NpuTileBox(height_0=1, height_1=2, width_0=3, addresses=[0x10D0, 0x13D0, 0x1400, 0x0])
a = NpuElementWiseOperation(NpuElementWiseOp.ABS)
a.ifm = fm((2, 6, 32), 0x4000)
a.ofm = t
a.block_config = NpuShape3D(height=2, width=2, depth=16)
b = NpuElementWiseOperation(NpuElementWiseOp.ABS)
b.ifm = t
b.ofm = fm((2, 6, 32), 0x8000)
b.block_config = NpuShape3D(height=2, width=2, depth=16)
ev = events(npu_generate_register_command_stream([a, b], accel))
print(ev)


def addr(y, x, c):
    if x >= 3:
        return 0x13D0 + y * 192 + (x - 3) * 32 + c
    return (0x10D0 if y < 1 else 0x1400) + (y - (0 if y < 1 else 1)) * 192 + x * 32 + c


last_job_of_a = {addr(y, x, c) for y in range(2) for x in (4, 5) for c in range(16, 32)}
first_job_of_b = {addr(y, x, c) for y in range(2) for x in (0, 1) for c in range(0, 16)}
common = last_job_of_a & first_job_of_b
print("bytes written by the last job of A and read by the first job of B:", len(common))
if common and ev[1][1] > 0:
    print(f"VIOLATION: BLOCKDEP {ev[1][1]}")
    sys.exit(1)

"""Observation 1 (unmodified tree): REDUCE_SUM directly after its producer gets a BLOCKDEP that is too large.

A (elementwise ABS) writes T = 2x2x64 in four depth blocks (block config 2x2x16, jobs z=0,16,32,48).
B (pooling REDUCE_SUM, 1x1 kernel) reads T and writes 2x2x1 in ONE block job, which reads all 64 channels.
Emitted: BLOCKDEP 3 for B, i.e. B's only job may start while the last three jobs of A (channels 16..63 of T)
are still in flight -> read-after-write hazard.  BLOCKDEP would have to be 0.

Cause: get_ifm_ofm_block_depth() (register_command_stream_util.py) only treats Conv2D as an operation whose jobs
are split along the IFM depth; for REDUCE_SUM it returns ofm.shape.depth == 1, so calc_blockdep believes that the
first three jobs of B read the channels 0, 1 and 2 only (depth 32: BLOCKDEP 1, depth 48: 2, depth >= 64: 3).
"""
import sys

from _obs_common import events
from _obs_common import fm

from ethosu.vela.api import NpuAccelerator
from ethosu.vela.api import NpuDataType
from ethosu.vela.api import NpuElementWiseOp
from ethosu.vela.api import NpuElementWiseOperation
from ethosu.vela.api import NpuKernel
from ethosu.vela.api import NpuPadding
from ethosu.vela.api import NpuPoolingOp
from ethosu.vela.api import NpuPoolingOperation
from ethosu.vela.api import NpuShape3D
from ethosu.vela.api import npu_find_block_configs
from ethosu.vela.api import npu_generate_register_command_stream

accel = NpuAccelerator.Ethos_U55_128
a = NpuElementWiseOperation(NpuElementWiseOp.ABS)
a.ifm = fm((2, 2, 64), 0x0)
a.ofm = fm((2, 2, 64), 0x1000)
a.block_config = NpuShape3D(height=2, width=2, depth=16)
assert a.block_config in npu_find_block_configs(a, accel)
b = NpuPoolingOperation(NpuPoolingOp.REDUCE_SUM)
b.ifm = a.ofm
b.ofm = fm((2, 2, 1), 0x2000, dtype=NpuDataType.INT32)
b.kernel = NpuKernel(1, 1)
b.padding = NpuPadding(0, 0, 0, 0)
b.block_config = npu_find_block_configs(b, accel)[0]
ev = events(npu_generate_register_command_stream([a, b], accel))
print("B block config", tuple(b.block_config), "-> one job for the 2x2x1 OFM; events:", ev)
blockdep = ev[1][1]
if blockdep != 0:
    print(f"VIOLATION: BLOCKDEP {blockdep}: the only job of REDUCE_SUM (reads channels 0..63 of T) may run together")
    print(f"           with the last {blockdep} jobs of the producer, which write channels 16..63 of T")
    sys.exit(1)
print("not reproduced")

"""Observation 2 (unmodified tree): an already optimised model that is compiled again for ANOTHER accelerator keeps
the old driver payload.

Vela accepts its own output as input (the "ethos-u" custom operator is read back as an existing NPU operator, see
CustomType.ExistingNpuOp in mark_tensors.py) and passes the operator and its command-stream tensor through unchanged.
Nothing checks that the payload was generated for the accelerator selected now: compiling for ethos-u55-128 and then
compiling the result with --accelerator-config ethos-u65-512 succeeds (exit code 0, no warning) and yields an output
model whose command-stream tensor still carries the Ethos-U55-128 configuration action (product 0, 2^7 MACs, 24 KB
SHRAM).  Prints the configuration words; exits 0 always.
"""
import contextlib
import os
import struct
import sys
import tempfile

import numpy as np

sys.path.insert(0, os.getcwd())

from ethosu.vela import nn_graph  # noqa: E402
from ethosu.vela import tflite_writer  # noqa: E402
from ethosu.vela import vela  # noqa: E402
from ethosu.vela.data_type import DataType  # noqa: E402
from ethosu.vela.operation import NpuBlockType  # noqa: E402
from ethosu.vela.operation import Op  # noqa: E402
from ethosu.vela.operation import Operation  # noqa: E402
from ethosu.vela.tensor import create_const_tensor  # noqa: E402
from ethosu.vela.tensor import QuantizationParameters  # noqa: E402
from ethosu.vela.tensor import Tensor  # noqa: E402
from ethosu.vela.tflite.Model import Model  # noqa: E402


def quant():
    qp = QuantizationParameters()
    qp.scale_f32 = np.float32(0.5)
    qp.zero_point = 0
    qp.quant_min = -128
    qp.quant_max = 127
    return qp


def build_model():
    """int8 [1,8,8,16] -> ADD constant -> output, as a TensorFlow Lite flatbuffer"""
    shape = [1, 8, 8, 16]
    ifm = Tensor(shape, DataType.int8, "input")
    ifm.quantization = quant()
    ifm_op = Operation(Op.Placeholder, "input_placeholder")
    ifm_op.set_output_tensor(ifm)
    const = create_const_tensor("addend", shape, DataType.int8, np.full(shape, 3, np.int8), quantization=quant())
    ofm = Tensor(shape, DataType.int8, "output")
    ofm.quantization = quant()
    add = Operation(Op.Add, "add")
    add.add_input_tensor(ifm)
    add.add_input_tensor(const)
    add.set_output_tensor(ofm)
    add.attrs = {"fused_activation_function": None}
    sg = nn_graph.Subgraph("main", nn_graph.PassPlacement.Cpu)
    sg.input_tensors = [ifm]
    sg.original_inputs = [ifm]
    sg.output_tensors = [ofm]
    ps = nn_graph.Pass("all", nn_graph.PassPlacement.Cpu, False, NpuBlockType.Default)
    ps.ops = [ifm_op, add]
    sg.passes = [ps]
    nng = nn_graph.Graph("demo")
    nng.subgraphs = [sg]
    return bytes(tflite_writer.write_tflite_buffer(nng))


@contextlib.contextmanager
def quiet():
    """silences everything written to file descriptor 1"""
    sys.stdout.flush()
    saved = os.dup(1)
    devnull = os.open(os.devnull, os.O_WRONLY)
    os.dup2(devnull, 1)
    try:
        yield
    finally:
        sys.stdout.flush()
        os.dup2(saved, 1)
        os.close(saved)
        os.close(devnull)


def compile_with_vela(model_bytes, accel):
    with tempfile.TemporaryDirectory() as tmp:
        path = os.path.join(tmp, "net.tflite")
        with open(path, "wb") as f:
            f.write(model_bytes)
        with quiet():
            rc = vela.main([path, "--output-dir", tmp, "--accelerator-config", accel])
        assert rc == 0, rc
        with open(os.path.join(tmp, "net_vela.tflite"), "rb") as f:
            return f.read()


def config_words(buf):
    model = Model.GetRootAsModel(bytearray(buf), 0)
    words = []
    for sg_idx in range(model.SubgraphsLength()):
        sg = model.Subgraphs(sg_idx)
        for op_idx in range(sg.OperatorsLength()):
            op = sg.Operators(op_idx)
            if model.OperatorCodes(op.OpcodeIndex()).CustomCode() == b"ethos-u":
                data = bytes(model.Buffers(sg.Tensors(op.Inputs(0)).Buffer()).DataAsNumpy())
                words.append(struct.unpack_from("<I", data, 8)[0])
    return words


def describe(word):
    return f"{word:#010x} (product={word >> 28}, macs_per_cc=2^{word & 0xF}, shram={(word >> 8) & 0xFF}KB)"


with quiet():
    model = build_model()
first = compile_with_vela(model, "ethos-u55-128")
second = compile_with_vela(first, "ethos-u65-512")
print("compiled for ethos-u55-128          :", [describe(w) for w in config_words(first)])
print("... compiled again for ethos-u65-512:", [describe(w) for w in config_words(second)])
print("an Ethos-U65-512 payload would carry :", describe(0x10006009))

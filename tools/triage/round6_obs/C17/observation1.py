"""Observation 1 (unmodified tree): npu_create_driver_payload accepts streams beyond the 16 MiB hardware limit.

register_command_stream_generator.generate_command_stream rejects a command stream of 16 MiB (2**22 words) or more
("exceeds the hardware limit of 16 MiB"), but the public npu_create_driver_payload only applies the driver limit
(2**24 words = 64 MiB).  A word list of 2**22 .. 2**24-1 words, which the NPU cannot execute, is therefore framed
into a payload without any error.  Prints what happens; exits 0 always.
"""
import os
import struct
import sys

sys.path.insert(0, os.getcwd())

from ethosu.vela.api import npu_create_driver_payload  # noqa: E402
from ethosu.vela.api import NpuAccelerator  # noqa: E402
from ethosu.vela.errors import VelaError  # noqa: E402

for n_words in ((1 << 22) - 1, 1 << 22, 5 << 20, (1 << 24) - 1, 1 << 24):
    stream = [0x0000_0000] * n_words
    try:
        payload = npu_create_driver_payload(stream, NpuAccelerator.Ethos_U55_128)
        tag = struct.unpack_from("<I", payload, 28)[0]
        declared = (tag >> 16) | (((tag >> 8) & 0xFF) << 16)
        verdict = "accepted" + ("" if 4 * n_words < 1 << 24 else "  <-- beyond the 16 MiB hardware limit, no error")
        print(f"{n_words:>9} words = {4 * n_words / 2**20:6.2f} MiB: {verdict} (declares {declared} words)")
    except VelaError as e:
        print(f"{n_words:>9} words = {4 * n_words / 2**20:6.2f} MiB: rejected: {e}")

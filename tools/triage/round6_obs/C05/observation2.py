"""Observation 2 (unmodified tree): the hill climb allocator does not honour its iteration bound.

OPTIONS.md: "--hillclimb-max-iterations ... This is a hard limit on the total number of iterations of the
algorithm."  HillClimbAllocator.search loops while
    (best_size > memory_limit and i < max_iterations) or (i - last_improvement_iteration < MIN_ITERATIONS_IMPROVE)
so it always performs at least MIN_ITERATIONS_IMPROVE (500) iterations when the heuristic start is not
optimal, and keeps going past max_iterations for as long as improvements arrive less than 500 iterations
apart.  With max_iterations = 0, 1 or 10 it still runs 500+ iterations.  Exits 1 when the bound is exceeded.
"""
import os
import sys

sys.path.insert(0, os.getcwd())

from ethosu.vela import hillclimb_allocation  # noqa: E402
from ethosu.vela.live_range import LiveRange  # noqa: E402


def make_lr(start, end, size, alignment=16):
    lr = LiveRange(None, alignment)
    lr.start_time, lr.end_time, lr.size = start, end, size
    return lr


# all ranges are live together at some point; 24/40 byte buffers with 16 byte alignment make the lower bound
# (sum of sizes) unreachable, so the search never hits its "optimal" exit
SPECS = [(0, 2, 40), (1, 3, 24), (2, 4, 8000), (3, 5, 40), (0, 5, 24)]

bad = 0
for max_iterations in (0, 1, 10, 100):
    alloc = hillclimb_allocation.HillClimbAllocator([make_lr(*s) for s in SPECS], max_iterations, 1 << 32)
    count = [0]
    orig = alloc.attempt_bottleneck_fix

    def counting(indices, stuck, orig=orig, count=count):
        count[0] += 1
        return orig(indices, stuck)

    alloc.attempt_bottleneck_fix = counting
    alloc.allocate()
    verdict = "ok" if count[0] <= max_iterations else "EXCEEDED"
    bad += count[0] > max_iterations
    print(f"max_iterations={max_iterations}: {count[0]} iterations run  {verdict}")
sys.exit(1 if bad else 0)

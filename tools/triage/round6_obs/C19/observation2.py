import math
import os
import sys
import tempfile
import types

sys.path.insert(0, os.getcwd())

import numpy as np

from ethosu.vela import architecture_features, graph_optimiser, model_reader, tflite_writer
from ethosu.vela.data_type import DataType
from ethosu.vela.nn_graph import Graph, PassPlacement, Subgraph
from ethosu.vela.operation import Op, Operation
from ethosu.vela.tensor import QuantizationParameters, Tensor, create_const_tensor


def qp(scale, zp):
    q = QuantizationParameters()
    q.scale_f32 = np.float32(scale)
    q.zero_point = np.int64(zp)
    return q


def fm(name, shape, dtype, scale, zp):
    t = Tensor(list(shape), dtype, name)
    t.quantization = qp(scale, zp)
    return t


def optimise(ops, inputs, outputs):
    """Serialises the operators as a .tflite model, reads it back and runs Vela's graph optimiser on it"""
    all_ops = []
    for t in inputs:
        ph = Operation(Op.Placeholder, t.name + "_ph")
        ph.set_output_tensor(t)
        all_ops.append(ph)
    for op in ops:
        for t in op.inputs:
            if t.ops and t.ops[0].type == Op.Const and t.ops[0] not in all_ops:
                all_ops.append(t.ops[0])
        all_ops.append(op)
    sg = Subgraph("main", PassPlacement.Cpu)
    sg.input_tensors = list(inputs)
    sg.original_inputs = list(inputs)
    sg.output_tensors = list(outputs)
    sg.virtual_outputs = []
    sg.passes = [types.SimpleNamespace(ops=all_ops)]
    g = Graph("main")
    g.subgraphs.append(sg)
    buf = tflite_writer.write_tflite_buffer(g)
    fd, path = tempfile.mkstemp(suffix=".tflite")
    os.write(fd, bytes(buf))
    os.close(fd)
    try:
        nng, network_type = model_reader.read_model(path, model_reader.ModelReaderOptions())
    finally:
        os.unlink(path)
    arch = architecture_features.create_default_arch(architecture_features.Accelerator.Ethos_U55_128)
    nng = graph_optimiser.optimise_graph(nng, arch, network_type)
    return [o for sg_ in nng.subgraphs for o in sg_.get_all_ops()]


def unary(op_type, dtype, s_in, zp_in, s_out, zp_out, attrs=None, shape=(1, 8, 8, 16)):
    ifm = fm("in", shape, dtype, s_in, zp_in)
    ofm = fm("out", shape, dtype, s_out, zp_out)
    op = Operation(op_type, "op")
    op.add_input_tensor(ifm)
    op.set_output_tensor(ofm)
    op.attrs.update(attrs or {})
    return optimise([op], [ifm], [ofm])


def table(ops):
    luts = [o.activation_lut for o in ops if o.activation_lut is not None]
    assert len(luts) == 1
    return [int(v) for v in luts[0].values.flatten()]


# OBSERVATION 2 (unmodified tree): tflite_graph_optimiser.convert_mul_max_to_abs_or_lrelu decides on the RAW quantised
# code of the Mul constant ("val = const.outputs[0].values"), not on its real value (code - zero_point) * scale, and it
# does not check that the factor is <= 1:
#   (a) Maximum(x, 1.5 * x)   (code 3, scale 0.5)         -> LeakyRelu table with alpha 1.5: wrong for every x != 0
#       (max(x, 1.5x) is 1.5x for x > 0 and x for x < 0, the table holds x for x > 0 and 1.5x for x < 0)
#   (b) Maximum(x, -0.5 * x)  (code -1, scale 0.5)        -> Abs
#   (c) Maximum(x, 0.5 * x)   (code 0, scale 1/256, zero point -128) -> alpha attribute 0 -> Relu
def mul_max(a_code, a_scale, a_zp, s=0.05, zp=0):
    shape = (1, 8, 8, 16)
    dtype = DataType.int8
    ifm, mid, ofm = fm("in", shape, dtype, s, zp), fm("mid", shape, dtype, s, zp), fm("out", shape, dtype, s, zp)
    c = create_const_tensor("factor", [], dtype, a_code, quantization=qp(a_scale, a_zp))
    c.values = np.array(a_code, dtype=np.int8)
    mul = Operation(Op.Mul, "mul")
    mul.add_input_tensor(ifm)
    mul.add_input_tensor(c)
    mul.set_output_tensor(mid)
    mx = Operation(Op.Maximum, "Maximum")
    mx.add_input_tensor(mid)
    mx.add_input_tensor(ifm)
    mx.set_output_tensor(ofm)
    return optimise([mul, mx], [ifm], [ofm])


found = []
ops = mul_max(3, 0.5, 0)
t = table(ops)
exp = [min(127, max(-128, math.floor(max(x, 1.5 * x) + 0.5))) for x in range(-128, 128)]
bad = [(x, g, e) for x, g, e in zip(range(-128, 128), t, exp) if abs(g - e) > 1]
print("(a)", [o.type.name for o in ops], "entries off by more than 1:", len(bad), bad[126:130])
if bad:
    found.append(f"(a) Maximum(x, 1.5x) became a LeakyRelu table; {len(bad)} entries wrong, (code, got, expected) {bad[:3]}")
ops = mul_max(-1, 0.5, 0)
print("(b)", [o.type.name for o in ops])
if any(o.type == Op.Abs for o in ops):
    found.append("(b) Maximum(x, -0.5x) became Abs")
ops = mul_max(0, 1 / 256, -128)
print("(c)", [o.type.name for o in ops])
if any(o.type == Op.Relu for o in ops):
    found.append("(c) Maximum(x, 0.5x) (constant code 0, zero point -128) became Relu")
for f in found:
    print("VIOLATION:", f)
sys.exit(1 if found else 0)

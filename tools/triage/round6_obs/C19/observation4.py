import math
import os
import sys
import tempfile
import types

sys.path.insert(0, os.getcwd())

import numpy as np

from ethosu.vela import architecture_features, graph_optimiser, model_reader, tflite_writer
from ethosu.vela.data_type import DataType
from ethosu.vela.nn_graph import Graph, PassPlacement, Subgraph
from ethosu.vela.operation import Op, Operation
from ethosu.vela.tensor import QuantizationParameters, Tensor, create_const_tensor


def qp(scale, zp):
    q = QuantizationParameters()
    q.scale_f32 = np.float32(scale)
    q.zero_point = np.int64(zp)
    return q


def fm(name, shape, dtype, scale, zp):
    t = Tensor(list(shape), dtype, name)
    t.quantization = qp(scale, zp)
    return t


def optimise(ops, inputs, outputs):
    """Serialises the operators as a .tflite model, reads it back and runs Vela's graph optimiser on it"""
    all_ops = []
    for t in inputs:
        ph = Operation(Op.Placeholder, t.name + "_ph")
        ph.set_output_tensor(t)
        all_ops.append(ph)
    for op in ops:
        for t in op.inputs:
            if t.ops and t.ops[0].type == Op.Const and t.ops[0] not in all_ops:
                all_ops.append(t.ops[0])
        all_ops.append(op)
    sg = Subgraph("main", PassPlacement.Cpu)
    sg.input_tensors = list(inputs)
    sg.original_inputs = list(inputs)
    sg.output_tensors = list(outputs)
    sg.virtual_outputs = []
    sg.passes = [types.SimpleNamespace(ops=all_ops)]
    g = Graph("main")
    g.subgraphs.append(sg)
    buf = tflite_writer.write_tflite_buffer(g)
    fd, path = tempfile.mkstemp(suffix=".tflite")
    os.write(fd, bytes(buf))
    os.close(fd)
    try:
        nng, network_type = model_reader.read_model(path, model_reader.ModelReaderOptions())
    finally:
        os.unlink(path)
    arch = architecture_features.create_default_arch(architecture_features.Accelerator.Ethos_U55_128)
    nng = graph_optimiser.optimise_graph(nng, arch, network_type)
    return [o for sg_ in nng.subgraphs for o in sg_.get_all_ops()]


def unary(op_type, dtype, s_in, zp_in, s_out, zp_out, attrs=None, shape=(1, 8, 8, 16)):
    ifm = fm("in", shape, dtype, s_in, zp_in)
    ofm = fm("out", shape, dtype, s_out, zp_out)
    op = Operation(op_type, "op")
    op.add_input_tensor(ifm)
    op.set_output_tensor(ofm)
    op.attrs.update(attrs or {})
    return optimise([op], [ifm], [ofm])


def table(ops):
    luts = [o.activation_lut for o in ops if o.activation_lut is not None]
    assert len(luts) == 1
    return [int(v) for v in luts[0].values.flatten()]


# OBSERVATION 4 (unmodified tree), three smaller deviations:
#  (a) convert_to_lut8 rounds "zp_out + y / ofm_scale" away from zero instead of rounding y / ofm_scale and adding the
#      zero point afterwards (what the reference kernels do).  The two differ when y / ofm_scale is an exact tie and the
#      sum is negative: LOGISTIC int8 with ofm scale 1.0, zero point -128: sigmoid(0) / 1.0 = 0.5 -> reference code
#      round(0.5) - 128 = -127, Vela's table holds round_away(-127.5) = -128.
#  (b) optimise_quantize iterates "for val in input_values" over the FIRST axis of a float constant, so a float constant
#      with more than one dimension (inner size > 1) raises ValueError in round_away_zero (only reachable by calling the
#      rewrite directly, as the unit tests do: the semantic checker places QUANTIZE of an unquantised float tensor on the CPU).
#  (c) multiply_by_quantized_multiplier(x, *quantise_scale(s)) for s < 2**-33 (encoded as (0, 16)) shifts x left by 15
#      bits before multiplying by 0: it raises for |x| >= 65536 where the reference returns 0.
from ethosu.vela import fp_math, scaling
from ethosu.vela.tflite_graph_optimiser import optimise_quantize

found = []
t = table(unary(Op.Sigmoid, DataType.int8, 0.1, 0, 1.0, -128))
print("(a) LOGISTIC int8, ofm scale 1.0 zp -128: table[code 0] =", t[128], "reference -127")
if t[128] != -127:
    found.append("(a) tie rounded after adding the zero point")

vals = np.arange(6, dtype=np.float32).reshape(2, 3) * np.float32(0.3)
ifm = create_const_tensor("c", [2, 3], DataType.float32, vals)
ifm.values = vals
ofm = Tensor([2, 3], DataType.int8, "o")
ofm.quantization = qp(0.1, 0)
ofm.quantization.quant_min, ofm.quantization.quant_max = -128, 127
q = Operation(Op.Quantize, "q")
q.add_input_tensor(ifm)
q.set_output_tensor(ofm)
q.run_on_npu = True
try:
    optimise_quantize(q, None, None)
    print("(b) folded:", ofm.values.tolist())
except Exception as e:  # noqa: B902
    found.append(f"(b) QUANTIZE of a 2x3 float constant: {type(e).__name__}: {e}")

try:
    print("(c)", fp_math.multiply_by_quantized_multiplier(70000, *scaling.quantise_scale(1e-11)))
except Exception as e:  # noqa: B902
    found.append(f"(c) multiply_by_quantized_multiplier(70000, *quantise_scale(1e-11)): {type(e).__name__}: {e}")

for f in found:
    print("VIOLATION:", f)
sys.exit(1 if found else 0)

import math
import os
import sys
import tempfile
import types

sys.path.insert(0, os.getcwd())

import numpy as np

from ethosu.vela import architecture_features, graph_optimiser, model_reader, tflite_writer
from ethosu.vela.data_type import DataType
from ethosu.vela.nn_graph import Graph, PassPlacement, Subgraph
from ethosu.vela.operation import Op, Operation
from ethosu.vela.tensor import QuantizationParameters, Tensor, create_const_tensor


def qp(scale, zp):
    q = QuantizationParameters()
    q.scale_f32 = np.float32(scale)
    q.zero_point = np.int64(zp)
    return q


def fm(name, shape, dtype, scale, zp):
    t = Tensor(list(shape), dtype, name)
    t.quantization = qp(scale, zp)
    return t


def optimise(ops, inputs, outputs):
    """Serialises the operators as a .tflite model, reads it back and runs Vela's graph optimiser on it"""
    all_ops = []
    for t in inputs:
        ph = Operation(Op.Placeholder, t.name + "_ph")
        ph.set_output_tensor(t)
        all_ops.append(ph)
    for op in ops:
        for t in op.inputs:
            if t.ops and t.ops[0].type == Op.Const and t.ops[0] not in all_ops:
                all_ops.append(t.ops[0])
        all_ops.append(op)
    sg = Subgraph("main", PassPlacement.Cpu)
    sg.input_tensors = list(inputs)
    sg.original_inputs = list(inputs)
    sg.output_tensors = list(outputs)
    sg.virtual_outputs = []
    sg.passes = [types.SimpleNamespace(ops=all_ops)]
    g = Graph("main")
    g.subgraphs.append(sg)
    buf = tflite_writer.write_tflite_buffer(g)
    fd, path = tempfile.mkstemp(suffix=".tflite")
    os.write(fd, bytes(buf))
    os.close(fd)
    try:
        nng, network_type = model_reader.read_model(path, model_reader.ModelReaderOptions())
    finally:
        os.unlink(path)
    arch = architecture_features.create_default_arch(architecture_features.Accelerator.Ethos_U55_128)
    nng = graph_optimiser.optimise_graph(nng, arch, network_type)
    return [o for sg_ in nng.subgraphs for o in sg_.get_all_ops()]


def unary(op_type, dtype, s_in, zp_in, s_out, zp_out, attrs=None, shape=(1, 8, 8, 16)):
    ifm = fm("in", shape, dtype, s_in, zp_in)
    ofm = fm("out", shape, dtype, s_out, zp_out)
    op = Operation(op_type, "op")
    op.add_input_tensor(ifm)
    op.set_output_tensor(ofm)
    op.attrs.update(attrs or {})
    return optimise([op], [ifm], [ofm])


def table(ops):
    luts = [o.activation_lut for o in ops if o.activation_lut is not None]
    assert len(luts) == 1
    return [int(v) for v in luts[0].values.flatten()]


# OBSERVATION 5 (unmodified tree): lut.create_lut_rsqrt_int8_op maps only the LOWEST code (-128) to the maximum output
# ("values = [quantized_max]" for x == -128), not the code that represents the real value 0 (x == input zero point),
# which is what the reference kernel does ("if (value == 0) return kMax").  For an input zero point other than -128
# the entry for x == zp_in is RSQRT_LUT[0] = 0 scaled, i.e. the output zero point (real value 0) instead of +saturation.
found = []
for s_in, zp_in, s_out, zp_out in ((1 / 64, 0, 1 / 16, -128), (0.05, -20, 0.05, -128), (1 / 64, -128, 1 / 16, -128)):
    t = table(unary(Op.Rsqrt, DataType.int8, s_in, zp_in, s_out, zp_out))
    got = t[zp_in + 128]
    print(f"RSQRT int8 ifm zp {zp_in}: table[code {zp_in}] (real input 0.0) = {got}, reference 127;",
          "next entries", t[zp_in + 129 : zp_in + 132],
          "real function", [min(127, round(1 / math.sqrt(s_in * k) / s_out) + zp_out) for k in (1, 2, 3)])
    if got != 127:
        found.append(f"ifm zero point {zp_in}: rsqrt(0) encoded as {got}")
for f in found:
    print("VIOLATION:", f)
sys.exit(1 if found else 0)

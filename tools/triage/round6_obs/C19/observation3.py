import math
import os
import sys
import tempfile
import types

sys.path.insert(0, os.getcwd())

import numpy as np

from ethosu.vela import architecture_features, graph_optimiser, model_reader, tflite_writer
from ethosu.vela.data_type import DataType
from ethosu.vela.nn_graph import Graph, PassPlacement, Subgraph
from ethosu.vela.operation import Op, Operation
from ethosu.vela.tensor import QuantizationParameters, Tensor, create_const_tensor


def qp(scale, zp):
    q = QuantizationParameters()
    q.scale_f32 = np.float32(scale)
    q.zero_point = np.int64(zp)
    return q


def fm(name, shape, dtype, scale, zp):
    t = Tensor(list(shape), dtype, name)
    t.quantization = qp(scale, zp)
    return t


def optimise(ops, inputs, outputs):
    """Serialises the operators as a .tflite model, reads it back and runs Vela's graph optimiser on it"""
    all_ops = []
    for t in inputs:
        ph = Operation(Op.Placeholder, t.name + "_ph")
        ph.set_output_tensor(t)
        all_ops.append(ph)
    for op in ops:
        for t in op.inputs:
            if t.ops and t.ops[0].type == Op.Const and t.ops[0] not in all_ops:
                all_ops.append(t.ops[0])
        all_ops.append(op)
    sg = Subgraph("main", PassPlacement.Cpu)
    sg.input_tensors = list(inputs)
    sg.original_inputs = list(inputs)
    sg.output_tensors = list(outputs)
    sg.virtual_outputs = []
    sg.passes = [types.SimpleNamespace(ops=all_ops)]
    g = Graph("main")
    g.subgraphs.append(sg)
    buf = tflite_writer.write_tflite_buffer(g)
    fd, path = tempfile.mkstemp(suffix=".tflite")
    os.write(fd, bytes(buf))
    os.close(fd)
    try:
        nng, network_type = model_reader.read_model(path, model_reader.ModelReaderOptions())
    finally:
        os.unlink(path)
    arch = architecture_features.create_default_arch(architecture_features.Accelerator.Ethos_U55_128)
    nng = graph_optimiser.optimise_graph(nng, arch, network_type)
    return [o for sg_ in nng.subgraphs for o in sg_.get_all_ops()]


def unary(op_type, dtype, s_in, zp_in, s_out, zp_out, attrs=None, shape=(1, 8, 8, 16)):
    ifm = fm("in", shape, dtype, s_in, zp_in)
    ofm = fm("out", shape, dtype, s_out, zp_out)
    op = Operation(op_type, "op")
    op.add_input_tensor(ifm)
    op.set_output_tensor(ofm)
    op.attrs.update(attrs or {})
    return optimise([op], [ifm], [ofm])


def table(ops):
    luts = [o.activation_lut for o in ops if o.activation_lut is not None]
    assert len(luts) == 1
    return [int(v) for v in luts[0].values.flatten()]


# OBSERVATION 3 (unmodified tree): convert_hardswish_to_lut ignores a positive output multiplier exponent
# ("shift = -shift if shift < 0 else 0").  When ifm_scale / 128 > ofm_scale the TFLite kernel refuses the operator
# (TF_LITE_ENSURE(output_multiplier_exponent <= 0)); Vela has no such constraint, accepts the operator and generates a
# table that misses the left shift, i.e. does not hold hard_swish(x) for the codes that do not saturate.
def hswish(x):
    return x * min(max(x + 3, 0), 6) / 6


s_in, zp_in, s_out, zp_out = 2.0, 0, 1 / 256, 0
t = table(unary(Op.HardSwish, DataType.uint8, s_in, zp_in, s_out, zp_out))
exp = [min(255, max(0, math.floor(hswish(s_in * (x - zp_in)) / s_out + 0.5) + zp_out)) for x in range(256)]
bad = [(x, g, e) for x, g, e in zip(range(256), t, exp) if abs(g - e) > 1]
print("table[0:6] =", t[:6], " real function:", exp[:6])
if bad:
    print(f"VIOLATION: HARD_SWISH uint8 ifm_scale={s_in} ofm_scale={s_out}: {len(bad)} entries wrong, (code, got, expected) {bad[:4]}")
    sys.exit(1)
sys.exit(0)

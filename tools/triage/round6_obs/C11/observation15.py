#!/usr/bin/env python
"""C11 observation 15 (unmodified tree): duplicated subgraph inputs and outputs are collapsed

Standalone. Builds a small .tflite with the generated flatbuffer *builder functions* only, compiles it with Vela
(ethosu.vela.vela.main), decodes the input and the output with the generated flatbuffer *accessors* only and checks that
the model interface and the CPU-resident operators are preserved verbatim (property C11).
Exit status 1 and FAIL (with the differences) when the violation is reproduced, 0 and PASS otherwise."""
import contextlib
import importlib
import io
import os
import sys
import tempfile

sys.path.insert(0, os.getcwd())

import flatbuffers  # noqa: E402
import numpy as np  # noqa: E402

from ethosu.vela.tflite import Buffer as fbBuffer  # noqa: E402
from ethosu.vela.tflite import Model as fbModel  # noqa: E402
from ethosu.vela.tflite import Operator as fbOperator  # noqa: E402
from ethosu.vela.tflite import OperatorCode as fbOperatorCode  # noqa: E402
from ethosu.vela.tflite import QuantizationParameters as fbQuant  # noqa: E402
from ethosu.vela.tflite import SubGraph as fbSubGraph  # noqa: E402
from ethosu.vela.tflite import Tensor as fbTensor  # noqa: E402
from ethosu.vela.tflite.BuiltinOperator import BuiltinOperator as BO  # noqa: E402
from ethosu.vela.tflite.BuiltinOptions import BuiltinOptions  # noqa: E402
from ethosu.vela.tflite.TensorType import TensorType as TT  # noqa: E402


# ---------------------------------------------------------------------------------------------- model description
class T:
    def __init__(self, name, shape, dtype, data=None, scale=None, zp=None, qdim=0, var=False):
        self.name, self.shape, self.dtype, self.data = name, list(shape), dtype, data
        self.scale, self.zp, self.qdim, self.var = scale, zp, qdim, var


class O:
    def __init__(self, code, inputs, outputs, opts=None, version=1, custom_code=None, custom_options=None):
        self.code, self.inputs, self.outputs, self.opts = code, list(inputs), list(outputs), opts
        self.version, self.custom_code, self.custom_options = version, custom_code, custom_options


class SG:
    def __init__(self):
        self.tensors, self.ops, self.inputs, self.outputs = [], [], [], []

    def t(self, *a, **kw):
        self.tensors.append(T(*a, **kw))
        return self.tensors[-1]

    def op(self, *a, **kw):
        self.ops.append(O(*a, **kw))
        return self.ops[-1]


# ------------------------------------------------------------------------------------------------------- builder
def _vec(b, vals, kind):
    vals = list(vals)
    size = {"i32": 4, "i64": 8, "f32": 4, "u8": 1, "off": 4}[kind]
    b.StartVector(size, len(vals), size)
    for v in reversed(vals):
        if kind == "i32":
            b.PrependInt32(int(v))
        elif kind == "i64":
            b.PrependInt64(int(v))
        elif kind == "f32":
            b.PrependFloat32(float(v))
        elif kind == "u8":
            b.PrependUint8(int(v))
        else:
            b.PrependUOffsetTRelative(v)
    return b.EndVector()


def build(sg):
    b = flatbuffers.Builder(1024)
    buffers, codes = [None], []  # buffer 0 is the empty buffer
    tidx = {id(t): i for i, t in enumerate(sg.tensors)}
    t_offs = []
    for t in sg.tensors:
        bidx = 0
        if t.data is not None:
            buffers.append(np.ascontiguousarray(t.data).view(np.uint8).flatten())
            bidx = len(buffers) - 1
        shape = _vec(b, t.shape, "i32")
        name = b.CreateString(t.name)
        q = None
        if t.scale is not None:
            sc = _vec(b, np.atleast_1d(t.scale), "f32")
            zp = _vec(b, np.atleast_1d(t.zp), "i64")
            fbQuant.QuantizationParametersStart(b)
            fbQuant.QuantizationParametersAddScale(b, sc)
            fbQuant.QuantizationParametersAddZeroPoint(b, zp)
            fbQuant.QuantizationParametersAddQuantizedDimension(b, t.qdim)
            q = fbQuant.QuantizationParametersEnd(b)
        fbTensor.TensorStart(b)
        fbTensor.TensorAddShape(b, shape)
        fbTensor.TensorAddType(b, t.dtype)
        fbTensor.TensorAddBuffer(b, bidx)
        fbTensor.TensorAddName(b, name)
        if q is not None:
            fbTensor.TensorAddQuantization(b, q)
        fbTensor.TensorAddIsVariable(b, t.var)
        t_offs.append(fbTensor.TensorEnd(b))
    tensors_off = _vec(b, t_offs, "off")
    op_offs = []
    for op in sg.ops:
        key = (op.code, op.version, op.custom_code)
        if key not in codes:
            codes.append(key)
        ins = _vec(b, [tidx[id(t)] if t is not None else -1 for t in op.inputs], "i32")
        outs = _vec(b, [tidx[id(t)] for t in op.outputs], "i32")
        opt_off, opt_type = None, 0
        if op.opts is not None:
            oname, fields = op.opts
            mod = importlib.import_module("ethosu.vela.tflite." + oname)
            pre = {}
            for k, v in fields.items():
                pre[k] = _vec(b, v, "i32") if isinstance(v, (list, tuple)) else b.CreateString(v) if isinstance(v, str) else v
            getattr(mod, oname + "Start")(b)
            for k, v in pre.items():
                getattr(mod, oname + "Add" + k)(b, v)
            opt_off = getattr(mod, oname + "End")(b)
            opt_type = getattr(BuiltinOptions, oname)
        cust = _vec(b, op.custom_options, "u8") if op.custom_options is not None else None
        fbOperator.OperatorStart(b)
        fbOperator.OperatorAddOpcodeIndex(b, codes.index(key))
        fbOperator.OperatorAddInputs(b, ins)
        fbOperator.OperatorAddOutputs(b, outs)
        if opt_off is not None:
            fbOperator.OperatorAddBuiltinOptionsType(b, opt_type)
            fbOperator.OperatorAddBuiltinOptions(b, opt_off)
        if cust is not None:
            fbOperator.OperatorAddCustomOptions(b, cust)
        op_offs.append(fbOperator.OperatorEnd(b))
    ops_off = _vec(b, op_offs, "off")
    ins_off = _vec(b, [tidx[id(t)] for t in sg.inputs], "i32")
    outs_off = _vec(b, [tidx[id(t)] for t in sg.outputs], "i32")
    name = b.CreateString("main")
    fbSubGraph.SubGraphStart(b)
    fbSubGraph.SubGraphAddTensors(b, tensors_off)
    fbSubGraph.SubGraphAddInputs(b, ins_off)
    fbSubGraph.SubGraphAddOutputs(b, outs_off)
    fbSubGraph.SubGraphAddOperators(b, ops_off)
    fbSubGraph.SubGraphAddName(b, name)
    sgs_off = _vec(b, [fbSubGraph.SubGraphEnd(b)], "off")
    code_offs = []
    for code, version, custom in codes:
        cc = b.CreateString(custom) if custom is not None else None
        fbOperatorCode.OperatorCodeStart(b)
        fbOperatorCode.OperatorCodeAddDeprecatedBuiltinCode(b, min(code, 127))
        fbOperatorCode.OperatorCodeAddBuiltinCode(b, code)
        fbOperatorCode.OperatorCodeAddVersion(b, version)
        if cc is not None:
            fbOperatorCode.OperatorCodeAddCustomCode(b, cc)
        code_offs.append(fbOperatorCode.OperatorCodeEnd(b))
    codes_off = _vec(b, code_offs, "off")
    buf_offs = []
    for data in buffers:
        d = None
        if data is not None:
            b.StartVector(1, len(data), 16)
            b.head = b.head - len(data)
            b.Bytes[b.head : b.head + len(data)] = data.tobytes()
            d = b.EndVector()
        fbBuffer.BufferStart(b)
        if d is not None:
            fbBuffer.BufferAddData(b, d)
        buf_offs.append(fbBuffer.BufferEnd(b))
    bufs_off = _vec(b, buf_offs, "off")
    desc = b.CreateString("c11 demo")
    fbModel.ModelStart(b)
    fbModel.ModelAddVersion(b, 3)
    fbModel.ModelAddOperatorCodes(b, codes_off)
    fbModel.ModelAddSubgraphs(b, sgs_off)
    fbModel.ModelAddDescription(b, desc)
    fbModel.ModelAddBuffers(b, bufs_off)
    b.Finish(fbModel.ModelEnd(b), b"TFL3")
    return bytes(b.Output())


# ------------------------------------------------------------------------------------------------------- decoder
OPT_NAME = {v: k for k, v in vars(BuiltinOptions).items() if not k.startswith("_")}
OP_NAME = {v: k for k, v in vars(BO).items() if not k.startswith("_")}


def _lst(x):
    return None if isinstance(x, int) else x.tolist()


def _options(op):
    ot, tab = op.BuiltinOptionsType(), op.BuiltinOptions()
    if ot == 0 or tab is None:
        return (None, None)
    oname = OPT_NAME[ot]
    obj = getattr(importlib.import_module("ethosu.vela.tflite." + oname), oname)()
    obj.Init(tab.Bytes, tab.Pos)
    res = {}
    for attr in dir(obj):
        if attr.startswith("_") or attr == "Init" or attr.startswith("GetRootAs") or attr.endswith("BufferHasIdentifier"):
            continue
        try:
            v = getattr(obj, attr)()
        except TypeError:
            continue
        res[attr] = v.tolist() if isinstance(v, np.ndarray) else v.item() if isinstance(v, np.generic) else v
    return (oname, res)


def decode(buf):
    """-> (tensors, operators, inputs, outputs) of subgraph 0; tensors are referred to by (name, shape, type, quant, data)"""
    m = fbModel.Model.GetRootAsModel(bytearray(buf), 0)
    buffers = [None if m.Buffers(i).DataLength() == 0 else m.Buffers(i).DataAsNumpy().tobytes() for i in range(m.BuffersLength())]
    codes = []
    for i in range(m.OperatorCodesLength()):
        c = m.OperatorCodes(i)
        cc = c.CustomCode()
        codes.append((max(c.BuiltinCode(), c.DeprecatedBuiltinCode()), c.Version(), cc.decode() if cc is not None else None))
    s = m.Subgraphs(0)
    tensors = []
    for ti in range(s.TensorsLength()):
        t = s.Tensors(ti)
        q = t.Quantization()
        quant = None
        if q is not None and not (isinstance(q.ScaleAsNumpy(), int) and isinstance(q.ZeroPointAsNumpy(), int)):
            quant = (tuple(_lst(q.ScaleAsNumpy()) or ()), tuple(_lst(q.ZeroPointAsNumpy()) or ()), q.QuantizedDimension())
        shp = t.ShapeAsNumpy()
        tensors.append((t.Name().decode(), () if isinstance(shp, int) else tuple(shp.tolist()), t.Type(), quant, buffers[t.Buffer()]))
    ops = []
    for oi in range(s.OperatorsLength()):
        o = s.Operators(oi)
        code, version, custom = codes[o.OpcodeIndex()]
        ops.append(
            dict(
                code=OP_NAME[code],
                custom_code=custom,
                version=version,
                inputs=[tensors[i] if i >= 0 else None for i in (_lst(o.InputsAsNumpy()) or [])],
                outputs=[tensors[i] for i in (_lst(o.OutputsAsNumpy()) or [])],
                options=_options(o),
                custom_options=None if o.CustomOptionsIsNone() else o.CustomOptionsAsNumpy().tobytes(),
            )
        )
    return (
        tensors,
        ops,
        [tensors[i] for i in (_lst(s.InputsAsNumpy()) or [])],
        [tensors[i] for i in (_lst(s.OutputsAsNumpy()) or [])],
    )


# ------------------------------------------------------------------------------------------------- compile + check
def compile_with_vela(buf, extra_args=()):
    from ethosu.vela import vela

    d = tempfile.mkdtemp(prefix="c11_demo_")
    src = os.path.join(d, "net.tflite")
    with open(src, "wb") as f:
        f.write(buf)
    sys.stdout.flush()
    saved, devnull = os.dup(1), os.open(os.devnull, os.O_WRONLY)
    try:
        os.dup2(devnull, 1)  # Vela is chatty
        with contextlib.redirect_stdout(io.StringIO()):
            rc = vela.main([src, "--output-dir", d, "--accelerator-config", "ethos-u55-128"] + list(extra_args))
    finally:
        sys.stdout.flush()
        os.dup2(saved, 1)
        os.close(saved)
        os.close(devnull)
    if rc not in (0, None):
        raise RuntimeError("vela.main returned %r" % (rc,))
    with open(os.path.join(d, "net_vela.tflite"), "rb") as f:
        return f.read(), os.path.join(d, "net_vela.tflite")


ITEMSIZE = {TT.UINT8: 1, TT.INT8: 1, TT.BOOL: 1, TT.INT16: 2, TT.FLOAT16: 2, TT.INT32: 4, TT.FLOAT32: 4, TT.INT64: 8, TT.FLOAT64: 8}


def short(t):
    return None if t is None else t[:4] + (("<%d bytes>" % len(t[4])) if t[4] is not None else None,)


def check(src_buf, out_buf, out_path, cpu_ops):
    """cpu_ops: names of the first output tensor of every source operator that Vela must pass through"""
    errs = []
    _, s_ops, s_in, s_out = decode(src_buf)
    o_tens, o_ops, o_in, o_out = decode(out_buf)
    if s_in != o_in:
        errs.append("subgraph inputs differ: %s -> %s" % ([short(t) for t in s_in], [short(t) for t in o_in]))
    if s_out != o_out:
        errs.append("subgraph outputs differ: %s -> %s" % ([short(t) for t in s_out], [short(t) for t in o_out]))
    for sop in s_ops:
        name = sop["outputs"][0][0]
        if name not in cpu_ops:
            continue
        same = [o for o in o_ops if o["custom_code"] != "ethos-u" and o["outputs"] and o["outputs"][0][0] == name]
        if len(same) != 1:
            errs.append(
                "source operator %s '%s' appears %d times in the output; output operators: %s"
                % (sop["code"], name, len(same), [(o["code"], o["custom_code"], [t[0] for t in o["outputs"]]) for o in o_ops])
            )
            continue
        oop = same[0]
        for key in ("code", "custom_code", "version", "options", "custom_options"):
            a, b_ = sop[key], oop[key]
            if key == "custom_options":
                a, b_ = a or b"", b_ or b""
            if a != b_:
                errs.append("operator '%s': %s %r -> %r" % (name, key, a, b_))
        # operands: same tensors in the same positions; constant data must be identical (an operand that was not
        # constant in the source may have been folded into a constant, its contents are checked separately)
        same_inputs = len(sop["inputs"]) == len(oop["inputs"]) and all(
            (a is None and b_ is None) or (a is not None and b_ is not None and a[:4] == b_[:4] and (a[4] is None or a[4] == b_[4]))
            for a, b_ in zip(sop["inputs"], oop["inputs"])
        )
        if not same_inputs:
            errs.append("operator '%s': inputs %s -> %s" % (name, [short(t) for t in sop["inputs"]], [short(t) for t in oop["inputs"]]))
        if sop["outputs"] != oop["outputs"]:
            errs.append("operator '%s': outputs %s -> %s" % (name, [short(t) for t in sop["outputs"]], [short(t) for t in oop["outputs"]]))
    # operator order respects data dependencies
    producer = {}
    for idx, o in enumerate(o_ops):
        for t in o["outputs"]:
            if t[0] in producer:
                errs.append("tensor '%s' is written by more than one operator" % t[0])
            producer[t[0]] = idx
    for idx, o in enumerate(o_ops):
        for t in o["inputs"]:
            if t is not None and producer.get(t[0], -1) >= idx:
                errs.append("operator #%d %s reads '%s' before operator #%d produces it" % (idx, o["code"], t[0], producer[t[0]]))
    for t in o_out:
        if t[0] not in producer and t not in o_in and t[4] is None:
            errs.append("subgraph output '%s' is not produced by any operator" % t[0])
    # every constant tensor holds exactly as many bytes as its shape and element type say
    for t in o_tens:
        if t[4] is not None and t[2] in ITEMSIZE and len(t[4]) != int(np.prod(t[1], dtype=np.int64)) * ITEMSIZE[t[2]]:
            errs.append(
                "constant tensor '%s' of shape %s and type %d has a buffer of %d bytes (%d expected)"
                % (t[0], list(t[1]), t[2], len(t[4]), int(np.prod(t[1], dtype=np.int64)) * ITEMSIZE[t[2]])
            )
    # Vela's own reader accepts the output
    try:
        from ethosu.vela import model_reader

        with contextlib.redirect_stdout(io.StringIO()):
            model_reader.read_model(out_path, model_reader.ModelReaderOptions())
    except BaseException as e:  # noqa: B902 (the reader calls sys.exit on malformed files)
        errs.append("Vela's reader rejects the output: %s: %s" % (type(e).__name__, e))
    return errs


def run_demo(sg, cpu_ops, extra_args=()):
    src = build(sg)
    try:
        out, out_path = compile_with_vela(src, extra_args)
    except BaseException as e:  # noqa: B902
        print("FAIL: compilation did not produce an output model: %s: %s" % (type(e).__name__, e))
        sys.exit(1)
    errs = check(src, out, out_path, cpu_ops)
    if errs:
        print("FAIL")
        for e in errs:
            print("  -", e)
        sys.exit(1)
    print("PASS")
    sys.exit(0)


# ------------------------------------------------------------------------------------------------------ the model
rng = np.random.default_rng(11)


def conv_1x1(g, x, name, oc=4):
    """int8 1x1 CONV_2D with constant weights and bias: supported by the NPU"""
    ic = x.shape[-1]
    w = g.t(name + "_w", [oc, 1, 1, ic], TT.INT8, data=rng.integers(-127, 127, (oc, 1, 1, ic), dtype=np.int8), scale=[0.1] * oc, zp=[0] * oc)
    b = g.t(name + "_b", [oc], TT.INT32, data=rng.integers(-100, 100, (oc,), dtype=np.int32), scale=[0.05] * oc, zp=[0] * oc)
    o = g.t(name, x.shape[:3] + [oc], TT.INT8, scale=0.25, zp=-1)
    opts = ("Conv2DOptions", dict(Padding=0, StrideW=1, StrideH=1, DilationWFactor=1, DilationHFactor=1, FusedActivationFunction=0))
    g.op(BO.CONV_2D, [x, w, b], [o], opts, version=3)
    return o


def main():
    # the same tensor listed twice among the subgraph inputs and twice among the outputs (valid flatbuffer, e.g. a
    # signature that exposes one tensor under two names): the reader removes the duplicates (with a warning), the
    # output model has one input and one output.
    g = SG()
    x = g.t("x", [1, 8, 8, 4], TT.INT8, scale=0.5, zp=3)
    t = conv_1x1(g, x, "t")
    g.inputs, g.outputs = [x, x], [t, t]
    run_demo(g, cpu_ops=[])


if __name__ == "__main__":
    main()

# C07 observation 1 (UNMODIFIED tree): the compressed-weight cache ignores the IFM precision.
# WeightCompressionConfig = (npu_block_type, ofm_block_depth, ofm_depth_step, dilation, weight_value_id); the
# encoding, however, also depends on the IFM bit depth (depth-first IFM block depth 32 vs 16, part-kernel
# element padding 4 vs 2, choice of the traversal) and on the operator (transpose convolution flips the kernel).
# A weight tensor shared by an int8 and an int16 convolution is therefore encoded once, for whichever
# operator the scheduler visits first, and the other operator reads a stream in the wrong traversal order.
# Run: cd <worktree> && /venv/bin/python out/observation1.py   (exit 1 = violation reproduced)
import os
import sys

sys.path.insert(0, os.getcwd())

import numpy as np  # noqa: E402

from ethosu.vela import architecture_features as af  # noqa: E402
from ethosu.vela import weight_compressor as wc  # noqa: E402
from ethosu.vela.api import NpuBlockTraversal  # noqa: E402
from ethosu.vela.architecture_allocator import ArchitectureBlockConfig  # noqa: E402
from ethosu.vela.data_type import DataType  # noqa: E402
from ethosu.vela.operation import Kernel  # noqa: E402
from ethosu.vela.operation import Op  # noqa: E402
from ethosu.vela.operation import Operation  # noqa: E402
from ethosu.vela.shape4d import Shape4D  # noqa: E402
from ethosu.vela.tensor import create_const_tensor  # noqa: E402
from ethosu.vela.tensor import QuantizationParameters  # noqa: E402
from ethosu.vela.tensor import Tensor  # noqa: E402
from ethosu.vela.tensor import TensorFormat  # noqa: E402
from ethosu.vela.tensor import TensorPurpose  # noqa: E402

ZDIV_DISABLE = 6
ZDIV_EOS = 7
WDIV_UNCOMPRESSED = 7


class StreamError(Exception):
    pass


class Bits:
    def __init__(self, data):
        self.d = bytes(data)
        self.pos = 0

    def get(self, n):
        v = 0
        for i in range(n):
            byte = self.pos >> 3
            if byte >= len(self.d):
                raise StreamError("bitstream underrun at bit %d" % self.pos)
            v |= ((self.d[byte] >> (self.pos & 7)) & 1) << i
            self.pos += 1
        return v


def ref_decode(data):
    """Decode an MLW stream; returns list of weights. Raises StreamError on any format violation."""
    if len(data) % 16 != 0:
        raise StreamError("stream length %d is not a multiple of 16" % len(data))
    bb = Bits(data)
    size = len(data)
    out = []
    first = True
    palsize = palbits = direct_offset = 0
    palette = []
    prev_zdiv = 0
    while True:
        zdiv = bb.get(3)
        done = False
        while zdiv == ZDIV_EOS:
            bb.get((8 - (bb.pos & 7)) & 7)
            first = True
            if bb.pos // 8 == size:
                done = True
                break
            zdiv = bb.get(3)
        if done or bb.pos // 8 == size:
            break
        if not (zdiv < 4 or zdiv == ZDIV_DISABLE):
            raise StreamError("illegal ZDIV %d" % zdiv)
        use_zero_run = zdiv != ZDIV_DISABLE
        nvalues = bb.get(15) + 1
        wdiv = bb.get(3)
        wtrunc = bb.get(1)
        new_palette = bb.get(1)
        if first:
            if not new_palette:
                raise StreamError("first slice without palette header")
            first = False
        if not new_palette:
            if use_zero_run != (prev_zdiv != ZDIV_DISABLE):
                raise StreamError("zero-run mode changed without new palette")
        prev_zdiv = zdiv
        if new_palette:
            direct_offset = bb.get(5)
            palsize = bb.get(5)
            if palsize > 0:
                palsize += 1
            palbits = bb.get(3) + 2
            palette = [bb.get(palbits) for _ in range(palsize)]
        if wdiv == WDIV_UNCOMPRESSED:
            w_unc = True
            if palsize > 0:
                ub = 0
                while (1 << ub) < palsize:
                    ub += 1
            else:
                ub = palbits
            wdiv = ub
        else:
            w_unc = False
            if wdiv >= 6:
                raise StreamError("illegal WDIV %d" % wdiv)
        z_nvalues = nvalues + (1 if new_palette else 0)
        w_value = [0] * nvalues
        z_value = [0] * z_nvalues
        w_pos = z_pos = 0
        w_prev_pos = z_prev_pos = 0
        w_carry = z_carry = 0
        w_q = []
        z_q = []
        w_prev_enable = z_prev_enable = False
        w_prev_q = []
        z_prev_q = []
        z_unary_len = 12 if zdiv < 3 else 8
        while True:
            balance = (w_pos - z_pos) if use_zero_run else 0
            w_enable = (balance < 8 or not use_zero_run) and w_pos < nvalues
            z_enable = balance >= 0 and use_zero_run and z_pos < z_nvalues
            w_unary0 = 0
            if w_enable:
                w_unary0 = 0 if w_unc else bb.get(12)
            if z_enable:
                z_unary = bb.get(z_unary_len)
                z_q = []
                cnt = z_carry
                for i in range(z_unary_len):
                    if z_unary & (1 << i):
                        cnt += 1
                    else:
                        z_q.append(cnt)
                        cnt = 0
                z_carry = cnt
                z_pos += len(z_q)
            if w_enable:
                max_symbols = 8 if (w_unc and wdiv > 5) else 12
                w_unary1_len = bin(w_unary0 & ((1 << max_symbols) - 1)).count("1")
                w_unary1 = bb.get(w_unary1_len)
                w_q = []
                cnt = w_carry
                for i in range(max_symbols):
                    code = 0
                    if w_unary0 & (1 << i):
                        code += 1
                        if w_unary1 & 1:
                            code += 1
                        w_unary1 >>= 1
                    cnt += code
                    if code < 2 or wtrunc:
                        w_q.append(cnt)
                        cnt = 0
                w_carry = cnt
                w_pos += len(w_q)
            if w_prev_enable:
                for q in w_prev_q:
                    if w_prev_pos >= nvalues:
                        break
                    if not w_unc and q > 31:
                        raise StreamError("weight GRC quotient %d > 31" % q)
                    w_value[w_prev_pos] = (q << wdiv) + bb.get(wdiv)
                    w_prev_pos += 1
            if z_prev_enable:
                for q in z_prev_q:
                    if z_prev_pos >= z_nvalues:
                        break
                    z_value[z_prev_pos] = (q << zdiv) + bb.get(zdiv)
                    z_prev_pos += 1
            w_prev_enable, w_prev_q = w_enable, list(w_q)
            z_prev_enable, z_prev_q = z_enable, list(z_q)
            if not (w_prev_enable or z_prev_enable):
                break
        if new_palette and use_zero_run:
            out.extend([0] * z_value[0])
        for i in range(nvalues):
            wv = w_value[i]
            if wv >= 512:
                raise StreamError("weight index %d does not fit 9 bits" % wv)
            if wv < palsize:
                val = palette[wv]
            else:
                val = wv - palsize + direct_offset
            if val >= 512:
                raise StreamError("sign/magnitude value %d does not fit 9 bits" % val)
            sign, mag = val & 1, val >> 1
            out.append(-mag if sign else mag)
            if use_zero_run:
                out.extend([0] * z_value[i + (1 if new_palette else 0)])
    return out


def ref_reorder(w, ifm_ublock_depth, ofm_ublock_depth, ofm_block_depth, is_depthwise, is_partkernel,
                ifm_bitdepth, decomp_h, decomp_w):
    """w: OHWI nested indexable (numpy array). Returns list of weights in hardware order (with zero padding)."""
    ofm_depth, kh, kw, ifm_depth = w.shape
    out = []
    ifm_block_depth = 16 if (is_partkernel or ifm_bitdepth == 16) else 32

    def rup(a, b):
        return (a + b - 1) // b * b

    for ofm_block_z in range(0, ofm_depth, ofm_block_depth):
        cl_ofm = min(ofm_block_depth, ofm_depth - ofm_block_z)
        for ifm_block_z in range(0, 1 if is_depthwise else ifm_depth, ifm_block_depth):
            if is_depthwise:
                cl_ifm = ifm_ublock_depth
            elif is_partkernel:
                cl_ifm = min(ifm_block_depth, ifm_depth - ifm_block_z)
            else:
                cl_ifm = ifm_block_depth
            for sky in range(0, kh, decomp_h):
                sub_h = min(kh - sky, decomp_h)
                for skx in range(0, kw, decomp_w):
                    sub_w = min(kw - skx, decomp_w)
                    elems = sub_w * sub_h
                    if is_partkernel:
                        elems = rup(elems, 2 if ifm_bitdepth == 16 else 4)
                    elif is_depthwise:
                        elems = rup(elems, 4)
                    outer = cl_ifm if is_partkernel else 1
                    inner = 1 if is_partkernel else cl_ifm
                    for ifm_ublk_outer in range(0, outer, ifm_ublock_depth):
                        for ofm_ublk in range(0, cl_ofm, ofm_ublock_depth):
                            for element in range(elems):
                                kx = element % sub_w
                                ky = element // sub_w
                                for ifm_ublk_inner in range(0, inner, ifm_ublock_depth):
                                    for oz in range(ofm_ublock_depth):
                                        for iz in range(1 if is_depthwise else ifm_ublock_depth):
                                            ifm_z = ifm_block_z + ifm_ublk_inner + ifm_ublk_outer + iz
                                            ofm_z = ofm_block_z + ofm_ublk + oz
                                            if ifm_z < ifm_depth and ofm_z < ofm_depth and ky < sub_h:
                                                out.append(int(w[ofm_z, sky + ky, skx + kx, ifm_z]))
                                            else:
                                                out.append(0)
    return out


def qp(scale, zp=0):
    q = QuantizationParameters()
    q.scale_f32 = np.float32(scale)
    q.zero_point = zp
    return q


def make_conv(name, ifm_dtype, weight_tens, oc):
    ic = weight_tens.shape[2]
    ifm = Tensor([1, 8, 8, ic], ifm_dtype, name + "_ifm")
    ifm.quantization = qp(0.5)
    ofm = Tensor([1, 8, 8, oc], ifm_dtype, name + "_ofm")
    ofm.quantization = qp(0.25)
    op = Operation(Op.Conv2DBias, name)
    op.add_input_tensor(ifm)
    op.add_input_tensor(weight_tens)
    bias_dtype = DataType.int64 if ifm_dtype == DataType.int16 else DataType.int32
    bias = create_const_tensor(name + "_bias", [oc], bias_dtype, np.zeros(oc), quantization=qp(1.0))
    bias.purpose = TensorPurpose.FeatureMap
    bias.format = TensorFormat.NHWC
    op.add_input_tensor(bias)
    op.set_output_tensor(ofm)
    return op, bias


def decoded_weights(npu_tensor):
    r = npu_tensor.encoded_ranges[wc.WeightKey(0, 0)]
    start = r.offset + r.weight_offset
    return ref_decode(bytes(npu_tensor.buffer)[start : start + r.weight_bytes])


def main():
    rng = np.random.default_rng(0)
    arch = af.create_default_arch(af.Accelerator.Ethos_U55_128)
    ic, oc = 40, 16
    hwio = rng.integers(-128, 128, (1, 1, ic, oc)).astype(np.int8)
    # One constant weight tensor (TFLite 16x8 convolutions use int8 weights, exactly like int8 convolutions)
    # consumed by an int8 convolution and by an int16 convolution.  The TFLite reader gives every consumer its
    # own clone, but the clones keep the value_id, which is what the compression cache is keyed on.
    w8 = create_const_tensor("shared_w", list(hwio.shape), DataType.int8, hwio, quantization=qp(0.125, 0))
    w16 = w8.clone("_second_consumer")
    op8, bias8 = make_conv("conv_int8", DataType.int8, w8, oc)
    op16, bias16 = make_conv("conv_int16", DataType.int16, w16, oc)
    kernel = Kernel(1, 1)
    block_config = ArchitectureBlockConfig()
    block_config.ofm_block = Shape4D(1, 8, 8, 16)
    wc.CompressedWeightCache.clear()
    t8, _ = wc.encode_weight_and_scale_tensor(arch, op8, w8, bias8, kernel, block_config, [0, oc])
    t16, _ = wc.encode_weight_and_scale_tensor(arch, op16, w16, bias16, kernel, block_config, [0, oc])
    ohwi = np.transpose(hwio.astype(np.int64), (3, 0, 1, 2))
    bad = []
    for name, t, bits in (("int8 convolution", t8, 8), ("int16 convolution", t16, 16)):
        pk = t.hw_traversal == NpuBlockTraversal.PART_KERNEL_FIRST
        expected = ref_reorder(ohwi, 8, 8, 16, False, pk, bits, 8, 8)
        dec = decoded_weights(t)
        ok = dec == expected
        print("%s: traversal %s, stream decodes to %d weights, hardware order for %d-bit IFM needs %d -> %s"
              % (name, t.hw_traversal.name, len(dec), bits, len(expected), "ok" if ok else "WRONG"))
        if not ok:
            bad.append(name)
    print("second call returned the cached tensor of the first call:", t8 is t16)
    if bad:
        print("VIOLATION on the unmodified tree: weights of the", ", ".join(bad),
              "are not in the hardware traversal order of that operator (IFM block depth 32 vs 16)")
        return 1
    print("no violation")
    return 0


if __name__ == "__main__":
    sys.exit(main())

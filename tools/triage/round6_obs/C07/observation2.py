# C07 observation 2 (UNMODIFIED tree, minor): mlw_codec.reorder_encode() only rejects arrays with fewer than 4
# dimensions ("if (PyArray_NDIM(...) < 4) -> Invalid input shape"); an array with MORE than 4 dimensions is
# accepted and everything outside [:, :, :, :, 0, ...] is silently dropped, so the stream does not contain
# the source weights.  (weight_compressor.encode_weights asserts a 4-D shape, so only direct users of the
# extension module are affected.)
# Run: cd <worktree> && /venv/bin/python out/observation2.py   (exit 1 = reproduced)
import os
import sys

sys.path.insert(0, os.getcwd())

import numpy as np  # noqa: E402

from ethosu import mlw_codec  # noqa: E402

w = np.arange(1, 2 * 1 * 1 * 8 * 3 + 1, dtype=np.int16).reshape(2, 1, 1, 8, 3)
try:
    stream, padded = mlw_codec.reorder_encode(8, 8, w, 8, 0, 0, 8, 8, 8)
except Exception as e:
    print("rejected:", type(e).__name__, e)
    sys.exit(0)
dec = [x for x in mlw_codec.decode(stream) if x != 0]
print("accepted a 5-D volume with %d weights; the stream holds %d non-zero weights: %s" % (w.size, len(dec), dec))
sys.exit(1 if len(dec) != w.size else 0)

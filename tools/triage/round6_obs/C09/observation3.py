# OBSERVATION 3 (unmodified tree): "scales outside the range degrade to a zero multiplier instead of wrapping" does not
# hold at two call sites of the scaling helpers in register_command_stream_generator:
#  (a) generate_scaling_for_elementwise, int16 ADD/SUB with equal input scales: the shift returned by
#      simplified_elementwise_add_sub_scale is decremented ("shift -= 1") without a range check. For
#      2^45 <= input_scale/output_scale < 2^46 the valid shift 0 becomes -1 and is emitted as 0xFFFF (6-bit field: 63)
#      with the multiplier 2^30 still non-zero.
#  (b) generate_ofm_scaling_for_pooling, default branch (average pool with different IFM/OFM scales, e.g. the 1x1 "nop"
#      pools Vela inserts): input_scale/output_scale < 2^-32 trips "assert shift < (1 << 6)" in quantise_pooling_scale,
#      and >= 2^30 raises "ValueError: negative shift count", instead of emitting a zero multiplier.
# All scales used are valid finite float32 values and pass Vela's semantic checks (constraint_quant_scale_inf).
import os
import sys

sys.path.insert(0, os.getcwd())

import numpy as np  # noqa: E402

from ethosu.vela.api import npu_find_block_configs  # noqa: E402
from ethosu.vela.api import npu_generate_register_command_stream  # noqa: E402
from ethosu.vela.api import NpuAccelerator  # noqa: E402
from ethosu.vela.api import NpuDataType  # noqa: E402
from ethosu.vela.api import NpuElementWiseOp  # noqa: E402
from ethosu.vela.api import NpuElementWiseOperation  # noqa: E402
from ethosu.vela.api import NpuFeatureMap  # noqa: E402
from ethosu.vela.api import NpuKernel  # noqa: E402
from ethosu.vela.api import NpuLayout  # noqa: E402
from ethosu.vela.api import NpuPadding  # noqa: E402
from ethosu.vela.api import NpuPoolingOp  # noqa: E402
from ethosu.vela.api import NpuPoolingOperation  # noqa: E402
from ethosu.vela.api import NpuQuantization  # noqa: E402
from ethosu.vela.api import NpuShape3D  # noqa: E402
from ethosu.vela.api import NpuTileBox  # noqa: E402
from ethosu.vela.ethos_u55_regs.ethos_u55_regs import cmd1  # noqa: E402

ACC = NpuAccelerator.Ethos_U55_128


def fmap(shape, addr, dtype, scale):
    fm = NpuFeatureMap()
    fm.data_type = dtype
    fm.shape = shape
    fm.tiles = NpuTileBox(width_0=shape.width, height_0=shape.height, height_1=shape.height, addresses=[addr, 0, 0, 0])
    fm.region = 1
    fm.layout = NpuLayout.NHWC
    fm.quantization = NpuQuantization(scale_f32=scale, zero_point=0)
    return fm


def ofm_scale(cmds):
    for i, word in enumerate(cmds):
        if (word & 0xFFFF) == (cmd1.NPU_SET_OFM_SCALE.value | 0x4000):
            return cmds[i + 1], word >> 16
    return None


def int16_add(ratio_log2):
    scale_in = np.float32(2.0**15)
    scale_out = np.float32(2.0 ** (15 - ratio_log2))
    op = NpuElementWiseOperation(NpuElementWiseOp.ADD)
    shape = NpuShape3D(height=4, width=4, depth=8)
    op.ifm = fmap(shape, 0, NpuDataType.INT16, scale_in)
    op.ifm2 = fmap(shape, 0x1000, NpuDataType.INT16, scale_in)
    op.ofm = fmap(shape, 0x2000, NpuDataType.INT16, scale_out)
    op.block_config = npu_find_block_configs(op, ACC)[0]
    return ofm_scale(npu_generate_register_command_stream([op], ACC))


def avgpool_1x1(ratio_log2):
    op = NpuPoolingOperation(NpuPoolingOp.AVERAGE)
    shape = NpuShape3D(height=1, width=1, depth=8)
    op.ifm = fmap(shape, 0, NpuDataType.INT8, np.float32(2.0**ratio_log2))
    op.ofm = fmap(shape, 0x1000, NpuDataType.INT8, np.float32(1.0))
    op.kernel = NpuKernel(1, 1)
    op.padding = NpuPadding(0, 0, 0, 0)
    op.block_config = npu_find_block_configs(op, ACC)[0]
    return ofm_scale(npu_generate_register_command_stream([op], ACC))


def main():
    ok = True
    print("(a) int16 ADD, equal input scales: OFM_SCALE (multiplier, shift parameter)")
    for ratio_log2 in (43, 44, 45, 46):
        multiplier, shift = int16_add(ratio_log2)
        good = multiplier == 0 or 0 <= shift <= 63
        ok &= good
        print(f"    input_scale/output_scale = 2^{ratio_log2}: multiplier={multiplier} shift=0x{shift:04x}", "" if good else "<-- wrapped")
    print("(b) 1x1 average pool with different IFM/OFM scale")
    for ratio_log2 in (-32, -33, 29, 30):
        try:
            print(f"    input_scale/output_scale = 2^{ratio_log2}: (multiplier, shift) = {avgpool_1x1(ratio_log2)}")
        except (AssertionError, ValueError) as e:
            ok = False
            print(f"    input_scale/output_scale = 2^{ratio_log2}: {type(e).__name__}: {e} <-- no zero multiplier, generation aborts")
    print("property holds" if ok else "PROPERTY VIOLATED on the unmodified tree")
    return 0 if ok else 1


if __name__ == "__main__":
    sys.exit(main())

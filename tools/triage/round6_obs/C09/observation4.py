# OBSERVATION 4 (unmodified tree, NumPy 2.x): the input multiplier of the int16 SOFTMAX decomposition does not denote
# the same value as the TensorFlow Lite reference derivation.
#   reference (kernels/activations.cc, SoftmaxPrepare, int16):
#       double input_scale_beta_rescale = input->params.scale * params->beta / (10.0 / 65535.0);
#       (float * float -> float, then float / double -> DOUBLE division)  ->  QuantizeMultiplier
#   Vela (softmax.SoftMax.get_graph_int16):
#       scaling.elementwise_mul_scale(np.float32 scale, python float beta, python float 10.0 / 65535.0)
#       With the NumPy 2 promotion rules np.float32 (op) python float stays float32, so the DIVISION is rounded to
#       float32 as well: the Q31 multiplier carries only 24 significant bits (relative error up to 2^-24 instead of
#       2^-31) and differs from the reference multiplier in ~99% of all input scales, also for beta == 1.0.
# The same value is re-derived for the OFM_SCALE shift by generate_scaling_for_elementwise from the tensors' scales,
# so the const multiplier and the emitted shift are consistent with each other - only less precise than the reference.
import math
import os
import sys
from fractions import Fraction

sys.path.insert(0, os.getcwd())

import numpy as np  # noqa: E402

from ethosu.vela.data_type import DataType  # noqa: E402
from ethosu.vela.operation import Op  # noqa: E402
from ethosu.vela.operation import Operation  # noqa: E402
from ethosu.vela.softmax import SoftMax  # noqa: E402
from ethosu.vela.tensor import QuantizationParameters  # noqa: E402
from ethosu.vela.tensor import Tensor  # noqa: E402


def tflite_quantize_multiplier(d):
    q, shift = math.frexp(d)
    q_fixed = int(math.floor(q * (1 << 31) + 0.5))
    if q_fixed == 1 << 31:
        q_fixed //= 2
        shift += 1
    return q_fixed, shift


def vela_softmax_input_multiplier(input_scale, beta):
    def tens(name, scale, zero_point):
        t = Tensor([1, 1, 1, 16], DataType.int16, name)
        t.quantization = QuantizationParameters()
        t.quantization.scale_f32 = np.float32(scale)
        t.quantization.zero_point = zero_point
        t.quantization.quant_min = -32768
        t.quantization.quant_max = 32767
        return t

    op = Operation(Op.Softmax, "softmax")
    op.add_input_tensor(tens("ifm", input_scale, 0))
    op.set_output_tensor(tens("ofm", 1.0 / 32768.0, 0))
    op.attrs["beta"] = beta
    op.set_ifm_ofm_shapes()
    op.run_on_npu = True
    last = SoftMax(op).get_graph()
    # walk the generated graph back to the Mul that applies input_scale * beta / (10 / 65535)
    todo, seen = [last], set()
    while todo:
        cur = todo.pop()
        if cur in seen:
            continue
        seen.add(cur)
        for inp in cur.inputs:
            if inp is None:
                continue
            if inp.name.endswith("_scale_const_0") or inp.name.endswith("_scale_const"):
                return int(inp.values.flatten()[0])
            todo.extend(inp.ops)
    raise RuntimeError("scale constant not found")


def main():
    rng = np.random.default_rng(5)
    differ = total = 0
    worst = Fraction(0)
    for _ in range(300):
        input_scale = np.float32(math.ldexp(0.5 + rng.random() / 2, int(rng.integers(-14, -6))))
        for beta in (1.0, float(np.float32(0.7))):
            vela_multiplier = vela_softmax_input_multiplier(input_scale, beta)
            product_f32 = np.float32(input_scale * np.float32(beta))
            real = Fraction(float(product_f32)) / Fraction(10.0 / 65535.0)
            ref_multiplier, _ = tflite_quantize_multiplier(float(product_f32) / (10.0 / 65535.0))
            total += 1
            if vela_multiplier != ref_multiplier:
                differ += 1
                if differ <= 3:
                    print(f"input_scale={input_scale!r} beta={beta}: Vela multiplier {vela_multiplier}, reference {ref_multiplier}")
            exponent = math.frexp(float(real))[1]
            worst = max(worst, abs(Fraction(vela_multiplier, 1 << 31) * Fraction(2) ** exponent / real - 1))
    print(f"{differ} of {total} multipliers differ from the reference; worst relative error {float(worst):.3g} (2^-31 = {2.0**-31:.3g})")
    ok = differ == 0
    print("property holds" if ok else "PROPERTY VIOLATED on the unmodified tree")
    return 0 if ok else 1


if __name__ == "__main__":
    sys.exit(main())

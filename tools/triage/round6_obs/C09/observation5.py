# OBSERVATION 5 (unmodified tree): the HARD_SWISH lookup table is built from multipliers that do not denote the same
# value as the TensorFlow Lite (Micro) reference derivation.
#   reference (HardSwishPrepare): all in float32
#       const float hires_input_scale = (1.0f / 128.0f) * input_scale;
#       const float reluish_scale = 3.0f / 32768.0f;
#       const float output_multiplier = hires_input_scale / output_scale;      -> QuantizeMultiplier -> DownScaleInt32ToInt16
#       const float reluish_multiplier = hires_input_scale / reluish_scale;    -> QuantizeMultiplier -> DownScaleInt32ToInt16
#   Vela (tflite_graph_optimiser.convert_hardswish_to_lut): the scales are widened with np.double first and both
#   quotients are taken in double.
# The Q31 multipliers differ in the low bits for almost every scale pair; after the 16-bit down-scaling the output
# multiplier still differs by one for about 0.1% of random scale pairs, and then table entries differ.
import math
import os
import sys

sys.path.insert(0, os.getcwd())

import numpy as np  # noqa: E402

from ethosu.vela import fp_math  # noqa: E402
from ethosu.vela import scaling  # noqa: E402
from ethosu.vela.data_type import DataType  # noqa: E402
from ethosu.vela.operation import Op  # noqa: E402
from ethosu.vela.operation import Operation  # noqa: E402
from ethosu.vela.tensor import QuantizationParameters  # noqa: E402
from ethosu.vela.tensor import Tensor  # noqa: E402
from ethosu.vela.tflite_graph_optimiser import convert_hardswish_to_lut  # noqa: E402


def vela_table(input_scale, output_scale, zp_in, zp_out):
    def tens(name, scale, zero_point):
        t = Tensor([1, 4, 4, 8], DataType.int8, name)
        t.quantization = QuantizationParameters()
        t.quantization.scale_f32 = np.float32(scale)
        t.quantization.zero_point = zero_point
        return t

    op = Operation(Op.HardSwish, "hardswish")
    op.add_input_tensor(tens("ifm", input_scale, zp_in))
    op.set_output_tensor(tens("ofm", output_scale, zp_out))
    op.set_ifm_ofm_shapes()
    op.run_on_npu = True
    op = convert_hardswish_to_lut(op, None, None)
    return [int(v) for v in op.activation_lut.values.flatten()]


def reference_multipliers(input_scale, output_scale):
    hires = np.float32(np.float32(1.0 / 128.0) * np.float32(input_scale))
    out_m, out_s = scaling.quantise_scale(float(np.float32(hires / np.float32(output_scale))))
    relu_m, relu_s = scaling.quantise_scale(float(np.float32(hires / np.float32(3.0 / 32768.0))))
    return (
        int(fp_math.downscale_multiplier_int32_to_int16(out_m)),
        out_s,
        int(fp_math.downscale_multiplier_int32_to_int16(relu_m)),
        relu_s,
    )


def reference_table(input_scale, output_scale, zp_in, zp_out):
    # reference kernel (reference_ops::HardSwish) with Vela's shift convention (vela shift = 31 - tflite exponent)
    out16, out_shift, relu16, relu_shift = reference_multipliers(input_scale, output_scale)
    values = []
    for x in range(-128, 128):
        hires = (x - zp_in) * 128
        preshift = fp_math.saturating_rounding_mul16(hires, out16)
        relu = np.int16(hires)
        if relu_shift < 31:
            relu = fp_math.shift_left16(relu, 30 - relu_shift)
        relu = fp_math.saturating_rounding_mul16(relu, relu16)
        if relu_shift < 31:
            relu = fp_math.shift_left16(relu, 1)
        if relu_shift > 31:
            relu = fp_math.rounding_divide_by_pot(relu, relu_shift - 31)
        relu = (int(relu) + (1 << 15)) >> 1
        res = fp_math.saturating_mul16(relu, preshift)
        shift = 31 - out_shift
        shift = -shift if shift < 0 else 0
        res = fp_math.rounding_divide_by_pot(res, shift) + zp_out
        values.append(int(min(127, max(-128, res))))
    return values


def main():
    ok = True
    # found by a random search over float32 scale pairs
    for input_scale, output_scale, zp_in, zp_out in (
        (np.float32(0.051622495), np.float32(0.011180802), 0, -128),
        (np.float32(0.10736715), np.float32(0.014915493), 0, -128),
        (np.float32(0.02682568), np.float32(0.035201084), -128, -128),
        (np.float32(0.017883958), np.float32(0.0076980474), 0, -128),
    ):
        output_scale = np.float32(output_scale)
        got = vela_table(input_scale, output_scale, zp_in, zp_out)
        want = reference_table(input_scale, output_scale, zp_in, zp_out)
        diffs = [(x - 128, g, w) for x, (g, w) in enumerate(zip(got, want)) if g != w]
        ok &= not diffs
        print(
            f"input_scale={input_scale!r} output_scale={output_scale!r}: reference 16-bit multipliers "
            f"{reference_multipliers(input_scale, output_scale)}, {len(diffs)} table entries differ, first (input, vela, reference): {diffs[:3]}"
        )
    print("property holds" if ok else "PROPERTY VIOLATED on the unmodified tree")
    return 0 if ok else 1


if __name__ == "__main__":
    sys.exit(main())

import os
import sys
import tempfile
from fractions import Fraction

sys.path.insert(0, os.getcwd())

import numpy as np  # noqa: E402

from ethosu.vela import compiler_driver  # noqa: E402
from ethosu.vela import tflite_writer  # noqa: E402
from ethosu.vela import vela  # noqa: E402
from ethosu.vela.data_type import DataType  # noqa: E402
from ethosu.vela.ethos_u55_regs.ethos_u55_regs import cmd0  # noqa: E402
from ethosu.vela.ethos_u55_regs.ethos_u55_regs import cmd1  # noqa: E402
from ethosu.vela.nn_graph import Graph  # noqa: E402
from ethosu.vela.nn_graph import Pass  # noqa: E402
from ethosu.vela.nn_graph import PassPlacement  # noqa: E402
from ethosu.vela.nn_graph import Subgraph  # noqa: E402
from ethosu.vela.operation import NpuBlockType  # noqa: E402
from ethosu.vela.operation import Op  # noqa: E402
from ethosu.vela.operation import Operation  # noqa: E402
from ethosu.vela.operation import Padding  # noqa: E402
from ethosu.vela.tensor import create_const_tensor  # noqa: E402
from ethosu.vela.tensor import QuantizationParameters  # noqa: E402
from ethosu.vela.tensor import Tensor  # noqa: E402


# ---------------------------------------------------------------------------------------------------------------------
# helpers: build a .tflite file with Vela's own classes, compile it with the real driver, look at what was emitted
# ---------------------------------------------------------------------------------------------------------------------
def quant(scale, zero_point=0):
    q = QuantizationParameters()
    q.scale_f32 = np.float32(scale) if np.ndim(scale) == 0 else np.asarray(scale, np.float32)
    q.zero_point = zero_point if np.ndim(zero_point) == 0 else np.asarray(zero_point, np.int64)
    return q


def feature_map(name, shape, dtype, scale, zero_point=0):
    tens = Tensor(list(shape), dtype, name)
    tens.quantization = quant(scale, zero_point)
    return tens


def write_model(path, ops, inputs, outputs):
    nng = Graph("demo")
    sg = Subgraph("main", PassPlacement.Cpu)
    for tens in inputs:
        Operation(Op.Placeholder, tens.name + "_placeholder").set_output_tensor(tens)
    sg.input_tensors = list(inputs)
    sg.original_inputs = list(inputs)
    sg.output_tensors = list(outputs)
    for op in ops:
        ps = Pass(op.name, PassPlacement.Cpu, False, NpuBlockType.Default)
        ps.ops = [op]
        ps.primary_op = op
        sg.passes.append(ps)
    nng.subgraphs.append(sg)
    tflite_writer.write_tflite(nng, path)


def compile_model(path, accelerator="ethos-u55-128"):
    """Runs the complete Vela driver (ethosu.vela.vela.main) on the file and returns the compiled graph"""
    captured = {}
    original = compiler_driver.compiler_driver

    def hook(nng, *args, **kwargs):
        captured["nng"] = nng
        return original(nng, *args, **kwargs)

    compiler_driver.compiler_driver = hook
    sys.stdout.flush()
    saved_stdout = os.dup(1)
    devnull = os.open(os.devnull, os.O_WRONLY)
    os.dup2(devnull, 1)
    try:
        vela.main([path, "--accelerator-config", accelerator, "--output-dir", os.path.join(os.path.dirname(path), "o")])
    finally:
        sys.stdout.flush()
        os.dup2(saved_stdout, 1)
        os.close(saved_stdout)
        os.close(devnull)
        compiler_driver.compiler_driver = original
    nng = captured["nng"]
    cpu_ops = [
        op.type.name
        for ps in nng.get_root_subgraph().passes
        for op in ps.ops
        if op.type not in (Op.Const, Op.Placeholder, Op.CustomNpuOp, Op.SubgraphInput)
    ]
    assert not cpu_ops, f"demo model was not placed on the NPU: {cpu_ops}"
    return nng


def decode_command_streams(nng):
    """Returns [(register name, 16-bit param, 32-bit payload or None)] of all the NPU subgraphs"""
    res = []
    for sg in nng.subgraphs:
        words = getattr(sg, "register_command_stream", None)
        if not words:
            continue
        i = 0
        while i < len(words):
            code = words[i] & 0xFFFF
            param = words[i] >> 16
            if code & 0x4000:
                res.append((cmd1(code & 0x3FF).name, param, words[i + 1]))
                i += 2
            else:
                res.append((cmd0(code & 0x3FF).name, param, None))
                i += 1
    return res


def decode_scale_records(nng):
    """Returns [(bias, multiplier, shift)]: every 10-byte bias/scale record in the encoded weight/scale tensors"""
    res = []
    for sg in nng.subgraphs:
        schedule = getattr(sg, "schedule", None)
        if schedule is None:
            continue
        for cost in schedule.cost_map.values():
            tens = cost.npu_scales_tensor or cost.npu_weights_tensor
            if tens is None:
                continue
            for rng in tens.encoded_ranges.values():
                buf = bytes(tens.buffer[rng.offset : rng.offset + rng.scale_bytes])
                for j in range(len(buf) // 10):
                    rec = buf[10 * j : 10 * j + 10]
                    bias = int.from_bytes(rec[0:5], "little", signed=True)
                    res.append((bias, int.from_bytes(rec[5:9], "little"), rec[9] & 0x3F))
    return res


def rel_err(multiplier, shift, real_scale):
    """relative error of multiplier * 2^-shift against the (exact, rational) real scale"""
    return abs(Fraction(multiplier, 1 << shift) / real_scale - 1)


def exact(x):
    return Fraction(float(x))


# ---------------------------------------------------------------------------------------------------------------------
# OBSERVATION 1 (unmodified tree): int16 AVERAGE_POOL_2D with stride_w >= 4 is rewritten to a Conv2D with unit weights
# of scale 1/(h*w) (tflite_graph_optimiser.convert_avg_pool_to_conv2d). The operator has no bias, so fixup_bias_tensors
# later adds an int64 bias (its default for int16), which makes weight_compressor._prepare_scale_and_bias pack the
# REDUCED 16-bit multiplier (plus 1 for the AwayZero rounding mode). The packed pair then represents 1/(h*w) with a
# relative error of 3e-5 .. 6e-5 (allowed: exact division for every reachable accumulator) and the averaged values are
# off by one or two for large inputs.
# ---------------------------------------------------------------------------------------------------------------------
def avgpool_model(path, dtype, k, stride_w, width):
    ifm = feature_map("ifm", [1, k, width, 8], dtype, 0.02, 0)
    ofm = feature_map("ofm", [1, 1, (width - k) // stride_w + 1, 8], dtype, 0.02, 0)
    op = Operation(Op.AvgPool, "pool")
    op.add_input_tensor(ifm)
    op.set_output_tensor(ofm)
    op.attrs.update(
        {
            "padding": Padding.VALID,
            "stride_w": stride_w,
            "stride_h": 1,
            "filter_width": k,
            "filter_height": k,
            "fused_activation_function": None,
        }
    )
    write_model(path, [op], [ifm], [ofm])


def reference_average(acc, n):
    # TensorFlow Lite reference (integer_ops/pooling.h): rounds half away from zero
    return (acc + n // 2) // n if acc >= 0 else -((-acc + n // 2) // n)


def scaled(acc, multiplier, shift):
    # value of acc * multiplier * 2^-shift, rounded half away from zero
    prod = abs(acc) * multiplier
    res = (prod + (1 << (shift - 1))) >> shift
    return res if acc >= 0 else -res


def check(dtype, max_value, k, stride_w, width, workdir):
    path = os.path.join(workdir, f"avgpool_{dtype}_{k}.tflite")
    avgpool_model(path, dtype, k, stride_w, width)
    nng = compile_model(path)
    records = set((m, s) for _, m, s in decode_scale_records(nng))
    assert len(records) == 1, records
    multiplier, shift = records.pop()
    n = k * k
    err = float(rel_err(multiplier, shift, Fraction(1, n)))
    first_bad = None
    for value in range(0, max_value + 1):  # all window elements equal to value: accumulator n * value
        acc = n * value
        if scaled(acc, multiplier, shift) != reference_average(acc, n):
            first_bad = (value, scaled(acc, multiplier, shift))
            break
    print(
        f"{dtype} {k}x{k} stride_w={stride_w}: packed multiplier={multiplier} shift={shift} "
        f"represents 1/{n} with relative error {err:.3g};",
        "exact for all constant windows" if first_bad is None else
        f"a window of {n} elements all equal to {first_bad[0]} averages to {first_bad[1]}, "
        f"a window of all {max_value} averages to {scaled(n * max_value, multiplier, shift)}",
    )
    return first_bad is None and err <= 2.0**-30


def main():
    ok = True
    with tempfile.TemporaryDirectory() as workdir:
        ok &= check(DataType.int8, 127, 3, 4, 12, workdir)
        ok &= check(DataType.int8, 127, 2, 4, 16, workdir)
        ok &= check(DataType.int16, 32767, 3, 4, 12, workdir)
        ok &= check(DataType.int16, 32767, 2, 4, 16, workdir)
    print("property holds" if ok else "PROPERTY VIOLATED on the unmodified tree (int16 cases)")
    return 0 if ok else 1


if __name__ == "__main__":
    sys.exit(main())

import os
import sys
import tempfile
from fractions import Fraction

sys.path.insert(0, os.getcwd())

import numpy as np  # noqa: E402

from ethosu.vela import compiler_driver  # noqa: E402
from ethosu.vela import tflite_writer  # noqa: E402
from ethosu.vela import vela  # noqa: E402
from ethosu.vela.data_type import DataType  # noqa: E402
from ethosu.vela.ethos_u55_regs.ethos_u55_regs import cmd0  # noqa: E402
from ethosu.vela.ethos_u55_regs.ethos_u55_regs import cmd1  # noqa: E402
from ethosu.vela.nn_graph import Graph  # noqa: E402
from ethosu.vela.nn_graph import Pass  # noqa: E402
from ethosu.vela.nn_graph import PassPlacement  # noqa: E402
from ethosu.vela.nn_graph import Subgraph  # noqa: E402
from ethosu.vela.operation import NpuBlockType  # noqa: E402
from ethosu.vela.operation import Op  # noqa: E402
from ethosu.vela.operation import Operation  # noqa: E402
from ethosu.vela.operation import Padding  # noqa: E402
from ethosu.vela.tensor import create_const_tensor  # noqa: E402
from ethosu.vela.tensor import QuantizationParameters  # noqa: E402
from ethosu.vela.tensor import Tensor  # noqa: E402


# ---------------------------------------------------------------------------------------------------------------------
# helpers: build a .tflite file with Vela's own classes, compile it with the real driver, look at what was emitted
# ---------------------------------------------------------------------------------------------------------------------
def quant(scale, zero_point=0):
    q = QuantizationParameters()
    q.scale_f32 = np.float32(scale) if np.ndim(scale) == 0 else np.asarray(scale, np.float32)
    q.zero_point = zero_point if np.ndim(zero_point) == 0 else np.asarray(zero_point, np.int64)
    return q


def feature_map(name, shape, dtype, scale, zero_point=0):
    tens = Tensor(list(shape), dtype, name)
    tens.quantization = quant(scale, zero_point)
    return tens


def write_model(path, ops, inputs, outputs):
    nng = Graph("demo")
    sg = Subgraph("main", PassPlacement.Cpu)
    for tens in inputs:
        Operation(Op.Placeholder, tens.name + "_placeholder").set_output_tensor(tens)
    sg.input_tensors = list(inputs)
    sg.original_inputs = list(inputs)
    sg.output_tensors = list(outputs)
    for op in ops:
        ps = Pass(op.name, PassPlacement.Cpu, False, NpuBlockType.Default)
        ps.ops = [op]
        ps.primary_op = op
        sg.passes.append(ps)
    nng.subgraphs.append(sg)
    tflite_writer.write_tflite(nng, path)


def compile_model(path, accelerator="ethos-u55-128"):
    """Runs the complete Vela driver (ethosu.vela.vela.main) on the file and returns the compiled graph"""
    captured = {}
    original = compiler_driver.compiler_driver

    def hook(nng, *args, **kwargs):
        captured["nng"] = nng
        return original(nng, *args, **kwargs)

    compiler_driver.compiler_driver = hook
    sys.stdout.flush()
    saved_stdout = os.dup(1)
    devnull = os.open(os.devnull, os.O_WRONLY)
    os.dup2(devnull, 1)
    try:
        vela.main([path, "--accelerator-config", accelerator, "--output-dir", os.path.join(os.path.dirname(path), "o")])
    finally:
        sys.stdout.flush()
        os.dup2(saved_stdout, 1)
        os.close(saved_stdout)
        os.close(devnull)
        compiler_driver.compiler_driver = original
    nng = captured["nng"]
    cpu_ops = [
        op.type.name
        for ps in nng.get_root_subgraph().passes
        for op in ps.ops
        if op.type not in (Op.Const, Op.Placeholder, Op.CustomNpuOp, Op.SubgraphInput)
    ]
    assert not cpu_ops, f"demo model was not placed on the NPU: {cpu_ops}"
    return nng


def decode_command_streams(nng):
    """Returns [(register name, 16-bit param, 32-bit payload or None)] of all the NPU subgraphs"""
    res = []
    for sg in nng.subgraphs:
        words = getattr(sg, "register_command_stream", None)
        if not words:
            continue
        i = 0
        while i < len(words):
            code = words[i] & 0xFFFF
            param = words[i] >> 16
            if code & 0x4000:
                res.append((cmd1(code & 0x3FF).name, param, words[i + 1]))
                i += 2
            else:
                res.append((cmd0(code & 0x3FF).name, param, None))
                i += 1
    return res


def decode_scale_records(nng):
    """Returns [(bias, multiplier, shift)]: every 10-byte bias/scale record in the encoded weight/scale tensors"""
    res = []
    for sg in nng.subgraphs:
        schedule = getattr(sg, "schedule", None)
        if schedule is None:
            continue
        for cost in schedule.cost_map.values():
            tens = cost.npu_scales_tensor or cost.npu_weights_tensor
            if tens is None:
                continue
            for rng in tens.encoded_ranges.values():
                buf = bytes(tens.buffer[rng.offset : rng.offset + rng.scale_bytes])
                for j in range(len(buf) // 10):
                    rec = buf[10 * j : 10 * j + 10]
                    bias = int.from_bytes(rec[0:5], "little", signed=True)
                    res.append((bias, int.from_bytes(rec[5:9], "little"), rec[9] & 0x3F))
    return res


def rel_err(multiplier, shift, real_scale):
    """relative error of multiplier * 2^-shift against the (exact, rational) real scale"""
    return abs(Fraction(multiplier, 1 << shift) / real_scale - 1)


def exact(x):
    return Fraction(float(x))


# ---------------------------------------------------------------------------------------------------------------------
# OBSERVATION 2 (unmodified tree): for int16 average pools with a large odd window (first failing size: 32993 elements,
# e.g. 135x247 = 33345 or 151x241 = 36391; 401 of the odd kernel shapes h x w with 129 <= h <= w <= 256) the global OFM_SCALE pair from scaling.quantise_pooling_scale is no longer
# exact: accumulators just below a rounding boundary are rounded up. (8-bit windows are exact for every size.)
# ---------------------------------------------------------------------------------------------------------------------
def avgpool_model(path, kh, kw):
    ifm = feature_map("ifm", [1, kh, kw, 1], DataType.int16, 0.02, 0)
    ofm = feature_map("ofm", [1, 1, 1, 1], DataType.int16, 0.02, 0)
    op = Operation(Op.AvgPool, "pool")
    op.add_input_tensor(ifm)
    op.set_output_tensor(ofm)
    op.attrs.update(
        {
            "padding": Padding.VALID,
            "stride_w": 1,
            "stride_h": 1,
            "filter_width": kw,
            "filter_height": kh,
            "fused_activation_function": None,
        }
    )
    write_model(path, [op], [ifm], [ofm])


def main():
    ok = True
    with tempfile.TemporaryDirectory() as workdir:
        for kh, kw in ((181, 181), (135, 247), (151, 241), (255, 255)):
            n = kh * kw
            path = os.path.join(workdir, f"avgpool_{kh}_{kw}.tflite")
            avgpool_model(path, kh, kw)
            nng = compile_model(path)
            pairs = [(p, prm & 0x3F) for name, prm, p in decode_command_streams(nng) if name == "NPU_SET_OFM_SCALE"]
            assert len(pairs) == 1, pairs
            multiplier, shift = pairs[0]
            # (n - 1) / 2 elements are 32767, the others 32766: the mean is 32766.4999.., i.e. 32766
            acc = 32766 * n + (n - 1) // 2
            expected = (2 * acc + n) // (2 * n)  # round half up
            got = (acc * multiplier + (1 << (shift - 1))) >> shift
            print(f"int16 {kh}x{kw} (n={n}): OFM_SCALE multiplier={multiplier} shift={shift}: accumulator {acc} -> {got}, exact {expected}")
            ok &= got == expected
    print("property holds" if ok else "PROPERTY VIOLATED on the unmodified tree")
    return 0 if ok else 1


if __name__ == "__main__":
    sys.exit(main())

"""C12 observation 4 (unmodified tree, minor): no arena size on the console when nothing runs on the NPU.

print_performance_metrics_for_strat() only prints "Total <area> used" for memory areas with a non-zero bandwidth. A
network that stays entirely on the CPU (or an already compiled one, see observation 1) still gets an offline arena
plan in its metadata and a value in the summary CSV, but the console summary does not say how much SRAM it needs.

Run as:  cd /tmp/seed6/C12 && /venv/bin/python out/observation4.py
UNMODIFIED tree: prints FAIL and the violations (exit 1). Would print PASS (exit 0) if the property held.
"""
import csv
import glob
import os
import re
import shutil
import sys
import tempfile

sys.path.insert(0, os.getcwd())

import numpy as np  # noqa: E402

from ethosu.vela import tflite_writer  # noqa: E402
from ethosu.vela import vela  # noqa: E402
from ethosu.vela.data_type import DataType  # noqa: E402
from ethosu.vela.nn_graph import Graph, Pass, PassPlacement, Subgraph  # noqa: E402
from ethosu.vela.operation import NpuBlockType, Op, Operation, Padding  # noqa: E402
from ethosu.vela.tensor import QuantizationParameters, Tensor, create_const_tensor  # noqa: E402
from ethosu.vela.tflite import Model  # noqa: E402


# ---------------------------------------------------------------------------------------------------------------------
# A tiny model builder: the input .tflite files are made with Vela's own graph classes and TFLite writer
# ---------------------------------------------------------------------------------------------------------------------
def quant(scale=0.05, zero_point=0):
    q = QuantizationParameters()
    q.scale_f32 = np.float32(scale)
    q.zero_point = np.int64(zero_point)
    return q


class ModelBuilder:
    def __init__(self, name="net", seed=0):
        self.nng = Graph(name)
        self.sg = Subgraph("main", PassPlacement.Cpu)
        self.nng.subgraphs.append(self.sg)
        self.rng = np.random.RandomState(seed)
        self.n = 0

    def _name(self, base):
        self.n += 1
        return f"{base}{self.n}"

    def _add(self, op):
        ps = Pass(op.name, PassPlacement.Cpu, False, NpuBlockType.Default)
        ps.ops = [op]
        self.sg.passes.append(ps)

    def subgraph(self, name):
        """Starts another subgraph; the operators that follow go there. Returns its index."""
        self.sg = Subgraph(name, PassPlacement.Cpu)
        self.nng.subgraphs.append(self.sg)
        return len(self.nng.subgraphs) - 1

    def select(self, idx):
        self.sg = self.nng.subgraphs[idx]

    def fm(self, shape, name=None, dtype=DataType.int8):
        t = Tensor(list(shape), dtype, name or self._name("t"))
        t.quantization = quant()
        return t

    def input(self, shape, name=None, dtype=DataType.int8):
        t = self.fm(shape, name or self._name("input"), dtype)
        op = Operation(Op.Placeholder, t.name)
        op.set_output_tensor(t)
        self.sg.input_tensors.append(t)
        self.sg.original_inputs.append(t)
        self._add(op)
        return t

    def conv(self, ifm, oc, k=1, name=None):
        """CONV_2D, stride 1, SAME: runs on the NPU"""
        ic = ifm.shape[-1]
        nm = name or self._name("conv")
        w = create_const_tensor(
            nm + "_w", [oc, k, k, ic], DataType.int8, self.rng.randint(-5, 5, size=[oc, k, k, ic]), quantization=quant(0.01)
        )
        b = create_const_tensor(nm + "_b", [oc], DataType.int32, self.rng.randint(-5, 5, size=[oc]), quantization=quant(0.0005))
        ofm = self.fm([ifm.shape[0], ifm.shape[1], ifm.shape[2], oc], nm + "_out")
        op = Operation(Op.Conv2DBias, nm)
        op.inputs = [ifm, w, b]
        op.set_output_tensor(ofm)
        op.attrs = {
            "padding": Padding.SAME,
            "stride_w": 1,
            "stride_h": 1,
            "dilation_w_factor": 1,
            "dilation_h_factor": 1,
            "fused_activation_function": None,
        }
        self._add(op)
        return ofm

    def cpu(self, ifm, name=None, optype=Op.Elu):
        """ELU (or another one-operand operator the NPU does not support): stays on the CPU"""
        nm = name or self._name("cpu")
        ofm = self.fm(ifm.shape, nm + "_out", ifm.dtype)
        op = Operation(optype, nm)
        op.inputs = [ifm]
        op.set_output_tensor(ofm)
        op.attrs = {}
        self._add(op)
        return ofm

    def topk(self, ifm, k, name=None):
        """TOPK_V2: a CPU operator with two results (values, indices)"""
        nm = name or self._name("topk")
        kt = create_const_tensor(nm + "_k", [], DataType.int32, np.array(k, np.int32))
        vals = self.fm(list(ifm.shape[:-1]) + [k], nm + "_values", ifm.dtype)
        idxs = self.fm(list(ifm.shape[:-1]) + [k], nm + "_indices", DataType.int32)
        idxs.quantization = None
        op = Operation(Op.TopKV2, nm)
        op.inputs = [ifm, kt]
        op.outputs = [vals, idxs]
        vals.ops = [op]
        idxs.ops = [op]
        op.attrs = {}
        self._add(op)
        return vals, idxs

    def less(self, a, const_val, name=None):
        nm = name or self._name("less")
        c = create_const_tensor(nm + "_c", list(a.shape), a.dtype, np.full(a.shape, const_val), quantization=a.quantization)
        ofm = self.fm(list(a.shape), nm + "_out", DataType.bool)
        ofm.quantization = None
        op = Operation(Op.Less, nm)
        op.inputs = [a, c]
        op.set_output_tensor(ofm)
        op.attrs = {}
        self._add(op)
        return ofm

    def while_(self, inputs, cond_idx, body_idx, name=None):
        nm = name or self._name("while")
        outs = [self.fm(list(t.shape), f"{nm}_out{i}", t.dtype) for i, t in enumerate(inputs)]
        op = Operation(Op.While, nm)
        op.inputs = list(inputs)
        op.outputs = outs
        for o in outs:
            o.ops = [op]
        op.attrs = {"cond_subgraph_index": cond_idx, "body_subgraph_index": body_idx}
        self._add(op)
        return outs

    def outputs(self, *tens):
        self.sg.output_tensors = list(tens)

    def build(self):
        return bytes(tflite_writer.write_tflite_buffer(self.nng))


# ---------------------------------------------------------------------------------------------------------------------
# Running the compiler: the command line driver, with what it prints and the files it writes
# ---------------------------------------------------------------------------------------------------------------------
class Compiled:
    pass


def compile_with_cli(model_bytes, args=(), name="net"):
    d = tempfile.mkdtemp(prefix="c12_demo_")
    try:
        path = os.path.join(d, name + ".tflite")
        with open(path, "wb") as f:
            f.write(model_bytes)
        argv = [path, "--output-dir", os.path.join(d, "out")] + list(args)
        log = os.path.join(d, "console.txt")
        sys.stdout.flush()
        saved = os.dup(1)
        fd = os.open(log, os.O_WRONLY | os.O_CREAT | os.O_TRUNC)
        os.dup2(fd, 1)
        try:
            rc = vela.main(argv)
        finally:
            sys.stdout.flush()
            os.dup2(saved, 1)
            os.close(fd)
            os.close(saved)
        r = Compiled()
        r.rc = rc
        with open(log) as f:
            r.console = f.read()
        if rc != 0:
            return r
        with open(os.path.join(d, "out", name + "_vela.tflite"), "rb") as f:
            r.out_buf = bytearray(f.read())
        with open(glob.glob(os.path.join(d, "out", name + "_summary_*.csv"))[0]) as f:
            rows = list(csv.reader(f))
        r.csv = dict(zip(rows[0], rows[1]))
        return r
    finally:
        shutil.rmtree(d, ignore_errors=True)


# ---------------------------------------------------------------------------------------------------------------------
# The oracle: works on the bytes of the output model (tensor table, operator order, OfflineMemoryAllocation metadata)
# and on the numbers Vela printed / wrote to the summary CSV. It does not look at any of Vela's data structures.
# ---------------------------------------------------------------------------------------------------------------------
# bytes per element of the TensorType codes used here (FLOAT32, FLOAT16, INT32, UINT8, INT64, BOOL, INT16, INT8)
ELEMENT_SIZE = {0: 4, 1: 2, 2: 4, 3: 1, 4: 8, 6: 1, 7: 2, 9: 1}


def parse_output(out_buf):
    model = Model.Model.GetRootAsModel(out_buf, 0)
    records = []
    for i in range(model.MetadataLength()):
        m = model.Metadata(i)
        if m.Name() == b"OfflineMemoryAllocation":
            records.append(np.frombuffer(model.Buffers(m.Buffer()).DataAsNumpy().tobytes(), dtype=np.int32))
    assert len(records) == 1, f"{len(records)} OfflineMemoryAllocation records"
    meta = records[0]
    n_sg, n_tens = int(meta[1]), int(meta[2])
    offsets = [int(x) for x in meta[3:]]
    assert n_sg == model.SubgraphsLength(), "metadata: wrong number of subgraphs"
    assert len(offsets) == n_tens, "metadata: wrong number of offsets"
    sgs = []
    pos = 0
    for si in range(model.SubgraphsLength()):
        sg = model.Subgraphs(si)
        tensors = []
        for ti in range(sg.TensorsLength()):
            t = sg.Tensors(ti)
            shape = [int(x) for x in t.ShapeAsNumpy()] if t.ShapeLength() else []
            nbytes = int(np.prod(shape, dtype=np.int64)) * ELEMENT_SIZE[t.Type()]
            tensors.append(dict(name=t.Name().decode(), size=nbytes, offset=offsets[pos + ti], shape=shape))
        pos += sg.TensorsLength()
        ops = []
        for oi in range(sg.OperatorsLength()):
            o = sg.Operators(oi)
            oc = model.OperatorCodes(o.OpcodeIndex())
            code = oc.CustomCode().decode() if oc.CustomCode() else str(max(oc.BuiltinCode(), oc.DeprecatedBuiltinCode()))
            ins = [int(x) for x in o.InputsAsNumpy()] if o.InputsLength() else []
            outs = [int(x) for x in o.OutputsAsNumpy()] if o.OutputsLength() else []
            ops.append((code, ins, outs))
        sgs.append(
            dict(
                tensors=tensors,
                ops=ops,
                inputs=[int(x) for x in sg.InputsAsNumpy()] if sg.InputsLength() else [],
                outputs=[int(x) for x in sg.OutputsAsNumpy()] if sg.OutputsLength() else [],
            )
        )
    assert pos == n_tens, "metadata: offsets do not cover the tensor tables"
    return sgs


def check_plan(out_buf, alignment=16):
    """Returns (problems, arena extent in bytes) of the offline arena plan of an output model"""
    problems = []
    extent = 0
    for si, sg in enumerate(parse_output(out_buf)):
        T = sg["tensors"]
        ops = sg["ops"]
        # liveness under the operator order of this subgraph
        first, last = {}, {}
        for i in sg["inputs"]:
            first[i] = -1
        for oi, (_, ins, outs) in enumerate(ops):
            for i in ins + outs:
                if i >= 0:
                    first.setdefault(i, oi)
                    last[i] = oi
        for i in sg["outputs"]:
            first.setdefault(i, -1)
            last[i] = len(ops)
        for i in first:
            last.setdefault(i, first[i])

        def is_scratch(i):
            return T[i]["name"].endswith("_scratch") or T[i]["name"].endswith("_scratch_fast")

        plain = [i for i in first if T[i]["offset"] >= 0 and not is_scratch(i)]
        for i in plain:
            t = T[i]
            extent = max(extent, t["offset"] + t["size"])
            if t["offset"] % alignment:
                problems.append(f"subgraph {si}: '{t['name']}' is at offset {t['offset']}, not aligned to {alignment}")
        for a in range(len(plain)):
            for b in range(a + 1, len(plain)):
                i, j = plain[a], plain[b]
                if max(first[i], first[j]) > min(last[i], last[j]):
                    continue  # never live together
                lo, hi = (i, j) if first[i] <= first[j] else (j, i)
                if (
                    last[lo] == first[hi]
                    and 0 <= first[hi] < len(ops)
                    and ops[first[hi]][0] == "ethos-u"
                    and lo in ops[first[hi]][1]
                    and hi in ops[first[hi]][2]
                ):
                    # an operand that an Ethos-U operator reads for the last time and a result of that operator: inside
                    # the operator the operand may be dead before the result is produced
                    continue
                ti, tj = T[i], T[j]
                if max(ti["offset"], tj["offset"]) < min(ti["offset"] + ti["size"], tj["offset"] + tj["size"]):
                    problems.append(
                        f"subgraph {si}: '{ti['name']}' [{ti['offset']}, {ti['offset'] + ti['size']}) live over operators"
                        f" {first[i]}..{last[i]} overlaps '{tj['name']}' [{tj['offset']}, {tj['offset'] + tj['size']})"
                        f" live over operators {first[j]}..{last[j]}"
                    )
        for oi, (code, ins, outs) in enumerate(ops):
            if code != "ethos-u":
                continue
            if len(ins) < 4 or not T[ins[2]]["name"].endswith("_scratch"):
                problems.append(f"subgraph {si}: operand 2 of Ethos-U operator {oi} is not the scratch tensor")
                continue
            scratch = T[ins[2]]
            extent = max(extent, scratch["size"])
            if scratch["offset"] != 0:
                problems.append(
                    f"subgraph {si}: the scratch tensor of Ethos-U operator {oi} is at offset {scratch['offset']}, not 0"
                )
            for i in ins[4:] + outs:
                if T[i]["offset"] >= 0 and T[i]["offset"] + T[i]["size"] > scratch["size"]:
                    problems.append(
                        f"subgraph {si}: '{T[i]['name']}' of Ethos-U operator {oi} ends at {T[i]['offset'] + T[i]['size']},"
                        f" outside the scratch tensor of {scratch['size']} bytes"
                    )
    return problems, extent


def check_reported(r, extent, area="SRAM"):
    problems = []
    m = re.search(r"Total %s used\s+([0-9.]+) KiB" % area, r.console)
    if m is None:
        problems.append(f"the console summary does not report the {area} used")
    elif float(m.group(1)) * 1024 + 5.2 < extent:  # printed with two decimals of a KiB
        problems.append(f"console: Total {area} used = {m.group(1)} KiB, but the arena plan needs {extent} bytes")
    csv_bytes = float(r.csv[area.lower() + "_memory_used"]) * 1024
    if csv_bytes + 1e-6 < extent:
        problems.append(f"summary csv: {area.lower()}_memory_used = {csv_bytes} bytes, but the arena plan needs {extent} bytes")
    return problems


def verdict(problems):
    if problems:
        print("FAIL")
        for p in problems:
            print("  " + p)
        sys.exit(1)
    print("PASS")
    sys.exit(0)


# ---------------------------------------------------------------------------------------------------------------------
# The observation
# ---------------------------------------------------------------------------------------------------------------------
if __name__ == "__main__":
    b = ModelBuilder()
    x = b.input([1, 8, 8, 8])
    t = b.cpu(x)
    t = b.cpu(t, optype=Op.Round)
    b.outputs(t)
    r = compile_with_cli(b.build(), ["--accelerator-config", "ethos-u55-128"])
    assert r.rc == 0, r.console
    problems, extent = check_plan(r.out_buf, 16)
    problems += check_reported(r, extent, "SRAM")
    verdict(problems)

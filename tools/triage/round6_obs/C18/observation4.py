"""Observation 4 (unmodified tree), smaller deviations from OPTIONS.md / from "rejected with an error":
  a. option names are matched case-insensitively (ConfigParser lower-cases them) although OPTIONS.md says "All sections
     and key/value pairs are case-sensitive": CORE_CLOCK / sram_clock_scale are honoured;
  b. a [DEFAULT] section of the .ini silently supplies every option of every section (ConfigParser default section);
  c. documented value ranges other than the size are not checked: Dram_clock_scale=7 ({float 0.0 to 1.0}), a negative
     latency and a negative core_clock are accepted;
  d. malformed values are "rejected" only by an uncaught KeyError / ValueError (traceback instead of the
     "Error: Invalid configuration of ..." message): const_mem_area=Axi2, core_clock=fast, arena_cache_size=1e6;
  e. an unknown accelerator passed to ArchitectureFeatures() raises AttributeError (the CliOptionError message is
     formatted with self.accelerator_config before that attribute exists)."""
import contextlib
import io
import os
import sys
import tempfile

sys.path.insert(0, os.getcwd())
from ethosu.vela.architecture_features import ArchitectureFeatures  # noqa: E402
from ethosu.vela.tensor import MemArea  # noqa: E402

MEM = "[Memory_Mode.M]\nconst_mem_area=Axi1\narena_mem_area=Axi1\ncache_mem_area=Axi0\n"


def build(text, accel="ethos-u65-256"):
    path = os.path.join(tempfile.mkdtemp(), "c.ini")
    with open(path, "w") as f:
        f.write(text)
    try:
        with contextlib.redirect_stdout(io.StringIO()):
            return ArchitectureFeatures([path], accel, "S", "M", 3, False, None)
    except Exception as e:
        return f"{type(e).__name__}: {e}"


a = build("[System_Config.S]\nCORE_CLOCK=5e8\naxi1_port=Dram\nsram_clock_scale=0.5\n" + MEM)
print("a. CORE_CLOCK / sram_clock_scale ->", a.core_clock, a.memory_clock_scales[MemArea.Sram])
a = build("[DEFAULT]\ncore_clock=7e8\narena_cache_size=1234\n[System_Config.S]\naxi1_port=Dram\n" + MEM)
print("b. [DEFAULT] core_clock/arena_cache_size ->", a.core_clock, a.arena_cache_size)
a = build("[System_Config.S]\ncore_clock=-5\naxi1_port=Dram\nDram_clock_scale=7\nDram_read_latency=-7\n" + MEM)
print("c. accepted:", a.core_clock, a.memory_clock_scales[MemArea.Dram], a.memory_latency[MemArea.Dram][0])
print("d.", build("[System_Config.S]\naxi1_port=Dram\n[Memory_Mode.M]\nconst_mem_area=Axi2\n"))
print("d.", build("[System_Config.S]\ncore_clock=fast\naxi1_port=Dram\n" + MEM))
print("d.", build("[System_Config.S]\naxi1_port=Dram\n" + MEM + "arena_cache_size=1e6\n"))
print("e.", build("[System_Config.S]\naxi1_port=Dram\n" + MEM, accel="ethos-u99"))

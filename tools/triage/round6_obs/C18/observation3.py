"""Observation 3 (unmodified tree): the internal-default system configuration used by the CLI is not the documented
one.  OPTIONS.md ("System Config"): internal-default maps to Ethos_U65_Client_Server (DRAM 12 GB/s, clock scale 0.75)
for Ethos-U65 and to Ethos_U55_High_End_Embedded (500 MHz, OffChipFlash on AXI1) for Ethos-U55.
vela.main() without --config builds Imx93ArchitectureFeatures, whose _set_default_sys_config() ignores the accelerator
family: an Ethos-U55 gets a 1 GHz core clock and Dram (scale 0.234375) on AXI1, and an Ethos-U65 gets 0.234375 instead
of 0.75.  Passing an unrelated --config (without --system-config) flips the U65 default back to 0.75, so the
"internal-default" parameters depend on whether any --config option is present."""
import contextlib
import io
import os
import sys

sys.path.insert(0, os.getcwd())
from ethosu.vela.vela import main  # noqa: E402


def verbose_config(args):
    buf = io.StringIO()
    with contextlib.redirect_stdout(buf):
        try:
            main(["/nonexistent/net.tflite", "--verbose-config"] + args)
        except FileNotFoundError:
            pass  # only the configuration is of interest
    return {k.strip(): v for k, v in (line.split(" = ", 1) for line in buf.getvalue().splitlines() if " = " in line)}


bad = 0
u55 = verbose_config(["--accelerator-config", "ethos-u55-128"])
print("ethos-u55-128, no config:", {k: u55.get(k) for k in ("core_clock", "axi1_port", "Dram_clock_scales", "OffChipFlash_clock_scales")})
bad += not (float(u55["core_clock"]) == 500e6 and u55["axi1_port"] == "OffChipFlash" and float(u55["OffChipFlash_clock_scales"]) == 0.125)
u65 = verbose_config([])
u65_cfg = verbose_config(["--config", "Arm/vela.ini"])
print("ethos-u65-256, no config       : Dram_clock_scales =", u65.get("Dram_clock_scales"))
print("ethos-u65-256, --config Arm/vela.ini only: Dram_clock_scales =", u65_cfg.get("Dram_clock_scales"))
bad += float(u65["Dram_clock_scales"]) != 0.75
bad += u65.get("Dram_clock_scales") != u65_cfg.get("Dram_clock_scales")
print("VIOLATION" if bad else "ok")
sys.exit(1 if bad else 0)

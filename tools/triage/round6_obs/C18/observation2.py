"""Observation 2 (unmodified tree): --arena-cache-size has the argparse default 384*1024 (not None), and main() always
forwards it, so ArchitectureFeatures treats it as "given on the command line": the arena_cache_size of the selected
memory mode can never take effect from the CLI.  OPTIONS.md: "If specified, this option overrides the memory mode
attribute ...  If neither this nor the memory mode attribute are specified then a size equal to the maximum address
supported by the Ethos-U is used."  Example: the bundled Memory_Mode.Dedicated_Sram_512KB (arena_cache_size=524288)
compiles with 393216 "from CLI option" although no --arena-cache-size was given; Shared_Sram (no attribute) gets
393216 instead of the maximum address."""
import contextlib
import io
import os
import sys

sys.path.insert(0, os.getcwd())
from ethosu.vela.vela import main  # noqa: E402


def verbose_config(args):
    buf = io.StringIO()
    with contextlib.redirect_stdout(buf):
        try:
            main(["/nonexistent/net.tflite", "--verbose-config"] + args)  # fails after the configuration was resolved
        except FileNotFoundError:
            pass  # only the configuration is of interest
    return {k.strip(): v for k, v in (line.split(" = ", 1) for line in buf.getvalue().splitlines() if " = " in line)}


bad = 0
for mode, documented in (("Dedicated_Sram_512KB", "524288 from Configuration file"), ("Shared_Sram", f"{1 << 40} from Default")):
    got = verbose_config(["--config", "Arm/vela.ini", "--system-config", "Ethos_U65_High_End", "--memory-mode", mode])
    print(f"--memory-mode {mode}: arena_cache_size = {got.get('arena_cache_size')}   (documented: {documented})")
    bad += got.get("arena_cache_size") != documented
print("VIOLATION" if bad else "ok")
sys.exit(1 if bad else 0)

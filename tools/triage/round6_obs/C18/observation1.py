"""Observation 1 (unmodified tree): axi0_port / axi1_port accept names that are not one of the documented memory
types {Sram, Dram, OnChipFlash, OffChipFlash}.  _read_port() validates against MemArea.__members__, which also holds
Unknown, Shram and Size:
  * axi1_port=Shram (or Unknown) is accepted; with a memory mode that puts everything on Axi0 (Sram_Only) the bogus
    port is then silently replaced by OnChipFlash and the compilation goes ahead;
  * axi1_port=Size is accepted by the check and then crashes with a raw IndexError (no ConfigOptionError)."""
import contextlib
import io
import os
import sys
import tempfile

sys.path.insert(0, os.getcwd())
from ethosu.vela.architecture_features import ArchitectureFeatures  # noqa: E402

MEM = "[Memory_Mode.Sram_Only]\nconst_mem_area=Axi0\narena_mem_area=Axi0\ncache_mem_area=Axi0\n"
bad = 0
for port in ("Shram", "Unknown", "Size", "Bogus"):
    path = os.path.join(tempfile.mkdtemp(), "c.ini")
    with open(path, "w") as f:
        f.write(f"[System_Config.S]\ncore_clock=5e8\naxi0_port=Sram\naxi1_port={port}\n" + MEM)
    try:
        with contextlib.redirect_stdout(io.StringIO()):
            a = ArchitectureFeatures([path], "ethos-u55-128", "S", "Sram_Only", 3, False, None)
        print(f"axi1_port={port}: ACCEPTED, axi1_port resolved to {a.axi1_port.name}")
        bad += 1
    except Exception as e:
        print(f"axi1_port={port}: {type(e).__name__}: {e}")
        bad += type(e).__name__ != "ConfigOptionError"
print("VIOLATION" if bad else "ok")
sys.exit(1 if bad else 0)

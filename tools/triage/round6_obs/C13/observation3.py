# OBSERVATION 3 (unmodified tree)
# RESIZE_NEAREST_NEIGHBOR with align_corners=True and an upscaling that the supported-operator check accepts
# ((OFM-1) = 2/4/8 x (IFM-1)) dies in tflite_graph_optimiser.convert_resizenn_ac_to_depthwise_conv with
# "ValueError: cannot reshape array of size 4 into shape (2,2,4,4)".
# ---- standalone mini TFLite builder + CLI runner (pasted verbatim into every demo / observation) ----
import importlib
import os
import shutil
import subprocess
import sys
import tempfile

import flatbuffers
import numpy as np

ROOT = os.getcwd()
sys.path.insert(0, ROOT)

from ethosu.vela.tflite import Buffer, Model, Operator, OperatorCode, QuantizationParameters, SubGraph, Tensor  # noqa: E402
from ethosu.vela.tflite.BuiltinOperator import BuiltinOperator as BO  # noqa: E402
from ethosu.vela.tflite.BuiltinOptions import BuiltinOptions  # noqa: E402
from ethosu.vela.tflite.TensorType import TensorType as TT  # noqa: E402

NPTT = {"float32": TT.FLOAT32, "int32": TT.INT32, "uint8": TT.UINT8, "int64": TT.INT64, "int16": TT.INT16, "int8": TT.INT8, "bool": TT.BOOL}


def _vec(b, vals, size, prepend):
    b.StartVector(size, len(vals), size)
    for v in reversed(list(vals)):
        prepend(v)
    return b.EndVector()


def tensor(name, shape, dtype, data=None, scale=None, zp=None, qdim=0, tt=None):
    """scale / zp: None = no such vector, number or list = vector contents ([] = present but empty)"""
    return dict(name=name, shape=list(shape), dtype=dtype, data=data, scale=scale, zp=zp, qdim=qdim, tt=tt)


def op(code, inputs, outputs, opts=None, fields=None, custom_code=None, custom_options=None):
    """opts: name of the options table (e.g. "AddOptions"), fields: {"FusedActivationFunction": 0, ...}"""
    return dict(code=code, inputs=inputs, outputs=outputs, opts=opts, fields=fields or {}, custom_code=custom_code, custom_options=custom_options)


def build_model(tensors, ops, inputs, outputs):
    b = flatbuffers.Builder(1024)
    buffers = [None]
    t_offs = []
    for t in tensors:
        bidx = 0
        if t["data"] is not None:
            raw = t["data"] if isinstance(t["data"], bytes) else np.asarray(t["data"], dtype=t["dtype"]).tobytes()
            buffers.append(raw)
            bidx = len(buffers) - 1
        name = b.CreateString(t["name"])
        shape = _vec(b, t["shape"], 4, b.PrependInt32)
        q = None
        if t["scale"] is not None or t["zp"] is not None:
            sc = _vec(b, [float(v) for v in np.atleast_1d(t["scale"])], 4, b.PrependFloat32) if t["scale"] is not None else None
            zp = _vec(b, [int(v) for v in np.atleast_1d(t["zp"])], 8, b.PrependInt64) if t["zp"] is not None else None
            QuantizationParameters.QuantizationParametersStart(b)
            if sc is not None:
                QuantizationParameters.QuantizationParametersAddScale(b, sc)
            if zp is not None:
                QuantizationParameters.QuantizationParametersAddZeroPoint(b, zp)
            QuantizationParameters.QuantizationParametersAddQuantizedDimension(b, t["qdim"])
            q = QuantizationParameters.QuantizationParametersEnd(b)
        Tensor.TensorStart(b)
        Tensor.TensorAddShape(b, shape)
        Tensor.TensorAddType(b, t["tt"] if t["tt"] is not None else NPTT[t["dtype"]])
        Tensor.TensorAddBuffer(b, bidx)
        Tensor.TensorAddName(b, name)
        if q is not None:
            Tensor.TensorAddQuantization(b, q)
        t_offs.append(Tensor.TensorEnd(b))
    tv = _vec(b, t_offs, 4, b.PrependUOffsetTRelative)
    codes = []
    o_offs = []
    for o in ops:
        key = (o["code"], o["custom_code"])
        if key not in codes:
            codes.append(key)
        iv = _vec(b, o["inputs"], 4, b.PrependInt32)
        ov = _vec(b, o["outputs"], 4, b.PrependInt32)
        bo = None
        if o["opts"] is not None:
            mod = importlib.import_module("ethosu.vela.tflite." + o["opts"])
            getattr(mod, o["opts"] + "Start")(b)
            for f, v in o["fields"].items():
                getattr(mod, o["opts"] + "Add" + f)(b, v)
            bo = getattr(mod, o["opts"] + "End")(b)
        co = b.CreateByteVector(bytes(o["custom_options"])) if o["custom_options"] is not None else None
        Operator.OperatorStart(b)
        Operator.OperatorAddOpcodeIndex(b, codes.index(key))
        Operator.OperatorAddInputs(b, iv)
        Operator.OperatorAddOutputs(b, ov)
        if bo is not None:
            Operator.OperatorAddBuiltinOptionsType(b, getattr(BuiltinOptions, o["opts"]))
            Operator.OperatorAddBuiltinOptions(b, bo)
        if co is not None:
            Operator.OperatorAddCustomOptions(b, co)
        o_offs.append(Operator.OperatorEnd(b))
    opv = _vec(b, o_offs, 4, b.PrependUOffsetTRelative)
    inv = _vec(b, inputs, 4, b.PrependInt32)
    outv = _vec(b, outputs, 4, b.PrependInt32)
    sgname = b.CreateString("main")
    SubGraph.SubGraphStart(b)
    SubGraph.SubGraphAddTensors(b, tv)
    SubGraph.SubGraphAddInputs(b, inv)
    SubGraph.SubGraphAddOutputs(b, outv)
    SubGraph.SubGraphAddOperators(b, opv)
    SubGraph.SubGraphAddName(b, sgname)
    sgv = _vec(b, [SubGraph.SubGraphEnd(b)], 4, b.PrependUOffsetTRelative)
    c_offs = []
    for code, custom in codes:
        cs = b.CreateString(custom) if custom is not None else None
        OperatorCode.OperatorCodeStart(b)
        OperatorCode.OperatorCodeAddDeprecatedBuiltinCode(b, min(code, 127))
        OperatorCode.OperatorCodeAddBuiltinCode(b, code)
        if cs is not None:
            OperatorCode.OperatorCodeAddCustomCode(b, cs)
        OperatorCode.OperatorCodeAddVersion(b, 1)
        c_offs.append(OperatorCode.OperatorCodeEnd(b))
    cv = _vec(b, c_offs, 4, b.PrependUOffsetTRelative)
    b_offs = []
    for raw in buffers:
        d = b.CreateByteVector(raw) if raw is not None else None
        Buffer.BufferStart(b)
        if d is not None:
            Buffer.BufferAddData(b, d)
        b_offs.append(Buffer.BufferEnd(b))
    bv = _vec(b, b_offs, 4, b.PrependUOffsetTRelative)
    desc = b.CreateString("C13 test model")
    Model.ModelStart(b)
    Model.ModelAddVersion(b, 3)
    Model.ModelAddOperatorCodes(b, cv)
    Model.ModelAddSubgraphs(b, sgv)
    Model.ModelAddDescription(b, desc)
    Model.ModelAddBuffers(b, bv)
    b.Finish(Model.ModelEnd(b), b"TFL3")
    return bytes(b.Output())


def run_cli(model_bytes, extra_args=(), timeout=300):
    """Runs the vela CLI (python -m ethosu.vela) on the model in a scratch directory.
    Returns (verdict, detail): verdict is "compiled", "rejected" (Vela error + non-zero status) or "VIOLATION"."""
    scratch = os.path.join(ROOT, "out", ".scratch")
    os.makedirs(scratch, exist_ok=True)
    d = tempfile.mkdtemp(prefix="c13_", dir=scratch)
    try:
        return _run_cli_in(d, model_bytes, extra_args, timeout)
    finally:
        shutil.rmtree(d, ignore_errors=True)


def _run_cli_in(d, model_bytes, extra_args, timeout):
    path = os.path.join(d, "model.tflite")
    with open(path, "wb") as f:
        f.write(model_bytes)
    env = dict(os.environ, PYTHONPATH=ROOT)
    cmd = [sys.executable, "-m", "ethosu.vela", path, "--output-dir", os.path.join(d, "out")] + list(extra_args)
    try:
        p = subprocess.run(cmd, cwd=ROOT, env=env, capture_output=True, text=True, timeout=timeout)
    except subprocess.TimeoutExpired:
        return "VIOLATION", "compiler did not terminate within %d s" % timeout
    out_file = os.path.join(d, "out", "model_vela.tflite")
    tb = "Traceback (most recent call last)" in p.stderr
    last = (p.stderr.strip().splitlines() or [""])[-1]
    if tb:
        where = [ln.strip() for ln in p.stderr.splitlines() if ln.strip().startswith("File")]
        return "VIOLATION", "internal exception: %s  [%s]" % (last, where[-1] if where else "")
    if p.returncode == 0:
        if os.path.isfile(out_file) and os.path.getsize(out_file) > 0:
            return "compiled", p.stdout
        return "VIOLATION", "status 0 but no output model was written"
    errs = [ln for ln in p.stdout.splitlines() if ln.startswith("Error")]
    if errs:
        return "rejected", errs[0]
    return "VIOLATION", "status %d without a Vela error message (%s)" % (p.returncode, last)


def cpu_npu_counts(stdout):
    import re

    c = re.search(r"CPU operators = (\d+)", stdout)
    n = re.search(r"NPU operators = (\d+)", stdout)
    return (int(c.group(1)) if c else None, int(n.group(1)) if n else None)
# ---- end of mini builder ----
Q = dict(scale=0.05, zp=-3)
S = [1, 8, 8, 4]
NOACT = {"FusedActivationFunction": 0}


def resize_model(code, opts, ihw, ohw, align):
    ts = [tensor("in", [1, ihw[0], ihw[1], 4], "int8", **Q), tensor("size", [2], "int32", data=list(ohw)),
          tensor("out", [1, ohw[0], ohw[1], 4], "int8", **Q)]
    return build_model(ts, [op(code, [0, 1], [2], opts, {"AlignCorners": align, "HalfPixelCenters": False})], [0], [2])


NN = (BO.RESIZE_NEAREST_NEIGHBOR, "ResizeNearestNeighborOptions")
CASES = [
    ("RESIZE_NEAREST_NEIGHBOR 4x4 -> 8x8 (control)", resize_model(*NN, (4, 4), (8, 8), False), ()),
    ("RESIZE_NEAREST_NEIGHBOR 3x3 -> 5x5 align_corners", resize_model(*NN, (3, 3), (5, 5), True), ()),
    ("RESIZE_NEAREST_NEIGHBOR 4x4 -> 7x7 align_corners", resize_model(*NN, (4, 4), (7, 7), True), ()),
    ("RESIZE_NEAREST_NEIGHBOR 3x3 -> 9x9 align_corners", resize_model(*NN, (3, 3), (9, 9), True), ()),
]


def main():
    seen = 0
    for name, model, args in CASES:
        verdict, detail = run_cli(model, args)
        print("%-70s -> %s" % (name + (" [" + " ".join(args) + "]" if args else ""), verdict))
        if verdict == "VIOLATION":
            seen += 1
            print("      " + detail)
    if seen:
        print("OBSERVED: %d case(s) on this tree neither compile nor are rejected with a Vela error" % seen)
        return 1
    print("not observed")
    return 0


if __name__ == "__main__":
    sys.exit(main())

"""Minimal in-memory TFLite flatbuffer builder on top of the generated schema classes (scratch helper)."""
import numpy as np
import flatbuffers

from ethosu.vela.tflite import Buffer, Model, Operator, OperatorCode, QuantizationParameters, SubGraph, Tensor
from ethosu.vela.tflite.BuiltinOperator import BuiltinOperator
from ethosu.vela.tflite.TensorType import TensorType
from ethosu.vela.tflite_mapping import builtin_operator_map

NP2TT = {
    np.dtype("float32"): TensorType.FLOAT32,
    np.dtype("float16"): TensorType.FLOAT16,
    np.dtype("int32"): TensorType.INT32,
    np.dtype("uint8"): TensorType.UINT8,
    np.dtype("int64"): TensorType.INT64,
    np.dtype("int16"): TensorType.INT16,
    np.dtype("int8"): TensorType.INT8,
    np.dtype("bool"): TensorType.BOOL,
    np.dtype("uint32"): TensorType.UINT32,
    np.dtype("uint16"): TensorType.UINT16,
}


class T:
    def __init__(self, name, shape, dtype, data=None, scale=None, zp=None, qdim=0, variable=False, minmax=None):
        self.name = name
        self.shape = shape
        self.dtype = np.dtype(dtype)
        self.data = None if data is None else np.asarray(data, dtype=self.dtype).reshape(shape if shape is not None else ())
        self.scale = scale
        self.zp = zp
        self.qdim = qdim
        self.variable = variable
        self.minmax = minmax
        self.tt = None  # explicit TensorType override


class O:
    def __init__(self, code, inputs, outputs, attrs=None, custom_code=None, version=1, intermediates=(), raw_options=True):
        self.code = code
        self.inputs = inputs
        self.outputs = outputs
        self.attrs = attrs
        self.custom_code = custom_code
        self.version = version
        self.intermediates = list(intermediates)


def _vec_i32(b, v):
    b.StartVector(4, len(v), 4)
    for e in reversed(v):
        b.PrependInt32(int(e))
    return b.EndVector()


def _vec_i64(b, v):
    b.StartVector(8, len(v), 8)
    for e in reversed(v):
        b.PrependInt64(int(e))
    return b.EndVector()


def _vec_f32(b, v):
    b.StartVector(4, len(v), 4)
    for e in reversed(v):
        b.PrependFloat32(float(e))
    return b.EndVector()


def _vec_off(b, v):
    b.StartVector(4, len(v), 4)
    for e in reversed(v):
        b.PrependUOffsetTRelative(e)
    return b.EndVector()


def _bytes(b, data):
    return b.CreateByteVector(data)


def build(subgraphs, description="built"):
    """subgraphs: list of (tensors: list[T], ops: list[O], inputs: list[int], outputs: list[int])"""
    b = flatbuffers.Builder(1024)
    buffers = [None]  # buffer 0 = empty
    codes = []
    sg_offs = []
    for si, (tensors, ops, inputs, outputs) in enumerate(subgraphs):
        t_offs = []
        for t in tensors:
            if t.data is not None:
                buffers.append(t.data.tobytes())
                bidx = len(buffers) - 1
            else:
                bidx = 0
            name = b.CreateString(t.name)
            shape = _vec_i32(b, t.shape) if t.shape is not None else None
            q = None
            if t.scale is not None or t.minmax is not None:
                sc = zp = mn = mx = None
                if t.scale is not None:
                    sc = _vec_f32(b, np.atleast_1d(t.scale))
                    zp = _vec_i64(b, np.atleast_1d(t.zp if t.zp is not None else 0))
                if t.minmax is not None:
                    mn = _vec_f32(b, [t.minmax[0]])
                    mx = _vec_f32(b, [t.minmax[1]])
                QuantizationParameters.QuantizationParametersStart(b)
                if sc is not None:
                    QuantizationParameters.QuantizationParametersAddScale(b, sc)
                    QuantizationParameters.QuantizationParametersAddZeroPoint(b, zp)
                if mn is not None:
                    QuantizationParameters.QuantizationParametersAddMin(b, mn)
                    QuantizationParameters.QuantizationParametersAddMax(b, mx)
                QuantizationParameters.QuantizationParametersAddQuantizedDimension(b, t.qdim)
                q = QuantizationParameters.QuantizationParametersEnd(b)
            Tensor.TensorStart(b)
            if shape is not None:
                Tensor.TensorAddShape(b, shape)
            Tensor.TensorAddType(b, t.tt if t.tt is not None else NP2TT[t.dtype])
            Tensor.TensorAddBuffer(b, bidx)
            Tensor.TensorAddName(b, name)
            if q is not None:
                Tensor.TensorAddQuantization(b, q)
            Tensor.TensorAddIsVariable(b, t.variable)
            t_offs.append(Tensor.TensorEnd(b))
        tv = _vec_off(b, t_offs)
        o_offs = []
        for o in ops:
            key = (o.code, o.custom_code, o.version)
            if key not in codes:
                codes.append(key)
            ci = codes.index(key)
            iv = _vec_i32(b, o.inputs)
            ov = _vec_i32(b, o.outputs)
            mv = _vec_i32(b, o.intermediates) if o.intermediates else None
            bo = co = None
            ser = builtin_operator_map[o.code][1]
            if ser is not None and o.attrs is not None:
                attrs = dict(o.attrs)
                for key in ("container", "shared_name"):
                    if key in attrs:
                        attrs[key] = b.CreateString(attrs[key])
                bo, co = ser.serialize(b, attrs)
            Operator.OperatorStart(b)
            Operator.OperatorAddOpcodeIndex(b, ci)
            Operator.OperatorAddInputs(b, iv)
            Operator.OperatorAddOutputs(b, ov)
            if mv is not None:
                Operator.OperatorAddIntermediates(b, mv)
            if bo is not None:
                Operator.OperatorAddBuiltinOptionsType(b, ser.builtin_opt_type)
                Operator.OperatorAddBuiltinOptions(b, bo)
            if co is not None:
                Operator.OperatorAddCustomOptions(b, co)
            o_offs.append(Operator.OperatorEnd(b))
        opv = _vec_off(b, o_offs)
        inv = _vec_i32(b, inputs)
        outv = _vec_i32(b, outputs)
        nm = b.CreateString("sg%d" % si)
        SubGraph.SubGraphStart(b)
        SubGraph.SubGraphAddTensors(b, tv)
        SubGraph.SubGraphAddInputs(b, inv)
        SubGraph.SubGraphAddOutputs(b, outv)
        SubGraph.SubGraphAddOperators(b, opv)
        SubGraph.SubGraphAddName(b, nm)
        sg_offs.append(SubGraph.SubGraphEnd(b))
    sgv = _vec_off(b, sg_offs)
    c_offs = []
    for code, custom, version in codes:
        cs = b.CreateString(custom) if custom is not None else None
        OperatorCode.OperatorCodeStart(b)
        OperatorCode.OperatorCodeAddDeprecatedBuiltinCode(b, min(code, 127))
        OperatorCode.OperatorCodeAddBuiltinCode(b, code)
        if cs is not None:
            OperatorCode.OperatorCodeAddCustomCode(b, cs)
        OperatorCode.OperatorCodeAddVersion(b, version)
        c_offs.append(OperatorCode.OperatorCodeEnd(b))
    cv = _vec_off(b, c_offs)
    b_offs = []
    for data in buffers:
        d = _bytes(b, data) if data is not None else None
        Buffer.BufferStart(b)
        if d is not None:
            Buffer.BufferAddData(b, d)
        b_offs.append(Buffer.BufferEnd(b))
    bv = _vec_off(b, b_offs)
    desc = b.CreateString(description)
    Model.ModelStart(b)
    Model.ModelAddVersion(b, 3)
    Model.ModelAddOperatorCodes(b, cv)
    Model.ModelAddSubgraphs(b, sgv)
    Model.ModelAddDescription(b, desc)
    Model.ModelAddBuffers(b, bv)
    m = Model.ModelEnd(b)
    b.Finish(m, b"TFL3")
    return bytes(b.Output())


def run_vela(buf, extra_args=(), name="m"):
    """Writes buf to a temp dir and runs vela main(); returns (status, output, traceback-or-None, outdir).
    Output is captured at file-descriptor level (stats_writer binds sys.stdout at import time)."""
    import os
    import sys
    import tempfile
    import traceback

    _scr = os.path.join(os.getcwd(), "out", ".scratch"); os.makedirs(_scr, exist_ok=True)
    d = tempfile.mkdtemp(prefix="c13_", dir=_scr)
    path = os.path.join(d, name + ".tflite")
    with open(path, "wb") as f:
        f.write(buf)
    logp = os.path.join(d, "log.txt")
    sys.stdout.flush()
    sys.stderr.flush()
    saved = os.dup(1), os.dup(2)
    logf = os.open(logp, os.O_WRONLY | os.O_CREAT | os.O_TRUNC)
    os.dup2(logf, 1)
    os.dup2(logf, 2)
    exc = None
    status = None
    try:
        from ethosu.vela import vela

        try:
            status = vela.main([path, "--output-dir", os.path.join(d, "out")] + list(extra_args))
        except SystemExit as e:
            status = ("SystemExit", e.code)
        except BaseException:  # noqa
            exc = traceback.format_exc()
    finally:
        sys.stdout.flush()
        sys.stderr.flush()
        os.dup2(saved[0], 1)
        os.dup2(saved[1], 2)
        os.close(saved[0])
        os.close(saved[1])
        os.close(logf)
    with open(logp) as f:
        out = f.read()
    return status, out, exc, os.path.join(d, "out")

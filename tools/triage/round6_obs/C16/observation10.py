# Observation 10 (unmodified tree): the two NXP rewrites that run with rewrite_unsupported=True re-evaluate only the
# supported-operator check, never the semantic check, and rewrite the graph before they know the placement:
#  (a) SPACE_TO_BATCH_ND -> CONV_2D -> BATCH_TO_SPACE_ND is always folded into one dilated CONV_2D (padding forced to
#      SAME, paddings/crops never compared: 'post_block = pre_op.inputs[1].values', 'assert (...).all' without call).
#      If the convolution cannot be accelerated (16-bit weights) the three CPU operators are still replaced by one new
#      CPU CONV_2D -> operators that violate a constraint do not 'stay on the CPU unchanged'.
#  (b) DEQUANTIZE -> EXP -> QUANTIZE on uint8 tensors: the merged EXP violates 'IFM must be int8 or int16', but only
#      is_operator_supported() is consulted -> AssertionError('Unsupported data type uint8 for Exp'), compilation aborts.
import os, sys
sys.path.insert(0, os.getcwd()); sys.path.insert(0, os.path.join(os.getcwd(), "out"))
from obs_common import *  # noqa

def dil(wdtype):
    x = fm("input", (1, 8, 8, 4), I8)
    s2b = fm("s2b", (4, 6, 6, 4), I8)
    op1 = mkop(Op.SpaceToBatchND, "s2b", [x, const("block", (2,), I32, [2, 2], quant=False), const("pads", (2, 2), I32, [[2, 2], [2, 2]], quant=False)], s2b, {})
    co = fm("conv_o", (4, 4, 4, 8), I8)
    w = const("w", (8, 3, 3, 4), wdtype, np.ones((8, 3, 3, 4)), scale=0.01); b = const("b", (8,), I32, np.zeros(8), scale=0.005)
    op2 = mkop(Op.Conv2DBias, "conv_o", [s2b, w, b], co, dict(padding=Padding.VALID, stride_w=1, stride_h=1, dilation_w_factor=1, dilation_h_factor=1, fused_activation_function=None))
    o = fm("ofm", (1, 8, 8, 8), I8)
    op3 = mkop(Op.BatchToSpaceND, "ofm", [co, const("block2", (2,), I32, [2, 2], quant=False), const("crops", (2, 2), I32, [[0, 0], [0, 0]], quant=False)], o, {})
    return [op1, op2, op3], [x], [o]
print("(a) int8 weights  ->", try_compile(dil(I8)))
print("(a) int16 weights ->", try_compile(dil(I16)), " (input graph: SPACE_TO_BATCH_ND, CONV_2D, BATCH_TO_SPACE_ND)")
def deq_exp_q(dt):
    x = fm("input", (1, 8, 8, 4), dt)
    f1 = Tensor([1, 8, 8, 4], DataType.float32, "deq"); f2 = Tensor([1, 8, 8, 4], DataType.float32, "exp")
    o = fm("ofm", (1, 8, 8, 4), dt)
    return [mkop(Op.Dequantize, "deq", [x], f1, {}), mkop(Op.Exp, "exp", [f1], f2, {}), mkop(Op.Quantize, "ofm", [f2], o, {})], [x], [o]
print("(b) int8  ->", try_compile(deq_exp_q(I8)))
print("(b) uint8 ->", try_compile(deq_exp_q(U8)))

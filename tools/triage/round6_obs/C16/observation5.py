# Observation 5 (unmodified tree): CONCATENATION with a fused activation function (RELU) satisfies all documented
# constraints ('The fused activation function (if present) must be one of type: ... RELU ...'), but the compilation
# aborts with AssertionError in pass_packing ('operator should have been placed on the CPU'): add_add_op_after_concat
# re-wires the concat output before rewrite_concat_ops/unfuse_activation_function run, and the ConcatTFLite operator
# survives with run_on_npu=True.
import os, sys
sys.path.insert(0, os.getcwd()); sys.path.insert(0, os.path.join(os.getcwd(), "out"))
from obs_common import *  # noqa

print("CONCATENATION, no fused activation ->", try_compile(concat()))
print("CONCATENATION, fused RELU          ->", try_compile(concat(faf=Op.Relu)))

# Observation 9 (unmodified tree): for CONCATENATION op.ifm / op.ifm2 are inputs[1] / inputs[2] (NNG_CONCAT_INDICES),
# so the generic tensor constraints (data type, dimension range, per-axis quantisation, 'IFM Tensor batch size must be
# 1') never look at the first input. A concatenation along axis 0 whose FIRST input has batch 2 is accelerated, the same
# network with the inputs swapped stays on the CPU.
import os, sys
sys.path.insert(0, os.getcwd()); sys.path.insert(0, os.path.join(os.getcwd(), "out"))
from obs_common import *  # noqa

print("in0 batch 2, in1 batch 1 ->", try_compile(concat(shapes=((2, 8, 8, 4), (1, 8, 8, 4)), axis=0, so=(3, 8, 8, 4))))
print("in0 batch 1, in1 batch 2 ->", try_compile(concat(shapes=((1, 8, 8, 4), (2, 8, 8, 4)), axis=0, so=(3, 8, 8, 4))))

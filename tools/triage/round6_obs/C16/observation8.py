# Observation 8 (unmodified tree): fixup_pool_strides() runs before the supported-operator check and has no placement
# test. (a) MAX_POOL_2D with kernel == stride == IFM size (7x7, stride 7) violates the documented 'Stride values for
# both width and height must be in the range [1, 3]' but is accelerated (the report does not mention the exception);
# (b) if such a pooling operator is then rejected for another reason (batch 2 / int32) it stays on the CPU with its
# strides rewritten to 1x1 and its padding to VALID, i.e. not unchanged.
import os, sys
sys.path.insert(0, os.getcwd()); sys.path.insert(0, os.path.join(os.getcwd(), "out"))
from obs_common import *  # noqa

from ethosu.vela.tflite import Pool2DOptions
def pool_opts(data):
    m = Model.Model.GetRootAsModel(bytearray(data), 0); sg = m.Subgraphs(0); r = []
    for i in range(sg.OperatorsLength()):
        o = sg.Operators(i); t = o.BuiltinOptions()
        if t is None: continue
        p = Pool2DOptions.Pool2DOptions(); p.Init(t.Bytes, t.Pos)
        r.append(dict(stride_w=p.StrideW(), stride_h=p.StrideH(), padding=p.Padding()))
    return r
print("(a) MAX_POOL_2D 7x7/7 on 1x7x7x4 ->", try_compile(pool(Op.MaxPool, ifm_shape=(1, 7, 7, 4), k=(7, 7), stride=(7, 7), pad=Padding.VALID)))
case = pool(Op.MaxPool, ifm_shape=(2, 7, 7, 4), k=(7, 7), stride=(7, 7), pad=Padding.SAME)
buf = build(*case)
sys.stdout.flush(); saved = os.dup(1); dn = os.open(os.devnull, os.O_WRONLY); os.dup2(dn, 1)
try:
    res, _ = compile_(buf, quiet=False)
finally:
    sys.stdout.flush(); os.dup2(saved, 1)
print("(b) batch 2 (CPU): options before", pool_opts(buf), "after", pool_opts(res), "ops", ops_with_outputs(res))

# Observation 12 (unmodified tree): PRELU only has the generic constraints (neither 'At least one Input's shape must match
# the OFM's shape' nor 'Broadcasting is only allowed for rank indices with dimension 1, from either IFM1 or IFM2').
# A PRELU whose input AND alpha both broadcast (input [1,8,1,4], alpha [1,8,4] -> output [1,8,8,4]; valid TFLite)
# therefore satisfies every listed constraint, is lowered to MUL/MAX/... operators that cannot do this broadcast and the
# compilation aborts with AssertionError in register_command_stream_generator.generate_ifm2_broadcast.
import os, sys
sys.path.insert(0, os.getcwd()); sys.path.insert(0, os.path.join(os.getcwd(), "out"))
from obs_common import *  # noqa


def prelu(s1, s2):
    a = fm("a", s1, I8)
    n = int(np.prod(s2))
    b = const("alpha", s2, I8, (np.arange(n) % 5) - 2, scale=0.1)
    o = fm("ofm", tuple(np.broadcast_shapes(tuple(s1), tuple(s2))), I8)
    return [mkop(Op.Prelu, "prelu", [a, b], o, {})], [a], [o]


print("input [1,8,8,4], alpha [8,1,4] ->", try_compile(prelu((1, 8, 8, 4), (8, 1, 4))))
print("input [1,8,1,4], alpha [1,8,4] ->", try_compile(prelu((1, 8, 1, 4), (1, 8, 4))))

# Observation 3 (unmodified tree): RESIZE_BILINEAR / RESIZE_NEAREST_NEIGHBOR with align_corners=True and an IFM of
# height 1 (width > 1) violate 'The width and height of the IFM and OFM must match one of the following criteria' and
# should just stay on the CPU. constraint_resize() computes (ofm_h - 1) / (ifm_h - 1) = x / 0 -> NaN / inf and then
# int(h_upscale_factor) raises -> the whole compilation aborts.
import os, sys
sys.path.insert(0, os.getcwd()); sys.path.insert(0, os.path.join(os.getcwd(), "out"))
from obs_common import *  # noqa

for kind in (Op.ResizeBilinear, Op.ResizeNearestNeighbor):
    print(kind.name, "1x1x4xC -> 1x1x8xC align_corners ->", try_compile(resize(kind, s=(1, 1, 4, 4), ohw=(1, 8), ac=True)))
    print(kind.name, "1x1x4xC -> 1x2x8xC align_corners ->", try_compile(resize(kind, s=(1, 1, 4, 4), ohw=(2, 8), ac=True)))
    print(kind.name, "same without align_corners        ->", try_compile(resize(kind, s=(1, 1, 4, 4), ohw=(2, 8), ac=False)))
